package main

import (
	"fmt"
	"go/types"
	"strings"

	"golang.org/x/tools/go/ssa"
)

func init() {
	register(&propDef{
		ID:       "C12",
		Explain:  "Decided (structural necessary condition of panic freedom): every panic-capable instruction in every module function reachable from the remote-input entry points (cache ingest and lifecycle entry points, Server.Subscribe/Update, manager.handleGNMIUpdate, the gnmi client's Recv path, CacheClient.defaultHandler, the CLI display path, path.ToStrings/CompletePath, value.ToScalar/Equal) — slice/string index and constant slicing, non-comma-ok type assertion, dereference of a pointer that may be nil by provenance (singular proto message field, getter result, map lookup, result of a function that can return nil), store into a possibly nil map, integer division, explicit panic — is on every path preceded by a branch decision (or a store / constructor fact) that makes it safe, or its precondition is established at every call site (propagated to a fixpoint), or is safe by construction. Also: a rejected update never writes the tree, and an error on one update of a multi-update notification does not skip the rest. Also decided: a possibly-nil pointer (map lookup, may-nil call result, singular message field) is never handed to a callee that dereferences the parameter, unless a nil test or a comma-ok test on a map whose stored values are provably non-nil guards it, or the key was enumerated from the same map. Round-4 additions: calls through function-typed fields that the module itself treats as possibly nil need a non-nil fact; manager.Reconnect and the collector's Reconnect RPC handler are entry points. Round-5 addition: a nil result returned through the result cell of a function with a defer, and a pointer kept in a local that a closure captures, count as possibly nil at their dereferences.",
		NotCover: "panics inside third-party code (protobuf, grpc, ygot, txtpbfmt); resource exhaustion; panics that need a data race; non-constant slice bounds; typed-nil interfaces; nil receivers of hand-written methods",
		Run:      runC12,
	})
}

func c12Entries(c *Ctx) []*ssa.Function {
	P := c.P
	var out []*ssa.Function
	add := func(f *ssa.Function, name string) {
		if f == nil {
			c.Unresolved("C12.entries", name)
			return
		}
		out = append(out, f)
	}
	for _, m := range []string{"GnmiUpdate", "Reset", "Remove", "Sync", "Connect", "ConnectError", "UpdateMetadata", "UpdateSize", "Query"} {
		add(P.Method("cache", "Cache", m), "cache.(*Cache)."+m)
	}
	add(P.Method("cache", "Target", "GnmiUpdate"), "cache.(*Target).GnmiUpdate")
	add(P.Method("subscribe", "Server", "Subscribe"), "subscribe.(*Server).Subscribe")
	add(P.Method("subscribe", "Server", "Update"), "subscribe.(*Server).Update")
	add(P.Method("manager", "Manager", "handleGNMIUpdate"), "manager.(*Manager).handleGNMIUpdate")
	// the collector's Reconnect RPC: a remote request naming targets (possibly twice, possibly unknown)
	add(P.Method("manager", "Manager", "Reconnect"), "manager.(*Manager).Reconnect")
	add(P.Method("collector", "Server", "Reconnect"), "collector.(*Server).Reconnect")
	add(P.Method("client/gnmi", "Client", "Recv"), "client/gnmi.(*Client).Recv")
	add(P.Method("client/gnmi", "Client", "defaultRecv"), "client/gnmi.(*Client).defaultRecv")
	add(P.Method("client", "CacheClient", "defaultHandler"), "client.(*CacheClient).defaultHandler")
	add(P.Method("client", "CacheClient", "Leaves"), "client.(*CacheClient).Leaves")
	add(P.Func("cli", "genHandler"), "cli.genHandler")
	add(P.Func("cli", "displayWalk"), "cli.displayWalk")
	add(P.Func("cli", "displayStreamingResults"), "cli.displayStreamingResults")
	add(P.Func("cli", "displayProtoResults"), "cli.displayProtoResults")
	add(P.Func("cli", "valStr"), "cli.valStr")
	add(P.Method("cli", "pathmap", "add"), "cli.pathmap.add")
	add(P.Method("cli", "pathmap", "str"), "cli.pathmap.str")
	add(P.Func("path", "ToStrings"), "path.ToStrings")
	add(P.Func("path", "CompletePath"), "path.CompletePath")
	add(P.Func("value", "ToScalar"), "value.ToScalar")
	add(P.Func("value", "Equal"), "value.Equal")
	return out
}

func runC12(c *Ctx) {
	c.Rule("C12.sites", "every panic-capable instruction reachable from a remote-input entry point is guarded on every path (length / non-nil / dynamic type / index-bound fact from a dominating decision, a store or a constructor), safe by construction, or covered by a precondition established at every call site")
	c.Rule("C12.tree-invariant", "notifications stored in a target tree always carry at least one update: the only tree writers in package cache are Tree.Add / Leaf.Update inside gnmiUpdate with its own notification parameter, whose precondition len(n.Update) > 0 holds at every call site")
	c.Rule("C12.reject-intact", "gnmiUpdate: a path returning an error performs no tree write (shared with C02.reject-pure); multi-update arm of Target.GnmiUpdate: an error on one update continues with the remaining updates and the deletes")
	entries := c12Entries(c)
	if len(c.Unres) > 0 {
		return
	}
	// client-side session plumbing handles local configuration, not remote messages: it is entered
	// only through the listed entry points (handlers, decode path, display)
	stop := func(f *ssa.Function) bool {
		pp := pkgPathOf(f)
		if pp == modPath+"/client" {
			n := fnName(f)
			for _, ok := range []string{"defaultHandler", "Leaves", "(client.Leaves)", "client.Path", "(client.Path)"} {
				if strings.Contains(n, ok) {
					return false
				}
			}
			return true
		}
		if pp == modPath+"/client/gnmi" {
			n := f.Name()
			return n == "Peer" || n == "New" || n == "NewFromConn" || n == "Subscribe" || n == "subscribe" || n == "Poll" || n == "Close"
		}
		return false
	}
	pa := NewPanicAudit(c, entries, stop)
	pa.Run()
	total, bad := pa.Report("C12.sites")
	c.Sites += total
	c.Floor("C12.sites/audited-sites", total, 60)
	c.Floor("C12.sites/reachable-functions", len(pa.Fns), 80)
	c.Check(pa.treeInv, "C12.tree-invariant", "cache", "stored notifications have >= 1 update", "", fmt.Sprintf("used to discharge %d sites", len(treeInvUsers)))
	c.Note("%d functions reachable from %d entry points; %d panic-capable sites, %d unguarded", len(pa.Fns), len(entries), total, bad)
	for _, n := range pa.Notes {
		c.Note("%s", n)
	}
	c.Assumption("elements of repeated message fields and the payload of a set oneof wrapper are non-nil (wire format)")
	c.Assumption("hand-written methods are not called on nil receivers; parameters that are not themselves loaded from a message are non-nil")
	// ---- maps written on behalf of concurrent RPCs: an unsynchronised Go map access is a fatal error
	// ("concurrent map writes") that no recover can stop - it takes the whole process down
	c.Rule("C12.shared-maps", "the server-side statistics maps (subscribe.stats.types / targets / clients), which every concurrent Subscribe RPC reads and writes when statistics are enabled, are accessed only with stats.mu held: an unsynchronised map access is a fatal runtime error that crashes the process whatever the message was")
	{
		fMu := c.P.Field("subscribe", "stats", "mu")
		g := map[*types.Var]*types.Var{}
		for _, n := range []string{"types", "targets", "clients"} {
			if f := c.P.Field("subscribe", "stats", n); f != nil && fMu != nil {
				g[f] = fMu
			} else {
				c.Unresolved("C12.shared-maps", "subscribe.stats."+n+" / stats.mu")
			}
		}
		if len(g) == 3 {
			la := NewLockAudit(c, "subscribe", g, 2)
			la.Report(func(kind string) string { return "C12.shared-maps" })
			c.Check(la.Accesses >= 9, "C12.shared-maps", "subscribe", "guarded accesses analysed", "", fmt.Sprintf("%d accesses of the statistics maps, %d directly under stats.mu", la.Accesses, la.Guarded))
		}
	}
	// ---- reject intact
	a := resolveCache(c, "C12.reject-intact")
	if a.ok {
		e := runGnmiUpdate(c, a, scenario{name: "any"}, 2)
		bad := 0
		n := 0
		for i := range e.Paths {
			p := &e.Paths[i]
			if p.End != "return" || len(p.Rets) != 2 {
				continue
			}
			ec := retClass(p.Rets[1])
			if ec == "nil" {
				continue
			}
			n++
			if p.Has(isLeafUpdate) || (p.Has(isTreeAdd) && ec != "call:(*ctree.Tree).Add") {
				bad++
			}
		}
		c.Check(bad == 0 && n > 0, "C12.reject-intact", fnName(a.gnmiUpdate), "rejected update leaves the tree untouched", c.P.Pos(a.gnmiUpdate.Pos()), fmt.Sprintf("%d rejecting paths, %d of them write", n, bad))
		// multi arm continues after an error: the error edge of the update loop leads back to the loop, not to a return
		GU := a.GnmiUpdate
		okCont := false
		for _, uf := range unitFns(c.P, GU, a.gnmiUpdate, a.gnmiRemove) {
			for _, b := range uf.Blocks {
				for _, in := range b.Instrs {
					call, ok := in.(*ssa.Call)
					if !ok || calleeName(&call.Call) != "(*errlist.List).Add" {
						continue
					}
					// after errs.Add the block jumps back into a loop (no return reachable without passing the loop header)
					if len(b.Succs) == 1 && inLoopWithout(b, nil) {
						okCont = true
					}
				}
			}
		}
		c.Check(okCont, "C12.reject-intact", fnName(GU), "an error on one update of a multi-update notification does not skip the rest", c.P.Pos(GU.Pos()), "errs.Add(err) is followed by a jump back into the update loop")
	}
}
