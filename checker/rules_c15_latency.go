package main

// C15 — latency statistics: the bookkeeping that makes "exported statistics are bounded by the
// smallest and largest latency observed in the window" true is a set of small decision tables and
// who-carries-what facts, all visible in the shape of package latency:
//
//   Compute   keeps the batch extrema with comparisons only (max' = max(lat,max); min' = lat when no
//             sample yet or lat < min), counts by one and accumulates lat/scale;
//   update    seals the batch into one slot (total,count,max,min,start,end read BEFORE the
//             accumulators are cleared), hands the slot to every window, clears all four accumulators;
//   window    add accumulates total and count of the same slot and retains it; slide retires total
//             and count of exactly the aged slots and drops as many slots as it retired;
//   export    max/min are *selected* among the slots' own max/min fields (no arithmetic), the average
//             is total/count, guarded by count != 0, scaled by the factor New derived from the
//             same precision it divides samples by.
//
// Breaking any of them lets a value from outside the window (or a mismatched total/count pair) into
// an exported statistic.  Values are touched only through comparisons and +,-,/ of named fields, so
// the tables are replayed over order atoms; nothing is executed.

import (
	"fmt"
	"go/token"
	"go/types"
	"sort"
	"strings"

	"golang.org/x/tools/go/ssa"
)

// latShape prints a resolved value as an expression over named fields: F:<Type.field>, constants,
// LAT (result of the configured compute function), NOW (result of the Now hook).
func latShape(e *PPA, st *State, rv RV, d int) string {
	if d > 10 {
		return "?"
	}
	r := e.Resolve(st, rv)
	switch v := r.V.(type) {
	case *ssa.Const:
		if k, ok := constInt(v); ok {
			return fmt.Sprintf("k%d", k)
		}
		if v.Value == nil {
			return "zero"
		}
		return "const"
	case *ssa.UnOp:
		if v.Op == token.MUL {
			if fa, ok := e.resolveAddr(st, RV{r.F, v.X}).V.(*ssa.FieldAddr); ok {
				return "F:" + qualField(fa)
			}
			if g, ok := v.X.(*ssa.Global); ok {
				return "G:" + g.Name()
			}
			return "*" + latShape(e, st, RV{r.F, v.X}, d+1)
		}
		return "(" + v.Op.String() + " " + latShape(e, st, RV{r.F, v.X}, d+1) + ")"
	case *ssa.BinOp:
		x, y := latShape(e, st, RV{r.F, v.X}, d+1), latShape(e, st, RV{r.F, v.Y}, d+1)
		if (v.Op == token.ADD || v.Op == token.MUL) && y < x {
			x, y = y, x
		}
		return "(" + v.Op.String() + " " + x + " " + y + ")"
	case *ssa.Convert:
		return latShape(e, st, RV{r.F, v.X}, d+1)
	case *ssa.ChangeType:
		return latShape(e, st, RV{r.F, v.X}, d+1)
	case *ssa.Alloc:
		return "new:" + normType(types.TypeString(deref(v.Type()), shortQ))
	case *ssa.Call:
		if b, ok := v.Call.Value.(*ssa.Builtin); ok && (b.Name() == "max" || b.Name() == "min") && len(v.Call.Args) == 2 {
			x, y := latShape(e, st, RV{r.F, v.Call.Args[0]}, d+1), latShape(e, st, RV{r.F, v.Call.Args[1]}, d+1)
			if y < x {
				x, y = y, x
			}
			return "(" + b.Name() + " " + x + " " + y + ")"
		}
		if ac, ok := isAppend(v); ok && len(ac.Call.Args) == 2 {
			return "(append " + latShape(e, st, RV{r.F, ac.Call.Args[0]}, d+1) + " " + latShape(e, st, RV{r.F, ac.Call.Args[1]}, d+1) + ")"
		}
		if g := staticCallee(&v.Call); g != nil {
			switch calleeName(&v.Call) {
			case "(time.Duration).Nanoseconds":
				return latShape(e, st, RV{r.F, v.Call.Args[0]}, d+1)
			}
			return "call:" + calleeName(&v.Call)
		}
		fv := e.Resolve(st, RV{r.F, v.Call.Value})
		if u, ok := fv.V.(*ssa.UnOp); ok && u.Op == token.MUL {
			if fa, ok := u.X.(*ssa.FieldAddr); ok && vname(fieldOf(fa)) == "compute" {
				return "LAT"
			}
			if g, ok := u.X.(*ssa.Global); ok && g.Name() == "Now" {
				return "NOW"
			}
		}
		return "dyn"
	case *ssa.Slice:
		lo := "k0"
		if v.Low != nil {
			if k, ok := e.intVal(st, e.Resolve(st, RV{r.F, v.Low}), 0); ok {
				lo = fmt.Sprintf("k%d", k)
			} else {
				lo = latShape(e, st, RV{r.F, v.Low}, d+1)
			}
		}
		// a slice literal []T{x}
		if al, ok := v.X.(*ssa.Alloc); ok {
			if _, isArr := deref(al.Type()).Underlying().(*types.Array); isArr {
				if els, ok := e.sliceLitElems(st, r); ok {
					s := []string{}
					for _, el := range els {
						s = append(s, latShape(e, st, el, d+1))
					}
					return "[" + strings.Join(s, ",") + "]"
				}
			}
		}
		return "(slice " + latShape(e, st, RV{r.F, v.X}, d+1) + " " + lo + ")"
	case *ssa.Parameter:
		return "p:" + v.Name()
	case *ssa.Phi:
		return "phi"
	}
	return "?"
}

func runLatencyStats(c *Ctx) {
	P := c.P
	c.Rule("C15.lat-extrema", "latency.(*Latency).Compute replayed over the orderings of the new sample against the batch maximum and minimum and over 'no sample yet' (min == 0): afterwards max holds the larger of the two and min the smaller (the sample itself when it is the first); the sample count grows by exactly one and the running total by sample/scale - on every path")
	c.Rule("C15.lat-slot", "latency.(*Latency).update with a non-empty batch: one slot is built whose total/count/max/min/start are the accumulators as they were BEFORE they are cleared and whose end is this update's time, it is handed to every configured window (replayed with two windows), all four accumulators are stored zero afterwards, and every window exports with the same time; with an empty batch no slot is handed out; the batch start becomes this update's time on every path")
	c.Rule("C15.lat-window", "latency.(*window).add accumulates total and count from the same slot and retains that slot, or does nothing for a nil/empty slot; latency.(*window).slide (replayed with two slots, aged/aged, aged/fresh, fresh/fresh) retires count and total of exactly the aged slots and drops as many leading slots as it retired")
	c.Rule("C15.lat-export", "the exported maximum / minimum are selected among the slots' own max / min fields (data slice of the SetInt argument: loads of slot.max resp. slot.min, constants, no arithmetic); the exported average is (total / count) * scale, computed only when count != 0; New hands the same scale to the sample accumulator and to every window")

	fld := func(t, n string) *types.Var {
		f := P.Field("latency", t, n)
		if f == nil {
			c.Unresolved("C15.lat-extrema", "latency."+t+"."+n)
		}
		return f
	}
	fMax, fMin, fCount, fTotal, fStart := fld("Latency", "max"), fld("Latency", "min"), fld("Latency", "count"), fld("Latency", "totalDiff"), fld("Latency", "start")
	fWindows, fScale := fld("Latency", "windows"), fld("Latency", "scaleFactor")
	fWSlots, fWCount, fWTotal, fWSf := fld("window", "slots"), fld("window", "count"), fld("window", "total"), fld("window", "sf")
	fSCount := fld("slot", "count")
	Compute := P.Method("latency", "Latency", "Compute")
	update := P.Method("latency", "Latency", "update")
	wadd := P.Method("latency", "window", "add")
	slide := P.Method("latency", "window", "slide")
	if Compute == nil || update == nil || wadd == nil || slide == nil {
		c.Unresolved("C15.lat-extrema", "latency Compute/update/window.add/window.slide")
		return
	}
	for _, f := range []*types.Var{fMax, fMin, fCount, fTotal, fStart, fWindows, fScale, fWSlots, fWCount, fWTotal, fWSf, fSCount} {
		if f == nil {
			return
		}
	}
	isLat := func(e *PPA, st *State, rv RV) bool { return latShape(e, st, rv, 0) == "LAT" }
	// setProbe records "set:<field>=<shape>" for every store into a field of the latency structs.
	setProbe := func(e *PPA, st *State, fr *Frame, in ssa.Instruction) {
		s, ok := in.(*ssa.Store)
		if !ok {
			return
		}
		fa, ok := e.resolveAddr(st, RV{fr, s.Addr}).V.(*ssa.FieldAddr)
		if !ok {
			return
		}
		q := qualField(fa)
		if !strings.HasPrefix(q, "latency.") {
			return
		}
		// a whole helper struct stored at once (l.cur = batch{}): every field of it is written
		if gv := fieldOf(fa); gv != nil && groupField[gv] {
			if gst, ok := gv.Type().Underlying().(*types.Struct); ok {
				zero := false
				if k, isK := e.Resolve(st, RV{fr, s.Val}).V.(*ssa.Const); isK && k.Value == nil {
					zero = true
				}
				for i := 0; i < gst.NumFields(); i++ {
					fv := gst.Field(i)
					own, ok := promotedOwner[fv]
					if !ok {
						own = normType(types.TypeString(gv.Type(), shortQ))
					}
					val := "?"
					if zero {
						val = "zero"
						if b, isB := fv.Type().Underlying().(*types.Basic); isB && b.Info()&types.IsNumeric != 0 {
							val = "k0"
						}
					}
					e.emit(st, Ev{Label: "fact", In: in, F: fr, Note: "set:" + own + "." + vname(fv) + "=" + val})
				}
				return
			}
		}
		e.emit(st, Ev{Label: "fact", In: in, F: fr, Note: "set:" + q + "=" + latShape(e, st, RV{fr, s.Val}, 0)})
	}
	factsOf := func(p *Path, field string) []string {
		out := []string{}
		for i := range p.Trace {
			ev := &p.Trace[i]
			if ev.Label == "fact" && strings.HasPrefix(ev.Note, "set:"+field+"=") {
				out = append(out, strings.TrimPrefix(ev.Note, "set:"+field+"="))
			}
		}
		return out
	}
	isFact := func(ev *Ev) bool { return ev.Label == "fact" }

	// ---------------------------------------------------------------- Compute
	{
		c.Analysed(fnName(Compute))
		class := func(e *PPA, st *State, rv RV) string {
			r := e.Resolve(st, rv)
			if isLat(e, st, r) {
				return "LAT"
			}
			switch {
			case loadOfField(r.V, fMax):
				return "MAX"
			case loadOfField(r.V, fMin):
				return "MIN"
			}
			return ""
		}
		n := 0
		for _, rmax := range []int{-1, 0, 1} {
			for _, rmin := range []int{-1, 0, 1} {
				for _, first := range []bool{false, true} {
					at := &Atoms{Class: class, Rel: map[[2]string]int{{"LAT", "MAX"}: rmax, {"LAT", "MIN"}: rmin}, Int: map[string]int64{}}
					e := &PPA{Probe: setProbe, Watch: isFact, Cond: func(e *PPA, st *State, rv RV) (bool, bool) {
						// "no sample yet": the batch minimum compared with the constant 0
						if b, ok := rv.V.(*ssa.BinOp); ok && (b.Op == token.EQL || b.Op == token.NEQ) {
							x, y := e.Resolve(st, RV{rv.F, b.X}), e.Resolve(st, RV{rv.F, b.Y})
							for _, pr := range [][2]RV{{x, y}, {y, x}} {
								if k, ok := constInt(pr[1].V); ok && k == 0 && class(e, st, pr[0]) == "MIN" {
									return first == (b.Op == token.EQL), true
								}
							}
						}
						return at.Cond(e, st, rv)
					}}
					e.Run(Compute)
					c.Paths += len(e.Paths)
					c.Scen++
					sc := fmt.Sprintf("sample %s max, %s min, first=%v", relWord(rmax), relWord(rmin), first)
					for i := range e.Paths {
						p := &e.Paths[i]
						if p.End != "return" {
							continue
						}
						n++
						last := func(field string) string {
							fs := factsOf(p, field)
							if len(fs) == 0 {
								return "unchanged"
							}
							return fs[len(fs)-1]
						}
						gotMax, gotMin := last("latency.Latency.max"), last("latency.Latency.min")
						// the built-in max / min of the accumulator and the sample: evaluated under this ordering
						sel := func(got, builtin, field string, rel int) string {
							if got != "("+builtin+" F:"+field+" LAT)" {
								return got
							}
							pickLat := rel > 0
							if builtin == "min" {
								pickLat = rel < 0
							}
							switch {
							case rel == 0:
								return "unchanged"
							case pickLat:
								return "LAT"
							}
							return "unchanged"
						}
						gotMax = sel(sel(gotMax, "max", "latency.Latency.max", rmax), "min", "latency.Latency.max", rmax)
						gotMin = sel(sel(gotMin, "min", "latency.Latency.min", rmin), "max", "latency.Latency.min", rmin)
						okMax := false
						switch {
						case rmax > 0:
							okMax = gotMax == "LAT"
						case rmax == 0:
							okMax = gotMax == "LAT" || gotMax == "unchanged" || gotMax == "F:latency.Latency.max"
						default:
							okMax = gotMax == "unchanged" || gotMax == "F:latency.Latency.max"
						}
						c.Check(okMax, "C15.lat-extrema", fnName(Compute), "batch maximum: "+sc, P.Pos(Compute.Pos()), "max becomes "+gotMax)
						okMin := false
						switch {
						case first || rmin < 0:
							okMin = gotMin == "LAT"
						case rmin == 0:
							okMin = gotMin == "LAT" || gotMin == "unchanged" || gotMin == "F:latency.Latency.min"
						default:
							okMin = gotMin == "unchanged" || gotMin == "F:latency.Latency.min"
						}
						c.Check(okMin, "C15.lat-extrema", fnName(Compute), "batch minimum: "+sc, P.Pos(Compute.Pos()), "min becomes "+gotMin)
						cs := factsOf(p, "latency.Latency.count")
						c.Check(len(cs) == 1 && cs[0] == "(+ F:latency.Latency.count k1)", "C15.lat-extrema", fnName(Compute), "sample count grows by exactly one", P.Pos(Compute.Pos()), fmt.Sprint(cs))
						ts := factsOf(p, "latency.Latency.totalDiff")
						c.Check(len(ts) == 1 && ts[0] == "(+ (/ LAT F:latency.Latency.scaleFactor) F:latency.Latency.totalDiff)", "C15.lat-extrema", fnName(Compute), "running total grows by sample/scale", P.Pos(Compute.Pos()), fmt.Sprint(ts))
					}
				}
			}
		}
		c.Floor("C15.lat-extrema/paths", n, 18)
	}

	// ---------------------------------------------------------------- update
	{
		c.Analysed(fnName(update))
		// an export is any call - by name or through a function value chosen by the caller - that is handed the
		// Metadata sink of update
		var metaP ssa.Value
		for _, pp := range update.Params {
			if nt, ok := pp.Type().(*types.Named); ok && nt.Obj().Name() == "Metadata" {
				metaP = pp
			}
		}
		isExport := func(ev *Ev) bool {
			if !strings.HasPrefix(ev.Label, "call:") || ev.Label == "call:(*latency.window).add" || metaP == nil {
				return false
			}
			for _, a := range ev.Args {
				if a.V == metaP {
					return true
				}
			}
			return false
		}
		watch := func(ev *Ev) bool {
			return ev.Label == "fact" || ev.Label == "call:(*latency.window).add" || isExport(ev) || strings.HasPrefix(ev.Label, "load:latency.Latency.")
		}
		n := 0
		for _, empty := range []bool{false, true} {
			cnt := int64(3)
			if empty {
				cnt = 0
			}
			at := &Atoms{Class: func(e *PPA, st *State, rv RV) string {
				if loadOfField(e.Resolve(st, rv).V, fCount) {
					return "CNT"
				}
				return ""
			}, Int: map[string]int64{"CNT": cnt}}
			e := &PPA{Probe: setProbe, Watch: watch, Cond: at.Cond, TraceLoads: true, MaxVisits: 4,
				IntHook: func(e *PPA, st *State, rv RV) (int64, bool) {
					if call, ok := rv.V.(*ssa.Call); ok {
						if la, ok := lenArg(call); ok && loadOfField(e.Resolve(st, RV{rv.F, la}).V, fWindows) {
							return 2, true
						}
					}
					return 0, false
				}}
			e.Run(update)
			c.Paths += len(e.Paths)
			c.Scen++
			for i := range e.Paths {
				p := &e.Paths[i]
				if p.End != "return" {
					continue
				}
				n++
				adds := p.Count(lbl("call:(*latency.window).add"))
				exports := p.Count(isExport)
				starts := factsOf(p, "latency.Latency.start")
				c.Check(len(starts) >= 1 && starts[len(starts)-1] == "NOW", "C15.lat-slot", fnName(update), "batch start becomes this update's time", P.Pos(update.Pos()), fmt.Sprint(starts))
				c.Check(exports == 2, "C15.lat-slot", fnName(update), "every window exports (two windows)", P.Pos(update.Pos()), fmt.Sprintf("%d exports", exports))
				// every export gets the update's own time
				for j := range p.Trace {
					ev := &p.Trace[j]
					if isExport(ev) {
						st := newState()
						now := false
						for _, a := range ev.Args {
							if latShape(e, st, a, 0) == "NOW" {
								now = true
							}
						}
						c.Check(now, "C15.lat-slot", fnName(update), "windows export with this update's time", P.Pos(update.Pos()), ev.Label)
					}
				}
				if empty {
					c.Check(adds == 0, "C15.lat-slot", fnName(update), "empty batch: no slot handed to a window", P.Pos(update.Pos()), fmt.Sprintf("%d add calls", adds))
					continue
				}
				c.Check(adds == 2, "C15.lat-slot", fnName(update), "non-empty batch: the slot is handed to every window (two windows)", P.Pos(update.Pos()), fmt.Sprintf("%d add calls", adds))
				want := map[string]string{
					"latency.slot.total": "F:latency.Latency.totalDiff",
					"latency.slot.count": "F:latency.Latency.count",
					"latency.slot.max":   "F:latency.Latency.max",
					"latency.slot.min":   "F:latency.Latency.min",
					"latency.slot.start": "F:latency.Latency.start",
					"latency.slot.end":   "NOW",
				}
				keys := []string{}
				for k := range want {
					keys = append(keys, k)
				}
				sort.Strings(keys)
				firstAdd := p.Index(0, lbl("call:(*latency.window).add"))
				for _, k := range keys {
					fs := factsOf(p, k)
					c.Check(len(fs) == 1 && fs[0] == want[k], "C15.lat-slot", fnName(update), "slot field "+strings.TrimPrefix(k, "latency.slot.")+" carries the matching accumulator", P.Pos(update.Pos()), fmt.Sprint(fs))
				}
				// the slot's fields are written before the slot is handed out
				lastSlotStore := -1
				for j := range p.Trace {
					if p.Trace[j].Label == "fact" && strings.HasPrefix(p.Trace[j].Note, "set:latency.slot.") {
						lastSlotStore = j
					}
				}
				c.Check(firstAdd < 0 || lastSlotStore < firstAdd, "C15.lat-slot", fnName(update), "slot complete before it is handed to a window", P.Pos(update.Pos()), "")
				// accumulators: read before cleared, cleared on every path
				for _, acc := range []string{"totalDiff", "count", "max", "min"} {
					zi := -1
					for j := range p.Trace {
						if p.Trace[j].Label == "fact" && p.Trace[j].Note == "set:latency.Latency."+acc+"=k0" {
							zi = j
						}
					}
					c.Check(zi >= 0, "C15.lat-slot", fnName(update), "accumulator "+acc+" cleared after the batch is sealed", P.Pos(update.Pos()), "")
					if zi < 0 {
						continue
					}
					// the load that feeds the slot precedes the clearing store
					li := p.Index(0, lbl("load:latency.Latency."+acc))
					c.Check(li >= 0 && li < zi, "C15.lat-slot", fnName(update), "accumulator "+acc+" read into the slot before it is cleared", P.Pos(update.Pos()), "")
					// and nothing but zero is stored
					fs := factsOf(p, "latency.Latency."+acc)
					c.Check(len(fs) == 1, "C15.lat-slot", fnName(update), "accumulator "+acc+" written once (zero)", P.Pos(update.Pos()), fmt.Sprint(fs))
				}
			}
		}
		c.Floor("C15.lat-slot/paths", n, 2)
	}

	// ---------------------------------------------------------------- window.add
	{
		c.Analysed(fnName(wadd))
		n := 0
		for _, sc := range []struct {
			name  string
			nonil bool
			cnt   int64
		}{{"nil slot", false, 0}, {"empty slot", true, 0}, {"slot with samples", true, 2}} {
			at := &Atoms{Class: func(e *PPA, st *State, rv RV) string {
				r := e.Resolve(st, rv)
				if p, ok := r.V.(*ssa.Parameter); ok && len(wadd.Params) == 2 && p == wadd.Params[1] {
					return "LS"
				}
				if loadOfField(r.V, fSCount) {
					return "LSCNT"
				}
				return ""
			}, Bool: map[string]bool{"LS": sc.nonil}, Int: map[string]int64{"LSCNT": sc.cnt}}
			e := &PPA{Probe: setProbe, Watch: isFact, Cond: at.Cond}
			e.Run(wadd)
			c.Paths += len(e.Paths)
			c.Scen++
			for i := range e.Paths {
				p := &e.Paths[i]
				if p.End != "return" {
					continue
				}
				n++
				tot, cnt, sl := factsOf(p, "latency.window.total"), factsOf(p, "latency.window.count"), factsOf(p, "latency.window.slots")
				if !sc.nonil || sc.cnt == 0 {
					c.Check(len(tot)+len(cnt)+len(sl) == 0, "C15.lat-window", fnName(wadd), sc.name+": nothing recorded", P.Pos(wadd.Pos()), fmt.Sprint(tot, cnt, sl))
					continue
				}
				c.Check(len(tot) == 1 && tot[0] == "(+ F:latency.slot.total F:latency.window.total)", "C15.lat-window", fnName(wadd), sc.name+": window total grows by the slot's total", P.Pos(wadd.Pos()), fmt.Sprint(tot))
				c.Check(len(cnt) == 1 && cnt[0] == "(+ F:latency.slot.count F:latency.window.count)", "C15.lat-window", fnName(wadd), sc.name+": window count grows by the slot's count", P.Pos(wadd.Pos()), fmt.Sprint(cnt))
				c.Check(len(sl) == 1 && sl[0] == "(append F:latency.window.slots [p:ls])", "C15.lat-window", fnName(wadd), sc.name+": the slot is retained at the tail", P.Pos(wadd.Pos()), fmt.Sprint(sl))
			}
		}
		c.Floor("C15.lat-window/add-paths", n, 3)
	}

	// ---------------------------------------------------------------- window.slide
	{
		c.Analysed(fnName(slide))
		n := 0
		for _, sc := range []struct {
			name string
			aged []bool
		}{{"both slots aged", []bool{true, true}}, {"first slot aged", []bool{true, false}}, {"no slot aged", []bool{false, false}}} {
			seen := 0
			_ = seen
			e := &PPA{Probe: setProbe, MaxVisits: 4,
				Watch: func(ev *Ev) bool { return ev.Label == "fact" || ev.Label == "call:(time.Time).After" },
				Cond: func(e *PPA, st *State, rv RV) (bool, bool) {
					if call, ok := rv.V.(*ssa.Call); ok && calleeName(&call.Call) == "(time.Time).After" {
						k := 0
						for _, ev := range st.trace {
							if ev.Label == "call:(time.Time).After" {
								k++
							}
						}
						if k >= 1 && k <= len(sc.aged) {
							return !sc.aged[k-1], true // end.After(cutoff) is false for an aged slot
						}
					}
					return false, false
				},
				IntHook: func(e *PPA, st *State, rv RV) (int64, bool) {
					if call, ok := rv.V.(*ssa.Call); ok {
						if la, ok := lenArg(call); ok && loadOfField(e.Resolve(st, RV{rv.F, la}).V, fWSlots) {
							return 2, true
						}
					}
					return 0, false
				}}
			e.Run(slide)
			c.Paths += len(e.Paths)
			c.Scen++
			nAged := 0
			for _, a := range sc.aged {
				if a {
					nAged++
				}
			}
			for i := range e.Paths {
				p := &e.Paths[i]
				if p.End != "return" {
					continue
				}
				if p.Count(lbl("call:(time.Time).After")) != 2 {
					continue // a path that did not examine both slots is reported by slide-all
				}
				n++
				// per examined slot: the facts between this After and the next
				seg := [][]string{}
				for j := range p.Trace {
					ev := &p.Trace[j]
					if ev.Label == "call:(time.Time).After" {
						seg = append(seg, nil)
					} else if ev.Label == "fact" && len(seg) > 0 {
						seg[len(seg)-1] = append(seg[len(seg)-1], ev.Note)
					}
				}
				for k, a := range sc.aged {
					cn, tn := 0, 0
					for _, f := range seg[k] {
						if f == "set:latency.window.count=(- F:latency.window.count F:latency.slot.count)" {
							cn++
						}
						if f == "set:latency.window.total=(- F:latency.window.total F:latency.slot.total)" {
							tn++
						}
					}
					if a {
						c.Check(cn == 1 && tn == 1, "C15.lat-window", fnName(slide), fmt.Sprintf("%s: slot %d aged: its count and total are both retired", sc.name, k), P.Pos(slide.Pos()), fmt.Sprint(seg[k]))
					} else {
						bad := 0
						for _, f := range seg[k] {
							if strings.HasPrefix(f, "set:latency.window.count=") || strings.HasPrefix(f, "set:latency.window.total=") {
								bad++
							}
						}
						c.Check(bad == 0, "C15.lat-window", fnName(slide), fmt.Sprintf("%s: slot %d still in the window: nothing retired", sc.name, k), P.Pos(slide.Pos()), fmt.Sprint(seg[k]))
					}
				}
				sl := factsOf(p, "latency.window.slots")
				want := fmt.Sprintf("(slice F:latency.window.slots k%d)", nAged)
				ok := len(sl) == 1 && sl[0] == want
				if nAged == 0 && len(sl) == 0 {
					ok = true
				}
				c.Check(ok, "C15.lat-window", fnName(slide), sc.name+": as many leading slots dropped as were retired", P.Pos(slide.Pos()), fmt.Sprint(sl))
			}
		}
		c.Floor("C15.lat-window/slide-paths", n, 3)
	}

	// ---------------------------------------------------------------- export
	{
		setInt := func(f *ssa.Function) []*ssa.Call {
			out := []*ssa.Call{}
			instrs(f, func(in ssa.Instruction) {
				if call, ok := in.(*ssa.Call); ok && call.Call.IsInvoke() && call.Call.Method.Name() == "SetInt" {
					out = append(out, call)
				}
			})
			return out
		}
		// static backward data slice of a value inside one function
		// results: every value a function returns in result position i (named results through their cell)
		results := func(g *ssa.Function, i int, w func(ssa.Value)) {
			instrs(g, func(in ssa.Instruction) {
				if ret, ok := in.(*ssa.Return); ok && i < len(ret.Results) {
					w(ret.Results[i])
				}
			})
		}
		slice := func(v ssa.Value) (loads map[string]bool, arith []string) {
			loads = map[string]bool{}
			seen := map[ssa.Value]bool{}
			var w func(v ssa.Value)
			w = func(v ssa.Value) {
				if seen[v] {
					return
				}
				seen[v] = true
				switch x := v.(type) {
				case *ssa.Phi:
					for _, ed := range x.Edges {
						w(ed)
					}
				case *ssa.Convert:
					w(x.X)
				case *ssa.ChangeType:
					w(x.X)
				case *ssa.BinOp:
					arith = append(arith, x.Op.String())
					w(x.X)
					w(x.Y)
				case *ssa.UnOp:
					if x.Op == token.MUL {
						if fa, ok := x.X.(*ssa.FieldAddr); ok {
							loads[qualField(fa)] = true
							return
						}
					}
					w(x.X)
				case *ssa.Extract:
					if call, ok := x.Tuple.(*ssa.Call); ok {
						if g := staticCallee(&call.Call); g != nil && pkgPathOf(g) == pkgPathOf(call.Parent()) && len(g.Blocks) > 0 {
							results(g, x.Index, w)
							return
						}
					}
					loads[fmt.Sprintf("%T", v)] = true
				case *ssa.Call:
					if calleeName(&x.Call) == "(time.Duration).Nanoseconds" {
						w(x.Call.Args[0])
						return
					}
					if b, ok := x.Call.Value.(*ssa.Builtin); ok && (b.Name() == "max" || b.Name() == "min") {
						for _, a := range x.Call.Args {
							w(a)
						}
						return
					}
					if g := staticCallee(&x.Call); g != nil && pkgPathOf(g) == pkgPathOf(x.Parent()) && len(g.Blocks) > 0 && g.Signature.Results().Len() == 1 {
						results(g, 0, w)
						return
					}
					loads["call:"+calleeName(&x.Call)] = true
				case *ssa.Const:
				default:
					loads[fmt.Sprintf("%T", v)] = true
				}
			}
			w(v)
			return
		}
		for _, sel := range []struct{ fn, field string }{{"setMax", "latency.slot.max"}, {"setMin", "latency.slot.min"}} {
			f := P.Method("latency", "window", sel.fn)
			if f == nil {
				c.Unresolved("C15.lat-export", "latency.(*window)."+sel.fn)
				continue
			}
			c.Analysed(fnName(f))
			calls := setInt(f)
			c.Floor("C15.lat-export/"+sel.fn, len(calls), 1)
			for _, call := range calls {
				if len(call.Call.Args) < 2 {
					continue
				}
				loads, arith := slice(call.Call.Args[1])
				ks := []string{}
				for k := range loads {
					ks = append(ks, k)
				}
				sort.Strings(ks)
				c.Check(len(ks) == 1 && ks[0] == sel.field && len(arith) == 0, "C15.lat-export", fnName(f), "exported value is selected among the slots' "+strings.TrimPrefix(sel.field, "latency.slot.")+" fields", P.Pos(call.Pos()), fmt.Sprintf("reads %v, arithmetic %v", ks, arith))
			}
		}
		if f := P.Method("latency", "window", "setAvg"); f == nil {
			c.Unresolved("C15.lat-export", "latency.(*window).setAvg")
		} else {
			c.Analysed(fnName(f))
			for _, zero := range []bool{true, false} {
				cnt := int64(4)
				if zero {
					cnt = 0
				}
				at := &Atoms{Class: func(e *PPA, st *State, rv RV) string {
					if loadOfField(e.Resolve(st, rv).V, fWCount) {
						return "WCNT"
					}
					return ""
				}, Int: map[string]int64{"WCNT": cnt}}
				e := &PPA{Cond: at.Cond, Watch: func(ev *Ev) bool { return ev.Label == "fact" },
					Probe: func(e *PPA, st *State, fr *Frame, in ssa.Instruction) {
						if call, ok := in.(*ssa.Call); ok && call.Call.IsInvoke() && call.Call.Method.Name() == "SetInt" && len(call.Call.Args) >= 2 {
							e.emit(st, Ev{Label: "fact", In: in, F: fr, Note: "export=" + latShape(e, st, RV{fr, call.Call.Args[1]}, 0)})
						}
					}}
				e.Run(f)
				c.Paths += len(e.Paths)
				c.Scen++
				exported := 0
				for i := range e.Paths {
					p := &e.Paths[i]
					for j := range p.Trace {
						if p.Trace[j].Label != "fact" {
							continue
						}
						exported++
						if zero {
							c.Bad("C15.lat-export", fnName(f), "no average exported for an empty window", P.Pos(f.Pos()), p.Trace[j].Note)
							continue
						}
						c.Check(p.Trace[j].Note == "export=(* (/ F:latency.window.total F:latency.window.count) F:latency.window.sf)", "C15.lat-export", fnName(f), "exported average is (total / count) * scale", P.Pos(f.Pos()), p.Trace[j].Note)
					}
				}
				if zero {
					c.Check(exported == 0, "C15.lat-export", fnName(f), "no average exported for an empty window", P.Pos(f.Pos()), "")
				} else {
					c.Check(exported >= 1, "C15.lat-export", fnName(f), "an average is exported for a non-empty window", P.Pos(f.Pos()), "")
				}
			}
		}
		// New: one scale for the accumulator and for every window
		if f := P.Func("latency", "New"); f == nil {
			c.Unresolved("C15.lat-export", "latency.New")
		} else {
			c.Analysed(fnName(f))
			var scaleVal, winScale ssa.Value
			newWindow := P.Func("latency", "newWindow")
			instrs(f, func(in ssa.Instruction) {
				switch x := in.(type) {
				case *ssa.Store:
					if fa, ok := x.Addr.(*ssa.FieldAddr); ok && fieldOf(fa) == fScale {
						scaleVal = x.Val
					}
				case *ssa.Call:
					if g := staticCallee(&x.Call); g != nil && g == newWindow && len(x.Call.Args) == 2 {
						winScale = x.Call.Args[1]
					}
				}
			})
			strip := func(v ssa.Value) ssa.Value {
				for i := 0; i < 8 && v != nil; i++ {
					switch x := v.(type) {
					case *ssa.Convert:
						v = x.X
					case *ssa.ChangeType:
						v = x.X
					case *ssa.Call:
						if calleeName(&x.Call) == "(time.Duration).Nanoseconds" {
							v = x.Call.Args[0]
						} else {
							return v
						}
					default:
						return v
					}
				}
				return v
			}
			c.Check(scaleVal != nil && winScale != nil && strip(scaleVal) == strip(winScale), "C15.lat-export", fnName(f), "sample accumulator and windows are given the same scale", P.Pos(f.Pos()), fmt.Sprintf("Latency.scaleFactor <- %s ; newWindow(.., %s)", exprOrNil(scaleVal), exprOrNil(winScale)))
		}
	}
	_ = fWTotal
	_ = fWSf
	_ = fStart
	_ = fTotal
}

func relWord(r int) string {
	switch {
	case r < 0:
		return "below"
	case r == 0:
		return "equal to"
	}
	return "above"
}

// runMetaOps: the counters and flags the cache exports live in metadata.Metadata; every statement the
// property makes about them ("counted in exactly one of ...", "leaf count equals added minus deleted")
// presupposes that the store itself is faithful: AddInt adds its argument to the entry of its key,
// Set* store their argument under their key, Get* return what is stored under their key (or the
// "unset" error), and an unregistered key changes nothing.
func runMetaOps(c *Ctx) {
	P := c.P
	c.Rule("C15.meta-ops", "metadata.Metadata, per operation and per scenario (key registered / not registered; entry present / absent for the getters): an unregistered key returns an error and neither reads nor writes the value maps; AddInt stores old-value-of-that-key + argument under that key; SetInt / SetBool / SetStr store the argument under the key; GetInt / GetBool / GetStr return the entry of the key and a nil error when present, the zero value and ErrUnsetValue when absent")
	type op struct {
		name, kind, valid, field string
	}
	ops := []op{
		{"AddInt", "add", "validInt", "valuesInt"}, {"SetInt", "set", "validInt", "valuesInt"}, {"GetInt", "get", "validInt", "valuesInt"},
		{"SetBool", "set", "validBool", "valuesBool"}, {"GetBool", "get", "validBool", "valuesBool"},
		{"SetStr", "set", "validStr", "valuesStr"}, {"GetStr", "get", "validStr", "valuesStr"},
	}
	n := 0
	for _, o := range ops {
		f := P.Method("metadata", "Metadata", o.name)
		fld := P.Field("metadata", "Metadata", o.field)
		if f == nil || fld == nil || len(f.Params) < 2 {
			c.Unresolved("C15.meta-ops", "metadata.(*Metadata)."+o.name+" / Metadata."+o.field)
			continue
		}
		c.Analysed(fnName(f))
		keyP := ssa.Value(param(f, 1))
		isValidCall := func(v ssa.Value) bool {
			call, ok := v.(*ssa.Call)
			if !ok {
				return false
			}
			g := staticCallee(&call.Call)
			return g != nil && pkgPathOf(g) == pkgPathOf(f) && strings.HasPrefix(fbase(g), "valid")
		}
		for _, registered := range []bool{true, false} {
			for _, present := range []bool{true, false} {
				if o.kind != "get" && !present {
					continue
				}
				e := &PPA{TraceLookups: true, Opaque: map[*ssa.Function]bool{}, Watch: func(ev *Ev) bool {
					return strings.HasPrefix(ev.Label, "mapupdate:") || strings.HasPrefix(ev.Label, "lookup:") || ev.Label == "fact" || ev.Label == "builtin:delete"
				}, Probe: func(e *PPA, st *State, fr *Frame, in ssa.Instruction) {
					if mu, ok := in.(*ssa.MapUpdate); ok {
						e.emit(st, Ev{Label: "fact", In: in, F: fr, Note: "val=" + latShape(e, st, RV{fr, mu.Value}, 0) + " key=" + latShape(e, st, RV{fr, mu.Key}, 0)})
					}
				}, Cond: func(e *PPA, st *State, rv RV) (bool, bool) {
					r := e.Resolve(st, rv)
					switch v := r.V.(type) {
					case *ssa.BinOp:
						if v.Op != token.EQL && v.Op != token.NEQ {
							return false, false
						}
						for _, pr := range [][2]ssa.Value{{v.X, v.Y}, {v.Y, v.X}} {
							if isNilConst(pr[1]) && isValidCall(e.Resolve(st, RV{r.F, pr[0]}).V) {
								return registered == (v.Op == token.EQL), true
							}
						}
					case *ssa.Extract:
						if lk, ok := v.Tuple.(*ssa.Lookup); ok && v.Index == 1 && loadOfField(lk.X, fld) {
							return present, true
						}
					}
					return false, false
				}}
				// the validity helpers are judged by their result only
				for _, g := range P.PkgFuncs("metadata") {
					if strings.HasPrefix(fbase(g), "valid") {
						e.Opaque[g] = true
					}
				}
				e.Run(f)
				c.Paths += len(e.Paths)
				c.Scen++
				sc := fmt.Sprintf("%s, key registered=%v", o.name, registered)
				if o.kind == "get" {
					sc += fmt.Sprintf(", entry present=%v", present)
				}
				for i := range e.Paths {
					p := &e.Paths[i]
					if p.End != "return" {
						continue
					}
					n++
					touches := 0
					var upd *Ev
					var fact string
					for j := range p.Trace {
						ev := &p.Trace[j]
						switch {
						case strings.HasPrefix(ev.Label, "mapupdate:") && ev.Field == fld:
							touches++
							upd = ev
						case strings.HasPrefix(ev.Label, "lookup:") && ev.Field == fld, ev.Label == "builtin:delete":
							touches++
						case ev.Label == "fact":
							fact = ev.Note
						}
					}
					errRet := retClass(p.Rets[len(p.Rets)-1])
					if !registered {
						c.Check(touches == 0 && errRet != "nil", "C15.meta-ops", fnName(f), sc+": error, value map untouched", P.Pos(f.Pos()), fmt.Sprintf("returns %s, %d map operations; path: %s", errRet, touches, p.String()))
						continue
					}
					switch o.kind {
					case "set", "add":
						want := "val=p:" + param(f, 2).Name() + " key=p:" + param(f, 1).Name()
						if o.kind == "add" {
							want = "val=(+ dyn p:" + param(f, 2).Name() + ") key=p:" + param(f, 1).Name()
						}
						// the old value of an add is the lookup of the same key in the same map
						okOld := true
						if o.kind == "add" {
							okOld = false
							for j := range p.Trace {
								ev := &p.Trace[j]
								if strings.HasPrefix(ev.Label, "lookup:") && ev.Field == fld && len(ev.Args) >= 2 && ev.Args[1].V == keyP {
									okOld = true
								}
							}
							fact = strings.Replace(fact, "?", "dyn", 1)
						}
						ok := upd != nil && len(upd.Args) >= 2 && upd.Args[1].V == keyP && okOld && normOld(fact) == want && errRet == "nil"
						c.Check(ok, "C15.meta-ops", fnName(f), sc+": stored under the key", P.Pos(f.Pos()), fmt.Sprintf("%s, want %s; returns %s", normOld(fact), want, errRet))
					case "get":
						if present {
							r0 := p.Rets[0].V
							ex, isEx := r0.(*ssa.Extract)
							var lk *ssa.Lookup
							if isEx && ex.Index == 0 {
								lk, _ = ex.Tuple.(*ssa.Lookup)
							} else if l, isL := r0.(*ssa.Lookup); isL {
								lk = l
							}
							ok := lk != nil && loadOfField(lk.X, fld) && lk.Index == keyP && errRet == "nil"
							c.Check(ok, "C15.meta-ops", fnName(f), sc+": returns the entry of the key", P.Pos(f.Pos()), fmt.Sprintf("returns (%s, %s)", Expr(r0), errRet))
						} else {
							z := false
							if k, ok := p.Rets[0].V.(*ssa.Const); ok {
								z = k.Value == nil || k.IsNil() || k.Value.String() == "0" || k.Value.String() == "false" || k.Value.String() == `""`
							}
							c.Check(z && errRet == "global:ErrUnsetValue", "C15.meta-ops", fnName(f), sc+": zero value and ErrUnsetValue", P.Pos(f.Pos()), fmt.Sprintf("returns (%s, %s)", Expr(p.Rets[0].V), errRet))
						}
					}
				}
			}
		}
	}
	c.Floor("C15.meta-ops/paths", n, 17)
}

// normOld rewrites the old-value operand of an add (a lookup, printed by latShape as "?" or "dyn") uniformly.
func normOld(s string) string {
	return strings.Replace(s, "(+ ? ", "(+ dyn ", 1)
}
