package main

import (
	"fmt"
	"go/token"
	"go/types"
	"strings"

	"golang.org/x/tools/go/ssa"
)

func init() {
	register(&propDef{
		ID:       "C18",
		Explain:  "Decided (structural necessary conditions): ReconnectClient's closed/cancel/subscribeDone only under its mutex; initDone stores the cancel function and then tests closed in the same critical section, Close tests cancel and then sets closed in one critical section (whichever runs second sees the other's store, so the context is cancelled for every ordering); Subscribe defers the closer of subscribeDone on every exit and Close waits on it only when it exists, after closing the inner client; retry loop: between two inner Subscribe calls exactly one disconnect, an unconditional context check, the backoff sleep and exactly one reset, and the only return inside the loop follows the context check after disconnect; non-stream/poll queries return before initDone; BaseClient.run: EOF/ErrStopReading => nil, other errors => impl.Close then that error, otherwise the close flag is read under the lock immediately after every Recv; BaseClient.Close latches closed under the lock before closing the implementation on every path; Connected precedes every other notification on a fresh stream in the gnmi and fake clients and the flag is only ever set to true; no goroutine or channel between Recv and the handlers; getFirst's error channel has capacity len(types) and a late successful implementation is closed. Also decided: packages client and client/gnmi contain no context.Background()/TODO() and derive every context from the caller's, so cancelling it (what Close does) interrupts dials and RPCs. Round-3 additions: with a live context (never cancelled) the retry loop has no exit; Reconnect sets the backoff's MaxElapsedTime to 0. Round-4 addition: getFirst ends on the member count of the collected error list, so every failed client type sends exactly one plain error (the list flattens nested lists).",
		NotCover: "the real-time bound ('within the current backoff interval': the backoff wait is time.Sleep, not context-aware, which the property allows); termination of the underlying Impl.Close / grpc; behaviour of the backoff library",
		Run:      runC18,
	})
}

func runC18(c *Ctx) {
	P := c.P
	rcSub := P.Method("client", "ReconnectClient", "Subscribe")
	initDone := P.Method("client", "ReconnectClient", "initDone")
	rcClose := P.Method("client", "ReconnectClient", "Close")
	run := P.Method("client", "BaseClient", "run")
	bcClose := P.Method("client", "BaseClient", "Close")
	getFirst := P.Func("client", "getFirst")
	fRMu := P.Field("client", "ReconnectClient", "mu")
	fClosed := P.Field("client", "ReconnectClient", "closed")
	fCancel := P.Field("client", "ReconnectClient", "cancel")
	fSubDone := P.Field("client", "ReconnectClient", "subscribeDone")
	fDisc := P.Field("client", "ReconnectClient", "disconnect")
	fReset := P.Field("client", "ReconnectClient", "reset")
	fBMu := P.Field("client", "BaseClient", "mu")
	fBClosed := P.Field("client", "BaseClient", "closed")
	fBImpl := P.Field("client", "BaseClient", "clientImpl")
	for n, ok := range map[string]bool{"(*ReconnectClient).Subscribe": rcSub != nil, "(*ReconnectClient).initDone": initDone != nil, "(*ReconnectClient).Close": rcClose != nil, "(*BaseClient).run": run != nil,
		"(*BaseClient).Close": bcClose != nil, "getFirst": getFirst != nil, "ReconnectClient.mu": fRMu != nil, "ReconnectClient.closed": fClosed != nil, "ReconnectClient.cancel": fCancel != nil,
		"ReconnectClient.subscribeDone": fSubDone != nil, "ReconnectClient.disconnect": fDisc != nil, "ReconnectClient.reset": fReset != nil, "BaseClient.mu": fBMu != nil, "BaseClient.closed": fBClosed != nil, "BaseClient.clientImpl": fBImpl != nil} {
		if !ok {
			c.Unresolved("C18.anchors", "client."+n)
		}
	}
	if len(c.Unres) > 0 {
		return
	}
	c.Rule("C18.locked", "ReconnectClient.closed/cancel/subscribeDone only under ReconnectClient.mu; BaseClient.closed/clientImpl only under BaseClient.mu (writes under the write lock); locks released on all exits, no re-entrant acquisition")
	c.Rule("C18.handshake", "initDone: one critical section containing store cancel, then load closed, and a call of cancel on the closed edge only. Close: one critical section containing load cancel (called iff non-nil), then store closed=true, returning the current subscribeDone; Client.Close() afterwards; wait on subscribeDone iff non-nil, last. Subscribe: the closer returned by initDone is deferred on every path after initDone")
	c.Rule("C18.retry-loop", "ReconnectClient.Subscribe: query types other than Stream/Poll return before initDone; in the loop every inner Subscribe is followed by exactly one disconnect, then on every path a context check (select on ctx.Done or ctx.Err) before Sleep, then exactly one reset before the next inner Subscribe; every return inside the loop comes after disconnect and the context check")
	c.Rule("C18.run-loop", "BaseClient.run: Recv error EOF/ErrStopReading => return nil without closing; other error => impl.Close() and return it; nil => load closed under mu before the next Recv, return nil when set. BaseClient.Close: nil impl => ErrClientInit without effect; otherwise closed=true is stored under mu before impl.Close() on every path")
	c.Rule("C18.connected-first", "gnmi (*Client).defaultRecv and fake (*Client).Recv: with connected==false the first handler invocation passes client.Connected{} and connected=true is stored before any other handler call; with connected==true no Connected is delivered; connected is never stored false")
	c.Rule("C18.order", "no `go`, channel send/receive or select between the stream Recv and the handler calls in client/gnmi Recv/defaultRecv/noti (delivery order = receive order)")
	c.Rule("C18.ctx-derived", "packages client and client/gnmi (non-test): no context.Background()/context.TODO(); every context.With{Cancel,Timeout,Deadline} parent is the enclosing function's context parameter (or one captured from it), so cancelling the caller's context (what Close does) interrupts dials and RPCs")
	{
		n := 0
		for _, pk := range []string{"client", "client/gnmi"} {
			for _, f := range P.PkgFuncs(pk) {
				if P.InTestFile(f) {
					continue
				}
				for _, ci := range callsIn(f) {
					nm := calleeName(ci.Common())
					switch nm {
					case "context.Background", "context.TODO":
						c.Bad("C18.ctx-derived", fnName(f), "call of "+nm, P.Pos(ci.Pos()), "a context detached from the caller cannot be cancelled by Close")
					case "context.WithCancel", "context.WithTimeout", "context.WithDeadline":
						n++
						parent := ci.Common().Args[0]
						ok := ctxFromParam(parent, 0)
						c.Check(ok, "C18.ctx-derived", fnName(f), nm+" parent", P.Pos(ci.Pos()), "parent context: "+Expr(parent))
					}
				}
			}
		}
		c.Floor("C18.ctx-derived/derivations", n, 2)
	}
	c.Rule("C18.getfirst", "getFirst: errC is made with capacity len(types); implC unbuffered; every goroutine either sends its error on errC or offers its Impl in a select whose other arm (done) closes the Impl")

	// ---- locks
	{
		// subscribeDone is written only by Subscribe's own chain (initDone): that goroutine may read it back
		// without the lock (the deferred closer does), everybody else reads under the lock
		if rs := P.Method("client", "ReconnectClient", "Subscribe"); rs != nil {
			if chain := ownerChain(P, "client", rs, fSubDone); chain != nil {
				lockOwnerReads[fSubDone] = chain
				c.Assumption("ReconnectClient.Subscribe is not called concurrently with itself (its own reads of subscribeDone are unguarded; every write is on its goroutine)")
			}
		}
		defer delete(lockOwnerReads, fSubDone)
		la := NewLockAudit(c, "client", map[*types.Var]*types.Var{fClosed: fRMu, fCancel: fRMu, fSubDone: fRMu, fBClosed: fBMu, fBImpl: fBMu}, 2)
		la.Report(func(kind string) string { return "C18.locked" })
		c.Check(la.Accesses >= 10, "C18.locked", "client", "guarded accesses analysed", "", fmt.Sprintf("%d accesses on paths, %d directly under their mutex", la.Accesses, la.Guarded))
	}
	lockR := func(ev *Ev) bool { return ev.Label == "call:(*sync.Mutex).Lock" && ev.Field == fRMu }
	unlockR := func(ev *Ev) bool { return ev.Label == "call:(*sync.Mutex).Unlock" && ev.Field == fRMu }
	dynField := func(ev *Ev, f *types.Var) bool {
		return strings.HasPrefix(ev.Label, "call:dyn:") && ev.Fn.V != nil && loadOfField(ev.Fn.V, f)
	}
	// ---- handshake: initDone
	for _, closed := range []bool{false, true} {
		c.Analysed(fnName(initDone))
		at := &Atoms{Class: func(e *PPA, st *State, rv RV) string {
			if loadOfField(e.Resolve(st, rv).V, fClosed) {
				return "CLOSED"
			}
			return ""
		}, Bool: map[string]bool{"CLOSED": closed}}
		e := &PPA{Cond: at.Cond, TraceLoads: true, Watch: func(ev *Ev) bool {
			return lockR(ev) || unlockR(ev) || ev.Label == "store:client.ReconnectClient.cancel" || ev.Label == "load:client.ReconnectClient.closed" || dynField(ev, fCancel)
		}}
		e.Run(initDone)
		c.Paths += len(e.Paths)
		c.Scen++
		for i := range e.Paths {
			p := &e.Paths[i]
			li, ui := p.Index(0, lockR), p.Index(0, unlockR)
			sc := p.Index(0, lbl("store:client.ReconnectClient.cancel"))
			lc := p.Index(0, lbl("load:client.ReconnectClient.closed"))
			cc := p.Index(0, func(ev *Ev) bool { return dynField(ev, fCancel) })
			ok := li >= 0 && li < sc && sc < lc && lc < ui && p.Count(lockR) == 1
			if closed {
				ok = ok && cc > lc && cc < ui
			} else {
				ok = ok && cc < 0
			}
			c.Check(ok, "C18.handshake", fnName(initDone), fmt.Sprintf("store cancel, then test closed, in one critical section (closed=%v)", closed), P.Pos(initDone.Pos()), fmt.Sprintf("lock@%d store-cancel@%d load-closed@%d cancel()@%d unlock@%d; path: %s", li, sc, lc, cc, ui, p.String()))
		}
	}
	// ---- handshake: Close
	for _, hasCancel := range []bool{false, true} {
		for _, hasDone := range []bool{false, true} {
			c.Analysed(fnName(rcClose))
			at := &Atoms{Class: func(e *PPA, st *State, rv RV) string {
				r := e.Resolve(st, rv)
				if loadOfField(r.V, fCancel) {
					return "HASCANCEL"
				}
				// the channel returned by the locked section
				if loadOfField(r.V, fSubDone) {
					return "HASDONE"
				}
				return ""
			}, Bool: map[string]bool{"HASCANCEL": hasCancel, "HASDONE": hasDone}}
			e := &PPA{Cond: at.Cond, TraceLoads: true,
				Inline: func(fr *Frame, call ssa.CallInstruction, callee *ssa.Function) bool {
					return callee.Parent() == rcClose
				},
				Watch: func(ev *Ev) bool {
					return lockR(ev) || unlockR(ev) || ev.Label == "store:client.ReconnectClient.closed" || ev.Label == "load:client.ReconnectClient.cancel" || dynField(ev, fCancel) ||
						strings.HasPrefix(ev.Label, "recv:") || (strings.HasPrefix(ev.Label, "call:invoke:") && strings.HasSuffix(ev.Label, ".Close"))
				}}
			e.Run(rcClose)
			c.Paths += len(e.Paths)
			c.Scen++
			for i := range e.Paths {
				p := &e.Paths[i]
				li, ui := p.Index(0, lockR), p.Index(0, unlockR)
				lc := p.Index(0, lbl("load:client.ReconnectClient.cancel"))
				cc := p.Index(0, func(ev *Ev) bool { return dynField(ev, fCancel) })
				sc := p.Index(0, lbl("store:client.ReconnectClient.closed"))
				ic := p.Index(0, func(ev *Ev) bool { return strings.HasSuffix(ev.Label, ".Close") })
				rv := p.Index(0, lblPrefix("recv:"))
				ok := li >= 0 && li < lc && lc < ui && li < sc && sc < ui && ui < ic && p.Count(lockR) == 1
				if ok {
					v, isTrue := constBool(p.Trace[sc].Args[1].V)
					ok = isTrue && v
				}
				if hasCancel {
					ok = ok && cc > li && cc < ui
				} else {
					ok = ok && cc < 0
				}
				if hasDone {
					ok = ok && rv > ic
				} else {
					ok = ok && rv < 0
				}
				c.Check(ok, "C18.handshake", fnName(rcClose), fmt.Sprintf("test cancel, then set closed, in one critical section; inner Close; wait (cancel set=%v, subscribeDone set=%v)", hasCancel, hasDone), P.Pos(rcClose.Pos()),
					fmt.Sprintf("lock@%d load-cancel@%d cancel()@%d store-closed@%d unlock@%d inner-Close@%d wait@%d; path: %s", li, lc, cc, sc, ui, ic, rv, p.String()))
			}
		}
	}
	// ---- retry loop
	{
		c.Analysed(fnName(rcSub))
		isInner := func(ev *Ev) bool {
			ci, ok := ev.In.(ssa.CallInstruction)
			return ok && ci.Common().IsInvoke() && ci.Common().Method.Name() == "Subscribe"
		}
		isCtx := func(ev *Ev) bool {
			if strings.HasPrefix(ev.Label, "select:") {
				return true
			}
			ci, ok := ev.In.(ssa.CallInstruction)
			return ok && ci.Common().IsInvoke() && ci.Common().Method.Name() == "Err" && strings.HasPrefix(types.TypeString(ci.Common().Value.Type(), nil), "context.")
		}
		isSleep := func(ev *Ev) bool { return ev.Label == "call:time.Sleep" }
		isInit := func(ev *Ev) bool { return ev.Label == "call:"+fnName(initDone) }
		at := &Atoms{Class: func(e *PPA, st *State, rv RV) string {
			r := e.Resolve(st, rv)
			if loadOfField(r.V, fDisc) {
				return "HASDISC"
			}
			if loadOfField(r.V, fReset) {
				return "HASRESET"
			}
			return ""
		}, Bool: map[string]bool{"HASDISC": true, "HASRESET": true}}
		mv := 3
		e := &PPA{Cond: at.Cond, MaxVisits: mv, Watch: func(ev *Ev) bool {
			return isInner(ev) || isCtx(ev) || isSleep(ev) || isInit(ev) || dynField(ev, fDisc) || dynField(ev, fReset) || ev.Deferred
		}}
		// a named closer of subscribeDone (a method deferred by Subscribe) stays a call: the rule looks for it
		e.Opaque = map[*ssa.Function]bool{}
		for _, pf := range P.PkgFuncs("client") {
			if P.InTestFile(pf) || pf == rcSub || pf == initDone {
				continue
			}
			instrs(pf, func(in ssa.Instruction) {
				if call, ok := in.(*ssa.Call); ok {
					if b, ok := call.Call.Value.(*ssa.Builtin); ok && b.Name() == "close" && len(call.Call.Args) == 1 && loadOfField(call.Call.Args[0], fSubDone) {
						e.Opaque[pf] = true
					}
				}
			})
		}
		e.Run(rcSub)
		c.Paths += len(e.Paths)
		c.Scen++
		nLoopRet, nEarly := 0, 0
		seqOK := func(tr []Ev) (bool, string) {
			// split at inner Subscribe events
			var idx []int
			for i := range tr {
				if isInner(&tr[i]) {
					idx = append(idx, i)
				}
			}
			for k, i := range idx {
				end := len(tr)
				if k+1 < len(idx) {
					end = idx[k+1]
				}
				seg := tr[i+1 : end]
				// expected: disconnect, ctx check(s), [Sleep, reset] (complete only if another Subscribe follows)
				j := 0
				if j >= len(seg) || !dynField(&seg[j], fDisc) {
					return false, "inner Subscribe not followed by disconnect"
				}
				j++
				nctx := 0
				for j < len(seg) && isCtx(&seg[j]) {
					nctx++
					j++
				}
				if nctx == 0 {
					return false, "no context check between disconnect and the backoff sleep / return"
				}
				if k+1 < len(idx) {
					if j >= len(seg) || !isSleep(&seg[j]) {
						return false, "no backoff sleep before the retry"
					}
					j++
					if j >= len(seg) || !dynField(&seg[j], fReset) {
						return false, "no reset before the retry"
					}
					j++
					if j != len(seg) {
						return false, "unexpected event before the retry: " + seg[j].Label
					}
				}
			}
			return true, ""
		}
		for i := range e.Paths {
			p := &e.Paths[i]
			if p.End != "return" {
				continue
			}
			if !p.Has(isInit) {
				nEarly++
				c.Check(!p.Has(isInner), "C18.retry-loop", fnName(rcSub), "unsupported query type returns before initDone", P.Pos(rcSub.Pos()), "path: "+p.String())
				continue
			}
			nLoopRet++
			// strip deferred events at the end for the sequence check, but require the deferred closer
			var body []Ev
			closer := false
			for j := range p.Trace {
				if p.Trace[j].Deferred {
					if ex, ok := p.Trace[j].Fn.V.(*ssa.Extract); ok && ex.Index == 1 && isCallNamed(ex.Tuple, fnName(initDone)) {
						closer = true
					}
					// ... or a deferred function / method of the package that closes p.subscribeDone itself
					if ci, ok := p.Trace[j].In.(ssa.CallInstruction); ok {
						if g := staticCallee(ci.Common()); g != nil && pkgPathOf(g) == pkgPathOf(rcSub) {
							for _, h := range withAnon(g) {
								instrs(h, func(in ssa.Instruction) {
									if call, ok := in.(*ssa.Call); ok {
										if b, ok := call.Call.Value.(*ssa.Builtin); ok && b.Name() == "close" && len(call.Call.Args) == 1 && loadOfField(call.Call.Args[0], fSubDone) {
											closer = true
										}
									}
								})
							}
						}
					}
					continue
				}
				if isInit(&p.Trace[j]) {
					continue
				}
				body = append(body, p.Trace[j])
			}
			ok, why := seqOK(body)
			c.Check(ok && closer && len(body) > 0, "C18.retry-loop", fnName(rcSub), "loop discipline on every returning path", P.Pos(rcSub.Pos()), fmt.Sprintf("%s deferred-closer=%v; path: %s", why, closer, p.String()))
		}
		c.Floor("C18.retry-loop/returning-paths", nLoopRet, 2)
		c.Floor("C18.retry-loop/early-returns", nEarly, 1)
		c.Check(e.Truncated > 0, "C18.retry-loop", fnName(rcSub), "the loop continues after a failed attempt (retries indefinitely)", P.Pos(rcSub.Pos()), fmt.Sprintf("%d continuing paths at the unrolling bound", e.Truncated))
		// with a live context (never cancelled, ctx.Err() == nil) the loop has no exit at all
		{
			isErrCall := func(v ssa.Value) bool {
				call, ok := v.(*ssa.Call)
				return ok && call.Call.IsInvoke() && call.Call.Method.Name() == "Err" && strings.HasPrefix(types.TypeString(call.Call.Value.Type(), nil), "context.")
			}
			live := &Atoms{Class: func(e *PPA, st *State, rv RV) string {
				r := e.Resolve(st, rv)
				if loadOfField(r.V, fDisc) {
					return "HASDISC"
				}
				if loadOfField(r.V, fReset) {
					return "HASRESET"
				}
				if b, ok := r.V.(*ssa.BinOp); ok && (b.Op == token.NEQ || b.Op == token.EQL) && isNilConst(b.Y) && isErrCall(e.Resolve(st, RV{r.F, b.X}).V) {
					if b.Op == token.NEQ {
						return "CTXERR"
					}
					return "!CTXERR"
				}
				return ""
			}, Bool: map[string]bool{"HASDISC": true, "HASRESET": true, "CTXERR": false}}
			le := &PPA{Cond: live.Cond, MaxVisits: mv, Watch: func(ev *Ev) bool { return isInner(ev) || isInit(ev) || strings.HasPrefix(ev.Label, "select:") }}
			le.Run(rcSub)
			c.Paths += len(le.Paths)
			c.Scen++
			bad := ""
			for i := range le.Paths {
				p := &le.Paths[i]
				if p.End != "return" || !p.Has(isInner) {
					continue
				}
				cancelled := p.Has(func(ev *Ev) bool { return strings.HasPrefix(ev.Label, "select:recv:") })
				if !cancelled {
					bad = "returns after a failed attempt although the context is live; path: " + p.String()
				}
			}
			c.Check(bad == "", "C18.retry-loop", fnName(rcSub), "an unclosed client never leaves the retry loop", P.Pos(rcSub.Pos()), bad)
		}
		// Reconnect disables the backoff's give-up time (the library default ends the retries after 15 minutes)
		if rc := P.Func("client", "Reconnect"); rc == nil {
			c.Unresolved("C18.retry-loop", "client.Reconnect")
		} else {
			c.Analysed(fnName(rc))
			okZero := false
			instrs(rc, func(in ssa.Instruction) {
				if st, ok := in.(*ssa.Store); ok {
					if fl := fieldOf(st.Addr); fl != nil && fl.Name() == "MaxElapsedTime" {
						if k, isK := constInt(st.Val); isK && k == 0 {
							okZero = true
						}
					}
				}
				// or through the constructor option
				if call, ok := in.(*ssa.Call); ok && strings.HasSuffix(calleeName(&call.Call), "backoff/v4.WithMaxElapsedTime") {
					if k, isK := constInt(call.Call.Args[0]); isK && k == 0 {
						okZero = true
					}
				}
			})
			c.Check(okZero, "C18.retry-loop", fnName(rc), "the backoff's MaxElapsedTime is set to 0 (retry indefinitely)", P.Pos(rc.Pos()), "without it NextBackOff returns Stop after the library's default give-up time")
		}
	}
	// ---- run loop
	{
		c.Analysed(fnName(run))
		var eofG, stopG *ssa.Global
		if sp := P.SSA.ImportedPackage("io"); sp != nil {
			eofG, _ = sp.Members["EOF"].(*ssa.Global)
		}
		stopG = P.Global("client", "ErrStopReading")
		isRecv := func(ev *Ev) bool {
			ci, ok := ev.In.(ssa.CallInstruction)
			return ok && ci.Common().IsInvoke() && ci.Common().Method.Name() == "Recv"
		}
		isImplClose := func(ev *Ev) bool {
			ci, ok := ev.In.(ssa.CallInstruction)
			return ok && ci.Common().IsInvoke() && ci.Common().Method.Name() == "Close"
		}
		for _, sc := range []struct {
			name          string
			eof, stop, nl bool
		}{{"io.EOF", true, false, false}, {"ErrStopReading", false, true, false}, {"other error", false, false, false}, {"no error", false, false, true}} {
			for _, closed := range []bool{false, true} {
				if !sc.nl && closed {
					continue
				}
				at := &Atoms{Class: func(e *PPA, st *State, rv RV) string {
					r := e.Resolve(st, rv)
					if b, ok := r.V.(*ssa.BinOp); ok && (b.Op == token.EQL || b.Op == token.NEQ) {
						for _, pr := range [][2]ssa.Value{{b.X, b.Y}, {b.Y, b.X}} {
							name := ""
							if u, ok := pr[1].(*ssa.UnOp); ok {
								if eofG != nil && u.X == ssa.Value(eofG) {
									name = "ISEOF"
								}
								if stopG != nil && u.X == ssa.Value(stopG) {
									name = "ISSTOP"
								}
							}
							if isNilConst(pr[1]) && types.Identical(pr[0].Type(), types.Universe.Lookup("error").Type()) {
								name = "ISNIL"
							}
							if name != "" {
								if b.Op == token.NEQ {
									return "!" + name
								}
								return name
							}
						}
					}
					if loadOfField(r.V, fBClosed) {
						return "CLOSED"
					}
					return ""
				}, Bool: map[string]bool{"ISEOF": sc.eof, "ISSTOP": sc.stop, "ISNIL": sc.nl, "CLOSED": closed}}
				e := &PPA{Cond: at.Cond, MaxVisits: 2, TraceLoads: true, Watch: func(ev *Ev) bool {
					return isRecv(ev) || isImplClose(ev) || ev.Label == "load:client.BaseClient.closed" || isLockOp(ev)
				}}
				e.Run(run)
				c.Paths += len(e.Paths)
				c.Scen++
				name := sc.name
				if sc.nl {
					name = fmt.Sprintf("no error, closed=%v", closed)
				}
				if sc.nl && !closed {
					c.Check(len(e.Paths) == 0 && e.Truncated > 0, "C18.run-loop", fnName(run), name+": keeps receiving", P.Pos(run.Pos()), fmt.Sprintf("%d returning, %d continuing paths", len(e.Paths), e.Truncated))
					continue
				}
				n := 0
				for i := range e.Paths {
					p := &e.Paths[i]
					n++
					rc := ""
					if len(p.Rets) == 1 {
						rc = retClass(p.Rets[0])
					}
					var ok bool
					switch {
					case sc.eof || sc.stop:
						ok = rc == "nil" && !p.Has(isImplClose)
					case !sc.nl:
						ci := p.Index(0, isImplClose)
						ok = ci > p.Index(0, isRecv) && rc != "nil" && rc != ""
					default:
						// closed read under RLock right after Recv
						ri := p.Index(0, isRecv)
						li := p.Index(ri, func(ev *Ev) bool { return ev.Label == "call:(*sync.RWMutex).RLock" && ev.Field == fBMu })
						ld := p.Index(ri, lbl("load:client.BaseClient.closed"))
						ui := p.Index(ri, func(ev *Ev) bool { return ev.Label == "call:(*sync.RWMutex).RUnlock" && ev.Field == fBMu })
						ok = ri >= 0 && li > ri && ld > li && ui > ld && rc == "nil" && p.Count(isRecv) == 1
					}
					c.Check(ok, "C18.run-loop", fnName(run), name, P.Pos(run.Pos()), "returns "+rc+"; path: "+p.String())
				}
				c.Floor("C18.run-loop/"+name, n, 1)
			}
		}
		// BaseClient.Close
		c.Analysed(fnName(bcClose))
		for _, hasImpl := range []bool{false, true} {
			at := &Atoms{Class: func(e *PPA, st *State, rv RV) string {
				if loadOfField(e.Resolve(st, rv).V, fBImpl) {
					return "IMPL"
				}
				return ""
			}, Bool: map[string]bool{"IMPL": hasImpl}}
			e := &PPA{Cond: at.Cond, Watch: func(ev *Ev) bool {
				return isLockOp(ev) || ev.Label == "store:client.BaseClient.closed" || isImplClose(ev)
			}}
			e.Run(bcClose)
			c.Paths += len(e.Paths)
			c.Scen++
			for i := range e.Paths {
				p := &e.Paths[i]
				sc := p.Index(0, lbl("store:client.BaseClient.closed"))
				ic := p.Index(0, isImplClose)
				li := p.Index(0, func(ev *Ev) bool { return ev.Label == "call:(*sync.RWMutex).Lock" && ev.Field == fBMu })
				ui := p.Index(li+1, func(ev *Ev) bool { return ev.Label == "call:(*sync.RWMutex).Unlock" && ev.Field == fBMu })
				if hasImpl {
					ok := li >= 0 && li < sc && sc < ic && sc < ui
					if ok {
						v, isB := constBool(p.Trace[sc].Args[1].V)
						ok = isB && v
					}
					c.Check(ok, "C18.run-loop", fnName(bcClose), "closed latched under the lock before impl.Close() on every path", P.Pos(bcClose.Pos()), fmt.Sprintf("lock@%d store-closed@%d impl.Close@%d unlock@%d; path: %s", li, sc, ic, ui, p.String()))
				} else {
					rc := retClass(p.Rets[0])
					c.Check(sc < 0 && ic < 0 && rc == "global:ErrClientInit", "C18.run-loop", fnName(bcClose), "Close before Subscribe is refused without effect", P.Pos(bcClose.Pos()), "returns "+rc)
				}
			}
		}
	}
	// ---- connected first
	for _, spec := range [][3]string{{"client/gnmi", "Client", "defaultRecv"}, {"client/fake", "Client", "Recv"}} {
		f := P.Method(spec[0], spec[1], spec[2])
		fConn := P.Field(spec[0], spec[1], "connected")
		if f == nil || fConn == nil {
			c.Unresolved("C18.connected-first", spec[0]+"."+spec[1]+"."+spec[2]+" / connected")
			continue
		}
		c.Analysed(fnName(f))
		isHandler := func(ev *Ev) bool {
			if !strings.HasPrefix(ev.Label, "call:dyn:") || ev.Fn.V == nil {
				return false
			}
			u, ok := ev.Fn.V.(*ssa.UnOp)
			if !ok {
				return false
			}
			fl := fieldOf(u.X)
			return fl != nil && (vname(fl) == "handler" || vname(fl) == "Handler")
		}
		isConnectedArg := func(ev *Ev) bool {
			return len(ev.Args) == 1 && isNamed(unwrap(ev.Args[0].V).Type(), "client", "Connected")
		}
		for _, conn := range []bool{false, true} {
			at := &Atoms{Class: func(e *PPA, st *State, rv RV) string {
				if loadOfField(e.Resolve(st, rv).V, fConn) {
					return "CONN"
				}
				r := e.Resolve(st, rv)
				if u, ok := r.V.(*ssa.UnOp); ok {
					if fl := fieldOf(u.X); fl != nil && fl.Name() == "Handler" {
						return "HASHANDLER"
					}
				}
				return ""
			}, Bool: map[string]bool{"CONN": conn, "HASHANDLER": true}}
			e := &PPA{Cond: at.Cond, MaxVisits: 2, Watch: func(ev *Ev) bool {
				return isHandler(ev) || strings.HasSuffix(ev.Label, ".connected") && strings.HasPrefix(ev.Label, "store:")
			}}
			e.Run(f)
			c.Paths += len(e.Paths)
			c.Scen++
			n := 0
			for i := range e.Paths {
				p := &e.Paths[i]
				n++
				ok := true
				why := ""
				first := p.Index(0, isHandler)
				st := p.Index(0, func(ev *Ev) bool { return strings.HasPrefix(ev.Label, "store:") })
				if conn {
					if p.Has(func(ev *Ev) bool { return isHandler(ev) && isConnectedArg(ev) }) {
						ok, why = false, "Connected delivered on an already connected stream"
					}
				} else {
					if first < 0 || !isConnectedArg(&p.Trace[first]) {
						ok, why = false, "first notification is not Connected"
					}
					if st < 0 {
						ok, why = false, "connected is not set"
					} else {
						// no other handler call before the store
						for j := 0; j < st; j++ {
							if isHandler(&p.Trace[j]) && !isConnectedArg(&p.Trace[j]) {
								ok, why = false, "a notification is delivered before connected is set"
							}
						}
						if v, isB := constBool(p.Trace[st].Args[1].V); !isB || !v {
							ok, why = false, "connected stored with a value other than true"
						}
					}
					if p.Count(func(ev *Ev) bool { return isHandler(ev) && isConnectedArg(ev) }) != 1 {
						ok, why = false, "Connected not delivered exactly once"
					}
				}
				c.Check(ok, "C18.connected-first", fnName(f), fmt.Sprintf("Connected precedes everything on a fresh stream (connected=%v)", conn), P.Pos(f.Pos()), why+"; path: "+p.String())
			}
			c.Floor(fmt.Sprintf("C18.connected-first/%s(connected=%v)", fnName(f), conn), n, 1)
		}
		// only ever stored true
		for _, g := range P.PkgFuncs(spec[0]) {
			if P.InTestFile(g) {
				continue
			}
			instrs(g, func(in ssa.Instruction) {
				if st, ok := in.(*ssa.Store); ok && fieldOf(st.Addr) == fConn {
					v, isB := constBool(st.Val)
					c.Check(isB && v, "C18.connected-first", fnName(g), "store of connected", P.Pos(in.Pos()), "value "+Expr(st.Val))
				}
			})
		}
	}
	// ---- order
	{
		for _, name := range []string{"Recv", "defaultRecv"} {
			f := P.Method("client/gnmi", "Client", name)
			if f == nil {
				c.Unresolved("C18.order", "client/gnmi.(*Client)."+name)
				continue
			}
			bad := ""
			for _, g := range withAnon(f) {
				instrs(g, func(in ssa.Instruction) {
					switch x := in.(type) {
					case *ssa.Go:
						bad = "go statement"
					case *ssa.Send, *ssa.Select:
						bad = "channel operation"
					case *ssa.UnOp:
						if x.Op == token.ARROW {
							bad = "channel receive"
						}
					}
				})
			}
			c.Check(bad == "", "C18.order", fnName(f), "synchronous delivery in receive order", P.Pos(f.Pos()), bad)
		}
		if f := P.Func("client/gnmi", "noti"); f != nil {
			bad := ""
			instrs(f, func(in ssa.Instruction) {
				switch in.(type) {
				case *ssa.Go, *ssa.Send, *ssa.Select:
					bad = "concurrency construct"
				}
			})
			c.Check(bad == "", "C18.order", fnName(f), "conversion is synchronous", P.Pos(f.Pos()), bad)
		}
	}
	// ---- getFirst
	{
		c.Analysed(fnName(getFirst))
		okErrC, okImplC := false, false
		instrs(getFirst, func(in ssa.Instruction) {
			mc, ok := in.(*ssa.MakeChan)
			if !ok {
				return
			}
			et := mc.Type().Underlying().(*types.Chan).Elem()
			if types.Identical(et, types.Universe.Lookup("error").Type()) {
				if la, ok := lenArg(mc.Size); ok && la == ssa.Value(param(getFirst, 1)) {
					okErrC = true
				}
			} else if isNamed(et, "client", "Impl") {
				if k, ok := constInt(mc.Size); ok && k == 0 {
					okImplC = true
				}
			}
		})
		c.Check(okErrC, "C18.getfirst", fnName(getFirst), "errC capacity = len(types)", P.Pos(getFirst.Pos()), "no goroutine can block on reporting its error")
		c.Check(okImplC, "C18.getfirst", fnName(getFirst), "implC unbuffered", P.Pos(getFirst.Pos()), "an implementation is handed over only to a waiting receiver")
		// goroutine body
		var body *ssa.Function
		instrs(getFirst, func(in ssa.Instruction) {
			if g, ok := in.(*ssa.Go); ok {
				body = staticCallee(&g.Call)
			}
		})
		if body == nil {
			c.Bad("C18.getfirst", fnName(getFirst), "goroutine body", P.Pos(getFirst.Pos()), "not found")
		} else {
			c.Analysed(fnName(body))
			e := &PPA{Watch: func(ev *Ev) bool {
				return strings.HasPrefix(ev.Label, "send:") || strings.HasPrefix(ev.Label, "select:") || (strings.HasPrefix(ev.Label, "call:invoke:") && strings.HasSuffix(ev.Label, ".Close"))
			}}
			e.Run(body)
			c.Paths += len(e.Paths)
			// the channels are told apart by their element type: error / Impl / struct{}
			chanKind := func(ev *Ev) string {
				if len(ev.Args) == 0 {
					return ""
				}
				ch, ok := ev.Args[0].V.Type().Underlying().(*types.Chan)
				if !ok {
					return ""
				}
				switch {
				case types.Identical(ch.Elem(), types.Universe.Lookup("error").Type()):
					return "err"
				case isNamed(ch.Elem(), "client", "Impl"):
					return "impl"
				}
				if st, ok := ch.Elem().Underlying().(*types.Struct); ok && st.NumFields() == 0 {
					return "done"
				}
				return ""
			}
			// does getFirst end on the number of members of the collected error list?
			byMembers := false
			instrs(getFirst, func(in ssa.Instruction) {
				if b, ok := in.(*ssa.BinOp); ok && (b.Op == token.EQL || b.Op == token.GEQ) {
					for _, pr := range [][2]ssa.Value{{b.X, b.Y}, {b.Y, b.X}} {
						la, ok1 := lenArg(pr[0])
						lb, ok2 := lenArg(pr[1])
						if ok1 && ok2 && lb == ssa.Value(param(getFirst, 1)) {
							if call, ok := la.(*ssa.Call); ok && strings.HasSuffix(calleeName(&call.Call), ".Errors") {
								byMembers = true
							}
						}
					}
				}
			})
			for i := range e.Paths {
				p := &e.Paths[i]
				l := p.Labels()
				ok := false
				switch {
				case len(l) == 1 && strings.HasPrefix(l[0], "send:") && chanKind(&p.Trace[0]) == "err":
					ok = true
					if byMembers {
						// the list flattens a member that is itself a list: each failure must add exactly one member
						v := p.Trace[0].Args[1].V
						if mi, isMI := v.(*ssa.MakeInterface); isMI {
							v = mi.X
						}
						plain := isCallNamed(v, "fmt.Errorf") || isCallNamed(v, "errors.New")
						c.Check(plain, "C18.getfirst", fnName(body), "a failed client type reports one plain error (one member of the collected list)", P.Pos(posOf(p.Trace[0].In)),
							"getFirst ends when the list has len(types) members and errlist flattens nested lists: forwarding "+Expr(v)+" unchanged can add more than one member, after which the count never equals len(types) and getFirst blocks")
					}
				case len(l) == 1 && strings.HasPrefix(l[0], "select:send:") && chanKind(&p.Trace[0]) == "impl":
					ok = true
				case len(l) == 2 && strings.HasPrefix(l[0], "select:recv:") && chanKind(&p.Trace[0]) == "done" && strings.HasSuffix(l[1], ".Close"):
					ok = true
				}
				c.Check(ok, "C18.getfirst", fnName(body), "error on errC, or Impl offered / closed when nobody waits", P.Pos(body.Pos()), "path: "+p.String())
			}
		}
	}
}

// ctxFromParam: the context value is a context.Context parameter of the enclosing
// function, a variable captured from one, or derived from one by context.With*.
func ctxFromParam(v ssa.Value, d int) bool {
	if d > 8 {
		return false
	}
	switch x := v.(type) {
	case *ssa.Parameter:
		return strings.HasSuffix(x.Type().String(), "context.Context")
	case *ssa.FreeVar:
		if b := bindingOf(x); b != nil {
			return ctxFromParam(b, d+1)
		}
	case *ssa.UnOp:
		if al, ok := x.X.(*ssa.Alloc); ok {
			if s := singleStore(al); s != nil {
				return ctxFromParam(s, d+1)
			}
		}
		if fv, ok := x.X.(*ssa.FreeVar); ok {
			if b := bindingOf(fv); b != nil {
				if al, ok := b.(*ssa.Alloc); ok {
					if s := singleStore(al); s != nil {
						return ctxFromParam(s, d+1)
					}
				}
			}
		}
	case *ssa.Alloc:
		if s := singleStore(x); s != nil {
			return ctxFromParam(s, d+1)
		}
	case *ssa.Extract:
		if call, ok := x.Tuple.(*ssa.Call); ok && x.Index == 0 {
			switch calleeName(&call.Call) {
			case "context.WithCancel", "context.WithTimeout", "context.WithDeadline":
				return ctxFromParam(call.Call.Args[0], d+1)
			}
		}
	case *ssa.Call:
		if calleeName(&x.Call) == "context.WithValue" {
			return ctxFromParam(x.Call.Args[0], d+1)
		}
	case *ssa.Phi:
		for _, e := range x.Edges {
			if !ctxFromParam(e, d+1) {
				return false
			}
		}
		return len(x.Edges) > 0
	}
	return false
}
