package main

import (
	"fmt"
	"go/constant"
	"go/token"
	"go/types"
	"os"
	"strings"

	"golang.org/x/tools/go/ssa"
)

// ---------- helpers shared by the subscribe rules (C04, C05, C07, C08, C14) ----------

// reachesStatic reports whether fn (or a closure nested in it) statically calls target,
// following static callees inside the same package.
func reachesStatic(fn, target *ssa.Function) bool {
	seen := map[*ssa.Function]bool{}
	var w func(f *ssa.Function) bool
	w = func(f *ssa.Function) bool {
		if f == nil || seen[f] {
			return false
		}
		seen[f] = true
		if f == target {
			return true
		}
		for _, c := range callsIn(f) {
			if cal := staticCallee(c.Common()); cal != nil {
				if cal == target {
					return true
				}
				if cal.Pkg == fn.Pkg && w(cal) {
					return true
				}
			}
			// closures passed as arguments / bound method values
			for _, a := range c.Common().Args {
				if mc, ok := unwrap(a).(*ssa.MakeClosure); ok && w(mc.Fn.(*ssa.Function)) {
					return true
				}
			}
		}
		for _, a := range f.AnonFuncs {
			if w(a) {
				return true
			}
		}
		return false
	}
	return w(fn)
}

// goTarget returns the function started by a go instruction (static or closure).
func goTarget(g *ssa.Go) *ssa.Function { return staticCallee(&g.Call) }

// pbConst returns the int value of a constant declared in proto/gnmi.
func pbConst(p *Prog, name string) (int64, bool) {
	sp := p.pkg("proto/gnmi")
	if sp == nil {
		return 0, false
	}
	c, ok := sp.Members[name].(*ssa.NamedConst)
	if !ok {
		return 0, false
	}
	return constant.Int64Val(c.Value.Value)
}

// isNamed reports whether t (after pointer deref) is the named type pkg.name (pkg relative to module).
func isNamed(t types.Type, pkg, name string) bool {
	n, ok := deref(t).(*types.Named)
	if !ok {
		if a, ok2 := deref(t).(*types.Alias); ok2 {
			n, ok = types.Unalias(a).(*types.Named)
		}
		if !ok {
			return false
		}
	}
	if n.Obj().Pkg() == nil {
		return false
	}
	nm := n.Obj().Name()
	if ref, ok := canonType[n.Obj()]; ok {
		nm = ref
	}
	if nm != name {
		return false
	}
	pp := n.Obj().Pkg().Path()
	return pp == pkg || pp == modPath+"/"+pkg
}

// isSyncMarkerInsert reports whether ev is Queue.Insert(syncMarker{}).
func isQueueInsert(ev *Ev) bool { return ev.Label == "call:(*coalesce.Queue).Insert" }
func isMarkerInsert(ev *Ev) bool {
	if !isQueueInsert(ev) || len(ev.Args) < 2 {
		return false
	}
	return isNamed(unwrap(ev.Args[1].V).Type(), "subscribe", "syncMarker")
}

// isStreamInvoke reports whether the call is an interface invoke of method name on a gRPC stream.
func isStreamInvoke(c *ssa.CallCommon, name string) bool {
	if !c.IsInvoke() || c.Method.Name() != name {
		return false
	}
	ts := types.TypeString(c.Value.Type(), nil)
	return strings.Contains(ts, "google.golang.org/grpc.") || strings.Contains(ts, "GNMI_Subscribe")
}

func evIsStream(ev *Ev, name string) bool {
	ci, ok := ev.In.(ssa.CallInstruction)
	return ok && isStreamInvoke(ci.Common(), name)
}

// modeCond folds comparisons of the subscription mode with a SubscriptionList_* constant.
func modeCond(mode int64) func(v ssa.Value) (bool, bool) {
	return func(v ssa.Value) (bool, bool) {
		b, ok := v.(*ssa.BinOp)
		if !ok || (b.Op != token.EQL && b.Op != token.NEQ) {
			return false, false
		}
		for _, pair := range [][2]ssa.Value{{b.X, b.Y}, {b.Y, b.X}} {
			if c, ok := constInt(pair[1]); ok && isNamed(pair[1].Type(), "proto/gnmi", "SubscriptionList_Mode") {
				if _, isC := pair[0].(*ssa.Const); isC {
					continue
				}
				if b.Op == token.EQL {
					return mode == c, true
				}
				return mode != c, true
			}
		}
		return false, false
	}
}

// callBoolAtom folds the result of a static call to the named function to val.
func isCallNamed(v ssa.Value, name string) bool {
	c, ok := v.(*ssa.Call)
	return ok && calleeName(&c.Call) == name
}

func init() {
	register(&propDef{
		ID:       "C04",
		Explain:  "Decided (structural necessary conditions): in Server.Subscribe the streaming registration (addSubscription -> match.AddQuery for every subscription with a path) precedes the start of the cache walk on every STREAM path; the remove function is only deferred (never run before the RPC ends); exactly one sync marker per walk, after the last Cache.Query and never on an error path, or exactly one before registration for updates_only; the walk and the feed enqueue leaf handles (not value snapshots) and the sender reads the value at send time; walk, feed and sender share one queue; the cache writes the tree before notifying the feed. Also decided (shared clauses): coalesce.next forgets the dequeued key (evaluated with 1 and 2 queued items), Target.Reset / Cache.Remove delete before they announce and announce what they deleted, removeQuery prunes a node only when it has neither clients nor children, every feed argument in Target.GnmiUpdate is the result of a gnmiUpdate/gnmiRemove call made earlier on the same path. Round-3 additions: the wake-up token and wait set of the coalescing queue (C11.token / wait-set, borrowed: a lost wake-up leaves the sender asleep with changes pending); a deleted leaf keeps its value for the handles still queued (who-may-write table of a node's content). Round-4 additions (borrowed from C03): the handle announced for a change is the tree's own node (never a detached copy), value.Equal never hides a change, the announced delete path names the removed leaf; every subscription of the request is walked before the marker (two-subscription replay). Round-5 additions: the all-targets snapshot walk runs under Cache.mu (a Remove cannot be announced in the middle of a target's leaves); the send timer is disarmed whenever nothing is being sent (an idle healthy stream is not timed out); a coalesced response carries the whole cached notification.",
		NotCover: "convergence of the subscriber's view under all interleavings, delete/re-add races, behaviour of ctree/match/coalesce themselves (C06, C10, C11)",
		Run:      runC04,
	})
}

func runC04(c *Ctx) {
	P := c.P
	subscribe := P.Method("subscribe", "Server", "Subscribe")
	addSub := P.Func("subscribe", "addSubscription")
	procSub := P.Method("subscribe", "Server", "processSubscription")
	addQuery := P.Method("match", "Match", "AddQuery")
	cacheQuery := P.Method("cache", "Cache", "Query")
	sendRes := P.Method("subscribe", "Server", "sendStreamingResults")
	for n, f := range map[string]*ssa.Function{"subscribe.(*Server).Subscribe": subscribe, "subscribe.addSubscription": addSub,
		"subscribe.(*Server).processSubscription": procSub, "match.(*Match).AddQuery": addQuery, "cache.(*Cache).Query": cacheQuery,
		"subscribe.(*Server).sendStreamingResults": sendRes} {
		if f == nil {
			c.Unresolved("C04.anchors", n)
		}
	}
	stream, ok := pbConst(P, "SubscriptionList_STREAM")
	if !ok {
		c.Unresolved("C04.anchors", "proto/gnmi.SubscriptionList_STREAM")
	}
	if len(c.Unres) > 0 {
		return
	}
	c.Analysed(fnName(subscribe))
	c.Analysed(fnName(addSub))
	c.Analysed(fnName(procSub))

	// shared clauses the convergence of a stream depends on
	c.Rule("C04.requeue", "coalesce.next forgets the key it dequeues on every path, so a change arriving while the previous value of the leaf is being sent is queued again (otherwise the subscriber never converges to the newest value)")
	queueNextRepr(c, "C04.requeue")
	resetRemoveAnnounce(c, "C04.reset-announce")
	contentWriters(c, "C04.handles-keep-value")
	walkExcl(c, "C04.walk-excl")
	c.Borrow("C08", map[string]string{"C08.timer": "C04.timer"}, "a send timer left armed while nothing is being sent ends a healthy STREAM subscription with a timeout: every later change is lost to that subscriber")
	c.Borrow("C07", map[string]string{"C07.resp-faithful": "C04.resp-faithful"}, "'coalesced into a later message carrying that leaf's newest value': the message is the whole cached notification (all updates of an atomic group), also when a duplicate count is attached")
	c.Borrow("C11", map[string]string{"C11.token": "C04.wakeup", "C11.wait-set": "C04.wait-set"}, "a lost wake-up leaves the sender asleep with changes pending: the subscriber never converges")
	c.Borrow("C03", map[string]string{"C03.write-then-return": "C04.leaf-handle", "C03.equal-sound": "C04.change-not-hidden", "C03.delete-path": "C04.delete-path"}, "the queue holds leaf handles and the sender reads the value at send time: the handle announced for a change must be the tree's own node (a detached copy goes stale and is queued beside the real node), and the event-driven suppression may hide only changes that leave the value equal")
	c.Rule("C04.registration-kept", "a stream's registration survives the end of other streams: removeQuery prunes a node only when it holds neither clients nor children (a pruned node silently stops every later change from reaching the subscribers registered below it)")
	removeQueryPrune(c, "C04.registration-kept")
	c.Rule("C04.reg-before-walk", "on every path of Server.Subscribe in STREAM mode, a call that registers the subscription with the match tree (reaches match.AddQuery) precedes every `go` of a function that walks the cache (reaches Cache.Query); STREAM paths that start a walk or the sender contain a registration")
	c.Rule("C04.reg-all", "addSubscription calls match.AddQuery once for every subscription whose path is non-nil (the only skipped subscriptions are those with a nil path)")
	c.Rule("C04.remove-late", "the remove function returned by the registration is used only as the operand of a defer in Subscribe (never called before the RPC ends) and the defer is present on every path that registered")
	c.Rule("C04.one-sync", "STREAM: updates_only => exactly one Insert(syncMarker) in Subscribe, before registration, and no walk; otherwise no marker in Subscribe and exactly one walk. processSubscription: at most one marker per path, after the last Cache.Query/Insert, never reachable from the true edge of an error check")
	c.Rule("C04.handles", "the walk visitor inserts its *ctree.Leaf parameter (not the value), Server.Update hands the leaf to UpdateNotification, and sendSubscribeResponse reads (*Leaf).Value() in the send path")
	c.Rule("C04.same-fifo", "the queue registered with the match client, the queue the walk inserts into and the queue the sender drains are the same *coalesce.Queue of the RPC's streamClient")

	isReg := func(ev *Ev) bool {
		ci, ok := ev.In.(*ssa.Call)
		if !ok || !strings.HasPrefix(ev.Label, "call:") {
			return false
		}
		f := staticCallee(&ci.Call)
		return f != nil && (f == addQuery || f == addSub)
	}
	isWalkGo := func(ev *Ev) bool {
		g, ok := ev.In.(*ssa.Go)
		if !ok {
			return false
		}
		f := goTarget(g)
		return f != nil && reachesStatic(f, cacheQuery)
	}
	isSenderGo := func(ev *Ev) bool {
		g, ok := ev.In.(*ssa.Go)
		if !ok {
			return false
		}
		f := goTarget(g)
		return f != nil && (f == sendRes || reachesStatic(f, sendRes))
	}
	uoName := "(*proto/gnmi.SubscriptionList).GetUpdatesOnly"

	// ---- Subscribe in STREAM mode, updates_only on/off
	for _, uo := range []bool{false, true} {
		e := &PPA{
			Cond: func(e *PPA, st *State, rv RV) (bool, bool) {
				if v, ok := modeCond(stream)(rv.V); ok {
					return v, true
				}
				if isCallNamed(rv.V, uoName) {
					return uo, true
				}
				return false, false
			},
			// a constructor of the match client (newMatchClient(&c)) is entered: the queue it is given is what counts
			Inline: func(fr *Frame, call ssa.CallInstruction, callee *ssa.Function) bool {
				if pkgPathOf(callee) != pkgPathOf(subscribe) || callee.Parent() != nil || isExportedFn(callee) || len(callee.Blocks) == 0 {
					return false
				}
				rs := callee.Signature.Results()
				return rs.Len() == 1 && isNamed(deref(rs.At(0).Type()), "subscribe", "matchClient")
			},
			Watch: func(ev *Ev) bool {
				return isReg(ev) || isWalkGo(ev) || isSenderGo(ev) || isQueueInsert(ev) || ev.Deferred || strings.HasPrefix(ev.Label, "recv:") ||
					strings.HasPrefix(ev.Label, "store:subscribe.") || ev.Label == "call:coalesce.NewQueue" || strings.HasPrefix(ev.Label, "go:")
			},
		}
		e.Run(subscribe)
		c.Paths += len(e.Paths)
		c.Scen++
		scen := fmt.Sprintf("STREAM,updates_only=%v", uo)
		if e.Overflow {
			c.Unknown("C04.reg-before-walk", fnName(subscribe), scen, "", "path overflow")
			continue
		}
		nReg, nStreamPaths := 0, 0
		for _, p := range e.Paths {
			if p.End != "return" {
				continue
			}
			reg := p.Index(0, isReg)
			walk := p.Index(0, isWalkGo)
			sender := p.Index(0, isSenderGo)
			if reg < 0 && walk < 0 && sender < 0 {
				continue // rejected before any goroutine (validation / ACL errors)
			}
			nStreamPaths++
			pos := ""
			if reg >= 0 {
				nReg++
				pos = P.Pos(posOf(p.Trace[reg].In))
			}
			ok := reg >= 0 && (walk < 0 || reg < walk)
			detail := "registration precedes walk"
			if !ok {
				detail = "path: " + p.String()
				if walk >= 0 {
					pos = P.Pos(posOf(p.Trace[walk].In))
				}
			}
			c.Check(ok, "C04.reg-before-walk", fnName(subscribe), scen, pos, detail)

			// remove-late: the deferred call of the registration's result, after the receive from errC
			if reg >= 0 {
				regCall := p.Trace[reg].In.(*ssa.Call)
				okDefer := false
				early := false
				for i := range p.Trace {
					ev := &p.Trace[i]
					if ev.Fn.V == ssa.Value(regCall) {
						if ev.Deferred {
							okDefer = true
						} else {
							early = true
						}
					}
				}
				onlyDefer := true
				if regCall.Referrers() != nil {
					for _, r := range *regCall.Referrers() {
						switch x := r.(type) {
						case *ssa.Defer:
							if x.Call.Value != ssa.Value(regCall) {
								onlyDefer = false
							}
						case *ssa.DebugRef, *ssa.Return:
							// returned by an extracted helper: its use is judged on the paths above
						default:
							onlyDefer = false
						}
					}
				}
				c.Check(okDefer && !early && onlyDefer, "C04.remove-late", fnName(subscribe), scen, P.Pos(regCall.Pos()),
					fmt.Sprintf("deferred=%v calledEarly=%v onlyUseIsDefer=%v", okDefer, early, onlyDefer))
			}
			// one-sync
			markers := p.Count(isMarkerInsert)
			walks := p.Count(isWalkGo)
			if uo {
				mi := p.Index(0, isMarkerInsert)
				okS := markers == 1 && walks == 0 && reg >= 0 && mi < reg
				c.Check(okS, "C04.one-sync", fnName(subscribe), scen, pos, fmt.Sprintf("markers=%d walks=%d markerBeforeRegistration=%v", markers, walks, mi >= 0 && mi < reg))
			} else {
				okS := markers == 0 && walks == 1
				c.Check(okS, "C04.one-sync", fnName(subscribe), scen, pos, fmt.Sprintf("markers=%d walks=%d", markers, walks))
			}
			// same-fifo
			var q, mq RV
			var walkArg, sendArg RV
			for i := range p.Trace {
				ev := &p.Trace[i]
				switch {
				case ev.Label == "store:subscribe.streamClient.queue":
					q = ev.Args[1]
				case ev.Label == "store:subscribe.matchClient.q":
					mq = ev.Args[1]
				case isWalkGo(ev) && len(ev.Args) > 1:
					walkArg = ev.Args[len(ev.Args)-1]
				case isSenderGo(ev) && len(ev.Args) > 1:
					sendArg = ev.Args[len(ev.Args)-1]
				}
			}
			okQ := q.V != nil && mq == q && isCallNamed(q.V, "coalesce.NewQueue") && sendArg.V != nil && (walk < 0 || walkArg == sendArg)
			c.Check(okQ, "C04.same-fifo", fnName(subscribe), scen, pos, fmt.Sprintf("streamClient.queue=%s matchClient.q=%s walkArg=%s senderArg=%s", Expr(q.V), exprOrNil(mq.V), exprOrNil(walkArg.V), exprOrNil(sendArg.V)))
		}
		c.Floor("C04.reg-before-walk/"+scen, nStreamPaths, 1)
		_ = nReg
	}

	// ---- addSubscription registers every subscription with a non-nil path
	{
		getPath := "(*proto/gnmi.Subscription).GetPath"
		e := &PPA{
			MaxVisits: 3,
			Cond: func(e *PPA, st *State, rv RV) (bool, bool) {
				if b, ok := rv.V.(*ssa.BinOp); ok && (b.Op == token.EQL || b.Op == token.NEQ) && isNilConst(b.Y) && isCallNamed(e.Resolve(st, RV{rv.F, b.X}).V, getPath) {
					return b.Op == token.NEQ, true // scenario: every path is non-nil
				}
				return false, false
			},
			Watch: func(ev *Ev) bool { return ev.Label == "call:"+getPath || ev.Label == "call:(*match.Match).AddQuery" },
		}
		e.Run(addSub)
		c.Paths += len(e.Paths)
		c.Scen++
		n := 0
		for _, p := range e.Paths {
			it := p.Count(lbl("call:" + getPath))
			aq := p.Count(lbl("call:(*match.Match).AddQuery"))
			if it > 0 {
				n++
			}
			c.Check(it == aq, "C04.reg-all", fnName(addSub), "AddQuery per subscription with a path", P.Pos(addSub.Pos()), fmt.Sprintf("iterations=%d AddQuery calls=%d", it, aq))
		}
		c.Floor("C04.reg-all", n, 1)
	}

	markerPlacement(c, "C04.one-sync")

	// ---- handles
	{
		// visitor passed to Cache.Query by processSubscription (or a helper it delegates the walk to)
		found := 0
		for _, vf := range walkVisitors(P, procSub, cacheQuery) {
			c.Analysed(fnName(vf))
			leafP := leafParam(vf)
			for _, g := range withAnon(vf) {
				for _, ic := range callsIn(g) {
					if calleeName(ic.Common()) != "(*coalesce.Queue).Insert" {
						continue
					}
					found++
					arg := unwrap(ic.Common().Args[1])
					okH := leafP != nil && arg == leafP
					c.Check(okH, "C04.handles", fnName(vf), "walk visitor inserts its leaf handle", P.Pos(ic.Pos()), "inserted: "+Expr(arg))
				}
			}
		}
		c.Floor("C04.handles/visitor", found, 1)
		// Server.Update passes the leaf to UpdateNotification
		upd := P.Method("subscribe", "Server", "Update")
		un := P.Func("subscribe", "UpdateNotification")
		if upd == nil || un == nil {
			c.Unresolved("C04.handles", "subscribe.(*Server).Update / UpdateNotification")
		} else {
			c.Analysed(fnName(upd))
			n := 0
			for _, ci := range callsIn(upd) {
				if staticCallee(ci.Common()) == un {
					n++
					arg := unwrap(ci.Common().Args[1])
					c.Check(arg == ssa.Value(param(upd, 1)), "C04.handles", fnName(upd), "feed forwards the leaf handle to the match tree", P.Pos(ci.Pos()), "v argument: "+Expr(arg))
				}
			}
			c.Floor("C04.handles/update", n, 1)
		}
		// sendSubscribeResponse obtains the notification by (*Leaf).Value() in the send path
		ssr := P.Method("subscribe", "Server", "sendSubscribeResponse")
		msr := P.Method("subscribe", "Server", "MakeSubscribeResponse")
		if ssr == nil || msr == nil {
			c.Unresolved("C04.handles", "subscribe.(*Server).sendSubscribeResponse / MakeSubscribeResponse")
		} else {
			c.Analysed(fnName(ssr))
			n := 0
			for _, ci := range callsIn(ssr) {
				if staticCallee(ci.Common()) == msr {
					n++
					arg := unwrap(ci.Common().Args[1])
					c.Check(isCallNamed(arg, "(*ctree.Leaf).Value"), "C04.handles", fnName(ssr), "value read from the leaf at send time", P.Pos(ci.Pos()), "argument: "+Expr(arg))
				}
			}
			c.Floor("C04.handles/send", n, 1)
		}
	}

	// ---- tree-then-feed in the cache (shared with C03): the feed callback gets the leaf returned by gnmiUpdate
	treeThenFeed(c, "C04.tree-then-feed")
}

func exprOrNil(v ssa.Value) string {
	if v == nil {
		return "<none>"
	}
	return Expr(v)
}

// treeThenFeed checks in (*cache.Target).GnmiUpdate that every invocation of the
// client callback with a leaf from gnmiUpdate is data-dependent on (hence after) that call.
func treeThenFeed(c *Ctx, rule string) {
	P := c.P
	c.Rule(rule, "in Target.GnmiUpdate every call of the feed callback passes a value defined by the result of gnmiUpdate/gnmiRemove (the tree is written before the feed is told)")
	gu := P.Method("cache", "Target", "GnmiUpdate")
	clientF := P.Field("cache", "Target", "client")
	if gu == nil || clientF == nil {
		c.Unresolved(rule, "cache.(*Target).GnmiUpdate / Target.client")
		return
	}
	c.Analysed(fnName(gu))
	// path-based, helpers inlined: the argument of every feed call resolves to the result of a
	// gnmiUpdate / gnmiRemove call made earlier on the same path
	isFeed := func(ev *Ev) bool {
		return strings.HasPrefix(ev.Label, "call:dyn:") && ev.Fn.V != nil && fieldOf(ev.Fn.V) == clientF
	}
	isProd := func(ev *Ev) bool {
		return ev.Label == "call:(*cache.Target).gnmiUpdate" || ev.Label == "call:(*cache.Target).gnmiRemove"
	}
	e := &PPA{MaxVisits: 2, Watch: func(ev *Ev) bool { return isFeed(ev) || isProd(ev) }}
	e.Run(gu)
	c.Paths += len(e.Paths)
	producers := map[ssa.Instruction]bool{}
	type verdict struct {
		ok  bool
		src string
		pos string
	}
	sites := map[ssa.Instruction]*verdict{}
	for i := range e.Paths {
		p := &e.Paths[i]
		for j := range p.Trace {
			ev := &p.Trace[j]
			if !isFeed(ev) || len(ev.Args) != 1 {
				continue
			}
			src := originCall(ev.Args[0].V, 0)
			ok := src == "(*cache.Target).gnmiUpdate" || src == "(*cache.Target).gnmiRemove"
			if ok {
				// the producing call precedes the feed call on this path
				oc := originCallInstr(ev.Args[0].V, 0)
				found := false
				for k := 0; k < j; k++ {
					if p.Trace[k].In == ssa.Instruction(oc) {
						found = true
					}
				}
				ok = oc != nil && found
				if ok {
					producers[oc] = true
				}
			}
			v := sites[ev.In]
			if v == nil {
				v = &verdict{ok: true, pos: P.Pos(posOf(ev.In))}
				sites[ev.In] = v
			}
			if !ok {
				v.ok = false
				v.src = src + "; path: " + p.String()
			} else if v.src == "" {
				v.src = src
			}
		}
	}
	for in, v := range sites {
		c.Check(v.ok, rule, fnName(in.Parent()), "feed argument "+Expr(in.(ssa.CallInstruction).Common().Args[0]), v.pos, "argument originates from "+v.src)
	}
	c.Floor(rule+"/producing-calls", len(producers), 3)
}

func originCallInstr(v ssa.Value, d int) *ssa.Call {
	if d > 10 {
		return nil
	}
	switch x := v.(type) {
	case *ssa.Extract:
		return originCallInstr(x.Tuple, d+1)
	case *ssa.Call:
		return x
	case *ssa.UnOp:
		return originCallInstr(x.X, d+1)
	case *ssa.IndexAddr:
		return originCallInstr(x.X, d+1)
	case *ssa.Index:
		return originCallInstr(x.X, d+1)
	case *ssa.Next:
		return originCallInstr(x.Iter, d+1)
	case *ssa.Range:
		return originCallInstr(x.X, d+1)
	case *ssa.ChangeType:
		return originCallInstr(x.X, d+1)
	case *ssa.Phi:
		var res *ssa.Call
		for _, e := range x.Edges {
			if _, isC := e.(*ssa.Const); isC {
				continue
			}
			o := originCallInstr(e, d+1)
			if res == nil {
				res = o
			} else if res != o {
				return nil
			}
		}
		return res
	}
	return nil
}

// originCall follows extracts / range-next / index / φ back to the call that produced a value.
func originCall(v ssa.Value, d int) string {
	if d > 10 {
		return "?"
	}
	switch x := v.(type) {
	case *ssa.Extract:
		return originCall(x.Tuple, d+1)
	case *ssa.Call:
		return calleeName(&x.Call)
	case *ssa.UnOp:
		return originCall(x.X, d+1)
	case *ssa.IndexAddr:
		return originCall(x.X, d+1)
	case *ssa.Index:
		return originCall(x.X, d+1)
	case *ssa.Next:
		return originCall(x.Iter, d+1)
	case *ssa.Range:
		return originCall(x.X, d+1)
	case *ssa.ChangeType:
		return originCall(x.X, d+1)
	case *ssa.Phi:
		res := ""
		for _, e := range x.Edges {
			if _, isC := e.(*ssa.Const); isC {
				continue
			}
			o := originCall(e, d+1)
			if res == "" {
				res = o
			} else if res != o {
				return "mixed(" + res + "," + o + ")"
			}
		}
		return res
	}
	return "other:" + Expr(v)
}

// markerPlacement checks processSubscription (shared by C04 and C05): at most one sync
// marker per path, after the last Query/Insert, never reachable from an error edge.
func markerPlacement(c *Ctx, rule string) {
	P := c.P
	procSub := P.Method("subscribe", "Server", "processSubscription")
	if procSub == nil {
		c.Unresolved(rule, "subscribe.(*Server).processSubscription")
		return
	}
	c.Analysed(fnName(procSub))
	// ---- processSubscription: marker placement
	{
		e := &PPA{
			MaxVisits: 3,
			Inline: func(fr *Frame, call ssa.CallInstruction, callee *ssa.Function) bool {
				return callee.Parent() == procSub
			},
			Watch: func(ev *Ev) bool {
				return isQueueInsert(ev) || ev.Label == "call:(*cache.Cache).Query" || strings.HasPrefix(ev.Label, "send:")
			},
		}
		e.Run(procSub)
		c.Paths += len(e.Paths)
		c.Scen++
		if e.Overflow {
			c.Unknown(rule, fnName(procSub), "marker placement", "", "path overflow")
		}
		var markerInstr ssa.Instruction
		nMarkerPaths := 0
		for _, p := range e.Paths {
			m := p.Count(isMarkerInsert)
			last := -1
			for i := range p.Trace {
				if isQueueInsert(&p.Trace[i]) || p.Trace[i].Label == "call:(*cache.Cache).Query" {
					last = i
				}
			}
			ok := m <= 1
			if m == 1 {
				nMarkerPaths++
				mi := p.Index(0, isMarkerInsert)
				markerInstr = p.Trace[mi].In
				ok = mi == last
			}
			c.Check(ok, rule, fnName(procSub), "at most one marker, after the last Query/Insert", P.Pos(procSub.Pos()), "path: "+p.String())
		}
		c.Floor(rule+"/processSubscription", nMarkerPaths, 1)
		// a failed step is never followed by the marker: on every path, once a test "err != nil" of an
		// error value came out true, no marker is inserted (helpers of the package entered)
		_ = markerInstr
		{
			e := &PPA{
				MaxVisits:     3,
				TraceBranches: true,
				Inline: func(fr *Frame, call ssa.CallInstruction, callee *ssa.Function) bool {
					return callee.Parent() == procSub
				},
				Watch: func(ev *Ev) bool { return isQueueInsert(ev) || ev.Label == "if" },
			}
			e.Run(procSub)
			c.Paths += len(e.Paths)
			c.Scen++
			errT := types.Universe.Lookup("error").Type()
			nChecks := 0
			for i := range e.Paths {
				p := &e.Paths[i]
				failed := -1
				for j := range p.Trace {
					ev := &p.Trace[j]
					if ev.Label != "if" || len(ev.Args) == 0 {
						continue
					}
					bo, ok := ev.Args[0].V.(*ssa.BinOp)
					if !ok || (bo.Op != token.NEQ && bo.Op != token.EQL) {
						continue
					}
					var x ssa.Value
					switch {
					case isNilConst(bo.Y):
						x = bo.X
					case isNilConst(bo.X):
						x = bo.Y
					}
					if x == nil || !types.Identical(x.Type(), errT) {
						continue
					}
					if ev.Taken == (bo.Op == token.NEQ) && failed < 0 {
						failed = j
					}
				}
				if failed < 0 {
					continue
				}
				nChecks++
				mi := p.Index(failed, isMarkerInsert)
				c.Check(mi < 0, rule, fnName(procSub), "no marker after a failed step", P.Pos(procSub.Pos()), "path: "+p.String())
			}
			c.Floor(rule+"/error-checks", nChecks, 1)
		}
	}
	// ---- every subscription of the request is walked: replayed with two subscriptions (loop folded), not updates_only
	{
		fSubs := P.Field("proto/gnmi", "SubscriptionList", "Subscription")
		cls := func(e *PPA, st *State, rv RV) string {
			r := e.Resolve(st, rv)
			call, ok := r.V.(*ssa.Call)
			if !ok {
				return ""
			}
			if calleeName(&call.Call) == "(*proto/gnmi.SubscriptionList).GetUpdatesOnly" {
				return "UPDONLY"
			}
			if la, ok := lenArg(call); ok {
				x := e.Resolve(st, RV{r.F, la})
				if (fSubs != nil && loadOfField(x.V, fSubs)) || isCallNamed(x.V, "(*proto/gnmi.SubscriptionList).GetSubscription") {
					return "NSUBS"
				}
			}
			return ""
		}
		at := &Atoms{Class: cls, Bool: map[string]bool{"UPDONLY": false}, Int: map[string]int64{"NSUBS": 2}}
		e := &PPA{
			Cond:      at.Cond,
			MaxVisits: 4,
			Inline: func(fr *Frame, call ssa.CallInstruction, callee *ssa.Function) bool {
				return callee.Parent() == procSub
			},
			Watch: func(ev *Ev) bool {
				return isQueueInsert(ev) || ev.Label == "call:(*cache.Cache).Query"
			},
		}
		if os.Getenv("VERIF_DEBUG") != "" {
			e.TraceBranches = true
			w := e.Watch
			e.Watch = func(ev *Ev) bool { return w(ev) || ev.Label == "if" }
		}
		e.Run(procSub)
		c.Paths += len(e.Paths)
		c.Scen++
		n := 0
		for _, p := range e.Paths {
			if p.Count(isMarkerInsert) != 1 {
				continue
			}
			n++
			q := p.Count(lbl("call:(*cache.Cache).Query"))
			if os.Getenv("VERIF_DEBUG") != "" && q != 2 {
				for _, ev := range p.Trace {
					if ev.Label == "if" {
						fmt.Fprintf(os.Stderr, "  if %s -> %v @%s\n", Expr(ev.Args[0].V), ev.Taken, P.Pos(posOf(ev.In)))
					} else {
						fmt.Fprintf(os.Stderr, "  %s\n", ev.Label)
					}
				}
			}
			c.Check(q == 2, rule, fnName(procSub), "two subscriptions: the marker follows one Cache.Query per subscription", P.Pos(procSub.Pos()), fmt.Sprintf("%d queries before the marker; path: %s", q, p.String()))
		}
		c.Floor(rule+"/two-subscriptions", n, 1)
	}
}

// walkVisitors: the functions handed to Cache.Query as visitor by f or by same-package helpers
// f delegates to: function literals, named functions and bound methods (x.visit).
func walkVisitors(P *Prog, f, cacheQuery *ssa.Function) []*ssa.Function {
	var out []*ssa.Function
	seen := map[*ssa.Function]bool{}
	var scan func(g *ssa.Function, d int)
	scan = func(g *ssa.Function, d int) {
		if seen[g] || d > 2 {
			return
		}
		seen[g] = true
		for _, h := range withAnon(g) {
			for _, ci := range callsIn(h) {
				cal := staticCallee(ci.Common())
				if cal == cacheQuery {
					for _, a := range ci.Common().Args {
						switch x := unwrap(a).(type) {
						case *ssa.MakeClosure:
							fn := x.Fn.(*ssa.Function)
							if strings.HasSuffix(fn.Name(), "$bound") {
								for _, bc := range callsIn(fn) {
									if m := staticCallee(bc.Common()); m != nil && len(m.Blocks) > 0 {
										fn = m
									}
								}
							}
							out = append(out, fn)
						case *ssa.Function:
							if len(x.Blocks) > 0 {
								out = append(out, x)
							}
						}
					}
					continue
				}
				if cal != nil && cal.Pkg == f.Pkg && len(cal.Blocks) > 0 {
					scan(cal, d+1)
				}
			}
		}
	}
	scan(f, 0)
	return out
}

// leafParam: the *ctree.Leaf parameter of a visitor.
func leafParam(vf *ssa.Function) ssa.Value {
	for _, p := range vf.Params {
		if isNamed(p.Type(), "ctree", "Leaf") {
			return p
		}
	}
	return nil
}
