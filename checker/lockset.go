package main

// E3 — lockset / guarded-by analysis built on the path engine.

import (
	"fmt"
	"go/token"
	"go/types"
	"sort"
	"strings"

	"golang.org/x/tools/go/ssa"
)

type heldLock struct {
	base  RV
	field *types.Var
	mode  byte // 'R' or 'W'
	ver   int  // iteration in which the locked object was computed (objects of different iterations differ)
}

type lockReq struct {
	param int
	field *types.Var
	mode  byte
}

type lockAcq struct {
	param int
	field *types.Var
	mode  byte
}

// LockAudit is the result of analysing one package.
type LockAudit struct {
	c      *Ctx
	pkg    string
	guards map[*types.Var]*types.Var // guarded field -> lock field
	// Foreign marks guarded fields whose lock lives in a different object than
	// the field (e.g. connection.ref guarded by Manager.mu): any held lock of
	// that lock field satisfies the access.
	Foreign map[*types.Var]bool
	// NoPropagate reports an access without its lock in the function where it
	// occurs instead of turning it into a requirement on the callers.
	NoPropagate bool
	fns         []*ssa.Function
	paths       map[*ssa.Function][]Path
	roots       map[*ssa.Function]*Frame
	// per function summaries
	req      map[*ssa.Function]map[lockReq]string // requirement -> example access position
	acq      map[*ssa.Function]map[lockAcq]bool
	Findings []lockFinding
	Accesses int
	Guarded  int
}

type lockFinding struct {
	Kind string // unguarded | upgrade | reentrant | unreleased | entry-unlocked
	Fn   *ssa.Function
	Desc string
	Pos  token.Pos
	Path string
}

var lockOps = map[string][2]byte{
	"call:(*sync.Mutex).Lock":      {'W', '+'},
	"call:(*sync.Mutex).Unlock":    {'W', '-'},
	"call:(*sync.RWMutex).Lock":    {'W', '+'},
	"call:(*sync.RWMutex).Unlock":  {'W', '-'},
	"call:(*sync.RWMutex).RLock":   {'R', '+'},
	"call:(*sync.RWMutex).RUnlock": {'R', '-'},
}

func isLockOp(ev *Ev) bool { _, ok := lockOps[ev.Label]; return ok }

// mapOrigin returns the guarded-field load a map/slice value was read from.
func loadedField(e *PPA, st *State, rv RV) (RV, *types.Var) {
	for i := 0; i < 16; i++ {
		// a load of x.f is recognised before store-to-load forwarding replaces it by the stored value
		if u, ok := rv.V.(*ssa.UnOp); ok && u.Op == token.MUL {
			if fa, ok := e.resolveAddr(st, RV{rv.F, u.X}).V.(*ssa.FieldAddr); ok {
				ra := e.resolveAddr(st, RV{rv.F, u.X})
				return e.baseObj(st, RV{ra.F, fa.X}), fieldOf(fa)
			}
		}
		rv = e.Resolve(st, rv)
		switch v := rv.V.(type) {
		case *ssa.TypeAssert:
			rv = RV{rv.F, v.X}
		case *ssa.Extract:
			rv = RV{rv.F, v.Tuple}
		case *ssa.UnOp:
			if v.Op == token.MUL {
				if fa, ok := v.X.(*ssa.FieldAddr); ok {
					return e.baseObj(st, RV{rv.F, fa.X}), fieldOf(fa)
				}
			}
			return RV{}, nil
		default:
			return RV{}, nil
		}
	}
	return RV{}, nil
}

// NewLockAudit analyses all non-test functions of pkg.
// lockOwnerReads: guarded field -> functions in which an unguarded READ is accepted because they run
// only on the goroutine of the field's single writer chain (every store to the field is in one of these
// functions, all of them are reachable only synchronously from one entry point): a goroutine does not race
// with its own earlier writes, and the other goroutines only read.  Set by a rule around its audit.
var lockOwnerReads = map[*types.Var]map[*ssa.Function]bool{}

// ownerChain computes such a function set for field fld and entry point entry, or nil when a store to
// the field lies outside the entry's synchronous static closure or a member is also called from outside.
func ownerChain(P *Prog, pkg string, entry *ssa.Function, fld *types.Var) map[*ssa.Function]bool {
	set := map[*ssa.Function]bool{}
	for _, g := range staticClosure(entry) {
		set[g] = true
	}
	for _, f := range P.PkgFuncs(pkg) {
		if P.InTestFile(f) {
			continue
		}
		for _, g := range withAnon(f) {
			bad := false
			instrs(g, func(in ssa.Instruction) {
				if st, ok := in.(*ssa.Store); ok && fieldOf(st.Addr) == fld && !set[g] {
					bad = true
				}
				if _, isGo := in.(*ssa.Go); isGo && set[g] {
					// a goroutine started inside the chain is not on the owner's goroutine
					if cal := staticCallee(in.(*ssa.Go).Common()); cal != nil && set[cal] {
						bad = true
					}
				}
				if ci, ok := in.(ssa.CallInstruction); ok && !set[g] {
					if cal := staticCallee(ci.Common()); cal != nil && set[cal] && cal != entry {
						bad = true // a member with a caller outside the chain
					}
				}
			})
			if bad {
				return nil
			}
		}
	}
	for g := range set {
		if g != entry && g.Parent() == nil && isExportedFn(g) {
			return nil
		}
	}
	return set
}

func NewLockAudit(c *Ctx, pkg string, guards map[*types.Var]*types.Var, maxVisits int, foreign ...*types.Var) *LockAudit {
	return newLockAudit(c, pkg, guards, maxVisits, false, foreign...)
}

// NewLockAuditLocal is NewLockAudit without propagation of requirements to callers.
func NewLockAuditLocal(c *Ctx, pkg string, guards map[*types.Var]*types.Var, maxVisits int) *LockAudit {
	return newLockAudit(c, pkg, guards, maxVisits, true)
}

func newLockAudit(c *Ctx, pkg string, guards map[*types.Var]*types.Var, maxVisits int, noProp bool, foreign ...*types.Var) *LockAudit {
	la := &LockAudit{c: c, pkg: pkg, guards: guards, NoPropagate: noProp, Foreign: map[*types.Var]bool{}, paths: map[*ssa.Function][]Path{}, roots: map[*ssa.Function]*Frame{},
		req: map[*ssa.Function]map[lockReq]string{}, acq: map[*ssa.Function]map[lockAcq]bool{}}
	P := c.P
	for _, f := range foreign {
		la.Foreign[f] = true
	}
	for _, f := range P.PkgFuncs(pkg) {
		if P.InTestFile(f) || P.IsGenerated(f) {
			continue
		}
		if f.Parent() != nil && onlyInvokedInParent(f) {
			continue // analysed inlined into its parent, with the parent's lockset
		}
		la.fns = append(la.fns, f)
	}
	inPkg := map[*ssa.Function]bool{}
	for _, f := range la.fns {
		inPkg[f] = true
	}
	// helpers that release a lock their caller took (the reader->writer exchange split off into
	// its own function): their effect on the caller's lockset only makes sense inlined
	transfers := map[*ssa.Function]bool{}
	for _, f := range la.fns {
		if f.Parent() != nil || isExportedFn(f) {
			continue
		}
		held := map[string]int{}
		rel := false
		// a cheap syntactic pre-test in block order is not enough (defer, branches): replay one
		// enumeration without inlining and look for a release with nothing of that lock held
		pe := &PPA{NoAuto: true, MaxVisits: 2, Watch: func(ev *Ev) bool { return isLockOp(ev) }}
		pe.Run(f)
		for i := range pe.Paths {
			for k := range held {
				delete(held, k)
			}
			for j := range pe.Paths[i].Trace {
				ev := &pe.Paths[i].Trace[j]
				key := ""
				if len(ev.Args) > 0 {
					key = Expr(ev.Args[0].V)
				}
				if lockOps[ev.Label][1] == '+' {
					held[key]++
				} else {
					if held[key] == 0 {
						rel = true
					} else {
						held[key]--
					}
				}
			}
		}
		if rel {
			transfers[f] = true
		}
	}
	for _, f := range la.fns {
		if lockScoping(f) {
			transfers[f] = true
		}
	}
	// such a helper is analysed only inlined into its callers
	if len(transfers) > 0 {
		var keep []*ssa.Function
		for _, f := range la.fns {
			if !transfers[f] {
				keep = append(keep, f)
			}
		}
		la.fns = keep
	}
	for _, f := range la.fns {
		f := f
		e := &PPA{
			NoAuto:     true,
			TraceLoads: true,
			MaxVisits:  maxVisits,
			Inline: func(fr *Frame, call ssa.CallInstruction, callee *ssa.Function) bool {
				// closures of this function that are called or deferred here
				if callee.Parent() == fr.Fn || (callee.Parent() != nil && callee.Parent() == fr.Fn.Parent()) || transfers[callee] || lockScoping(callee) {
					return true
				}
				// the callback of a lock-scoping helper: a closure (or bound method) of a function further up the inlined chain
				if lockScoping(fr.Fn) {
					if callee.Synthetic != "" && strings.HasSuffix(callee.Name(), "$bound") {
						return true
					}
					for x := fr.Parent; x != nil; x = x.Parent {
						if callee.Parent() == x.Fn {
							return true
						}
					}
				}
				return false
			},
		}
		var mapEv func(ev *Ev) bool
		mapEv = func(ev *Ev) bool { return false }
		_ = mapEv
		e.Watch = func(ev *Ev) bool {
			if isLockOp(ev) {
				return true
			}
			if ev.Field != nil && (strings.HasPrefix(ev.Label, "load:") || strings.HasPrefix(ev.Label, "store:")) {
				_, ok := guards[ev.Field]
				return ok
			}
			if strings.HasPrefix(ev.Label, "mapupdate:") || ev.Label == "builtin:delete" {
				return true
			}
			if strings.HasPrefix(ev.Label, "call:dyn:") {
				return true
			}
			if strings.HasPrefix(ev.Label, "call:") || strings.HasPrefix(ev.Label, "go:") {
				if ci, ok := ev.In.(ssa.CallInstruction); ok {
					if cal := staticCallee(ci.Common()); cal != nil && inPkg[cal] {
						return true
					}
				}
			}
			return false
		}
		// the map-origin of mapupdate/delete must be computed while the state is alive:
		// piggy-back on Cond (called never for these) is not possible, so resolve structurally below.
		e.Run(f)
		c.Paths += len(e.Paths)
		if e.Overflow {
			la.Findings = append(la.Findings, lockFinding{Kind: "undecided", Fn: f, Desc: "path overflow", Pos: f.Pos()})
		}
		la.paths[f] = e.Paths
		la.roots[f] = e.root
		c.Analysed(fnName(f))
	}
	la.local()
	la.propagate()
	return la
}

// onlyInvokedInParent: the function literal is only ever called or deferred
// directly by the function that creates it (never stored, passed or started with go).
// lockScoping: an unexported function (or generic instance) of the module that takes a lock and, while
// holding it, calls a function-typed parameter (readLocked(&t.mu, func() T {...})).  Such a helper and the
// callback handed to it only make sense analysed inlined into the caller.
var lockScopingMemo = map[*ssa.Function]bool{}

func lockScoping(g *ssa.Function) bool {
	if g == nil || len(g.Blocks) == 0 || !strings.HasPrefix(pkgPathOf(g), modPath) {
		return false
	}
	if v, ok := lockScopingMemo[g]; ok {
		return v
	}
	name := g.Name()
	if g.Parent() != nil || (name != "" && name[0] >= 'A' && name[0] <= 'Z') {
		lockScopingMemo[g] = false
		return false
	}
	callsParam, locks := false, false
	instrs(g, func(in ssa.Instruction) {
		ci, ok := in.(ssa.CallInstruction)
		if !ok {
			return
		}
		if p, isP := ci.Common().Value.(*ssa.Parameter); isP && !ci.Common().IsInvoke() {
			if _, isSig := p.Type().Underlying().(*types.Signature); isSig {
				callsParam = true
			}
		}
		switch calleeName(ci.Common()) {
		case "(*sync.Mutex).Lock", "(*sync.RWMutex).Lock", "(*sync.RWMutex).RLock":
			// the lock itself is handed in by the caller (a pure scoping helper, not a method that guards its own state)
			if len(ci.Common().Args) == 1 {
				if _, isP := ci.Common().Args[0].(*ssa.Parameter); isP {
					locks = true
				}
			}
		}
		if staticCallee(ci.Common()) == g {
			callsParam = false
			locks = false
			lockScopingMemo[g] = false
		}
	})
	if v, ok := lockScopingMemo[g]; ok && !v {
		return false
	}
	lockScopingMemo[g] = callsParam && locks
	return callsParam && locks
}

func onlyInvokedInParent(f *ssa.Function) bool {
	found := false
	ok := true
	instrs(f.Parent(), func(in ssa.Instruction) {
		mc, isMC := in.(*ssa.MakeClosure)
		if !isMC || mc.Fn != ssa.Value(f) {
			// a closure without free variables is referenced as a plain function value
			return
		}
		found = true
		for _, r := range *mc.Referrers() {
			switch x := r.(type) {
			case *ssa.Call:
				if x.Call.Value != ssa.Value(mc) && !lockScoping(staticCallee(&x.Call)) {
					ok = false
				}
			case *ssa.Defer:
				if x.Call.Value != ssa.Value(mc) {
					ok = false
				}
			case *ssa.DebugRef:
			default:
				ok = false
			}
		}
	})
	if !found {
		// plain function value: look at direct references
		if f.Referrers() == nil {
			return false
		}
		for _, r := range *f.Referrers() {
			switch x := r.(type) {
			case *ssa.Call:
				if x.Call.Value != ssa.Value(f) {
					return false
				}
			case *ssa.Defer:
				if x.Call.Value != ssa.Value(f) {
					return false
				}
			default:
				return false
			}
			found = true
		}
	}
	return found && ok
}

func (la *LockAudit) addReq(f *ssa.Function, r lockReq, pos string) {
	if la.req[f] == nil {
		la.req[f] = map[lockReq]string{}
	}
	if _, ok := la.req[f][r]; !ok {
		la.req[f][r] = pos
	}
}

func paramIndex(root *Frame, rv RV) int {
	p, ok := rv.V.(*ssa.Parameter)
	if !ok || rv.F != root {
		// free variables of closures analysed standalone count as "captured", not params
		return -1
	}
	for i, q := range root.Fn.Params {
		if q == p {
			return i
		}
	}
	return -1
}

func holds(held []heldLock, base RV, field *types.Var, write bool) bool {
	for _, h := range held {
		if h.field == field && (h.base == base || base.V == nil) && (!write || h.mode == 'W') {
			return true
		}
	}
	return false
}

// walk replays a path, calling visit for every event with the locks held before it.
func (la *LockAudit) walk(f *ssa.Function, p *Path, visit func(ev *Ev, held []heldLock)) []heldLock {
	var held []heldLock
	for i := range p.Trace {
		ev := &p.Trace[i]
		if op, ok := lockOps[ev.Label]; ok {
			visit(ev, held)
			base, field := ev.Base, ev.Field
			if field == nil && len(ev.Args) > 0 {
				base = ev.Args[0] // a mutex reached other than as a struct field
			}
			if op[1] == '+' {
				held = append(held, heldLock{base, field, op[0], ev.Ver})
			} else {
				for j := len(held) - 1; j >= 0; j-- {
					if held[j].base == base && held[j].field == field && held[j].mode == op[0] {
						held = append(held[:j:j], held[j+1:]...)
						break
					}
				}
			}
			continue
		}
		visit(ev, held)
	}
	return held
}

// accessOf interprets an event as an access to a guarded field.
func (la *LockAudit) accessOf(ev *Ev) (base RV, field *types.Var, write, ok bool) {
	switch {
	case strings.HasPrefix(ev.Label, "load:"):
		if _, g := la.guards[ev.Field]; g {
			return ev.Base, ev.Field, false, true
		}
	case strings.HasPrefix(ev.Label, "store:"):
		if _, g := la.guards[ev.Field]; g {
			return ev.Base, ev.Field, true, true
		}
	case strings.HasPrefix(ev.Label, "mapupdate:"), ev.Label == "builtin:delete":
		// the map operand was loaded from a guarded field?
		if ev.Field != nil {
			if _, g := la.guards[ev.Field]; g {
				return ev.Base, ev.Field, true, true
			}
		}
	}
	return RV{}, nil, false, false
}

// structuralLoadedField is loadedField without a state (arguments are already resolved).
func structuralLoadedField(rv RV) (RV, *types.Var) {
	for i := 0; i < 16; i++ {
		switch v := rv.V.(type) {
		case *ssa.TypeAssert:
			rv = RV{rv.F, v.X}
		case *ssa.Extract:
			rv = RV{rv.F, v.Tuple}
		case *ssa.ChangeType:
			rv = RV{rv.F, v.X}
		case *ssa.Phi:
			// all edges must agree
			var b RV
			var f *types.Var
			for _, e := range v.Edges {
				bb, ff := structuralLoadedField(RV{rv.F, e})
				if ff == nil {
					continue
				}
				if f != nil && (ff != f) {
					return RV{}, nil
				}
				b, f = bb, ff
			}
			return b, f
		case *ssa.UnOp:
			if v.Op == token.MUL {
				if fa, ok := v.X.(*ssa.FieldAddr); ok {
					return baseOf(RV{rv.F, fa.X}), fieldOf(fa)
				}
			}
			return RV{}, nil
		default:
			return RV{}, nil
		}
	}
	return RV{}, nil
}

// baseOf follows parameter bindings of inlined frames and single-assignment
// spill cells structurally (without a path state).
func baseOf(rv RV) RV {
	for i := 0; i < 16; i++ {
		switch v := rv.V.(type) {
		case *ssa.Parameter:
			if rv.F == nil || rv.F.ArgRV == nil {
				return rv
			}
			idx := -1
			for j, p := range rv.F.Fn.Params {
				if p == v {
					idx = j
				}
			}
			if idx < 0 || idx >= len(rv.F.ArgRV) {
				return rv
			}
			rv = rv.F.ArgRV[idx]
		case *ssa.FreeVar:
			if rv.F == nil || rv.F.Bind == nil {
				return rv
			}
			idx := -1
			for j, p := range rv.F.Fn.FreeVars {
				if p == v {
					idx = j
				}
			}
			if idx < 0 || idx >= len(rv.F.Bind) {
				return rv
			}
			rv = rv.F.Bind[idx]
		case *ssa.UnOp:
			if v.Op == token.MUL {
				inner := baseOf(RV{rv.F, v.X})
				if a, ok := inner.V.(*ssa.Alloc); ok {
					if s := singleStore(a); s != nil {
						rv = RV{inner.F, s}
						continue
					}
				}
			}
			return rv
		default:
			return rv
		}
	}
	return rv
}

func (la *LockAudit) find(kind string, f *ssa.Function, pos token.Pos, path *Path, format string, a ...interface{}) {
	d := fmt.Sprintf(format, a...)
	for _, x := range la.Findings {
		if x.Kind == kind && x.Fn == f && x.Desc == d {
			return
		}
	}
	ps := ""
	if path != nil {
		ps = path.String()
		if len(ps) > 400 {
			ps = ps[:400] + "…"
		}
	}
	la.Findings = append(la.Findings, lockFinding{Kind: kind, Fn: f, Desc: d, Pos: pos, Path: ps})
}

func fresh(rv RV) bool {
	switch rv.V.(type) {
	case *ssa.Alloc:
		return true
	}
	return false
}

// local computes per-function facts: unguarded accesses, requirements on parameters,
// acquisitions on parameters, upgrades and unreleased locks.
func (la *LockAudit) local() {
	P := la.c.P
	for _, f := range la.fns {
		root := la.roots[f]
		for pi := range la.paths[f] {
			p := &la.paths[f][pi]
			if p.End == "exit" {
				continue
			}
			left := la.walk(f, p, func(ev *Ev, held []heldLock) {
				if op, ok := lockOps[ev.Label]; ok && op[1] == '+' {
					base, field := ev.Base, ev.Field
					if field == nil && len(ev.Args) > 0 {
						base = ev.Args[0]
					}
					for _, h := range held {
						if h.base == base && h.field == field && h.ver == ev.Ver {
							kind := "reentrant"
							if h.mode == 'R' && op[0] == 'W' {
								kind = "upgrade"
							}
							la.find(kind, f, posOf(ev.In), p, "%s of %s.%s while already holding it (%c)", strings.TrimPrefix(ev.Label, "call:"), Expr(base.V), fname(field), h.mode)
						}
					}
					if i := paramIndex(root, base); i >= 0 && field != nil {
						if la.acq[f] == nil {
							la.acq[f] = map[lockAcq]bool{}
						}
						la.acq[f][lockAcq{i, field, op[0]}] = true
					}
					return
				}
				base, field, write, ok := la.accessOf(ev)
				if !ok {
					return
				}
				la.Accesses++
				lf := la.guards[field]
				lockBase := base
				if la.Foreign[field] {
					lockBase = RV{}
				}
				if holds(held, lockBase, lf, write) {
					la.Guarded++
					return
				}
				if fresh(base) {
					la.Guarded++ // object not yet published (allocated in this activation)
					return
				}
				if !write && lockOwnerReads[field][f] {
					la.Guarded++ // read by the only goroutine that ever writes the field (see lockOwnerReads)
					return
				}
				mode := byte('R')
				if write {
					mode = 'W'
				}
				if !la.NoPropagate {
					if la.Foreign[field] {
						la.addReq(f, lockReq{-1, lf, mode}, P.Pos(posOf(ev.In)))
						return
					}
					if i := paramIndex(root, base); i >= 0 {
						la.addReq(f, lockReq{i, lf, mode}, P.Pos(posOf(ev.In)))
						return
					}
				}
				la.find("unguarded", f, posOf(ev.In), p, "%s of %s.%s without %s (%c) held on that object", accessKind(write), Expr(base.V), fname(field), fname(lf), mode)
			})
			if p.End == "return" {
				for _, h := range left {
					la.find("unreleased", f, f.Pos(), p, "returns with %s.%s (%c) still held", Expr(h.base.V), fname(h.field), h.mode)
				}
			}
		}
	}
}

func accessKind(w bool) string {
	if w {
		return "write"
	}
	return "read"
}

func fname(f *types.Var) string {
	if f == nil {
		return "<mutex>"
	}
	return f.Name()
}

// propagate pushes parameter requirements/acquisitions to callers until a fixpoint.
func (la *LockAudit) propagate() {
	P := la.c.P
	callers := map[*ssa.Function]int{}
	for round := 0; round < 6; round++ {
		changed := false
		for _, g := range la.fns {
			root := la.roots[g]
			for pi := range la.paths[g] {
				p := &la.paths[g][pi]
				la.walk(g, p, func(ev *Ev, held []heldLock) {
					ci, ok := ev.In.(ssa.CallInstruction)
					if !ok || isLockOp(ev) {
						return
					}
					cal := staticCallee(ci.Common())
					if cal == nil {
						return
					}
					if round == 0 {
						callers[cal]++
					}
					isGo := strings.HasPrefix(ev.Label, "go:")
					for r, where := range la.req[cal] {
						if r.param < 0 {
							// any held lock of that field
							if !isGo && holds(held, RV{}, r.field, r.mode == 'W') {
								continue
							}
							if _, ok := la.req[g][r]; !ok {
								la.addReq(g, r, where)
								changed = true
							}
							continue
						}
						if r.param >= len(ev.Args) {
							continue
						}
						arg := ev.Args[r.param]
						// the address of an embedded struct stands for the object that embeds it (the guarded
						// fields moved into an embedded helper type whose methods take &x.embedded as receiver)
						for k := 0; k < 3; k++ {
							fa, isFA := arg.V.(*ssa.FieldAddr)
							if !isFA {
								break
							}
							if fv := fieldVar(fa.X.Type(), fa.Field); fv == nil || !(fv.Embedded() || groupField[fv]) {
								break
							}
							arg = frameResolve(RV{arg.F, fa.X})
						}
						if !isGo && holds(held, arg, r.field, r.mode == 'W') {
							continue
						}
						if fresh(arg) {
							continue
						}
						if i := paramIndex(root, arg); i >= 0 && !isGo {
							nr := lockReq{i, r.field, r.mode}
							if _, ok := la.req[g][nr]; !ok {
								la.addReq(g, nr, where)
								changed = true
							}
							continue
						}
						_ = where
						la.find("unguarded", g, posOf(ev.In), p, "call of %s passes %s whose %s (%c) is not held, but the callee accesses guarded state of it", fnName(cal), Expr(arg.V), fname(r.field), r.mode)
					}
					for a := range la.acq[cal] {
						if a.param >= len(ev.Args) || isGo {
							continue
						}
						arg := ev.Args[a.param]
						for _, h := range held {
							if h.base == arg && h.field == a.field {
								kind := "reentrant"
								if h.mode == 'R' && a.mode == 'W' {
									kind = "upgrade"
								}
								la.find(kind, g, posOf(ev.In), p, "call of %s acquires %s.%s (%c) while the caller already holds it (%c)", fnName(cal), Expr(arg.V), fname(a.field), a.mode, h.mode)
							}
						}
						if i := paramIndex(root, arg); i >= 0 {
							if la.acq[g] == nil {
								la.acq[g] = map[lockAcq]bool{}
							}
							na := lockAcq{i, a.field, a.mode}
							if !la.acq[g][na] {
								la.acq[g][na] = true
								changed = true
							}
						}
					}
				})
			}
		}
		if !changed {
			break
		}
	}
	// requirements that reach an entry point
	for _, f := range la.fns {
		if len(la.req[f]) == 0 {
			continue
		}
		entry := isExportedFn(f) || callers[f] == 0 || addressTaken(f)
		if f.Parent() != nil {
			entry = true // a closure analysed standalone: nobody supplies locks
		}
		if entry && !isExportedFn(f) && f.Parent() == nil && (addressTaken(f) || callers[f] == 0) && la.dynSitesHold(f) {
			continue // only invoked as a function value from sites that hold / require the same locks
		}
		if !entry {
			continue
		}
		var rs []string
		for r, where := range la.req[f] {
			_ = where
			rs = append(rs, fmt.Sprintf("param %d needs %s (%c)", r.param, fname(r.field), r.mode))
		}
		sort.Strings(rs)
		for _, s := range rs {
			la.find("entry-unlocked", f, f.Pos(), nil, "entry point reaches guarded state without the lock: %s", s)
		}
	}
	_ = P
}

// dynSitesHold: every dynamic call site in the package whose callee type matches f's
// signature (without receiver) either holds the foreign locks f requires or sits in a
// function that requires them itself; at least one such site exists.
func (la *LockAudit) dynSitesHold(f *ssa.Function) bool {
	sig := f.Signature
	want := types.NewSignatureType(nil, nil, nil, sig.Params(), sig.Results(), sig.Variadic())
	// the same method used as a method expression, (*T).m: the receiver is the first parameter
	var wantExpr *types.Signature
	if recv := sig.Recv(); recv != nil {
		ps := []*types.Var{types.NewParam(token.NoPos, nil, "", recv.Type())}
		for i := 0; i < sig.Params().Len(); i++ {
			ps = append(ps, sig.Params().At(i))
		}
		wantExpr = types.NewSignatureType(nil, nil, nil, types.NewTuple(ps...), sig.Results(), sig.Variadic())
	}
	sites := 0
	ok := true
	for _, g := range la.fns {
		for pi := range la.paths[g] {
			p := &la.paths[g][pi]
			la.walk(g, p, func(ev *Ev, held []heldLock) {
				if !strings.HasPrefix(ev.Label, "call:dyn:") || ev.Fn.V == nil {
					return
				}
				if !types.Identical(ev.Fn.V.Type().Underlying(), want) && (wantExpr == nil || !types.Identical(ev.Fn.V.Type().Underlying(), wantExpr)) {
					return
				}
				sites++
				for r := range la.req[f] {
					if r.param >= 0 {
						ok = false // receiver-relative requirements cannot be matched at a dynamic site
						continue
					}
					if holds(held, RV{}, r.field, r.mode == 'W') {
						continue
					}
					if _, has := la.req[g][r]; has {
						continue
					}
					ok = false
				}
			})
		}
	}
	return ok && sites > 0
}

func isExportedFn(f *ssa.Function) bool {
	if f.Parent() != nil {
		return false
	}
	if !token.IsExported(f.Name()) {
		return false
	}
	if recv := f.Signature.Recv(); recv != nil {
		if n, ok := deref(recv.Type()).(*types.Named); ok {
			return n.Obj().Exported()
		}
	}
	return true
}

func addressTaken(f *ssa.Function) bool {
	if f.Referrers() == nil {
		return false
	}
	for _, r := range *f.Referrers() {
		switch x := r.(type) {
		case ssa.CallInstruction:
			if x.Common().Value != ssa.Value(f) {
				return true
			}
		default:
			return true
		}
	}
	return false
}

// Exempt lists findings that were read and judged harmless: "function | description" -> one line of reason.
var lockExempt = map[string]string{
	"(*client.ReconnectClient).initDone$1 | read of p.subscribeDone without mu (R) held on that object": "the closer returned by initDone runs as Subscribe's own deferred call, on the goroutine that stored the field (initDone is its only writer); all cross-goroutine readers (Close) hold the mutex",
}

// Report turns the findings into obligations under the given rule ids.
func (la *LockAudit) Report(ruleFor func(kind string) string) {
	c := la.c
	for _, x := range la.Findings {
		rule := ruleFor(x.Kind)
		if rule == "" {
			continue
		}
		if why, ok := lockExempt[fnName(x.Fn)+" | "+x.Desc]; ok {
			c.OK(rule, fnName(x.Fn), x.Desc+" (exempt)", c.P.Pos(x.Pos), "exemption: "+why)
			continue
		}
		// the same exemption when the closer is written as a method value instead of a literal: the
		// function returned by initDone, whatever its form, reading subscribeDone
		if strings.HasPrefix(x.Desc, "read of") || strings.HasPrefix(x.Desc, "entry point reaches guarded state") {
			if initDone := c.P.Method("client", "ReconnectClient", "initDone"); initDone != nil && returnedFuncs(initDone)[x.Fn] && onlyReadsField(x.Fn, la.guards, "subscribeDone") {
				c.OK(rule, fnName(x.Fn), x.Desc+" (exempt)", c.P.Pos(x.Pos), "exemption: "+lockExempt["(*client.ReconnectClient).initDone$1 | read of p.subscribeDone without mu (R) held on that object"])
				continue
			}
		}
		verdict := Violated
		if x.Kind == "undecided" {
			verdict = Undecided
		}
		c.add(rule, fnName(x.Fn), x.Desc, verdict, c.P.Pos(x.Pos), x.Path)
	}
}

// returnedFuncs: the functions behind the func-typed values f returns (literals, named functions, bound methods).
func returnedFuncs(f *ssa.Function) map[*ssa.Function]bool {
	out := map[*ssa.Function]bool{}
	instrs(f, func(in ssa.Instruction) {
		ret, ok := in.(*ssa.Return)
		if !ok {
			return
		}
		for _, rv := range ret.Results {
			for _, v := range append(storedValues(rv), rv) {
				switch x := v.(type) {
				case *ssa.MakeClosure:
					fn := x.Fn.(*ssa.Function)
					if strings.HasSuffix(fn.Name(), "$bound") {
						for _, ci := range callsIn(fn) {
							if m := staticCallee(ci.Common()); m != nil {
								out[m] = true
							}
						}
					}
					out[fn] = true
				case *ssa.Function:
					out[x] = true
				}
			}
		}
	})
	return out
}

// onlyReadsField: the only guarded field f touches is the named one, and it only reads it.
func onlyReadsField(f *ssa.Function, guards map[*types.Var]*types.Var, name string) bool {
	ok, n := true, 0
	instrs(f, func(in ssa.Instruction) {
		switch x := in.(type) {
		case *ssa.UnOp:
			if fl := fieldOf(x.X); fl != nil {
				if _, g := guards[fl]; g {
					n++
					if vname(fl) != name {
						ok = false
					}
				}
			}
		case *ssa.Store:
			if fl := fieldOf(x.Addr); fl != nil {
				if _, g := guards[fl]; g {
					ok = false
				}
			}
		}
	})
	return ok && n > 0
}
