package main

import (
	"fmt"
	"go/constant"
	"go/token"
	"go/types"
	"sort"
	"strings"

	"golang.org/x/tools/go/ssa"
)

// calleeName returns a type-resolved, printable identity of what a call invokes:
//
//	static function/method:  "pkgpath.Func" / "(*pkgpath.T).Method"
//	interface invoke:        "invoke:(pkgpath.I).Method"
//	builtin:                 "builtin:len"
//	dynamic function value:  "dyn:<expr>"
//
// module package paths are printed relative to the module.
func calleeName(c *ssa.CallCommon) string {
	if c.IsInvoke() {
		return "invoke:" + rel(c.Method.FullName())
	}
	switch v := c.Value.(type) {
	case *ssa.Function:
		return fnName(v)
	case *ssa.Builtin:
		return "builtin:" + v.Name()
	case *ssa.MakeClosure:
		return fnName(v.Fn.(*ssa.Function))
	}
	return "dyn:" + Expr(c.Value)
}

func rel(s string) string { return strings.ReplaceAll(s, modPath+"/", "") }

// staticCallee returns the called function when it is statically known
// (including immediately-applied closures).
func staticCallee(c *ssa.CallCommon) *ssa.Function {
	if c.IsInvoke() {
		return nil
	}
	switch v := c.Value.(type) {
	case *ssa.Function:
		return v
	case *ssa.MakeClosure:
		return v.Fn.(*ssa.Function)
	}
	return nil
}

// unwrap strips value-preserving conversions.
func unwrap(v ssa.Value) ssa.Value {
	for {
		switch x := v.(type) {
		case *ssa.ChangeType:
			v = x.X
		case *ssa.MakeInterface:
			v = x.X
		case *ssa.ChangeInterface:
			v = x.X
		case *ssa.Convert:
			v = x.X
		default:
			return v
		}
	}
}

// Expr renders an SSA value as a source-like expression (no positions),
// used for obligation keys and for matching by provenance.
func Expr(v ssa.Value) string { return exprD(v, 0) }

func exprD(v ssa.Value, d int) string {
	if v == nil {
		return "<nil>"
	}
	if d > 8 {
		return "…"
	}
	switch x := v.(type) {
	case *ssa.Parameter:
		return x.Name()
	case *ssa.FreeVar:
		return x.Name()
	case *ssa.Const:
		if x.Value == nil {
			return "nil"
		}
		return x.Value.ExactString()
	case *ssa.Global:
		return rel(x.Pkg.Pkg.Name() + "." + x.Name())
	case *ssa.Function:
		return fnName(x)
	case *ssa.Builtin:
		return x.Name()
	case *ssa.Alloc:
		if x.Comment != "" {
			return "&" + x.Comment
		}
		return "&new(" + types.TypeString(deref(x.Type()), shortQ) + ")"
	case *ssa.UnOp:
		switch x.Op {
		case token.MUL:
			if a, ok := x.X.(*ssa.Alloc); ok && a.Comment != "" {
				return a.Comment
			}
			if _, ok := x.X.(*ssa.FieldAddr); ok {
				return exprD(x.X, d+1)
			}
			if _, ok := x.X.(*ssa.IndexAddr); ok {
				return exprD(x.X, d+1)
			}
			if fv, ok := x.X.(*ssa.FreeVar); ok {
				return fv.Name()
			}
			if g, ok := x.X.(*ssa.Global); ok {
				return exprD(g, d+1)
			}
			return "*" + exprD(x.X, d+1)
		case token.ARROW:
			return "<-" + exprD(x.X, d+1)
		case token.NOT:
			return "!" + exprD(x.X, d+1)
		}
		return x.Op.String() + exprD(x.X, d+1)
	case *ssa.FieldAddr:
		return exprD(x.X, d+1) + "." + fieldName(x.X.Type(), x.Field)
	case *ssa.Field:
		return exprD(x.X, d+1) + "." + fieldName(x.X.Type(), x.Field)
	case *ssa.IndexAddr:
		return exprD(x.X, d+1) + "[" + exprD(x.Index, d+1) + "]"
	case *ssa.Index:
		return exprD(x.X, d+1) + "[" + exprD(x.Index, d+1) + "]"
	case *ssa.Lookup:
		return exprD(x.X, d+1) + "[" + exprD(x.Index, d+1) + "]"
	case *ssa.Slice:
		s := exprD(x.X, d+1) + "["
		if x.Low != nil {
			s += exprD(x.Low, d+1)
		}
		s += ":"
		if x.High != nil {
			s += exprD(x.High, d+1)
		}
		if x.Max != nil {
			s += ":" + exprD(x.Max, d+1)
		}
		return s + "]"
	case *ssa.TypeAssert:
		return exprD(x.X, d+1) + ".(" + types.TypeString(x.AssertedType, shortQ) + ")"
	case *ssa.Extract:
		return exprD(x.Tuple, d+1) + fmt.Sprintf("#%d", x.Index)
	case *ssa.MakeInterface, *ssa.ChangeType, *ssa.ChangeInterface, *ssa.Convert:
		return exprD(unwrap(v), d+1)
	case *ssa.BinOp:
		return "(" + exprD(x.X, d+1) + " " + x.Op.String() + " " + exprD(x.Y, d+1) + ")"
	case *ssa.Phi:
		if x.Comment != "" {
			return "φ(" + x.Comment + ")"
		}
		var parts []string
		for _, e := range x.Edges {
			parts = append(parts, exprD(e, d+3))
		}
		return "φ(" + strings.Join(parts, "|") + ")"
	case *ssa.MakeClosure:
		return "closure " + fnName(x.Fn.(*ssa.Function))
	case *ssa.Call:
		return callExpr(&x.Call, d)
	case *ssa.MakeMap:
		return "make(" + types.TypeString(x.Type(), shortQ) + ")"
	case *ssa.MakeSlice:
		return "make(" + types.TypeString(x.Type(), shortQ) + ")"
	case *ssa.MakeChan:
		return "make(" + types.TypeString(x.Type(), shortQ) + ", " + exprD(x.Size, d+1) + ")"
	case *ssa.Select:
		return "select"
	case *ssa.Range:
		return "range " + exprD(x.X, d+1)
	case *ssa.Next:
		return "next(" + exprD(x.Iter, d+1) + ")"
	}
	return fmt.Sprintf("%T", v)
}

func callExpr(c *ssa.CallCommon, d int) string {
	var args []string
	for _, a := range c.Args {
		args = append(args, exprD(a, d+1))
	}
	if c.IsInvoke() {
		return exprD(c.Value, d+1) + "." + c.Method.Name() + "(" + strings.Join(args, ", ") + ")"
	}
	if f := staticCallee(c); f != nil {
		if f.Signature.Recv() != nil && len(args) > 0 {
			return args[0] + "." + f.Name() + "(" + strings.Join(args[1:], ", ") + ")"
		}
		name := f.Name()
		if f.Pkg != nil && f.Parent() == nil {
			name = f.Pkg.Pkg.Name() + "." + name
		}
		return name + "(" + strings.Join(args, ", ") + ")"
	}
	if b, ok := c.Value.(*ssa.Builtin); ok {
		return b.Name() + "(" + strings.Join(args, ", ") + ")"
	}
	return exprD(c.Value, d+1) + "(" + strings.Join(args, ", ") + ")"
}

func shortQ(p *types.Package) string { return p.Name() }

func deref(t types.Type) types.Type {
	if p, ok := t.Underlying().(*types.Pointer); ok {
		return p.Elem()
	}
	return t
}

func fieldName(t types.Type, i int) string {
	st, ok := deref(t).Underlying().(*types.Struct)
	if !ok || i >= st.NumFields() {
		return fmt.Sprintf("f%d", i)
	}
	return vname(st.Field(i))
}

func fieldVar(t types.Type, i int) *types.Var {
	st, ok := deref(t).Underlying().(*types.Struct)
	if !ok || i >= st.NumFields() {
		return nil
	}
	return st.Field(i)
}

// fieldOf returns the field object addressed by a FieldAddr / read by a Field, or nil.
func fieldOf(v ssa.Value) *types.Var {
	switch x := v.(type) {
	case *ssa.FieldAddr:
		return fieldVar(x.X.Type(), x.Field)
	case *ssa.Field:
		return fieldVar(x.X.Type(), x.Field)
	case *ssa.UnOp:
		if x.Op == token.MUL {
			return fieldOf(x.X)
		}
	}
	return nil
}

// constInt returns the integer constant value of v.
func constInt(v ssa.Value) (int64, bool) {
	c, ok := unwrap(v).(*ssa.Const)
	if !ok || c.Value == nil {
		return 0, false
	}
	if c.Value.Kind() != constant.Int {
		return 0, false
	}
	n, ok := constant.Int64Val(c.Value)
	return n, ok
}

func isNilConst(v ssa.Value) bool {
	c, ok := v.(*ssa.Const)
	return ok && c.Value == nil
}

func constBool(v ssa.Value) (bool, bool) {
	c, ok := v.(*ssa.Const)
	if !ok || c.Value == nil || c.Value.Kind() != constant.Bool {
		return false, false
	}
	return constant.BoolVal(c.Value), true
}

func constString(v ssa.Value) (string, bool) {
	c, ok := unwrap(v).(*ssa.Const)
	if !ok || c.Value == nil || c.Value.Kind() != constant.String {
		return "", false
	}
	return constant.StringVal(c.Value), true
}

// instrs iterates over all instructions of fn.
func instrs(fn *ssa.Function, f func(ssa.Instruction)) {
	for _, b := range fn.Blocks {
		for _, in := range b.Instrs {
			f(in)
		}
	}
}

// withAnon returns fn and all functions nested in it.
func withAnon(fn *ssa.Function) []*ssa.Function {
	out := []*ssa.Function{fn}
	for _, a := range fn.AnonFuncs {
		out = append(out, withAnon(a)...)
	}
	return out
}

// callsIn returns all call instructions (call, go, defer) of fn.
func callsIn(fn *ssa.Function) []ssa.CallInstruction {
	var out []ssa.CallInstruction
	instrs(fn, func(in ssa.Instruction) {
		if c, ok := in.(ssa.CallInstruction); ok {
			out = append(out, c)
		}
	})
	return out
}

func instrIndex(in ssa.Instruction) int {
	for i, x := range in.Block().Instrs {
		if x == in {
			return i
		}
	}
	return -1
}

// instrDominates reports whether a is executed before b on every path to b.
func instrDominates(a, b ssa.Instruction) bool {
	if a.Block() == b.Block() {
		return instrIndex(a) < instrIndex(b)
	}
	return a.Block().Dominates(b.Block())
}

// reachableFrom returns the set of blocks reachable from b (inclusive when via a path of length >= 0).
func reachableFrom(b *ssa.BasicBlock) map[*ssa.BasicBlock]bool {
	seen := map[*ssa.BasicBlock]bool{}
	var w func(*ssa.BasicBlock)
	w = func(x *ssa.BasicBlock) {
		if seen[x] {
			return
		}
		seen[x] = true
		for _, s := range x.Succs {
			w(s)
		}
	}
	w(b)
	return seen
}

// isMethodCall reports whether c statically calls the method named full (e.g. "(*sync.RWMutex).Lock").
func isCallTo(c *ssa.CallCommon, full string) bool {
	return calleeName(c) == full
}

// recvArg returns the receiver argument of a static method call or the invoke value.
func recvArg(c *ssa.CallCommon) ssa.Value {
	if c.IsInvoke() {
		return c.Value
	}
	if f := staticCallee(c); f != nil && f.Signature.Recv() != nil && len(c.Args) > 0 {
		return c.Args[0]
	}
	return nil
}

// posOf returns the best source position of an instruction.
func posOf(in ssa.Instruction) token.Pos {
	if in == nil {
		return token.NoPos
	}
	if p := in.Pos(); p.IsValid() {
		return p
	}
	// fall back to the nearest instruction in the block with a position
	b := in.Block()
	if b == nil {
		return token.NoPos
	}
	idx := instrIndex(in)
	for d := 1; d < len(b.Instrs); d++ {
		for _, j := range []int{idx - d, idx + d} {
			if j >= 0 && j < len(b.Instrs) && b.Instrs[j].Pos().IsValid() {
				return b.Instrs[j].Pos()
			}
		}
	}
	return b.Parent().Pos()
}

func sortStrings(s []string) { sort.Strings(s) }
