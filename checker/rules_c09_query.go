package main

import (
	"fmt"
	"go/token"
	"go/types"
	"strings"

	"golang.org/x/tools/go/ssa"
)

// queryTable decides the per-node decision table of ctree's query descent
// (queryInternal with enumerateChildren inlined) - the same table internalDelete
// is held to by C09.select / C09.prune-guard, so that "a delete removes what a
// query of the same path reports" holds node by node.
func queryTable(c *Ctx, rule string) {
	P := c.P
	qi := P.Method("ctree", "Tree", "queryInternal")
	fLB := P.Field("ctree", "Tree", "leafBranch")
	if qi == nil || fLB == nil || len(qi.Params) != 4 {
		c.Unresolved(rule, "ctree.(*Tree).queryInternal / Tree.leafBranch")
		return
	}
	c.Rule(rule, "queryInternal (enumerateChildren inlined), per node: path exhausted or exactly one glob left => a branch visits every child with an exhausted path, a leaf is handed to the visitor exactly once with its own value, an empty node nothing; glob with more elements => a branch visits every child with path[1:], a leaf or empty node nothing; plain element => a branch descends into children[path[0]] (if present) with path[1:], anything else nothing. Every descent extends the reported prefix by the key of the child it descends into")
	c.Analysed(fnName(qi))
	prefixP, pathP, fP := ssa.Value(param(qi, 1)), ssa.Value(param(qi, 2)), ssa.Value(param(qi, 3))
	resolvesTo := func(e *PPA, st *State, rv RV, want ssa.Value) bool { return e.Resolve(st, rv).V == want }
	cls := func(e *PPA, st *State, rv RV) string {
		r := e.Resolve(st, rv)
		switch v := r.V.(type) {
		case *ssa.Call:
			if la, ok := lenArg(v); ok {
				if resolvesTo(e, st, RV{r.F, la}, pathP) {
					return "PLEN"
				}
			}
		case *ssa.BinOp:
			if v.Op != token.EQL && v.Op != token.NEQ {
				return ""
			}
			neg := ""
			if v.Op == token.NEQ {
				neg = "!"
			}
			for _, pr := range [][2]ssa.Value{{v.X, v.Y}, {v.Y, v.X}} {
				if s, ok := constString(pr[1]); ok && s == "*" {
					x := e.Resolve(st, RV{r.F, pr[0]})
					if u, ok := x.V.(*ssa.UnOp); ok {
						if ia, ok := u.X.(*ssa.IndexAddr); ok {
							if k, okc := constInt(ia.Index); okc && k == 0 && resolvesTo(e, st, RV{x.F, ia.X}, pathP) {
								return neg + "GLOB"
							}
						}
					}
				}
				if isNilConst(pr[1]) {
					x := e.Resolve(st, RV{r.F, pr[0]})
					if loadOfField(x.V, fLB) {
						return neg + "EMPTY"
					}
					if ta, ok := x.V.(*ssa.TypeAssert); ok && loadOfField(ta.X, fLB) {
						return neg + "EMPTY"
					}
					if lk, ok := x.V.(*ssa.Lookup); ok && isNamed(lk.X.Type(), "ctree", "branch") {
						return neg + "NOCHILD"
					}
				}
			}
		case *ssa.Extract:
			if ta, ok := v.Tuple.(*ssa.TypeAssert); ok && v.Index == 1 && isNamed(ta.AssertedType, "ctree", "branch") {
				return "ISBRANCH"
			}
			// the children map of this node (range operand): b, ok := t.leafBranch.(branch)
			if ta, ok := v.Tuple.(*ssa.TypeAssert); ok && v.Index == 0 && isNamed(ta.AssertedType, "ctree", "branch") && loadOfField(e.Resolve(st, RV{r.F, ta.X}).V, fLB) {
				return "CHILDREN"
			}
		case *ssa.TypeAssert:
			if !v.CommaOk && isNamed(v.AssertedType, "ctree", "branch") && loadOfField(e.Resolve(st, RV{r.F, v.X}).V, fLB) {
				return "CHILDREN"
			}
		}
		return ""
	}
	isRec := lbl("call:" + fnName(qi))
	isVisit := func(ev *Ev) bool { return strings.HasPrefix(ev.Label, "call:dyn:") && ev.Fn.V == fP }
	// classify one recursive call: child / path / prefix extension
	describe := func(ev *Ev) string {
		child, key := "other:"+Expr(ev.Args[0].V), ssa.Value(nil)
		switch v := ev.Args[0].V.(type) {
		case *ssa.Extract:
			if nx, ok := v.Tuple.(*ssa.Next); ok && v.Index == 2 {
				if rg, ok := nx.Iter.(*ssa.Range); ok && isNamed(rg.X.Type(), "ctree", "branch") {
					child = "every child"
					for _, r := range *nx.Referrers() {
						if ex, ok := r.(*ssa.Extract); ok && ex.Index == 1 {
							key = ex
						}
					}
				}
			}
		case *ssa.Lookup:
			if isNamed(v.X.Type(), "ctree", "branch") {
				if u, ok := v.Index.(*ssa.UnOp); ok {
					if ia, ok := u.X.(*ssa.IndexAddr); ok && frameResolve(RV{ev.Args[0].F, ia.X}).V == pathP {
						if k, okc := constInt(ia.Index); okc && k == 0 {
							child, key = "path[0] child", v.Index
						}
					}
				}
			}
		}
		inF := func(fr *Frame, v ssa.Value) ssa.Value { return frameResolve(RV{fr, v}).V }
		isPath0 := func(fr *Frame, v ssa.Value) bool {
			u, ok := v.(*ssa.UnOp)
			if !ok {
				return false
			}
			ia, ok := u.X.(*ssa.IndexAddr)
			if !ok || inF(fr, ia.X) != pathP {
				return false
			}
			k, okc := constInt(ia.Index)
			return okc && k == 0
		}
		pth := "other:" + Expr(ev.Args[2].V)
		switch {
		case isNilConst(ev.Args[2].V):
			pth = "exhausted"
		default:
			if sl, ok := ev.Args[2].V.(*ssa.Slice); ok && inF(ev.Args[2].F, sl.X) == pathP && sl.High == nil && sl.Low != nil {
				if k, okc := constInt(sl.Low); okc && k == 1 {
					pth = "path[1:]"
				}
			}
		}
		// prefix argument: append(prefix, key)
		pfx := "prefix not extended by the child's key"
		if ac, ok := isAppend(ev.Args[1].V); ok && len(ac.Call.Args) == 2 && inF(ev.Args[1].F, ac.Call.Args[0]) == prefixP {
			if els, ok := literalElems(ac.Call.Args[1]); ok && len(els) == 1 && key != nil {
				if els[0] == key || (isPath0(ev.Args[1].F, els[0]) && isPath0(ev.Args[0].F, key)) {
					pfx = "prefix+key"
				}
			}
		}
		return child + "/" + pth + "/" + pfx
	}
	type row struct {
		name   string
		plen   int64
		glob   bool
		kind   string // branch | leaf | empty
		child  bool
		want   string // expected descent kind ("" = none)
		loop   bool
		visits int
	}
	var rows []row
	for _, kind := range []string{"branch", "leaf", "empty"} {
		visits := 0
		if kind == "leaf" {
			visits = 1
		}
		all := ""
		if kind == "branch" {
			all = "every child/exhausted/prefix+key"
		}
		rows = append(rows,
			row{"path exhausted at a " + kind, 0, false, kind, false, all, kind == "branch", visits},
			row{"one glob left at a " + kind, 1, true, kind, false, all, kind == "branch", visits})
		more := ""
		if kind == "branch" {
			more = "every child/path[1:]/prefix+key"
		}
		rows = append(rows, row{"glob followed by more elements at a " + kind, 2, true, kind, false, more, kind == "branch", 0})
		if kind == "branch" {
			// a child stored under the literal name "*" does not capture the glob
			rows = append(rows,
				row{"one glob left at a branch that has a child named *", 1, true, kind, true, all, true, visits},
				row{"glob followed by more elements at a branch that has a child named *", 2, true, kind, true, more, true, 0})
		}
		for _, pl := range []int64{1, 2} {
			if kind == "branch" {
				rows = append(rows,
					row{fmt.Sprintf("plain element (%d left) at a branch, child present", pl), pl, false, kind, true, "path[0] child/path[1:]/prefix+key", false, 0},
					row{fmt.Sprintf("plain element (%d left) at a branch, child absent", pl), pl, false, kind, false, "", false, 0})
			} else {
				rows = append(rows, row{fmt.Sprintf("plain element (%d left) at a %s", pl, kind), pl, false, kind, false, "", false, 0})
			}
		}
	}
	for _, rw := range rows {
		b := map[string]bool{"GLOB": rw.glob, "ISBRANCH": rw.kind == "branch", "EMPTY": rw.kind == "empty", "NOCHILD": !rw.child}
		for k, v := range map[string]bool{"GLOB": rw.glob, "EMPTY": rw.kind == "empty", "NOCHILD": !rw.child} {
			b["!"+k] = !v
		}
		if rw.plen == 1 {
			rw.want = strings.Replace(rw.want, "/path[1:]/", "/exhausted/", 1) // the empty tail slice is an exhausted path
		}
		// a branch is replayed with exactly two children: every loop over them runs twice
		nch := int64(2)
		if rw.kind != "branch" {
			nch = 0 // the child map of a node that is not a branch is the nil map: ranging it yields nothing
		}
		at := &Atoms{Class: cls, Bool: b, Int: map[string]int64{"PLEN": rw.plen, "len(CHILDREN)": nch}}
		e := &PPA{Cond: at.Cond, MaxVisits: 4, Watch: func(ev *Ev) bool { return isRec(ev) || isVisit(ev) }}
		e.Run(qi)
		c.Paths += len(e.Paths)
		c.Scen++
		n := 0
		sawLoop := false
		for i := range e.Paths {
			p := &e.Paths[i]
			if p.End != "return" {
				continue
			}
			n++
			var got []string
			visits := 0
			okVisit := true
			for j := range p.Trace {
				ev := &p.Trace[j]
				if isRec(ev) {
					d := describe(ev)
					// with one element left, path[1:] is the empty slice: the path is exhausted below
					if rw.plen == 1 {
						d = strings.Replace(d, "/path[1:]/", "/exhausted/", 1)
					}
					got = append(got, d)
				}
				if isVisit(ev) {
					visits++
					// (prefix, this node, its value)
					if len(ev.Args) != 3 || frameResolve(ev.Args[0]).V != prefixP || !loadOfField(ev.Args[2].V, fLB) {
						okVisit = false
					}
				}
			}
			ok := visits == rw.visits && okVisit
			if rw.loop {
				for _, g := range got {
					if g != rw.want {
						ok = false
					}
				}
				if len(got) > 0 {
					sawLoop = true
				}
				// both children are descended into, unless the walk stops with the error of a descent
				stopped := len(got) >= 1 && len(p.Rets) == 1 && retClass(p.Rets[0]) == "call:"+fnName(qi)
				if len(got) != 2 && !stopped {
					ok = false
				}
			} else if rw.want == "" {
				ok = ok && len(got) == 0
			} else {
				ok = ok && len(got) == 1 && got[0] == rw.want
			}
			c.Check(ok, rule, fnName(qi), rw.name, P.Pos(qi.Pos()), fmt.Sprintf("visitor calls=%d (want %d, arguments ok=%v), descends %v, want [%s]; path: %s", visits, rw.visits, okVisit, got, rw.want, p.String()))
		}
		if rw.loop {
			c.Check(sawLoop, rule, fnName(qi), rw.name+": the children are reached", P.Pos(qi.Pos()), "no explored path visits a child")
		}
		c.Floor(rule+"/"+rw.name, n, 1)
	}
}

// addAtomic: an add either stores the value or fails leaving the tree unchanged.  The analysis is
// rooted at the exported (*Tree).Add with its unexported helpers (terminalAdd / intermediateAdd /
// slowAdd, however the work is split between them) entered on the path; the recursive Add of the next
// level stays a call.
func addAtomic(c *Ctx, rule string) {
	P := c.P
	fLB := P.Field("ctree", "Tree", "leafBranch")
	add := P.Method("ctree", "Tree", "Add")
	if fLB == nil || add == nil || len(add.Params) != 3 {
		c.Unresolved(rule, "ctree.(*Tree).Add / Tree.leafBranch")
		return
	}
	c.Rule(rule, "(*Tree).Add with its unexported helpers inlined, per node: the path ends here and the node is a branch => refused (an error made at this level, nothing stored, no descent); ends here otherwise => exactly the value parameter is stored, nil returned; the path continues and the node is a non-empty leaf => refused unchanged; continues through a branch or an empty node => no error of this level's own making (an add is refused only because an existing node is in the way - never after the level above has linked a new chain), errors come from the next level's Add only")
	c.Analysed(fnName(add))
	pathP, valP := ssa.Value(param(add, 1)), ssa.Value(param(add, 2))
	isWrite := func(ev *Ev) bool {
		return (strings.HasPrefix(ev.Label, "store:") && ev.Field == fLB) || strings.HasPrefix(ev.Label, "mapupdate:") || ev.Label == "builtin:delete"
	}
	isRec := lbl("call:" + fnName(add))
	cls := func(e *PPA, st *State, rv RV) string {
		r := e.Resolve(st, rv)
		switch v := r.V.(type) {
		case *ssa.Call:
			if la, ok := lenArg(v); ok && e.Resolve(st, RV{r.F, la}).V == pathP {
				return "PLEN"
			}
		case *ssa.Extract:
			if t, ok := v.Tuple.(*ssa.TypeAssert); ok && v.Index == 1 && isNamed(t.AssertedType, "ctree", "branch") {
				// the node was just made a branch on this path
				if x := e.Resolve(st, RV{r.F, t.X}).V; isNamed(x.Type(), "ctree", "branch") {
					return "ALWAYS"
				}
				return "ISBRANCH"
			}
		case *ssa.BinOp:
			if (v.Op == token.EQL || v.Op == token.NEQ) && (isNilConst(v.Y) || isNilConst(v.X)) {
				o := v.X
				if isNilConst(v.X) {
					o = v.Y
				}
				x := e.Resolve(st, RV{r.F, o}).V
				isLB := loadOfField(x, fLB)
				if t, ok := x.(*ssa.TypeAssert); ok && loadOfField(t.X, fLB) {
					isLB = true
				}
				if isLB {
					if v.Op == token.EQL {
						return "EMPTY"
					}
					return "!EMPTY"
				}
			}
		}
		return ""
	}
	for _, plen := range []int64{0, 1, 2} {
		for _, kind := range []string{"branch", "leaf", "empty"} {
			b := map[string]bool{"ISBRANCH": kind == "branch", "EMPTY": kind == "empty", "!EMPTY": kind != "empty", "ALWAYS": true}
			at := &Atoms{Class: cls, Bool: b, Int: map[string]int64{"PLEN": plen}}
			e := &PPA{Cond: at.Cond, HeapForward: true, MaxDepth: 4,
				Inline: func(fr *Frame, call ssa.CallInstruction, callee *ssa.Function) bool {
					if callee.Pkg != add.Pkg || callee == add {
						return false
					}
					if fbase(callee) == "isBranch" || fbase(callee) == "IsBranch" {
						return true
					}
					// the unexported helpers the work is split into (they come back to Add for the next level, which
					// is why the default inlining treats them as recursive); not the chain constructor
					if isExportedFn(callee) || callee.Signature.Recv() == nil {
						return false
					}
					for _, ci := range callsIn(callee) {
						if staticCallee(ci.Common()) == callee {
							return false
						}
					}
					return true
				},
				Watch: func(ev *Ev) bool { return isWrite(ev) || isRec(ev) || ev.Label == "call:ctree.newBranch" }}
			e.Run(add)
			c.Paths += len(e.Paths)
			c.Scen++
			n := 0
			for i := range e.Paths {
				p := &e.Paths[i]
				if p.End != "return" || len(p.Rets) != 1 {
					continue
				}
				n++
				rc := retClass(p.Rets[0])
				ownErr := strings.HasPrefix(rc, "call:fmt.Errorf") || strings.HasPrefix(rc, "call:errors.New")
				wrote := p.Has(isWrite)
				descends := p.Has(isRec) || p.Has(lbl("call:ctree.newBranch"))
				ok, why := true, ""
				switch {
				case plen == 0 && kind == "branch":
					if !ownErr || wrote || descends {
						ok, why = false, "a branch node must be refused unchanged"
					}
				case plen == 0:
					si := p.Index(0, func(ev *Ev) bool { return strings.HasPrefix(ev.Label, "store:") && ev.Field == fLB })
					if rc != "nil" || si < 0 || unwrap(p.Trace[si].Args[1].V) != valP || descends {
						ok, why = false, "the value parameter must be stored at this node and nil returned"
					}
				case kind == "leaf":
					if !ownErr || wrote || descends {
						ok, why = false, "a path through a leaf must be refused unchanged"
					}
				default:
					if ownErr {
						ok, why = false, "an add may be refused only because an existing node is in the way"
					}
					if !descends {
						ok, why = false, "the path continues: the next level must be reached"
					}
				}
				c.Check(ok, rule, fnName(add), fmt.Sprintf("%d path elements left, node is %s", plen, kind), P.Pos(add.Pos()), fmt.Sprintf("%s; returns %s, wrote=%v, descends=%v; path: %s", why, rc, wrote, descends, p.String()))
			}
			c.Floor(fmt.Sprintf("%s/Add(%d,%s)", rule, plen, kind), n, 1)
		}
	}
}

// ctreeExposure: the guarded content of a node leaves package ctree only through the guarded
// accessors (shared by C09 - lookups report stored leaves only - and C10 - the children map is
// never handed out, so it cannot be read or ranged without the node's lock).
func ctreeExposure(c *Ctx, rule string) {
	innerContent := map[*ssa.Function]map[int]bool{} // unexported helper -> result positions that carry node content
	P := c.P
	fLB := P.Field("ctree", "Tree", "leafBranch")
	tv := P.Method("ctree", "Tree", "Value")
	lv := P.Method("ctree", "Leaf", "Value")
	lu := P.Method("ctree", "Leaf", "Update")
	if fLB == nil || tv == nil || lv == nil || lu == nil {
		c.Unresolved(rule, "ctree.Tree.leafBranch / (*Tree).Value / (*Leaf).Value / (*Leaf).Update")
		return
	}
	c.Rule(rule, "package ctree (non-test): a value read from leafBranch is returned only by (*Tree).Value - which returns nil for a branch node on every path - and by the leaf-handle accessor (*Leaf).Value; no other function returns it or the children map asserted from it; and the package never calls its own handle methods (*Leaf).Value / (*Leaf).Update, which skip the branch test (a lookup must go through (*Tree).Value, an add must test and store under one write lock)")
	derives := func(v ssa.Value) bool {
		seen := map[ssa.Value]bool{}
		var w func(v ssa.Value, d int) bool
		w = func(v ssa.Value, d int) bool {
			if d > 10 || seen[v] {
				return false
			}
			seen[v] = true
			switch x := v.(type) {
			case *ssa.UnOp:
				if loadOfField(x, fLB) {
					return true
				}
				// a result spilled into a local cell because of a defer
				if al, ok := x.X.(*ssa.Alloc); ok {
					for _, sv := range storedValues(x) {
						_ = al
						if w(sv, d+1) {
							return true
						}
					}
				}
				return false
			case *ssa.TypeAssert:
				return w(x.X, d+1)
			case *ssa.Call:
				// the (single) result of an unexported helper of the package that itself hands back content
				if g := staticCallee(&x.Call); g != nil && innerContent[g][0] && g.Signature.Results().Len() == 1 {
					return true
				}
				return false
			case *ssa.Extract:
				if _, isTA := x.Tuple.(*ssa.TypeAssert); isTA && x.Index != 0 {
					return false // the ok flag is not content
				}
				if call, isCall := x.Tuple.(*ssa.Call); isCall {
					if g := staticCallee(&call.Call); g != nil {
						return innerContent[g][x.Index]
					}
					return false
				}
				return w(x.Tuple, d+1)
			case *ssa.MakeInterface:
				return w(x.X, d+1)
			case *ssa.ChangeType:
				return w(x.X, d+1)
			case *ssa.Phi:
				for _, e := range x.Edges {
					if w(e, d+1) {
						return true
					}
				}
			}
			return false
		}
		return w(v, 0)
	}
	// unexported helpers that hand content to their callers inside the package (under the caller's lock): what
	// matters is whether an exported function passes it on - computed to a fixpoint
	for round := 0; round < 3; round++ {
		for _, f := range P.PkgFuncs("ctree") {
			if P.InTestFile(f) || f.Parent() != nil || isExportedFn(f) {
				continue
			}
			instrs(f, func(in ssa.Instruction) {
				if ret, ok := in.(*ssa.Return); ok {
					for ri, rv := range ret.Results {
						if derives(rv) {
							if innerContent[f] == nil {
								innerContent[f] = map[int]bool{}
							}
							innerContent[f][ri] = true
						}
					}
				}
			})
		}
	}
	nRet := 0
	for _, f := range P.PkgFuncs("ctree") {
		if P.InTestFile(f) || len(innerContent[f]) > 0 {
			continue
		}
		instrs(f, func(in ssa.Instruction) {
			switch x := in.(type) {
			case *ssa.Return:
				for _, rv := range x.Results {
					if !derives(rv) {
						continue
					}
					nRet++
					// a function literal belongs to the method it is written in (a read done inside a callback of a locking helper)
					owner := f
					for owner.Parent() != nil {
						owner = owner.Parent()
					}
					c.Check(owner == tv || owner == lv, rule, fnName(f), "returns the node's content "+Expr(rv), P.Pos(in.Pos()), "only (*Tree).Value (guarded) and (*Leaf).Value may hand out what leafBranch holds")
				}
			case ssa.CallInstruction:
				if g := staticCallee(x.Common()); g == lv || g == lu {
					c.Bad(rule, fnName(f), "call of the handle method "+fnName(g)+" inside package ctree", P.Pos(in.Pos()), "handle methods skip the branch test")
				}
			}
		})
	}
	c.Floor(rule+"/content-returns", nRet, 2)
	// (*Tree).Value returns nil for a branch
	{
		cls := func(e *PPA, st *State, rv RV) string {
			r := e.Resolve(st, rv)
			if ex, ok := r.V.(*ssa.Extract); ok && ex.Index == 1 {
				if t, ok := ex.Tuple.(*ssa.TypeAssert); ok && isNamed(t.AssertedType, "ctree", "branch") {
					return "ISBRANCH"
				}
			}
			if b, ok := r.V.(*ssa.BinOp); ok && (b.Op == token.EQL || b.Op == token.NEQ) && isNilConst(b.Y) {
				if _, isP := e.Resolve(st, RV{r.F, b.X}).V.(*ssa.Parameter); isP {
					if b.Op == token.EQL {
						return "NILRECV"
					}
					return "!NILRECV"
				}
			}
			return ""
		}
		for _, isB := range []bool{true, false} {
			at := &Atoms{Class: cls, Bool: map[string]bool{"ISBRANCH": isB, "NILRECV": false, "!NILRECV": true}}
			e := &PPA{Cond: at.Cond, Inline: func(fr *Frame, call ssa.CallInstruction, callee *ssa.Function) bool {
				return callee.Pkg == tv.Pkg && (fbase(callee) == "isBranch" || fbase(callee) == "IsBranch")
			}}
			e.Run(tv)
			c.Paths += len(e.Paths)
			c.Scen++
			n := 0
			for i := range e.Paths {
				p := &e.Paths[i]
				if p.End != "return" || len(p.Rets) != 1 {
					continue
				}
				n++
				isNil := isNilConst(p.Rets[0].V)
				c.Check(isNil == isB, rule, fnName(tv), fmt.Sprintf("node is a branch=%v", isB), P.Pos(tv.Pos()), "returns "+Expr(p.Rets[0].V))
			}
			c.Floor(fmt.Sprintf("%s/Value(branch=%v)", rule, isB), n, 1)
		}
	}
}

// contentWriters: who may store into a node's content, and what (shared by C09, C08, C04).
// Leaf handles are retained by callers (the cache's feed, every subscriber queue) and read
// later; a delete must unlink the node from its parent and leave the node itself untouched.
func contentWriters(c *Ctx, rule string) {
	P := c.P
	fLB := P.Field("ctree", "Tree", "leafBranch")
	if fLB == nil {
		c.Unresolved(rule, "ctree.Tree.leafBranch")
		return
	}
	c.Rule(rule, "package ctree (non-test): a node's content is stored only by (*Leaf).Update and terminalAdd (the new value), by slowAdd (an empty node becomes an empty branch) and by WalkDeleted / DeleteConditional (the emptied root becomes nil); internalDelete stores nothing into a node - a deleted leaf keeps its value for the handles that are still queued for slow subscribers")
	allowed := map[string]string{
		"(*ctree.Leaf).Update":            "param",
		"(*ctree.Tree).terminalAdd":       "param",
		"(*ctree.Tree).Add":               "param",
		"(*ctree.Tree).slowAdd":           "branch",
		"(*ctree.Tree).WalkDeleted":       "nil",
		"(*ctree.Tree).DeleteConditional": "nil",
	}
	n := 0
	for _, f := range P.PkgFuncs("ctree") {
		if P.InTestFile(f) {
			continue
		}
		instrs(f, func(in ssa.Instruction) {
			st, ok := in.(*ssa.Store)
			if !ok || fieldOf(st.Addr) != fLB {
				return
			}
			if fa, ok := st.Addr.(*ssa.FieldAddr); ok {
				if _, isAlloc := fa.X.(*ssa.Alloc); isAlloc {
					return // composite literal of a fresh node
				}
			}
			n++
			top := f
			for top.Parent() != nil {
				top = top.Parent()
			}
			kind, okF := allowed[fnName(top)]
			if !okF && !isExportedFn(top) {
				// an unexported helper shared by allowed writers of one kind (the root-clearing tail of WalkDeleted / DeleteConditional)
				kinds := map[string]bool{}
				all := true
				nCallers := 0
				for _, g := range P.PkgFuncs("ctree") {
					if P.InTestFile(g) {
						continue
					}
					for _, ci := range callsIn(g) {
						if staticCallee(ci.Common()) != top {
							continue
						}
						nCallers++
						gt := g
						for gt.Parent() != nil {
							gt = gt.Parent()
						}
						if k, ok := allowed[fnName(gt)]; ok {
							kinds[k] = true
						} else {
							all = false
						}
					}
				}
				if all && nCallers > 0 && len(kinds) == 1 {
					okF = true
					for k := range kinds {
						kind = k
					}
				}
			}
			okVal := false
			v := unwrap(st.Val)
			switch kind {
			case "param":
				_, okVal = v.(*ssa.Parameter)
				// ... or the enclosing function's parameter captured by a closure of it (t.writeLocked(func(t *Tree) {
				// t.leafBranch = val })): a free variable bound to a parameter (by value), or to a cell that only ever
				// holds one
				if !okVal {
					src := v
					if u, isU := src.(*ssa.UnOp); isU && u.Op == token.MUL {
						src = u.X
					}
					if fv, isFV := src.(*ssa.FreeVar); isFV && f.Parent() != nil {
						idx := -1
						for i, x := range f.FreeVars {
							if x == fv {
								idx = i
							}
						}
						instrs(f.Parent(), func(pin ssa.Instruction) {
							mc, isMC := pin.(*ssa.MakeClosure)
							if !isMC || mc.Fn != ssa.Value(f) || idx < 0 || idx >= len(mc.Bindings) {
								return
							}
							b := mc.Bindings[idx]
							if _, isP := b.(*ssa.Parameter); isP {
								okVal = true
							}
							if al, isAl := b.(*ssa.Alloc); isAl {
								if sv := singleStore(al); sv != nil {
									if _, isP := unwrap(sv).(*ssa.Parameter); isP {
										okVal = true
									}
								}
							}
						})
					}
				}
			case "branch":
				okVal = isNamed(v.Type(), "ctree", "branch")
			case "nil":
				okVal = isNilConst(st.Val) || isNilConst(v)
			}
			c.Check(okF && okVal, rule, fnName(f), "store into a node's content: "+Expr(st.Val), P.Pos(in.Pos()), fmt.Sprintf("writer allowed=%v, value of the allowed kind (%s)=%v", okF, kind, okVal))
		})
	}
	c.Floor(rule+"/stores", n, 4)
}

// advSoFar: how many leading path elements the walk recorded on this path has dropped, and how many
// child lookups it has made (facts emitted by getTable's probe).
func advSoFar(st *State) (off int64, steps int) {
	for _, ev := range st.trace {
		if ev.Label != "fact" {
			continue
		}
		if strings.HasPrefix(ev.Note, "adv:") {
			var k int64
			fmt.Sscanf(ev.Note, "adv:%d", &k)
			off += k
		}
		if strings.HasPrefix(ev.Note, "step:") {
			steps++
		}
	}
	return
}

func isBranchLookup(v ssa.Value) bool {
	if ex, ok := v.(*ssa.Extract); ok && ex.Index == 0 {
		v = ex.Tuple
	}
	lk, ok := v.(*ssa.Lookup)
	return ok && isNamed(lk.X.Type(), "ctree", "branch")
}

// getTable: the exact-path lookup (*Tree).Get, per node: the path ends here => this node; otherwise a
// branch that has the child path[0] => that child's Get with path[1:]; anything else => nil.  GetLeaf and
// GetLeafValue are Get followed by a conversion / the nil-safe Value.
func getTable(c *Ctx, rule string) {
	P := c.P
	get := P.Method("ctree", "Tree", "Get")
	getLeaf := P.Method("ctree", "Tree", "GetLeaf")
	getLV := P.Method("ctree", "Tree", "GetLeafValue")
	fLB := P.Field("ctree", "Tree", "leafBranch")
	if get == nil || getLeaf == nil || getLV == nil || fLB == nil || len(get.Params) != 2 {
		c.Unresolved(rule, "ctree.(*Tree).Get / GetLeaf / GetLeafValue / Tree.leafBranch")
		return
	}
	c.Rule(rule, "(*Tree).Get, per node (1 and 2 elements left): the path ends here => this very node; a branch with the child path[0] => the result of that child's Get with path[1:]; a branch without it, a leaf or an empty node with path left => nil (a value is found only under exactly the path it was stored at). GetLeaf / GetLeafValue return what Get(path) of the same path finds (as a leaf handle / through the nil-safe Value)")
	c.Analysed(fnName(get))
	tP, pathP := ssa.Value(param(get, 0)), ssa.Value(param(get, 1))
	cls := func(e *PPA, st *State, rv RV) string {
		r := e.Resolve(st, rv)
		switch v := r.V.(type) {
		case *ssa.Call:
			if la, ok := lenArg(v); ok {
				lv := e.Resolve(st, RV{r.F, la})
				if lv.V == pathP {
					return "PLEN"
				}
				if _, isSl := lv.V.(*ssa.Slice); isSl && types.Identical(lv.V.Type(), pathP.Type()) && r.F != nil && r.F.Parent == nil {
					if off, _ := advSoFar(st); off > 0 {
						return fmt.Sprintf("PLEN-%d", off)
					}
				}
			}
		case *ssa.BinOp:
			if v.Op != token.EQL && v.Op != token.NEQ {
				return ""
			}
			neg := ""
			if v.Op == token.NEQ {
				neg = "!"
			}
			for _, pr := range [][2]ssa.Value{{v.X, v.Y}, {v.Y, v.X}} {
				if isNilConst(pr[1]) {
					x := e.Resolve(st, RV{r.F, pr[0]})
					if lk, ok := x.V.(*ssa.Lookup); ok && isNamed(lk.X.Type(), "ctree", "branch") {
						return neg + "NOCHILD"
					}
					if ex, ok := x.V.(*ssa.Extract); ok && ex.Index == 0 {
						if lk, ok := ex.Tuple.(*ssa.Lookup); ok && isNamed(lk.X.Type(), "ctree", "branch") {
							return neg + "NOCHILD"
						}
					}
					if loadOfField(x.V, fLB) {
						return neg + "EMPTY"
					}
				}
			}
		case *ssa.Extract:
			if ta, ok := v.Tuple.(*ssa.TypeAssert); ok && v.Index == 1 && isNamed(ta.AssertedType, "ctree", "branch") {
				return "ISBRANCH"
			}
			if lk, ok := v.Tuple.(*ssa.Lookup); ok && v.Index == 1 && isNamed(lk.X.Type(), "ctree", "branch") {
				return "!NOCHILD"
			}
		}
		return ""
	}
	describe := func(rv RV) string {
		switch v := rv.V.(type) {
		case *ssa.Const:
			if v.Value == nil {
				return "nil"
			}
		case *ssa.Parameter:
			if ssa.Value(v) == tP {
				return "this node"
			}
		case *ssa.Call:
			if staticCallee(&v.Call) != get {
				break
			}
			args := refArgs(&v.Call)
			child := "other node " + Expr(args[0])
			if lk, ok := args[0].(*ssa.Lookup); ok && isNamed(lk.X.Type(), "ctree", "branch") {
				if u, ok := lk.Index.(*ssa.UnOp); ok {
					if ia, ok := u.X.(*ssa.IndexAddr); ok && frameResolve(RV{rv.F, ia.X}).V == pathP {
						if k, okc := constInt(ia.Index); okc && k == 0 {
							child = "path[0] child"
						}
					}
				}
			}
			if ex, ok := args[0].(*ssa.Extract); ok && ex.Index == 0 {
				if lk, ok := ex.Tuple.(*ssa.Lookup); ok && isNamed(lk.X.Type(), "ctree", "branch") {
					if u, ok := lk.Index.(*ssa.UnOp); ok {
						if ia, ok := u.X.(*ssa.IndexAddr); ok && frameResolve(RV{rv.F, ia.X}).V == pathP {
							if k, okc := constInt(ia.Index); okc && k == 0 {
								child = "path[0] child"
							}
						}
					}
				}
			}
			pth := "other path " + Expr(args[1])
			if sl, ok := args[1].(*ssa.Slice); ok && frameResolve(RV{rv.F, sl.X}).V == pathP && sl.High == nil && sl.Low != nil {
				if k, okc := constInt(sl.Low); okc && k == 1 {
					pth = "path[1:]"
				}
			}
			return "Get of " + child + " with " + pth
		}
		return "other: " + Expr(rv.V)
	}
	type row struct {
		name  string
		plen  int64
		kind  string
		child bool
		want  string
	}
	rows := []row{
		{"path ends at a branch", 0, "branch", false, "this node"},
		{"path ends at a leaf", 0, "leaf", false, "this node"},
		{"path ends at an empty node", 0, "empty", false, "this node"},
	}
	for _, pl := range []int64{1, 2} {
		rows = append(rows,
			row{fmt.Sprintf("%d element(s) left at a branch, child present", pl), pl, "branch", true, "Get of path[0] child with path[1:]"},
			row{fmt.Sprintf("%d element(s) left at a branch, child absent", pl), pl, "branch", false, "nil"},
			row{fmt.Sprintf("%d element(s) left at a leaf", pl), pl, "leaf", false, "nil"},
			row{fmt.Sprintf("%d element(s) left at an empty node", pl), pl, "empty", false, "nil"})
	}
	for _, rw := range rows {
		b := map[string]bool{"ISBRANCH": rw.kind == "branch", "EMPTY": rw.kind == "empty", "NOCHILD": !rw.child, "!EMPTY": rw.kind != "empty", "!NOCHILD": rw.child}
		at := &Atoms{Class: cls, Bool: b, Int: map[string]int64{"PLEN": rw.plen, "PLEN-1": rw.plen - 1, "PLEN-2": rw.plen - 2, "PLEN-3": rw.plen - 3}}
		// the loop form of Get keeps the current node and the rest of the path in loop variables.  An SSA value
		// does not tell iterations apart, so the walk is recorded on the path itself: "adv:k" when the path
		// is sliced from the front, "step:path[i]" when the current node's child map is looked up with the
		// (absolute) element i; the node returned after the steps is the chain of those children.
		e := &PPA{Cond: at.Cond, MaxVisits: 4, Watch: func(ev *Ev) bool { return ev.Label == "fact" },
			Probe: func(e *PPA, st *State, fr *Frame, in ssa.Instruction) {
				if fr.Parent != nil {
					return
				}
				switch x := in.(type) {
				case *ssa.Slice:
					if x.High == nil && x.Max == nil && x.Low != nil && types.Identical(x.Type(), pathP.Type()) {
						if k, ok := constInt(e.Resolve(st, RV{fr, x.Low}).V); ok {
							e.emit(st, Ev{Label: "fact", In: in, F: fr, Note: fmt.Sprintf("adv:%d", k)})
						}
					}
				case *ssa.Lookup:
					if !isNamed(x.X.Type(), "ctree", "branch") {
						return
					}
					off, steps := advSoFar(st)
					key := "?"
					kv := e.Resolve(st, RV{fr, x.Index})
					if u, ok := kv.V.(*ssa.UnOp); ok && u.Op == token.MUL {
						if ia, ok := u.X.(*ssa.IndexAddr); ok {
							if k, okc := constInt(e.Resolve(st, RV{kv.F, ia.Index}).V); okc {
								key = fmt.Sprintf("path[%d]", off+k)
							}
						}
					}
					// the map looked up belongs to the current node: the receiver before the first step, the
					// previous step's child afterwards
					mv := e.Resolve(st, RV{fr, x.X})
					mx := mv.V
					if ex, ok := mx.(*ssa.Extract); ok && ex.Index == 0 {
						mx = ex.Tuple
					}
					cur := false
					if ta, ok := mx.(*ssa.TypeAssert); ok {
						if u, ok := ta.X.(*ssa.UnOp); ok && u.Op == token.MUL {
							if fa, ok := u.X.(*ssa.FieldAddr); ok && fieldOf(fa) == fLB {
								nv := e.Resolve(st, RV{mv.F, fa.X})
								if steps == 0 {
									cur = nv.V == tP
								} else {
									cur = isBranchLookup(nv.V)
								}
							}
						}
					}
					if !cur {
						key = "?"
					}
					e.emit(st, Ev{Label: "fact", In: in, F: fr, Note: "step:" + key})
				case *ssa.Return:
					if len(x.Results) != 1 {
						return
					}
					r := e.Resolve(st, RV{fr, x.Results[0]})
					d := describe(r)
					if isBranchLookup(r.V) {
						d = "this node"
						for _, ev := range st.trace {
							if ev.Label == "fact" && strings.HasPrefix(ev.Note, "step:") {
								d = "child(" + d + ", " + strings.TrimPrefix(ev.Note, "step:") + ")"
							}
						}
					}
					e.emit(st, Ev{Label: "fact", In: in, F: fr, Note: "ret:" + d})
				}
			}}
		e.Run(get)
		c.Paths += len(e.Paths)
		c.Scen++
		n := 0
		for i := range e.Paths {
			p := &e.Paths[i]
			if p.End != "return" || len(p.Rets) != 1 {
				continue
			}
			n++
			got := describe(p.Rets[0])
			for k := range p.Trace {
				if p.Trace[k].Label == "fact" && strings.HasPrefix(p.Trace[k].Note, "ret:") {
					got = strings.TrimPrefix(p.Trace[k].Note, "ret:")
				}
			}
			// loop form: the child chain followed to the end of the path stands for the recursive call
			want2 := ""
			if rw.child {
				want2 = "this node"
				for k := int64(0); k < rw.plen; k++ {
					want2 = fmt.Sprintf("child(%s, path[%d])", want2, k)
				}
			}
			c.Check(got == rw.want || (want2 != "" && got == want2), rule, fnName(get), rw.name, P.Pos(get.Pos()), fmt.Sprintf("returns %s, want %s", got, rw.want))
		}
		c.Check(n == 1, rule, fnName(get), rw.name+" (decided)", P.Pos(get.Pos()), fmt.Sprintf("%d returning paths (1 = every condition folded)", n))
	}
	// GetLeaf / GetLeafValue: exactly one Get call, on the receiver, with the path parameter; the result derives from it
	for _, f := range []*ssa.Function{getLeaf, getLV} {
		c.Analysed(fnName(f))
		e := &PPA{NoAuto: true, Watch: func(ev *Ev) bool { return ev.Label == "call:"+fnName(get) }}
		e.Run(f)
		c.Paths += len(e.Paths)
		n := 0
		for i := range e.Paths {
			p := &e.Paths[i]
			if p.End != "return" || len(p.Rets) != 1 {
				continue
			}
			n++
			gi := p.Index(0, lbl("call:"+fnName(get)))
			ok := gi >= 0 && p.Count(lbl("call:"+fnName(get))) == 1 && len(p.Trace[gi].Args) == 2 &&
				p.Trace[gi].Args[0].V == ssa.Value(param(f, 0)) && p.Trace[gi].Args[1].V == ssa.Value(param(f, 1))
			// the result is the Get result converted, or Value() of it
			from := false
			if ok {
				r := p.Rets[0].V
				for k := 0; k < 4; k++ {
					switch x := r.(type) {
					case *ssa.ChangeType:
						r = x.X
						continue
					case *ssa.Convert:
						r = x.X
						continue
					case *ssa.Call:
						if calleeName(&x.Call) == "(*ctree.Tree).Value" && len(x.Call.Args) == 1 {
							r = x.Call.Args[0]
							continue
						}
					}
					break
				}
				from = r == p.Trace[gi].In.(ssa.Value)
			}
			c.Check(ok && from, rule, fnName(f), "returns what Get(path) of the receiver finds", P.Pos(f.Pos()), "path: "+p.String())
		}
		c.Floor(rule+"/"+fnName(f), n, 1)
	}
}
