package main

import "fmt"

func debugAlias(P *Prog) {
	a := NewAliasAudit(P)
	fs := a.Audit([]string{"cache", "subscribe", "match", "path", "client/gnmi", "ctree", "client", "cli", "manager", "coalesce"})
	fmt.Printf("appends=%d retained=%d findings=%d\n", a.Appends, a.Retained, len(fs))
	for _, f := range fs {
		fmt.Printf("  %s %s [%s] %s\n     %s\n", f.Shape, fnName(f.Fn), P.Pos(f.Call.Pos()), Expr(f.Call), f.Detail)
	}
	for _, o := range a.Owned {
		fmt.Println("  owned:", o)
	}
}
