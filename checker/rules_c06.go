package main

import (
	"fmt"
	"go/ast"
	"go/types"
	"strings"

	"golang.org/x/tools/go/ssa"
)

func init() {
	register(&propDef{
		ID:       "C06",
		Explain:  "Decided (the at-most-once / never-after-removal / same-key clauses and the per-node table of the match relation): in (*branch).update every Client.Update invoke is skipped for a client already in the per-notification set and is followed by the insertion of that client into the set; subscribe.UpdateNotification hands a non-nil set to every UpdateOnce call, the same set for all updates and deletes of one notification, and Server.Update makes exactly one UpdateNotification call per leaf; the registry's clients/children maps are only touched under Match.mu (writes under the write lock), so when the remove function returns no update is in flight; the remove closure calls removeQuery with the very query/client values given to addQuery and the retained query slice is not aliased by later appends (append-ownership rule on subscribe/match); removeQuery prunes a child only when the recursive call reported it empty and reports a node empty only when it has neither clients nor children; the three index constructions (subscription, snapshot, update) all go through path.ToStrings/CompletePath. Also decided: every recursive call of (*branch).update hands on the per-notification set; the composition of every index slice is fixed (registration: ToStrings(prefix,true) [origin] ToStrings(path,false); update: prefix parameter + ToStrings(path,false), the prefix built with ToStrings(prefix,true) at every caller of UpdateNotification). Also decided: the per-node decision table of the match descent ((*branch).update: clients of the node offered on every path; no children => no descent; exhausted path => every child with an exhausted path; glob element => every child with path[1:]; plain element => exactly the glob child and the path[0] child when present, with path[1:]; evaluated with 1 and 2 elements left) and its agreement with addQuery/removeQuery (exhausted query => this node's clients keyed by the client; otherwise children[query[0]] with query[1:]) - from which 'offered iff every common element agrees, a wildcard on either side agreeing with anything' follows by induction on the path. Round-3 additions: every place that offers a notification to the registry composes the full path of each update/delete (no match at the bare prefix); the query descent's per-node table (C09.query-table, borrowed) for the containment clause. Round-4 addition: every Client.Update invocation in package match happens while Match.mu is held, on every path from every exported entry point (so no offer follows the return of the remove function, which takes the lock for writing). Round-5 addition: addQuery registers unconditionally - the store into clients / the descent happens on every path whatever the node already holds (a client registered for a shorter query included). Round-6 addition: Match.Update / UpdateOnce run the descent on every returning path - no early exit decided by state kept beside the trie (a live-query counter an idempotent remove can drive out of step). Round-7 additions: the snapshot side's CompletePath table, including that what is returned is the accumulated slice itself (an element filtered on the snapshot side only makes the query return leaves the registered key never matches); one match client per subscriber for all its paths.",
		NotCover: "the induction itself (the per-node table is decided, its closure over whole paths is argued in DESIGN, not derived mechanically) and the containment of ctree.Query's relation in the match relation",
		Run:      runC06,
	})
}

func runC06(c *Ctx) {
	P := c.P
	upd := P.Method("match", "branch", "update")
	addQ := P.Method("match", "branch", "addQuery")
	remQ := P.Method("match", "branch", "removeQuery")
	AddQuery := P.Method("match", "Match", "AddQuery")
	UpdateOnce := P.Method("match", "Match", "UpdateOnce")
	un := P.Func("subscribe", "UpdateNotification")
	sUpd := P.Method("subscribe", "Server", "Update")
	fClients := P.Field("match", "branch", "clients")
	fChildren := P.Field("match", "branch", "children")
	fMu := P.Field("match", "Match", "mu")
	for n, ok := range map[string]bool{"match.(*branch).update": upd != nil, "match.(*branch).addQuery": addQ != nil, "match.(*branch).removeQuery": remQ != nil, "match.(*Match).AddQuery": AddQuery != nil,
		"match.(*Match).UpdateOnce": UpdateOnce != nil, "subscribe.UpdateNotification": un != nil, "subscribe.(*Server).Update": sUpd != nil, "match.branch.clients": fClients != nil,
		"match.branch.children": fChildren != nil, "match.Match.mu": fMu != nil} {
		if !ok {
			c.Unresolved("C06.anchors", n)
		}
	}
	if len(c.Unres) > 0 {
		return
	}
	c.Rule("C06.once", "(*branch).update: with a per-notification set, a client found in the set is not invoked and an invoked client is inserted into the set (same key) before the next invoke; UpdateNotification passes a non-nil set to every UpdateOnce call on every path (so a client with several matching paths is still offered a notification once), the same set value for all updates and deletes; Server.Update calls UpdateNotification exactly once")
	c.Rule("C06.locked", "every read of branch.clients / branch.children holds Match.mu (R or W), every map insert/delete on them holds it for writing; entry points included")
	c.Rule("C06.same-key", "the remove closure returned by AddQuery calls removeQuery with the same query and client values that were given to addQuery")
	c.Rule("C06.alias", "append-ownership in packages subscribe and match: no retained append on a foreign or forked base (the query slice retained by the remove closure must not be aliased by a later append)")
	c.Rule("C06.prune", "removeQuery: delete(children, k) only when the recursive removeQuery returned true; a node reports itself empty iff len(clients)==0 && len(children)==0 (evaluated at (0,0),(1,0),(0,1),(1,1))")
	c.Rule("C06.paths-agree", "the index slices given to AddQuery and UpdateOnce are built only from path.ToStrings results (plus the subscription path's origin); the snapshot path comes from path.CompletePath")

	matchDescent(c, "C06.descent")
	// ---- an offer is decided by the registry alone: every exported entry point that offers reaches the descent
	c.Rule("C06.always-descends", "match.(*Match).Update and UpdateOnce: every path that returns has run the descent from the root of the registry with the caller's notification and path - no early exit decided by state kept beside the trie (a counter of live queries, a cached flag), which an idempotent remove called twice or a re-registration can leave out of step with what is registered")
	{
		upd := P.Method("match", "branch", "update")
		n := 0
		for _, name := range []string{"Update", "UpdateOnce"} {
			f := P.Method("match", "Match", name)
			if f == nil || upd == nil {
				c.Unresolved("C06.always-descends", "match.(*Match)."+name+" / (*branch).update")
				continue
			}
			c.Analysed(fnName(f))
			e := &PPA{Watch: func(ev *Ev) bool { return ev.Label == "call:"+fnName(upd) },
				Inline: func(fr *Frame, call ssa.CallInstruction, callee *ssa.Function) bool {
					return callee.Pkg == f.Pkg && callee != upd && callee != f // one entry point written in terms of the other
				}}
			e.Run(f)
			c.Paths += len(e.Paths)
			for i := range e.Paths {
				p := &e.Paths[i]
				if p.End != "return" {
					continue
				}
				n++
				di := p.Index(0, lbl("call:"+fnName(upd)))
				okArgs := di >= 0 && len(p.Trace[di].Args) >= 3 && frameResolve(p.Trace[di].Args[1]).V == ssa.Value(param(f, 1)) && frameResolve(p.Trace[di].Args[2]).V == ssa.Value(param(f, 2))
				c.Check(okArgs, "C06.always-descends", fnName(f), "every return is preceded by the descent with the caller's notification and path", P.Pos(f.Pos()), "path: "+p.String())
			}
		}
		c.Floor("C06.always-descends/paths", n, 2)
	}
	oneClientPerSubscriber(c, "C06.one-client")
	c.Rule("C06.snapshot-path", "the snapshot half of a subscription asks the cache for path.CompletePath(prefix, path) while the streaming half registers the prefix and path elements as they are: CompletePath's decision table (shared with C05 / C19) - origin first, then the prefix index, then the path index, and what is returned is that accumulated slice itself; an element dropped, filtered or rewritten on the snapshot side only makes the query return leaves the registered key never matches")
	completePathTable(c, "C06.snapshot-path")
	c.Borrow("C09", map[string]string{"C09.query-table": "C06.query-table"}, "'every leaf a query for that path would return is also streamed' needs the query relation to be the per-node table the match descent contains")
	isInvoke := func(ev *Ev) bool {
		ci, ok := ev.In.(ssa.CallInstruction)
		return ok && ci.Common().IsInvoke() && ci.Common().Method.Name() == "Update" && isNamed(ci.Common().Value.Type(), "match", "Client")
	}
	// ---- offers are made while the registry lock is held (so that the remove function, which takes it for
	// writing, returns only when no offer to the removed client is still to come)
	c.Rule("C06.offer-locked", "every Client.Update invocation in package match happens while Match.mu is held (R or W), on every path from every exported entry point that can reach one; the remove function takes the same lock for writing, so no offer follows its return")
	{
		hasInvoke := func(f *ssa.Function) bool {
			found := false
			instrs(f, func(in ssa.Instruction) {
				if ci, ok := in.(ssa.CallInstruction); ok && ci.Common().IsInvoke() && ci.Common().Method.Name() == "Update" && isNamed(ci.Common().Value.Type(), "match", "Client") {
					found = true
				}
			})
			return found
		}
		var sites []*ssa.Function
		for _, f := range P.PkgFuncs("match") {
			if !P.InTestFile(f) && hasInvoke(f) {
				sites = append(sites, f)
			}
		}
		covered := map[*ssa.Function]bool{}
		nOffers := 0
		for _, f := range P.PkgFuncs("match") {
			if P.InTestFile(f) || f.Parent() != nil || !ast.IsExported(f.Name()) {
				continue
			}
			reach := false
			for _, g := range sites {
				for h := range syncReach(f) {
					for _, a := range withAnon(h) {
						if a == g {
							reach = true
						}
					}
				}
			}
			if !reach {
				continue
			}
			c.Analysed(fnName(f))
			depth := map[*ssa.Function]int{}
			e := &PPA{MaxVisits: 2, NoAuto: true,
				Inline: func(fr *Frame, call ssa.CallInstruction, callee *ssa.Function) bool {
					if callee.Pkg == nil || callee.Pkg != f.Pkg {
						return false
					}
					n := 0
					for x := fr; x != nil; x = x.Parent {
						if x.Fn == callee {
							n++
						}
					}
					_ = depth
					return n < 1
				},
				Watch: func(ev *Ev) bool { return isInvoke(ev) || (isLockOp(ev) && ev.Field == fMu) }}
			e.Run(f)
			c.Paths += len(e.Paths)
			for i := range e.Paths {
				p := &e.Paths[i]
				held := 0
				for j := range p.Trace {
					ev := &p.Trace[j]
					if isLockOp(ev) {
						if lockOps[ev.Label][1] == '+' {
							held++
						} else {
							held--
						}
						continue
					}
					nOffers++
					if ci, ok := ev.In.(ssa.CallInstruction); ok {
						covered[ci.Parent()] = true
					}
					c.Check(held > 0, "C06.offer-locked", fnName(f), "Client.Update invoked in "+fnName(ev.In.Parent())+" with Match.mu held", P.Pos(posOf(ev.In)), "path: "+p.String())
				}
			}
			c.Check(!e.Overflow, "C06.offer-locked", fnName(f), "path enumeration complete", P.Pos(f.Pos()), "")
		}
		for _, g := range sites {
			c.Check(covered[g], "C06.offer-locked", fnName(g), "invocation site reached from an exported entry point of the package", P.Pos(g.Pos()), "an offer made outside the analysed entry points is not known to hold the lock")
		}
		c.Floor("C06.offer-locked/offers", nOffers, 2)
	}
	// ---- once: evaluated from the exported UpdateOnce with the descent (one level) and any function values it is
	// handed inlined - whichever function holds the "already offered?" test
	{
		c.Analysed(fnName(UpdateOnce))
		c.Analysed(fnName(upd))
		var setP ssa.Value
		for _, p := range UpdateOnce.Params {
			if _, ok := p.Type().Underlying().(*types.Map); ok {
				setP = p
			}
		}
		if setP == nil {
			c.Unresolved("C06.once", "the per-notification set parameter of match.(*Match).UpdateOnce")
			return
		}
		for _, found := range []bool{true, false} {
			cls := func(e *PPA, st *State, rv RV) string {
				rv = e.Resolve(st, rv)
				if rv.V == setP {
					return "UPD"
				}
				if ex, ok := rv.V.(*ssa.Extract); ok && ex.Index == 1 {
					if lk, ok := ex.Tuple.(*ssa.Lookup); ok && lk.CommaOk && e.Resolve(st, RV{rv.F, lk.X}).V == setP {
						return "FOUND"
					}
				}
				return ""
			}
			at := &Atoms{Class: cls, Bool: map[string]bool{"UPD": true, "FOUND": found}}
			e := &PPA{Cond: at.Cond, MaxVisits: 3, NoAuto: true,
				Inline: func(fr *Frame, call ssa.CallInstruction, callee *ssa.Function) bool {
					if callee.Pkg == nil || callee.Pkg != UpdateOnce.Pkg {
						return false
					}
					for x := fr; x != nil; x = x.Parent {
						if x.Fn == callee {
							return false
						}
					}
					return true
				},
				Watch: func(ev *Ev) bool {
					return isInvoke(ev) || (strings.HasPrefix(ev.Label, "mapupdate:") && ev.Args[0].V == setP)
				}}
			e.Run(UpdateOnce)
			c.Paths += len(e.Paths)
			c.Scen++
			n := 0
			sawInvoke := false
			for i := range e.Paths {
				p := &e.Paths[i]
				n++
				inv := p.Count(isInvoke)
				if found {
					c.Check(inv == 0, "C06.once", fnName(UpdateOnce), "client already in the set is not invoked", P.Pos(upd.Pos()), fmt.Sprintf("%d invokes; path: %s", inv, p.String()))
					continue
				}
				ok := true
				for j := range p.Trace {
					if !isInvoke(&p.Trace[j]) {
						continue
					}
					sawInvoke = true
					if j+1 >= len(p.Trace) || isInvoke(&p.Trace[j+1]) || p.Trace[j+1].Args[1] != p.Trace[j].Args[0] {
						ok = false
					}
				}
				c.Check(ok, "C06.once", fnName(UpdateOnce), "invoked client is entered into the set before the next invoke", P.Pos(upd.Pos()), "path: "+p.String())
			}
			if !found {
				c.Check(sawInvoke, "C06.once", fnName(UpdateOnce), "a client that is not in the set is offered the notification", P.Pos(upd.Pos()), "no explored path invokes a client")
			}
			c.Floor(fmt.Sprintf("C06.once/update-paths(found=%v)", found), n, 2)
		}
	}
	// ---- once: the recursion hands on, unchanged, everything but the path (the set, or the function that holds it)
	{
		pathIdx := -1
		for i, p := range upd.Params {
			if ssa.Value(p) == ssa.Value(param(upd, 2)) {
				pathIdx = i
			}
		}
		n := 0
		for _, ci := range callsIn(upd) {
			if staticCallee(ci.Common()) != upd {
				continue
			}
			n++
			args := ci.Common().Args
			ok := len(args) == len(upd.Params)
			bad := ""
			for j := 1; ok && j < len(args); j++ {
				if j == pathIdx {
					continue
				}
				if args[j] != ssa.Value(upd.Params[j]) {
					ok = false
					bad = fmt.Sprintf("parameter %s is replaced by %s", upd.Params[j].Name(), Expr(args[j]))
				}
			}
			c.Check(ok, "C06.once", fnName(upd), "recursive update hands on the per-notification set", P.Pos(ci.Pos()), bad)
		}
		// (one call site when the children to descend into are collected first and processed in one loop)
		c.Floor("C06.once/recursive-calls", n, 1)
	}
	// ---- once: UpdateNotification always hands a set
	{
		c.Analysed(fnName(un))
		e := &PPA{MaxVisits: 3, Watch: func(ev *Ev) bool { return ev.Label == "call:"+fnName(UpdateOnce) }}
		e.Run(un)
		c.Paths += len(e.Paths)
		n := 0
		for i := range e.Paths {
			p := &e.Paths[i]
			if len(p.Trace) == 0 {
				continue
			}
			n++
			same := true
			nonNil := true
			first := p.Trace[0].Args[3]
			for j := range p.Trace {
				a := p.Trace[j].Args[3]
				if a != first {
					same = false
				}
				if _, isMake := a.V.(*ssa.MakeMap); !isMake {
					nonNil = false
				}
			}
			c.Check(same && nonNil, "C06.once", fnName(un), "a non-nil set, the same for every update/delete of the notification", P.Pos(un.Pos()),
				fmt.Sprintf("set argument %s: same for all calls=%v, provably non-nil=%v; path: %s", Expr(first.V), same, nonNil, p.String()))
		}
		c.Floor("C06.once/UpdateNotification-paths", n, 2)
		c.Analysed(fnName(sUpd))
		k := 0
		for _, ci := range callsIn(sUpd) {
			if staticCallee(ci.Common()) == un {
				k++
			}
		}
		c.Check(k == 1, "C06.once", fnName(sUpd), "one UpdateNotification call per leaf", P.Pos(sUpd.Pos()), fmt.Sprintf("%d call sites", k))
	}
	// ---- locked
	{
		la := NewLockAudit(c, "match", map[*types.Var]*types.Var{fClients: fMu, fChildren: fMu}, 2, fClients, fChildren)
		la.Report(func(kind string) string { return "C06.locked" })
		c.Check(la.Accesses >= 10, "C06.locked", "match", "guarded accesses analysed", "", fmt.Sprintf("%d accesses on paths, %d directly under Match.mu, the rest discharged at call sites", la.Accesses, la.Guarded))
	}
	// ---- same key
	{
		c.Analysed(fnName(AddQuery))
		var addArgs []ssa.Value
		for _, ci := range callsIn(AddQuery) {
			if staticCallee(ci.Common()) == addQ {
				addArgs = refArgs(ci.Common())
			}
		}
		ok := false
		detail := "no remove closure found"
		instrs(AddQuery, func(in ssa.Instruction) {
			r, isR := in.(*ssa.Return)
			if !isR || len(r.Results) != 1 {
				return
			}
			var mc *ssa.MakeClosure
			for _, sv := range storedValues(r.Results[0]) {
				if m, isMC := sv.(*ssa.MakeClosure); isMC {
					mc = m
				}
			}
			if mc == nil {
				detail = "AddQuery does not return a function literal"
				return
			}
			cf := mc.Fn.(*ssa.Function)
			c.Analysed(fnName(cf))
			norm := func(v ssa.Value) ssa.Value {
				if u, isU := v.(*ssa.UnOp); isU {
					if al, isAl := u.X.(*ssa.Alloc); isAl {
						if s := singleStore(al); s != nil {
							return s
						}
					}
				}
				return v
			}
			// path-based (helpers the closure delegates to are entered): every removeQuery call gets
			// the query and client values that addQuery was given
			isRem := lbl("call:" + fnName(remQ))
			e := &PPA{Watch: isRem}
			e.RunClosure(mc)
			c.Paths += len(e.Paths)
			nCalls := 0
			all := true
			for i := range e.Paths {
				p := &e.Paths[i]
				for j := range p.Trace {
					ev := &p.Trace[j]
					if !isRem(ev) || len(ev.Args) != 3 || len(addArgs) != 3 {
						continue
					}
					nCalls++
					q, cl := norm(ev.Args[1].V), norm(ev.Args[2].V)
					if q != norm(addArgs[1]) || cl != norm(addArgs[2]) {
						all = false
					}
					detail = fmt.Sprintf("addQuery(%s, %s) / removeQuery(%s, %s)", Expr(addArgs[1]), Expr(addArgs[2]), Expr(q), Expr(cl))
				}
			}
			ok = all && nCalls > 0
			if nCalls == 0 {
				detail = "the remove function never reaches removeQuery"
			}
		})
		c.Check(ok, "C06.same-key", fnName(AddQuery), "remove uses the registration's key", P.Pos(AddQuery.Pos()), detail)
	}
	aliasRule(c, "C06.alias", []string{"subscribe", "match"})
	// ---- prune
	removeQueryPrune(c, "C06.prune")
	// ---- paths agree
	{
		addSub := P.Func("subscribe", "addSubscription")
		procSub := P.Method("subscribe", "Server", "processSubscription")
		if addSub == nil || procSub == nil {
			c.Unresolved("C06.paths-agree", "subscribe.addSubscription / processSubscription")
			return
		}
		check := func(f *ssa.Function, callee string, argIdx int, valid func(seq []string) bool, shape string) {
			c.Analysed(fnName(f))
			n := 0
			var cis []ssa.CallInstruction
			for _, g := range withAnon(f) {
				cis = append(cis, callsIn(g)...)
			}
			for _, ci := range cis {
				if calleeName(ci.Common()) != callee {
					continue
				}
				n++
				seqs := indexSeqs(ci.Common().Args[argIdx])
				ok := len(seqs) > 0
				for _, s := range seqs {
					if !valid(s) {
						ok = false
					}
				}
				c.Check(ok, "C06.paths-agree", fnName(f), "index passed to "+callee, P.Pos(ci.Pos()), "composed as "+seqsString(seqs)+"; required "+shape)
			}
			c.Floor("C06.paths-agree/"+fnName(f), n, 1)
		}
		regShape := func(s []string) bool {
			j := strings.Join(s, " ")
			return j == "T:true T:false" || j == "T:true origin T:false"
		}
		updShape := func(s []string) bool {
			j := strings.Join(s, " ")
			return j == "param:"+param(un, 3).Name()+" T:false" || j == "T:true T:false"
		}
		pfxShape := func(s []string) bool { return strings.Join(s, " ") == "T:true" }
		check(addSub, "(*match.Match).AddQuery", 1, regShape, "ToStrings(prefix, true) [origin] ToStrings(path, false)")
		// each registration depends only on the list prefix and its own subscription:
		// no loop-carried value (other than the range index) flows into the query
		c.Rule("C06.query-independent", "in addSubscription the query given to AddQuery for one subscription does not depend on a loop-carried variable (state leaking from earlier subscriptions of the list), only on the list prefix and that subscription")
		for _, ci := range callsIn(addSub) {
			if calleeName(ci.Common()) != "(*match.Match).AddQuery" {
				continue
			}
			var carried []string
			seen := map[ssa.Value]bool{}
			var w func(v ssa.Value)
			w = func(v ssa.Value) {
				if v == nil || seen[v] {
					return
				}
				seen[v] = true
				switch x := v.(type) {
				case *ssa.Phi:
					// loop header phi: one incoming edge is a back edge
					hdr := false
					for _, p := range x.Block().Preds {
						if x.Block().Dominates(p) {
							hdr = true
						}
					}
					if hdr && !strings.Contains(x.Comment, "rangeindex") {
						carried = append(carried, Expr(x))
					}
					for _, e := range x.Edges {
						w(e)
					}
				case *ssa.Call:
					if ac, ok := isAppend(x); ok {
						for _, a := range ac.Call.Args {
							w(a)
						}
					}
				case *ssa.Slice:
					if al, ok := x.X.(*ssa.Alloc); ok {
						for _, r := range *al.Referrers() {
							if ia, ok := r.(*ssa.IndexAddr); ok {
								for _, rr := range *ia.Referrers() {
									if st, ok := rr.(*ssa.Store); ok {
										w(st.Val)
									}
								}
							}
						}
						return
					}
					w(x.X)
				case *ssa.UnOp:
					for _, sv := range storedValues(x) {
						if sv != v {
							w(sv)
						}
					}
				}
			}
			w(ci.Common().Args[1])
			c.Check(len(carried) == 0, "C06.query-independent", fnName(addSub), "query of one subscription is independent of the others", P.Pos(ci.Pos()), "loop-carried values in the query: "+strings.Join(carried, ", "))
		}
		check(un, "(*match.Match).UpdateOnce", 2, updShape, "<prefix parameter> ToStrings(path, false)")
		// every other place that offers a notification to the registry (all non-test packages outside match)
		// must compose a full path the same way: prefix index followed by a path index
		{
			var fns []*ssa.Function
			for _, mp := range P.ModPkgs() {
				fns = append(fns, P.PkgFuncs(strings.TrimPrefix(mp, modPath+"/"))...)
			}
			for _, f := range fns {
				if P.InTestFile(f) || pkgPathOf(f) == modPath+"/match" || f == un || f.Parent() == un {
					continue
				}
				for _, ci := range callsIn(f) {
					nm := calleeName(ci.Common())
					if nm != "(*match.Match).UpdateOnce" && nm != "(*match.Match).Update" {
						continue
					}
					seqs := indexSeqs(ci.Common().Args[2])
					ok := len(seqs) > 0
					for _, s := range seqs {
						if strings.Join(s, " ") != "T:true T:false" {
							ok = false
						}
					}
					c.Check(ok, "C06.paths-agree", fnName(f), "index passed to "+nm, P.Pos(ci.Pos()), "composed as "+seqsString(seqs)+"; required ToStrings(prefix, true) ToStrings(path, false) - a notification is offered at the full path of each of its updates and deletes")
				}
			}
		}
		// the prefix parameter is ToStrings(notification prefix, true) at every caller
		nCallers := 0
		var callers []*ssa.Function
		for _, mp := range P.ModPkgs() {
			callers = append(callers, P.PkgFuncs(strings.TrimPrefix(mp, modPath+"/"))...)
		}
		for _, f := range callers {
			if P.InTestFile(f) {
				continue
			}
			for _, ci := range callsIn(f) {
				if staticCallee(ci.Common()) != un {
					continue
				}
				nCallers++
				seqs := indexSeqs(ci.Common().Args[3])
				ok := len(seqs) > 0
				for _, s := range seqs {
					if !pfxShape(s) {
						ok = false
					}
				}
				c.Check(ok, "C06.paths-agree", fnName(f), "prefix index passed to UpdateNotification", P.Pos(ci.Pos()), "composed as "+seqsString(seqs)+"; required ToStrings(prefix, true)")
			}
		}
		c.Floor("C06.paths-agree/UpdateNotification-callers", nCallers, 1)
		// snapshot path via CompletePath (the Query call may sit in a helper the walk is delegated to)
		n := 0
		fromCP := func(src ssa.Value) bool {
			for _, s := range storedValues(src) {
				if ex, ok := s.(*ssa.Extract); ok && isCallNamed(ex.Tuple, "path.CompletePath") {
					return true
				}
			}
			if ex, ok := src.(*ssa.Extract); ok && isCallNamed(ex.Tuple, "path.CompletePath") {
				return true
			}
			return false
		}
		var scanQ func(g *ssa.Function, d int)
		seenQ := map[*ssa.Function]bool{}
		scanQ = func(g *ssa.Function, d int) {
			if seenQ[g] || d > 2 {
				return
			}
			seenQ[g] = true
			for _, h := range withAnon(g) {
				for _, ci := range callsIn(h) {
					cal := staticCallee(ci.Common())
					if calleeName(ci.Common()) == "(*cache.Cache).Query" {
						n++
						src := ci.Common().Args[2]
						okCP := fromCP(src)
						if pr, isP := src.(*ssa.Parameter); isP && !okCP && g != procSub {
							// the helper's parameter: judged at its call sites in the walk
							idx := -1
							for i, pp := range g.Params {
								if pp == pr {
									idx = i
								}
							}
							okCP = idx >= 0
							sites := 0
							for _, pf := range withAnon(procSub) {
								for _, pc := range callsIn(pf) {
									if staticCallee(pc.Common()) == g && idx < len(pc.Common().Args) {
										sites++
										if !fromCP(pc.Common().Args[idx]) {
											okCP = false
										}
									}
								}
							}
							okCP = okCP && sites > 0
						}
						c.Check(okCP, "C06.paths-agree", fnName(g), "snapshot query path comes from path.CompletePath", P.Pos(ci.Pos()), Expr(src))
						continue
					}
					if cal != nil && cal.Pkg == procSub.Pkg && len(cal.Blocks) > 0 {
						scanQ(cal, d+1)
					}
				}
			}
		}
		scanQ(procSub, 0)
		c.Floor("C06.paths-agree/snapshot", n, 1)
	}
}

// storedValues returns v itself or, for a load of a local cell, all values stored into it.
func storedValues(v ssa.Value) []ssa.Value {
	if u, ok := v.(*ssa.UnOp); ok {
		if al, ok := u.X.(*ssa.Alloc); ok {
			var out []ssa.Value
			for _, r := range *al.Referrers() {
				if st, ok := r.(*ssa.Store); ok && st.Addr == ssa.Value(al) {
					out = append(out, st.Val)
				}
			}
			return out
		}
	}
	return []ssa.Value{v}
}

// indexSources lists the sources of an index slice that are neither path.ToStrings
// results, nor the origin of a path, nor parameters that callers fill the same way.
func indexSources(v ssa.Value, seen map[ssa.Value]bool) []string {
	if seen[v] {
		return nil
	}
	seen[v] = true
	switch x := v.(type) {
	case *ssa.Phi:
		var out []string
		for _, e := range x.Edges {
			out = append(out, indexSources(e, seen)...)
		}
		return out
	case *ssa.Const:
		if x.Value == nil {
			return nil
		}
	case *ssa.Call:
		if c, ok := isAppend(x); ok {
			out := indexSources(c.Call.Args[0], seen)
			if len(c.Call.Args) > 1 {
				out = append(out, indexSources(c.Call.Args[1], seen)...)
			}
			return out
		}
		switch calleeName(&x.Call) {
		case "path.ToStrings":
			return nil
		case "(*proto/gnmi.Path).GetOrigin":
			return nil
		}
	case *ssa.Slice:
		// varargs literal: inspect the stored elements
		if al, ok := x.X.(*ssa.Alloc); ok {
			var out []string
			for _, r := range *al.Referrers() {
				if ia, ok := r.(*ssa.IndexAddr); ok {
					for _, rr := range *ia.Referrers() {
						if st, ok := rr.(*ssa.Store); ok {
							out = append(out, indexSources(st.Val, seen)...)
						}
					}
				}
			}
			return out
		}
		return indexSources(x.X, seen)
	case *ssa.Parameter:
		return nil // e.g. UpdateNotification's prefix: built by its caller with ToStrings (checked there)
	}
	return []string{Expr(v)}
}

// removeQueryPrune: removeQuery reports a node empty iff it has neither clients nor
// children and prunes a child only when the child reported itself empty (shared by C06 and C08:
// pruning a node that still holds another subscriber's registration silences that subscriber).
func removeQueryPrune(c *Ctx, rule string) {
	P := c.P
	remQ := P.Method("match", "branch", "removeQuery")
	fClients := P.Field("match", "branch", "clients")
	fChildren := P.Field("match", "branch", "children")
	if remQ == nil || fClients == nil || fChildren == nil {
		c.Unresolved(rule, "match.(*branch).removeQuery / clients / children")
		return
	}
	{
		c.Analysed(fnName(remQ))
		lenCls := func(e *PPA, st *State, rv RV) string {
			rv = e.Resolve(st, rv)
			if call, ok := rv.V.(*ssa.Call); ok {
				if b, ok := call.Call.Value.(*ssa.Builtin); ok && b.Name() == "len" {
					a := e.Resolve(st, RV{rv.F, call.Call.Args[0]})
					if loadOfField(a.V, fClients) {
						return "LC"
					}
					if loadOfField(a.V, fChildren) {
						return "LCH"
					}
				}
				if staticCallee(&call.Call) == remQ {
					return "REC"
				}
			}
			return ""
		}
		for _, sc := range []struct{ lc, lch int64 }{{0, 0}, {1, 0}, {0, 1}, {1, 1}} {
			for _, rec := range []bool{false, true} {
				at := &Atoms{Class: lenCls, Int: map[string]int64{"LC": sc.lc, "LCH": sc.lch}, Bool: map[string]bool{"REC": rec}}
				e := &PPA{Cond: at.Cond, Inline: func(fr *Frame, call ssa.CallInstruction, callee *ssa.Function) bool { return callee.Parent() == remQ },
					Watch: func(ev *Ev) bool { return ev.Label == "builtin:delete" || ev.Label == "call:"+fnName(remQ) }}
				e.Run(remQ)
				c.Paths += len(e.Paths)
				c.Scen++
				want := 0
				if sc.lc == 0 && sc.lch == 0 {
					want = 1
				}
				for i := range e.Paths {
					p := &e.Paths[i]
					if len(p.RetB) != 1 {
						continue
					}
					c.Check(p.RetB[0] == want, rule, fnName(remQ), fmt.Sprintf("empty iff no clients and no children: len(clients)=%d len(children)=%d", sc.lc, sc.lch), P.Pos(remQ.Pos()),
						fmt.Sprintf("reports empty=%d (want %d); path: %s", p.RetB[0], want, p.String()))
					// prune only after an empty child
					ri := p.Index(0, lbl("call:"+fnName(remQ)))
					if ri >= 0 {
						pruned := p.Index(ri, func(ev *Ev) bool { return ev.Label == "builtin:delete" && ev.Field == fChildren }) >= 0
						c.Check(pruned == rec, rule, fnName(remQ), fmt.Sprintf("child pruned iff it reported empty (child empty=%v)", rec), P.Pos(remQ.Pos()), fmt.Sprintf("pruned=%v; path: %s", pruned, p.String()))
					}
				}
			}
		}
	}
}
