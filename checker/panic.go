package main

// E6 — panic-site audit: every panic-capable instruction reachable from a
// remote-input entry point must be guarded on every path by a fact that makes
// it safe (length, non-nil, dynamic type, index bound), or be safe by
// construction, or have its precondition established at every call site.

import (
	"fmt"
	"go/token"
	"go/types"
	"regexp"
	"sort"
	"strings"

	"golang.org/x/tools/go/ssa"
)

type pNeed struct {
	Kind string // len> | nonnil | type | idx<len | nonzero
	Key  string
	K    int64
	T    string
	Idx  string
}

func (n pNeed) String() string {
	switch n.Kind {
	case "len>":
		return fmt.Sprintf("len(%s) > %d", n.Key, n.K)
	case "nonnil":
		return n.Key + " != nil"
	case "type":
		return n.Key + " holds a " + n.T
	case "idx<len":
		return n.Idx + " < len(" + n.Key + ")"
	case "nonzero":
		return n.Key + " != 0"
	}
	return n.Kind + " " + n.Key
}

type pFacts struct {
	lenLo   map[string]int64
	lenHi   map[string]int64
	nonnil  map[string]bool
	typed   map[string]bool
	idxLt   map[string]bool
	lenEq   map[string][]string
	nonzero map[string]bool
}

func newFacts() *pFacts {
	return &pFacts{lenLo: map[string]int64{}, lenHi: map[string]int64{}, nonnil: map[string]bool{}, typed: map[string]bool{}, idxLt: map[string]bool{}, lenEq: map[string][]string{}, nonzero: map[string]bool{}}
}

var getterRe = regexp.MustCompile(`\.Get([A-Z][A-Za-z0-9_]*)\(\)`)

var cloneRe = regexp.MustCompile(`proto\.Clone\(([^()]*(\([^()]*\))?[^()]*)\)\.\(\*[A-Za-z0-9_.]+\)`)

func pkey(v ssa.Value) string {
	s := Expr(v)
	s = getterRe.ReplaceAllString(s, ".$1")
	s = strings.ReplaceAll(s, "&", "")
	return s
}

// unclone rewrites proto.Clone(X).(*T) to X (a clone has the same shape as its source).
func unclone(k string) string {
	for i := 0; i < 4; i++ {
		n := cloneRe.ReplaceAllString(k, "$1")
		if n == k {
			return k
		}
		k = n
	}
	return k
}

func lenArg(v ssa.Value) (ssa.Value, bool) {
	c, ok := v.(*ssa.Call)
	if !ok {
		return nil, false
	}
	b, ok := c.Call.Value.(*ssa.Builtin)
	if !ok || b.Name() != "len" {
		return nil, false
	}
	return c.Call.Args[0], true
}

func (f *pFacts) setLo(k string, v int64) {
	if old, ok := f.lenLo[k]; !ok || v > old {
		f.lenLo[k] = v
	}
}
func (f *pFacts) setHi(k string, v int64) {
	if old, ok := f.lenHi[k]; !ok || v < old {
		f.lenHi[k] = v
	}
}

type predFact struct {
	onTrue bool   // fact holds when the predicate returns true / a nil error (onTrue) …
	kind   string // typed | nonnil
	key    string // template over the callee's parameter names
}

var predRegistry = map[*ssa.Function][]predFact{}

// instantiate substitutes the callee's parameter names by the argument expressions.
func instantiate(tmpl string, callee *ssa.Function, args []ssa.Value) string {
	out := tmpl
	for i, p := range callee.Params {
		if i >= len(args) || p.Name() == "" {
			continue
		}
		re := regexp.MustCompile(`\b` + regexp.QuoteMeta(p.Name()) + `\b`)
		out = re.ReplaceAllString(out, strings.ReplaceAll(pkey(args[i]), "$", "$$"))
	}
	return out
}

func (f *pFacts) applyPred(call *ssa.Call, result bool) {
	g := staticCallee(&call.Call)
	if g == nil {
		return
	}
	for _, pf := range predRegistry[g] {
		if pf.onTrue != result {
			continue
		}
		k := instantiate(pf.key, g, call.Call.Args)
		switch pf.kind {
		case "typed":
			f.typed[k] = true
		case "nonnil":
			f.nonnil[k] = true
		}
	}
}

// derive adds what a branch decision implies.
func (f *pFacts) derive(cond ssa.Value, taken bool) {
	switch c := cond.(type) {
	case *ssa.Call:
		// boolean predicate helper
		f.applyPred(c, taken)
	case *ssa.UnOp:
		if c.Op == token.NOT {
			f.derive(c.X, !taken)
		}
	case *ssa.Extract:
		if c.Index == 1 && taken {
			if ta, ok := c.Tuple.(*ssa.TypeAssert); ok && ta.CommaOk {
				f.typed[pkey(ta.X)+"|"+types.TypeString(ta.AssertedType, shortQ)] = true
				f.nonnil[pkey(ta)+"#0"] = true
			}
			if lk, ok := c.Tuple.(*ssa.Lookup); ok && lk.CommaOk {
				// a present key of a map into which only non-nil pointers are ever stored
				if mapValsNonNil != nil && mapValsNonNil(lk.X.Type()) {
					f.nonnil[pkey(lk)+"#0"] = true
				}
			}
		}
	case *ssa.BinOp:
		op := c.Op
		if !taken {
			switch op {
			case token.EQL:
				op = token.NEQ
			case token.NEQ:
				op = token.EQL
			case token.LSS:
				op = token.GEQ
			case token.LEQ:
				op = token.GTR
			case token.GTR:
				op = token.LEQ
			case token.GEQ:
				op = token.LSS
			default:
				return
			}
		}
		x, y := c.X, c.Y
		// nil tests
		if isNilConst(y) || isNilConst(x) {
			o := x
			if isNilConst(x) {
				o = y
			}
			if op == token.NEQ {
				f.nonnil[pkey(o)] = true
			}
			// error-returning validity helper: g(x) == nil establishes g's success facts
			if call, ok := o.(*ssa.Call); ok && op == token.EQL {
				f.applyPred(call, true)
			}
			return
		}
		lx, okx := lenArg(x)
		ly, oky := lenArg(y)
		if okx && oky {
			if op == token.EQL {
				a, b := pkey(lx), pkey(ly)
				f.lenEq[a] = append(f.lenEq[a], b)
				f.lenEq[b] = append(f.lenEq[b], a)
			}
			return
		}
		if oky && !okx {
			// normalise to len on the left
			x, y = y, x
			lx, okx = ly, true
			switch op {
			case token.LSS:
				op = token.GTR
			case token.LEQ:
				op = token.GEQ
			case token.GTR:
				op = token.LSS
			case token.GEQ:
				op = token.LEQ
			}
		}
		if okx {
			k := pkey(lx)
			if cst, ok := constInt(y); ok {
				switch op {
				case token.EQL:
					f.setLo(k, cst)
					f.setHi(k, cst)
				case token.GTR:
					f.setLo(k, cst+1)
				case token.GEQ:
					f.setLo(k, cst)
				case token.LSS:
					f.setHi(k, cst-1)
				case token.LEQ:
					f.setHi(k, cst)
				case token.NEQ:
					if lo, ok := f.lenLo[k]; (ok && lo == cst) || (!ok && cst == 0) {
						f.setLo(k, cst+1)
					}
				}
				return
			}
			// len(E) > idx  (idx expression)
			switch op {
			case token.GTR:
				f.idxLt[pkey(y)+"|"+k] = true
			}
			return
		}
		// integer comparisons with constants: non-zero facts
		if cst, ok := constInt(y); ok {
			k := pkey(x)
			if (op == token.NEQ && cst == 0) || (op == token.GTR && cst >= 0) || (op == token.GEQ && cst > 0) || (op == token.LSS && cst <= 0) {
				f.nonzero[k] = true
			}
		}
	}
}

var tailRe = regexp.MustCompile(`^(.*)\[(\d+):\]$`)

func (f *pFacts) holds(n pNeed) bool {
	if f.holds1(n) {
		return true
	}
	if u := unclone(n.Key); u != n.Key {
		m := n
		m.Key = u
		if f.holds(m) {
			return true
		}
	}
	// len(X[k:]) > K  <=  len(X) > K+k
	if n.Kind == "len>" {
		if mm := tailRe.FindStringSubmatch(n.Key); mm != nil {
			var k int64
			fmt.Sscan(mm[2], &k)
			return f.holds(pNeed{Kind: "len>", Key: mm[1], K: n.K + k})
		}
	}
	return false
}

func (f *pFacts) holds1(n pNeed) bool {
	switch n.Kind {
	case "len>":
		if lo, ok := f.lenLo[n.Key]; ok && lo > n.K {
			return true
		}
		for _, o := range f.lenEq[n.Key] {
			if lo, ok := f.lenLo[o]; ok && lo > n.K {
				return true
			}
		}
	case "nonnil":
		if f.nonnil[n.Key] {
			return true
		}
		// payload of a oneof wrapper whose kind has been established on this path
		if i := strings.LastIndex(n.Key, "."); i > 0 {
			base, fld := n.Key[:i], n.Key[i+1:]
			for tk := range f.typed {
				j := strings.LastIndex(tk, "|")
				if j > 0 && strings.HasPrefix(tk[:j], base+".") && strings.HasSuffix(tk[j+1:], "_"+fld) {
					return true
				}
			}
		}
		return false
	case "type":
		return f.typed[n.Key+"|"+n.T]
	case "idx<len":
		if f.idxLt[n.Idx+"|"+n.Key] {
			return true
		}
		for _, o := range f.lenEq[n.Key] {
			if f.idxLt[n.Idx+"|"+o] {
				return true
			}
		}
	case "nonzero":
		return f.nonzero[n.Key]
	}
	return false
}

// factsAt computes the facts established by the events of a path prefix.
func factsAt(trace []Ev) *pFacts {
	f := newFacts()
	for i := range trace {
		ev := &trace[i]
		switch {
		case ev.Label == "if" && len(ev.Args) > 0:
			f.derive(ev.Args[0].V, ev.Taken)
		case ev.Label == "fact":
			parts := strings.Split(ev.Note, "\x00")
			switch parts[0] {
			case "len":
				var lo, hi int64
				fmt.Sscan(parts[2], &lo)
				fmt.Sscan(parts[3], &hi)
				f.setLo(parts[1], lo)
				if hi >= 0 {
					f.setHi(parts[1], hi)
				}
			case "nonnil":
				f.nonnil[parts[1]] = true
			case "leneq":
				f.lenEq[parts[1]] = append(f.lenEq[parts[1]], parts[2])
				f.lenEq[parts[2]] = append(f.lenEq[parts[2]], parts[1])
			case "typed":
				f.typed[parts[1]] = true
			}
		case strings.HasPrefix(ev.Label, "store:") && len(ev.Args) == 2:
			st, ok := ev.In.(*ssa.Store)
			if !ok {
				continue
			}
			k := pkey(st.Addr)
			// a store invalidates older facts about the location
			delete(f.lenLo, k)
			delete(f.lenHi, k)
			delete(f.nonnil, k)
			if n, ok := literalLen(st.Val); ok {
				f.setLo(k, n)
				f.setHi(k, n)
				f.nonnil[k] = n > 0
			}
			if isNilConst(st.Val) {
				f.setHi(k, 0)
			}
			switch st.Val.(type) {
			case *ssa.Alloc, *ssa.MakeMap, *ssa.MakeSlice, *ssa.MakeChan, *ssa.MakeClosure:
				f.nonnil[k] = true
			}
		}
	}
	return f
}

// literalLen returns the length of a slice literal / constant-size make.
func literalLen(v ssa.Value) (int64, bool) {
	switch x := v.(type) {
	case *ssa.Slice:
		if al, ok := x.X.(*ssa.Alloc); ok && x.High == nil && x.Low == nil {
			if at, ok := deref(al.Type()).Underlying().(*types.Array); ok {
				return at.Len(), true
			}
		}
	case *ssa.MakeSlice:
		return constInt(x.Len)
	}
	return 0, false
}

type pSiteKey struct {
	fn   *ssa.Function
	in   ssa.Instruction
	need pNeed
}

type pSite struct {
	Fn        *ssa.Function
	In        ssa.Instruction
	Kind      string
	Need      pNeed
	Guarded   int
	Unguarded int
	Witness   string
	ByCaller  bool // unmet in the function but rooted in a parameter: becomes a precondition
}

type pReq struct {
	param  int
	suffix string
	need   pNeed
}

type PanicAudit struct {
	c        *Ctx
	P        *Prog
	Fns      []*ssa.Function
	entry    map[*ssa.Function]bool
	sites    map[pSiteKey]*pSite
	req      map[*ssa.Function]map[pReq]string // requirement -> originating site description
	retFacts map[*ssa.Function][]string        // "len\x00<suffix>\x00lo\x00hi" / "nonnil\x00<suffix>"
	eff      *Effects
	mayNil   map[*ssa.Function]bool
	// facts holding at every creation site of a function literal (keys in the parent's vocabulary,
	// which is also the literal's vocabulary for captured variables)
	closureFacts     map[*ssa.Function][]string
	closureFactsSeen map[*ssa.Function][]string
	preds            map[*ssa.Function][]predFact
	treeInv          bool
	// Stop excludes local plumbing (not driven by remote data) from the reachable set.
	Stop  func(*ssa.Function) bool
	Notes []string
}

func mayReturnNil(f *ssa.Function) bool {
	r := false
	instrs(f, func(in ssa.Instruction) {
		if ret, ok := in.(*ssa.Return); ok {
			for _, v := range ret.Results {
				if _, isPtr := v.Type().Underlying().(*types.Pointer); !isPtr {
					continue
				}
				if isNilConst(v) {
					r = true
				}
				// a function with a defer returns through a result cell: `return nil` is a store of nil
				// into that cell followed by a load at the common exit
				if u, ok := v.(*ssa.UnOp); ok && u.Op == token.MUL {
					if al, ok := u.X.(*ssa.Alloc); ok && al.Referrers() != nil {
						for _, ref := range *al.Referrers() {
							if st, ok := ref.(*ssa.Store); ok && st.Addr == ssa.Value(al) && isNilConst(st.Val) {
								r = true
							}
						}
					}
				}
			}
		}
	})
	return r
}

// isMsgPtr: pointer to a generated protobuf message struct (not a oneof wrapper).
func isMsgPtr(t types.Type) bool {
	p, ok := t.Underlying().(*types.Pointer)
	if !ok {
		return false
	}
	n, ok := p.Elem().(*types.Named)
	if !ok || n.Obj().Pkg() == nil {
		return false
	}
	if !strings.Contains(n.Obj().Pkg().Path(), "/proto/") {
		return false
	}
	_, isStruct := n.Underlying().(*types.Struct)
	return isStruct && !strings.Contains(n.Obj().Name(), "_")
}

// nilable reports whether the (unresolved) pointer operand may be nil by its provenance.
func (pa *PanicAudit) nilable(v ssa.Value) (bool, string) {
	switch x := v.(type) {
	case *ssa.UnOp:
		if x.Op == token.MUL {
			// a local assigned once and then captured by a closure lives in a cell: its content is the
			// value that was stored (st := f(); ... func() { use(st) })
			if al, ok := x.X.(*ssa.Alloc); ok {
				if sv := singleStore(al); sv != nil && sv != v {
					return pa.nilable(sv)
				}
			}
			if fa, ok := x.X.(*ssa.FieldAddr); ok && isMsgPtr(x.Type()) {
				// singular message field of a proto message; payload of a oneof wrapper is taken as set
				if n, ok := deref(fa.X.Type()).(*types.Named); ok && strings.Contains(n.Obj().Name(), "_") {
					return false, ""
				}
				if n, ok := deref(fa.X.Type()).(*types.Named); ok && n.Obj().Pkg() != nil && strings.Contains(n.Obj().Pkg().Path(), "/proto/") {
					return true, "singular message field"
				}
			}
		}
	case *ssa.Call:
		if f := staticCallee(&x.Call); f != nil {
			if isProtoGetter(f) && isMsgPtr(x.Type()) {
				return true, "getter of a singular message field"
			}
			if pa.mayNil[f] {
				return true, "result of " + fnName(f) + " (may be nil)"
			}
		}
	case *ssa.Lookup:
		if _, ok := x.Type().Underlying().(*types.Pointer); ok {
			// a key enumerated from the same map, whose stored values are never nil, is present
			if !x.CommaOk && keyFromSameMap(x) && mapValsNonNil != nil && mapValsNonNil(x.X.Type()) {
				return false, ""
			}
			return true, "map lookup"
		}
	case *ssa.Extract:
		if lk, ok := x.Tuple.(*ssa.Lookup); ok && x.Index == 0 {
			if _, ok := lk.Type().(*types.Tuple).At(0).Type().Underlying().(*types.Pointer); ok {
				return true, "map lookup"
			}
		}
		if call, ok := x.Tuple.(*ssa.Call); ok {
			if f := staticCallee(&call.Call); f != nil && pa.mayNil[f] {
				if _, isPtr := x.Type().Underlying().(*types.Pointer); isPtr {
					return true, "result of " + fnName(f) + " (may be nil)"
				}
			}
		}
	}
	return false, ""
}

func rangeIndexOf(idx ssa.Value) bool {
	b, ok := idx.(*ssa.BinOp)
	if !ok || b.Op != token.ADD {
		return false
	}
	phi, ok := b.X.(*ssa.Phi)
	return ok && strings.Contains(phi.Comment, "rangeindex")
}

// needsOf lists what must hold for the instruction not to panic.
func (pa *PanicAudit) needsOf(in ssa.Instruction) (kind string, needs []pNeed) {
	switch x := in.(type) {
	case *ssa.IndexAddr:
		return pa.indexNeeds(x.X, x.Index)
	case *ssa.Index:
		return pa.indexNeeds(x.X, x.Index)
	case *ssa.Slice:
		t := x.X.Type().Underlying()
		if p, ok := t.(*types.Pointer); ok {
			if _, isArr := p.Elem().Underlying().(*types.Array); isArr {
				return "", nil // slicing a local array (literal / varargs)
			}
		}
		if x.Low != nil {
			if k, ok := constInt(x.Low); ok && k > 0 {
				return "slice", []pNeed{{Kind: "len>", Key: pkey(x.X), K: k - 1}}
			}
		}
		if x.High != nil {
			if k, ok := constInt(x.High); ok && k > 0 {
				return "slice", []pNeed{{Kind: "len>", Key: pkey(x.X), K: k - 1}}
			}
		}
	case *ssa.TypeAssert:
		if !x.CommaOk {
			if mi, ok := x.X.(*ssa.MakeInterface); ok && types.Identical(mi.X.Type(), x.AssertedType) {
				return "", nil
			}
			// proto.Clone returns a message of the dynamic type of its argument
			if call, ok := x.X.(*ssa.Call); ok && calleeName(&call.Call) == "google.golang.org/protobuf/proto.Clone" {
				if mi, ok := call.Call.Args[0].(*ssa.MakeInterface); ok && types.Identical(mi.X.Type(), x.AssertedType) {
					return "", nil
				}
			}
			return "type assertion", []pNeed{{Kind: "type", Key: pkey(x.X), T: types.TypeString(x.AssertedType, shortQ)}}
		}
	case *ssa.FieldAddr:
		if nl, why := pa.nilable(x.X); nl {
			return "nil dereference (" + why + ")", []pNeed{{Kind: "nonnil", Key: pkey(x.X)}}
		}
		// a message parameter dereferenced directly: nil-ness is decided by what the callers pass
		// (for the exported value helpers nil is a documented input)
		if p, ok := x.X.(*ssa.Parameter); ok && isMsgPtr(p.Type()) {
			fn := p.Parent()
			if (!isExportedFn(fn) && fn.Parent() == nil && !pa.entry[fn]) || pkgPathOf(fn) == modPath+"/value" {
				return "nil dereference (message parameter)", []pNeed{{Kind: "nonnil", Key: pkey(x.X)}}
			}
		}
	case *ssa.UnOp:
		if x.Op == token.MUL {
			if _, isStruct := x.Type().Underlying().(*types.Struct); isStruct {
				if nl, why := pa.nilable(x.X); nl {
					return "nil dereference (" + why + ")", []pNeed{{Kind: "nonnil", Key: pkey(x.X)}}
				}
			}
		}
	case *ssa.Panic:
		return "explicit panic", []pNeed{{Kind: "never", Key: "reached"}}
	case *ssa.Call:
		// call through a function-typed struct field that the module itself treats as possibly nil
		// (it stores nil into it or compares it with nil somewhere): calling nil panics
		if !x.Call.IsInvoke() && staticCallee(&x.Call) == nil {
			if u, ok := x.Call.Value.(*ssa.UnOp); ok && u.Op == token.MUL {
				if fa, ok := u.X.(*ssa.FieldAddr); ok && pa.nilFuncField(fieldOf(fa)) {
					return "call of a nil function value (field " + vname(fieldOf(fa)) + " can be nil)", []pNeed{{Kind: "nonnil", Key: pkey(x.Call.Value)}}
				}
			}
		}
	}
	return "", nil
}

// nilFuncField: a function-typed field of a module struct into which some non-test function stores nil
// or which some non-test function compares with nil.
func (pa *PanicAudit) nilFuncField(f *types.Var) bool {
	if f == nil {
		return false
	}
	if _, ok := f.Type().Underlying().(*types.Signature); !ok {
		return false
	}
	if nilFuncFields == nil {
		nilFuncFields = map[*types.Var]bool{}
		for _, mp := range pa.P.ModPkgs() {
			for _, g := range pa.P.PkgFuncs(strings.TrimPrefix(mp, modPath+"/")) {
				if pa.P.InTestFile(g) || pa.P.IsGenerated(g) {
					continue
				}
				instrs(g, func(in ssa.Instruction) {
					switch x := in.(type) {
					case *ssa.Store:
						if isNilConst(x.Val) {
							if fv := fieldOf(x.Addr); fv != nil {
								nilFuncFields[fv] = true
							}
						}
					case *ssa.BinOp:
						if x.Op == token.EQL || x.Op == token.NEQ {
							for _, pr := range [][2]ssa.Value{{x.X, x.Y}, {x.Y, x.X}} {
								if isNilConst(pr[1]) {
									if fv := fieldOf(pr[0]); fv != nil {
										nilFuncFields[fv] = true
									}
								}
							}
						}
					}
				})
			}
		}
	}
	return nilFuncFields[f]
}

var nilFuncFields map[*types.Var]bool

func (pa *PanicAudit) indexNeeds(x, idx ssa.Value) (string, []pNeed) {
	t := x.Type().Underlying()
	if p, ok := t.(*types.Pointer); ok {
		if at, isArr := p.Elem().Underlying().(*types.Array); isArr {
			if k, ok := constInt(idx); ok && k < at.Len() {
				return "", nil
			}
			if rangeIndexOf(idx) {
				return "", nil
			}
		}
	}
	if at, isArr := t.(*types.Array); isArr {
		if k, ok := constInt(idx); ok && k < at.Len() {
			return "", nil
		}
		// the index of a range over this very array value
		if rangeIndexOf(idx) {
			return "", nil
		}
	}
	if _, isMap := t.(*types.Map); isMap {
		return "", nil
	}
	// slice of a local array literal
	if sl, ok := x.(*ssa.Slice); ok {
		if n, ok := literalLen(sl); ok {
			if k, ok := constInt(idx); ok && k < n {
				return "", nil
			}
		}
	}
	if k, ok := constInt(idx); ok {
		return "index", []pNeed{{Kind: "len>", Key: pkey(x), K: k}}
	}
	// a counter that starts at len(x)-k (k >= 1) and only decreases stays below len(x)
	if phi, ok := idx.(*ssa.Phi); ok && descendsFromLen(phi, x) {
		return "", nil
	}
	return "index", []pNeed{{Kind: "idx<len", Key: pkey(x), Idx: pkey(idx)}}
}

// descendsFromLen: every edge of the φ is len(x)-k with k >= 1, or the φ itself minus a positive constant.
func descendsFromLen(phi *ssa.Phi, x ssa.Value) bool {
	if len(phi.Edges) == 0 {
		return false
	}
	for _, e := range phi.Edges {
		b, ok := e.(*ssa.BinOp)
		if !ok {
			return false
		}
		k, okc := constInt(b.Y)
		switch {
		case b.Op == token.SUB && okc && k >= 1:
			if b.X == ssa.Value(phi) {
				continue // i - k
			}
			if la, ok := lenArg(b.X); ok && pkey(la) == pkey(x) {
				continue // len(x) - k
			}
			return false
		case b.Op == token.ADD && okc && k <= -1 && b.X == ssa.Value(phi):
			continue
		default:
			return false
		}
	}
	return true
}

var fieldSuffixRe = regexp.MustCompile(`^(\.[A-Za-z_][A-Za-z0-9_]*)*$`)

// paramRoot: is key a parameter of fn followed only by field selections?
func paramRoot(fn *ssa.Function, key string) (int, string) {
	i, suf := paramRoot0(fn, key)
	if i >= 0 && !fieldSuffixRe.MatchString(suf) {
		return -1, ""
	}
	return i, suf
}

func paramRoot0(fn *ssa.Function, key string) (int, string) {
	for i, p := range fn.Params {
		n := p.Name()
		if n == "" {
			continue
		}
		if key == n {
			return i, ""
		}
		if strings.HasPrefix(key, n) && len(key) > len(n) && (key[len(n)] == '.' || key[len(n)] == '[') {
			return i, key[len(n):]
		}
	}
	return -1, ""
}

// treeValueKey: the expression denotes a notification read out of a cache tree.
func treeValueKey(key string) bool {
	// in package cache the only interface{}-typed notifications are values read out of a target tree
	return strings.Contains(key, ".(*gnmi.Notification)") && !strings.Contains(key, "proto.Clone(")
}

func NewPanicAudit(c *Ctx, entries []*ssa.Function, stop func(*ssa.Function) bool) *PanicAudit {
	pa := &PanicAudit{Stop: stop, c: c, P: c.P, entry: map[*ssa.Function]bool{}, sites: map[pSiteKey]*pSite{}, req: map[*ssa.Function]map[pReq]string{}, retFacts: map[*ssa.Function][]string{}, mayNil: map[*ssa.Function]bool{},
		closureFacts: map[*ssa.Function][]string{}, closureFactsSeen: map[*ssa.Function][]string{}, preds: map[*ssa.Function][]predFact{}}
	eff := NewEffects(c.P)
	reach := map[*ssa.Function]bool{}
	var add func(f *ssa.Function)
	add = func(f *ssa.Function) {
		if f == nil || reach[f] || f.Blocks == nil || c.P.IsGenerated(f) || c.P.InTestFile(f) || !strings.HasPrefix(pkgPathOf(f), modPath) {
			return
		}
		if pa.Stop != nil && pa.Stop(f) && !pa.entry[f] {
			return
		}
		reach[f] = true
		for g := range eff.Reach(f) {
			add(g)
		}
		// closures and goroutines created inside
		instrs(f, func(in ssa.Instruction) {
			switch x := in.(type) {
			case *ssa.MakeClosure:
				add(x.Fn.(*ssa.Function))
			case *ssa.Go:
				add(staticCallee(&x.Call))
			}
			if ci, ok := in.(ssa.CallInstruction); ok {
				for _, a := range ci.Common().Args {
					if fn, ok := unwrap(a).(*ssa.Function); ok {
						add(fn)
					}
				}
			}
		})
	}
	for _, e := range entries {
		pa.entry[e] = true
		add(e)
	}
	for f := range reach {
		pa.Fns = append(pa.Fns, f)
	}
	sort.Slice(pa.Fns, func(i, j int) bool { return fnName(pa.Fns[i]) < fnName(pa.Fns[j]) })
	for fn := range c.P.AllFuncs() {
		if fn.Blocks != nil && strings.HasPrefix(pkgPathOf(fn), modPath) && !c.P.IsGenerated(fn) {
			if mayReturnNil(fn) {
				pa.mayNil[fn] = true
			}
			computePred(fn)
			pa.computeRetFacts(fn, 0)
		}
	}
	return pa
}

// computePred summarises small predicate helpers:
//
//	func (t *T) isX() bool { _, ok := t.f.(K); return ok }          => true  ⇒ typed(t.f|K)
//	func valid(v string) error { if x := M[v]; x == nil { return E }; return nil } => nil ⇒ nonnil(M[v])
func computePred(fn *ssa.Function) {
	if _, done := predRegistry[fn]; done || fn.Signature.Results().Len() != 1 || len(fn.Blocks) > 6 {
		return
	}
	predRegistry[fn] = nil
	rt := fn.Signature.Results().At(0).Type()
	if bt, ok := rt.Underlying().(*types.Basic); ok && bt.Kind() == types.Bool {
		var rets []ssa.Value
		instrs(fn, func(in ssa.Instruction) {
			if r, ok := in.(*ssa.Return); ok {
				rets = append(rets, r.Results[0])
			}
		})
		if len(rets) == 1 {
			if ex, ok := rets[0].(*ssa.Extract); ok && ex.Index == 1 {
				if ta, ok := ex.Tuple.(*ssa.TypeAssert); ok && ta.CommaOk {
					predRegistry[fn] = append(predRegistry[fn], predFact{true, "typed", pkey(ta.X) + "|" + types.TypeString(ta.AssertedType, shortQ)})
				}
			}
		}
		return
	}
	if types.Identical(rt, types.Universe.Lookup("error").Type()) {
		// facts common to all paths that return nil
		e := &PPA{NoAuto: true, TraceBranches: true, Watch: func(ev *Ev) bool { return ev.Label == "if" }}
		e.Run(fn)
		var common map[string]bool
		for i := range e.Paths {
			p := &e.Paths[i]
			if len(p.Rets) != 1 || !isNilConst(p.Rets[0].V) {
				continue
			}
			facts := factsAt(p.Trace)
			cur := map[string]bool{}
			for k := range facts.nonnil {
				cur[k] = true
			}
			if common == nil {
				common = cur
			} else {
				for k := range common {
					if !cur[k] {
						delete(common, k)
					}
				}
			}
		}
		for k := range common {
			predRegistry[fn] = append(predRegistry[fn], predFact{true, "nonnil", k})
		}
	}
}

// computeRetFacts: facts about the fields of a freshly built object returned by fn.
func (pa *PanicAudit) computeRetFacts(fn *ssa.Function, depth int) []string {
	if r, ok := pa.retFacts[fn]; ok {
		return r
	}
	pa.retFacts[fn] = nil
	if depth > 4 {
		return nil
	}
	var rets []ssa.Value
	instrs(fn, func(in ssa.Instruction) {
		if r, ok := in.(*ssa.Return); ok && len(r.Results) == 1 {
			rets = append(rets, r.Results[0])
		}
	})
	if len(rets) != 1 {
		return nil
	}
	var out []string
	switch v := rets[0].(type) {
	case *ssa.Alloc:
		for _, r := range *v.Referrers() {
			fa, ok := r.(*ssa.FieldAddr)
			if !ok {
				continue
			}
			for _, rr := range *fa.Referrers() {
				st, ok := rr.(*ssa.Store)
				if !ok || st.Addr != ssa.Value(fa) {
					continue
				}
				suffix := "." + fieldName(fa.X.Type(), fa.Field)
				if n, ok := literalLen(st.Val); ok {
					out = append(out, fmt.Sprintf("len\x00%s\x00%d\x00%d", suffix, n, n))
				}
				if _, ok := st.Val.(*ssa.Alloc); ok {
					out = append(out, "nonnil\x00"+suffix)
				}
			}
		}
	case *ssa.Call:
		if g := staticCallee(&v.Call); g != nil && g.Blocks != nil {
			out = pa.computeRetFacts(g, depth+1)
		}
	}
	pa.retFacts[fn] = out
	return out
}

// Run analyses all reachable functions, iterating call-site preconditions to a fixpoint.
func (pa *PanicAudit) Run() {
	pa.buildMapValsNonNil()
	for round := 0; round < 5; round++ {
		pa.sites = map[pSiteKey]*pSite{}
		changed := false
		pa.closureFactsSeen = map[*ssa.Function][]string{}
		for _, f := range pa.Fns {
			if pa.analyse(f) {
				changed = true
			}
		}
		for g, ks := range pa.closureFactsSeen {
			if strings.Join(pa.closureFacts[g], "|") != strings.Join(ks, "|") {
				pa.closureFacts[g] = ks
				changed = true
			}
		}
		if !changed {
			break
		}
	}
	pa.checkTreeInvariant()
}

func (pa *PanicAudit) addReq(f *ssa.Function, r pReq, where string) bool {
	if pa.req[f] == nil {
		pa.req[f] = map[pReq]string{}
	}
	if _, ok := pa.req[f][r]; ok {
		return false
	}
	pa.req[f][r] = where
	return true
}

func (pa *PanicAudit) analyse(f *ssa.Function) (changed bool) {
	c := pa.c
	P := pa.P
	c.Analysed(fnName(f))
	record := func(in ssa.Instruction, kind string, n pNeed, ok bool, tr []Ev, byCaller bool) {
		k := pSiteKey{f, in, n}
		s := pa.sites[k]
		if s == nil {
			s = &pSite{Fn: f, In: in, Kind: kind, Need: n}
			pa.sites[k] = s
		}
		if ok {
			s.Guarded++
		} else {
			s.Unguarded++
			s.ByCaller = byCaller
			if s.Witness == "" {
				var w []string
				for i := range tr {
					if tr[i].Label == "if" && len(tr[i].Args) > 0 {
						w = append(w, fmt.Sprintf("%s=%v", pkey(tr[i].Args[0].V), tr[i].Taken))
					}
				}
				if len(w) > 8 {
					w = w[len(w)-8:]
				}
				s.Witness = strings.Join(w, " ; ")
			}
		}
	}
	e := &PPA{NoAuto: true, MaxVisits: 2, TraceBranches: true, MaxPaths: 60000,
		Inline: func(fr *Frame, call ssa.CallInstruction, callee *ssa.Function) bool {
			return callee.Parent() == fr.Fn && onlyInvokedInParent(callee)
		},
		Watch: func(ev *Ev) bool {
			return ev.Label == "if" || ev.Label == "fact" || strings.HasPrefix(ev.Label, "store:")
		},
	}
	entered := map[*State]bool{}
	_ = entered
	e.Probe = func(e *PPA, st *State, fr *Frame, in ssa.Instruction) {
		// the function's own preconditions are assumptions inside it
		if fr.Fn == f && in == f.Blocks[0].Instrs[0] {
			for r := range pa.req[f] {
				if r.param < len(f.Params) && r.need.Kind == "len>" {
					e.emit(st, Ev{Label: "fact", In: in, F: fr, Note: fmt.Sprintf("len\x00%s\x00%d\x00-1", f.Params[r.param].Name()+r.suffix, r.need.K+1)})
				}
				if r.param < len(f.Params) && r.need.Kind == "nonnil" {
					e.emit(st, Ev{Label: "fact", In: in, F: fr, Note: "nonnil\x00" + f.Params[r.param].Name() + r.suffix})
				}
			}
			// facts that hold wherever this function literal is created
			for _, k := range pa.closureFacts[f] {
				e.emit(st, Ev{Label: "fact", In: in, F: fr, Note: k})
			}
		}
		switch x := in.(type) {
		case *ssa.Call:
			if ac, ok := isAppend(x); ok && len(ac.Call.Args) == 2 {
				if n, ok := literalLen(ac.Call.Args[1]); ok && n > 0 {
					e.emit(st, Ev{Label: "fact", In: in, F: fr, Note: fmt.Sprintf("len\x00%s\x00%d\x00-1", pkey(x), n)})
				}
			}
		case *ssa.MakeSlice:
			if la, ok := lenArg(x.Len); ok {
				e.emit(st, Ev{Label: "fact", In: in, F: fr, Note: "leneq\x00" + pkey(x) + "\x00" + pkey(la)})
			}
		case *ssa.MakeClosure:
			// remember the facts that hold at the creation of a function literal
			g := x.Fn.(*ssa.Function)
			facts := factsAt(st.Trace())
			var ks []string
			for k := range facts.nonnil {
				ks = append(ks, "nonnil\x00"+k)
			}
			for k, lo := range facts.lenLo {
				ks = append(ks, fmt.Sprintf("len\x00%s\x00%d\x00-1", k, lo))
			}
			sort.Strings(ks)
			if old, seen := pa.closureFactsSeen[g]; !seen {
				pa.closureFactsSeen[g] = ks
			} else {
				// intersection over all creation paths
				keep := map[string]bool{}
				for _, k := range ks {
					keep[k] = true
				}
				var out []string
				for _, k := range old {
					if keep[k] {
						out = append(out, k)
					}
				}
				pa.closureFactsSeen[g] = out
			}
		}
		// facts contributed by calls that return freshly built objects
		if call, ok := in.(*ssa.Call); ok {
			// a call through a function-typed parameter of an unexported helper: what every function that is
			// ever passed for it guarantees about its result holds for the result of the call
			if g := e.calleeOf(st, fr, &call.Call); g == nil && !call.Call.IsInvoke() && staticCallee(&call.Call) == nil {
				if pa.eff == nil {
					pa.eff = NewEffects(pa.P)
				}
				if fs, ok := pa.eff.funcValues(call.Call.Value, map[ssa.Value]bool{}, 0); ok && len(fs) > 0 {
					common := map[string]int{}
					for _, f := range fs {
						seenF := map[string]bool{}
						for _, rf := range pa.retFacts[f] {
							if !seenF[rf] {
								seenF[rf] = true
								common[rf]++
							}
						}
					}
					var keys []string
					for rf, n := range common {
						if n == len(fs) {
							keys = append(keys, rf)
						}
					}
					sort.Strings(keys)
					for _, rf := range keys {
						parts := strings.Split(rf, "\x00")
						parts[1] = pkey(call) + parts[1]
						e.emit(st, Ev{Label: "fact", In: in, F: fr, Note: strings.Join(parts, "\x00")})
					}
				}
			}
			if g := e.calleeOf(st, fr, &call.Call); g != nil {
				for _, rf := range pa.retFacts[g] {
					parts := strings.Split(rf, "\x00")
					parts[1] = pkey(call) + parts[1]
					e.emit(st, Ev{Label: "fact", In: in, F: fr, Note: strings.Join(parts, "\x00")})
				}
				// preconditions of the callee
				if rs := pa.req[g]; len(rs) > 0 {
					facts := factsAt(st.Trace())
					for r, where := range rs {
						if r.param >= len(call.Call.Args) {
							continue
						}
						arg := call.Call.Args[r.param]
						n := r.need
						n.Key = pkey(arg) + r.suffix
						if n.Kind == "idx<len" {
							continue // index relations are not propagated
						}
						if n.Kind == "nonnil" && r.suffix == "" {
							if nl, _ := pa.nilable(arg); !nl {
								record(in, "precondition of "+fnName(g)+" ("+where+")", n, true, nil, false)
								continue
							}
						}
						if facts.holds(n) || (treeValueKey(n.Key) && n.Kind == "len>" && strings.HasSuffix(n.Key, ".Update") && n.K == 0) {
							if treeValueKey(n.Key) {
								pa.treeInvUsed(where)
							}
							record(in, "precondition of "+fnName(g)+" ("+where+")", n, true, nil, false)
							continue
						}
						if i, suf := paramRoot(fr.Fn, n.Key); i >= 0 && !pa.entry[fr.Fn] && fr.Fn == f && f.Parent() == nil && !isExportedFn(f) {
							if pa.addReq(f, pReq{i, suf, r.need}, where) {
								changed = true
							}
							record(in, "precondition of "+fnName(g)+" ("+where+")", n, false, st.Trace(), true)
							continue
						}
						record(in, "precondition of "+fnName(g)+" ("+where+")", n, false, st.Trace(), false)
					}
				}
			}
		}
		kind, needs := pa.needsOf(in)
		// a possibly-nil pointer (map lookup, may-nil result, singular message field) handed to a
		// callee that dereferences the parameter
		if ci, ok := in.(ssa.CallInstruction); ok {
			if g := staticCallee(ci.Common()); g != nil && len(g.Blocks) > 0 && strings.HasPrefix(pkgPathOf(g), modPath) {
				for i, a := range ci.Common().Args {
					if i >= len(g.Params) {
						break
					}
					if _, isPtr := a.Type().Underlying().(*types.Pointer); !isPtr {
						continue
					}
					nl, why := pa.nilable(a)
					if !nl || !derefsParam(g, i) {
						continue
					}
					kind = "nil dereference in callee (" + why + " passed to " + fnName(g) + ")"
					needs = append(needs, pNeed{Kind: "nonnil", Key: pkey(a)})
				}
			}
		}
		if len(needs) == 0 {
			return
		}
		facts := factsAt(st.Trace())
		for _, n := range needs {
			if n.Kind == "never" {
				record(in, kind, n, false, st.Trace(), false)
				continue
			}
			ok := facts.holds(n)
			if !ok && n.Kind == "len>" {
				// a slice that a loop only shortens while it is longer than m keeps a known minimum length
				if lb, okInv := shrinkInvariant(in, facts); okInv && lb > n.K {
					ok = true
				}
			}
			if !ok && n.Kind == "len>" && n.K == 0 && treeValueKey(n.Key) && strings.HasSuffix(n.Key, ".Update") {
				ok = true
				pa.treeInvUsed(fnName(f))
			}
			if ok {
				record(in, kind, n, true, nil, false)
				continue
			}
			if i, suf := paramRoot(fr.Fn, n.Key); i >= 0 && fr.Fn == f && !pa.entry[f] && n.Kind != "idx<len" && f.Parent() == nil && !isExportedFn(f) {
				where := fmt.Sprintf("%s %s at %s", kind, n.String(), P.Pos(posOf(in)))
				if pa.addReq(f, pReq{i, suf, n}, where) {
					changed = true
				}
				record(in, kind, n, false, st.Trace(), true)
				continue
			}
			record(in, kind, n, false, st.Trace(), false)
		}
	}
	e.Run(f)
	if e.Overflow && deepMode {
		// too many paths at the deeper unrolling: analyse this function at the quick bound
		pa.Notes = append(pa.Notes, "thorough: "+fnName(f)+" analysed at the quick unrolling bound (path count beyond 60000 at the deeper bound)")
		for k, s := range pa.sites {
			if k.fn == f {
				delete(pa.sites, k)
				_ = s
			}
		}
		e.MaxVisits = 2
		e.deepApplied = true
		e.Run(f)
	}
	c.Paths += len(e.Paths)
	if e.Overflow {
		pa.Notes = append(pa.Notes, "path overflow in "+fnName(f))
		c.Unknown("C12.sites", fnName(f), "path enumeration", P.Pos(f.Pos()), "more than 60000 paths")
	}
	return changed
}

var treeInvUsers = map[string]bool{}

func (pa *PanicAudit) treeInvUsed(where string) { treeInvUsers[where] = true }

// checkTreeInvariant: every notification stored into a target tree by package cache has at
// least one update, because the only writers are Tree.Add / Leaf.Update in gnmiUpdate with
// its notification parameter, and gnmiUpdate's own precondition len(n.Update) > 0 is
// discharged at all of its call sites.
func (pa *PanicAudit) checkTreeInvariant() {
	P := pa.P
	gu := P.Method("cache", "Target", "gnmiUpdate")
	ok := gu != nil
	writers := 0
	for _, f := range P.PkgFuncs("cache") {
		if P.InTestFile(f) {
			continue
		}
		for _, ci := range callsIn(f) {
			n := calleeName(ci.Common())
			if n != "(*ctree.Tree).Add" && n != "(*ctree.Leaf).Update" {
				continue
			}
			writers++
			val := unwrap(ci.Common().Args[len(ci.Common().Args)-1])
			if !pa.isGuNotification(gu, f, val, 0) {
				ok = false
			}
		}
	}
	hasReq := false
	if gu != nil {
		for r := range pa.req[gu] {
			if r.param == 1 && r.suffix == ".Update" && r.need.Kind == "len>" {
				hasReq = true
			}
		}
	}
	pa.treeInv = ok && writers >= 2 && hasReq
}

// isGuNotification: val, in function f, is gnmiUpdate's own notification parameter - directly, or as a
// parameter of an unexported helper that every call site in package cache fills with it.
func (pa *PanicAudit) isGuNotification(gu, f *ssa.Function, val ssa.Value, d int) bool {
	if gu == nil || d > 4 {
		return false
	}
	if f == gu {
		return val == ssa.Value(gu.Params[1])
	}
	pp, ok := val.(*ssa.Parameter)
	if !ok || f.Parent() != nil || isExportedFn(f) {
		return false
	}
	idx := -1
	for i, q := range f.Params {
		if q == pp {
			idx = i
		}
	}
	if idx < 0 {
		return false
	}
	sites := 0
	for _, g := range pa.P.PkgFuncs("cache") {
		if pa.P.InTestFile(g) {
			continue
		}
		for _, h := range withAnon(g) {
			for _, ci := range callsIn(h) {
				if staticCallee(ci.Common()) != f || idx >= len(ci.Common().Args) {
					continue
				}
				sites++
				if !pa.isGuNotification(gu, h, unwrap(ci.Common().Args[idx]), d+1) {
					return false
				}
			}
		}
	}
	return sites > 0
}

// Report turns sites into obligations.
func (pa *PanicAudit) Report(rule string) (total, unguarded int) {
	c := pa.c
	P := pa.P
	var keys []pSiteKey
	for k := range pa.sites {
		keys = append(keys, k)
	}
	sort.Slice(keys, func(i, j int) bool {
		a, b := pa.sites[keys[i]], pa.sites[keys[j]]
		if fnName(a.Fn) != fnName(b.Fn) {
			return fnName(a.Fn) < fnName(b.Fn)
		}
		return a.Kind+a.Need.String() < b.Kind+b.Need.String()
	})
	for _, k := range keys {
		s := pa.sites[k]
		total++
		construct := s.Kind + ": needs " + s.Need.String()
		if strings.HasPrefix(s.Kind, "precondition of") {
			construct = s.Kind[:strings.Index(s.Kind, " (")] + ": needs " + s.Need.String()
		}
		pos := P.Pos(posOf(s.In))
		if s.Unguarded == 0 {
			c.OK(rule, fnName(s.Fn), construct, pos, fmt.Sprintf("guarded on all %d paths through the site", s.Guarded))
			continue
		}
		if s.ByCaller {
			// turned into a precondition; judged at the call sites
			c.OK(rule, fnName(s.Fn), construct, pos, "established by every caller (precondition checked at the call sites)")
			continue
		}
		unguarded++
		c.Bad(rule, fnName(s.Fn), construct, pos, fmt.Sprintf("unguarded on %d of %d paths; decisions on one such path: %s", s.Unguarded, s.Guarded+s.Unguarded, s.Witness))
	}
	return
}

var derefsParamMemo = map[*ssa.Parameter]bool{}

// derefsParam: does g read or write through its i-th (pointer) parameter
// without first comparing it with nil?  (Generated nil-safe getters and
// methods that start with `if x == nil` do not count.)
func derefsParam(g *ssa.Function, i int) bool {
	p := g.Params[i]
	if v, ok := derefsParamMemo[p]; ok {
		return v
	}
	// the parameter and the loads of the cell it is spilled into (captured parameters)
	vals := []ssa.Value{p}
	if p.Referrers() != nil {
		for _, r := range *p.Referrers() {
			st, ok := r.(*ssa.Store)
			if !ok || st.Val != ssa.Value(p) {
				continue
			}
			al, ok := st.Addr.(*ssa.Alloc)
			if !ok || singleStore(al) != ssa.Value(p) {
				continue
			}
			var cells []ssa.Value
			cells = append(cells, al)
			for _, h := range withAnon(g) {
				for _, fv := range h.FreeVars {
					if b := bindingOf(fv); b == ssa.Value(al) {
						cells = append(cells, fv)
					}
				}
			}
			for _, cell := range cells {
				if cell.Referrers() == nil {
					continue
				}
				for _, cr := range *cell.Referrers() {
					if u, ok := cr.(*ssa.UnOp); ok && u.Op == token.MUL {
						vals = append(vals, u)
					}
				}
			}
		}
	}
	res := false
	nilTested := false
	for _, v := range vals {
		if v.Referrers() == nil {
			continue
		}
		for _, r := range *v.Referrers() {
			switch x := r.(type) {
			case *ssa.BinOp:
				if (x.Op == token.EQL || x.Op == token.NEQ) && (isNilConst(x.X) || isNilConst(x.Y)) {
					nilTested = true
				}
			case *ssa.FieldAddr:
				res = true
			case *ssa.UnOp:
				if x.Op == token.MUL && v == ssa.Value(p) {
					res = true
				}
				if x.Op == token.MUL && v != ssa.Value(p) {
					if _, isStruct := x.Type().Underlying().(*types.Struct); isStruct {
						res = true
					}
				}
			}
		}
	}
	res = res && !nilTested
	derefsParamMemo[p] = res
	return res
}

// mapValsNonNil reports whether every value stored (anywhere in the module's
// non-test code) into maps of the given type is a non-nil pointer by
// provenance (a fresh allocation or the result of a function that never
// returns nil).  Set by NewPanicAudit.
var mapValsNonNil func(t types.Type) bool

func (pa *PanicAudit) buildMapValsNonNil() {
	memo := map[string]bool{}
	mapValsNonNil = func(t types.Type) bool {
		key := types.TypeString(t, nil)
		if v, ok := memo[key]; ok {
			return v
		}
		res := true
		mapValsInProgress[key] = true
		defer delete(mapValsInProgress, key)
		for _, mp := range pa.P.ModPkgs() {
			for _, f := range pa.P.PkgFuncs(strings.TrimPrefix(mp, modPath+"/")) {
				if pa.P.InTestFile(f) {
					continue
				}
				instrs(f, func(in ssa.Instruction) {
					mu, ok := in.(*ssa.MapUpdate)
					if !ok || types.TypeString(mu.Map.Type(), nil) != key {
						return
					}
					if !pa.nonNilByProvenance(mu.Value, 0) {
						res = false
					}
				})
			}
		}
		memo[key] = res
		return res
	}
}

func (pa *PanicAudit) nonNilByProvenance(v ssa.Value, d int) bool {
	if d > 6 {
		return false
	}
	switch x := v.(type) {
	case *ssa.Alloc:
		return true
	case *ssa.Call:
		if f := staticCallee(&x.Call); f != nil && len(f.Blocks) > 0 {
			if _, isPtr := x.Type().Underlying().(*types.Pointer); isPtr {
				return !pa.mayNil[f] && !mayReturnNil(f) && returnsOnlyFresh(f, d+1, pa)
			}
		}
	case *ssa.Phi:
		for _, e := range x.Edges {
			if !pa.nonNilByProvenance(e, d+1) {
				return false
			}
		}
		return len(x.Edges) > 0
	case *ssa.ChangeType:
		return pa.nonNilByProvenance(x.X, d+1)
	case *ssa.Extract:
		// value of a range over a map of the same element type (a copy of such a map): by induction
		if nx, ok := x.Tuple.(*ssa.Next); ok && x.Index == 2 {
			if rg, ok := nx.Iter.(*ssa.Range); ok {
				if _, isMap := rg.X.Type().Underlying().(*types.Map); isMap && mapValsNonNil != nil {
					return mapValsNonNilInd(rg.X.Type())
				}
			}
		}
	}
	return false
}

// mapValsNonNilInd: inductive use of the invariant while it is being established
// (copying values between maps of one type preserves it).
var mapValsInProgress = map[string]bool{}

func mapValsNonNilInd(t types.Type) bool {
	key := types.TypeString(t, nil)
	if mapValsInProgress[key] {
		return true
	}
	return mapValsNonNil(t)
}

func returnsOnlyFresh(f *ssa.Function, d int, pa *PanicAudit) bool {
	ok := true
	instrs(f, func(in ssa.Instruction) {
		if ret, isRet := in.(*ssa.Return); isRet && len(ret.Results) == 1 {
			if !pa.nonNilByProvenance(ret.Results[0], d) {
				ok = false
			}
		}
	})
	return ok
}

// keyFromSameMap: the key of the lookup m[k] was enumerated from m itself:
// k is the key variable of `range m`, or an element of a slice that is filled
// with the keys of `range m` (possibly sorted) in the same function, or of a
// slice returned by a same-package helper that is given m and does the same
// with its parameter.
func keyFromSameMap(lk *ssa.Lookup) bool {
	m := pkey(lk.X)
	return keyEnumerates(lk.Index, m, lk.Parent(), 0)
}

func keyEnumerates(k ssa.Value, m string, fn *ssa.Function, d int) bool {
	if d > 8 {
		return false
	}
	switch x := k.(type) {
	case *ssa.Extract:
		if nx, ok := x.Tuple.(*ssa.Next); ok && x.Index == 1 {
			if rg, ok := nx.Iter.(*ssa.Range); ok {
				return pkey(rg.X) == m
			}
		}
	case *ssa.UnOp:
		if ia, ok := x.X.(*ssa.IndexAddr); ok && x.Op == token.MUL {
			return sliceOfKeys(ia.X, m, fn, map[ssa.Value]bool{}, d+1)
		}
	case *ssa.Phi:
		for _, e := range x.Edges {
			if !keyEnumerates(e, m, fn, d+1) {
				return false
			}
		}
		return len(x.Edges) > 0
	}
	return false
}

// sliceOfKeys: every element ever appended to s is a key enumerated from map m.
func sliceOfKeys(s ssa.Value, m string, fn *ssa.Function, seen map[ssa.Value]bool, d int) bool {
	if seen[s] {
		return true
	}
	seen[s] = true
	if d > 12 {
		return false
	}
	switch x := s.(type) {
	case *ssa.Phi:
		for _, e := range x.Edges {
			if !sliceOfKeys(e, m, fn, seen, d+1) {
				return false
			}
		}
		return len(x.Edges) > 0
	case *ssa.MakeSlice:
		// make([]string, 0, n): empty
		if k, ok := constInt(x.Len); ok && k == 0 {
			return true
		}
	case *ssa.Const:
		return x.Value == nil
	case *ssa.Call:
		if ac, ok := isAppend(x); ok && len(ac.Call.Args) == 2 {
			if !sliceOfKeys(ac.Call.Args[0], m, fn, seen, d+1) {
				return false
			}
			// appended values: a one-element varargs literal holding a range key of m
			els, ok := literalElems(ac.Call.Args[1])
			if !ok {
				return false
			}
			for _, e := range els {
				if !keyEnumerates(e, m, fn, d+1) {
					return false
				}
			}
			return true
		}
		// slices.Sorted(maps.Keys(m)) / slices.Collect(maps.Keys(m)): by contract the keys of m
		if g := staticCallee(&x.Call); g != nil && pkgPathOf(g) == "slices" && len(x.Call.Args) == 1 &&
			(strings.HasPrefix(g.Name(), "Sorted") || strings.HasPrefix(g.Name(), "Collect")) {
			if it, ok := x.Call.Args[0].(*ssa.Call); ok && len(it.Call.Args) == 1 {
				if h := staticCallee(&it.Call); h != nil && pkgPathOf(h) == "maps" && strings.HasPrefix(h.Name(), "Keys") {
					return pkey(it.Call.Args[0]) == m
				}
			}
			return false
		}
		// helper(m) returning the keys of its parameter
		if g := staticCallee(&x.Call); g != nil && g.Pkg == fn.Pkg && len(g.Blocks) > 0 {
			for i, a := range x.Call.Args {
				if pkey(a) != m || i >= len(g.Params) {
					continue
				}
				ok := true
				n := 0
				instrs(g, func(in ssa.Instruction) {
					if ret, isRet := in.(*ssa.Return); isRet && len(ret.Results) == 1 {
						n++
						if !sliceOfKeys(ret.Results[0], pkey(g.Params[i]), g, map[ssa.Value]bool{}, d+1) {
							ok = false
						}
					}
				})
				return ok && n > 0
			}
		}
	}
	return false
}

// literalElems: the values stored into a varargs / slice literal.
func literalElems(v ssa.Value) ([]ssa.Value, bool) {
	sl, ok := v.(*ssa.Slice)
	if !ok {
		return nil, false
	}
	al, ok := sl.X.(*ssa.Alloc)
	if !ok {
		return nil, false
	}
	var out []ssa.Value
	for _, r := range *al.Referrers() {
		if ia, ok := r.(*ssa.IndexAddr); ok {
			for _, rr := range *ia.Referrers() {
				if st, ok := rr.(*ssa.Store); ok {
					out = append(out, st.Val)
				}
			}
		}
	}
	return out, len(out) > 0
}

// shrinkInvariant: the indexed operand of in is a loop-carried slice s = φ(init, s[c:]) whose
// shortening step runs only under len(s) > m (the test at the φ's block).  Then on every
// iteration len(s) >= min(len(init), m+1-c); len(init) is taken from the facts of the path.
func shrinkInvariant(in ssa.Instruction, facts *pFacts) (int64, bool) {
	var x ssa.Value
	switch v := in.(type) {
	case *ssa.IndexAddr:
		x = v.X
	case *ssa.Index:
		x = v.X
	case *ssa.Slice:
		x = v.X
	default:
		return 0, false
	}
	phi, ok := x.(*ssa.Phi)
	if !ok || len(phi.Edges) != 2 {
		return 0, false
	}
	var init ssa.Value
	var step *ssa.Slice
	for _, e := range phi.Edges {
		if sl, ok := e.(*ssa.Slice); ok && sl.X == ssa.Value(phi) && sl.High == nil && sl.Low != nil {
			step = sl
		} else {
			init = e
		}
	}
	if init == nil || step == nil {
		return 0, false
	}
	c, okc := constInt(step.Low)
	if !okc || c < 0 {
		return 0, false
	}
	// the test at the φ's block: len(φ) > m (true edge leads to the step)
	hb := phi.Block()
	ifi, ok := hb.Instrs[len(hb.Instrs)-1].(*ssa.If)
	if !ok {
		return 0, false
	}
	cond, ok := ifi.Cond.(*ssa.BinOp)
	if !ok {
		return 0, false
	}
	la, okl := lenArg(cond.X)
	m, okm := constInt(cond.Y)
	if !okl || !okm || la != ssa.Value(phi) {
		return 0, false
	}
	switch cond.Op {
	case token.GTR:
	case token.GEQ:
		m--
	default:
		return 0, false
	}
	if !(hb.Succs[0] == step.Block() || hb.Succs[0].Dominates(step.Block())) {
		return 0, false
	}
	lo, ok := facts.lenLo[pkey(init)]
	if !ok {
		return 0, false
	}
	after := m + 1 - c
	if lo < after {
		return lo, true
	}
	return after, true
}
