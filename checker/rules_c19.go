package main

import (
	"fmt"
	"go/token"
	"go/types"
	"sort"
	"strings"

	"golang.org/x/tools/go/ssa"
)

func init() {
	register(&propDef{
		ID:       "C19",
		Explain:  "Decided (structural necessary conditions): no value accumulated while ranging over a map reaches a result of path/value/client-gnmi functions unless it is sorted first or the map provably has one entry (map-order independence), and no callback runs inside such a loop; ToStrings places target then origin first only when asked and non-empty, falls back to the deprecated element list verbatim when there are no elems, and otherwise emits each element's name followed by its key values (single key: the value; several: through sortedVals, which sorts the keys before collecting values); the complete CompletePath origin table; value.Equal arm by arm: nil-safe getter and comma-ok to the same kind on the other side, false on mismatch, true only through == of the same fields (leaf-lists: length boundaries and element-wise recursion), unhandled kinds => false; FromScalar's constructible kinds are a subset of ToScalar's convertible kinds, each ToScalar arm returns its own kind's getter, both have an error default; the client query path goes through pathToString -> ygot.StringToPath, pathToString escapes exactly the separator it joins with and writes only into its own copy; no retained append on a foreign/forked base in path and client/gnmi. Round-5 addition: FromScalar stores the type-switched input or a plain Go conversion of it into the oneof wrapper - no call and no arithmetic on the way. Round-7 addition: FromScalar refuses only for an unsupported type, a string utf8.ValidString rejects, or a failed element conversion (judged on the last undecided branch of every error path, helpers included); CompletePath returns the accumulated slice itself.",
		NotCover: "round-trip equality through ygot and the wire, float precision, UTF-8 handling inside ygot",
		Run:      runC19,
	})
}

// mapOrderAudit: E8. For every range over a map in the given functions, values accumulated in
// the loop must be sorted before any other use outside the loop (or the map has exactly one
// entry on every path to the loop); with strict, no dynamic/recursive call may run inside the loop.
func mapOrderAudit(c *Ctx, rule string, fns []*ssa.Function, strict bool) (ranges, rootsCovered int) {
	P := c.P
	n := 0
	// same-package helpers the functions delegate to are audited with them
	// (a sorted-keys helper extracted from a walk is still part of the walk)
	inSet := map[*ssa.Function]bool{}
	roots := append([]*ssa.Function{}, fns...)
	for _, f := range fns {
		inSet[f] = true
	}
	defer func() {
		// a root is covered when it, or a same-package helper it delegates to, ranges over a map
		hasRange := func(f *ssa.Function) bool {
			found := false
			instrs(f, func(in ssa.Instruction) {
				if rg, ok := in.(*ssa.Range); ok {
					if _, isMap := rg.X.Type().Underlying().(*types.Map); isMap {
						found = true
					}
				}
				// ... or hands one to an iterator of package maps (audited below like a range)
				if call, ok := in.(*ssa.Call); ok && len(call.Call.Args) > 0 {
					if g := staticCallee(&call.Call); g != nil && pkgPathOf(g) == "maps" {
						if _, isMap := call.Call.Args[0].Type().Underlying().(*types.Map); isMap {
							found = true
						}
					}
				}
			})
			return found
		}
		for _, root := range roots {
			seen := map[*ssa.Function]bool{root: true}
			work := []*ssa.Function{root}
			cov := false
			for len(work) > 0 && !cov {
				f := work[0]
				work = work[1:]
				if hasRange(f) {
					cov = true
				}
				for _, g := range withAnon(f) {
					for _, ci := range callsIn(g) {
						cal := staticCallee(ci.Common())
						if cal != nil && cal.Pkg == root.Pkg && len(cal.Blocks) > 0 && !seen[cal] {
							seen[cal] = true
							work = append(work, cal)
						}
					}
				}
			}
			if cov {
				rootsCovered++
			}
		}
		ranges = n
	}()
	for i := 0; i < len(fns); i++ {
		for _, g := range withAnon(fns[i]) {
			for _, ci := range callsIn(g) {
				cal := staticCallee(ci.Common())
				if cal == nil || cal.Pkg == nil || cal.Pkg != fns[i].Pkg || len(cal.Blocks) == 0 || inSet[cal] || cal.Synthetic != "" {
					continue
				}
				inSet[cal] = true
				fns = append(fns, cal)
			}
		}
	}
	for _, f := range fns {
		for _, b := range f.Blocks {
			for _, in := range b.Instrs {
				// the iterators of package maps deliver a map in map order: only slices.Sorted* makes that order disappear
				if call, isCall := in.(*ssa.Call); isCall {
					if g := staticCallee(&call.Call); g != nil && pkgPathOf(g) == "maps" && (strings.HasPrefix(g.Name(), "Keys") || strings.HasPrefix(g.Name(), "Values") || strings.HasPrefix(g.Name(), "All")) {
						n++
						okUse := call.Referrers() != nil && len(*call.Referrers()) > 0
						where := ""
						if call.Referrers() != nil {
							for _, r := range *call.Referrers() {
								if _, isDbg := r.(*ssa.DebugRef); isDbg {
									continue
								}
								rc, isRC := r.(*ssa.Call)
								if isRC {
									if h := staticCallee(&rc.Call); h != nil && pkgPathOf(h) == "slices" && strings.HasPrefix(h.Name(), "Sorted") {
										continue
									}
								}
								okUse = false
								where = P.Pos(posOf(r))
							}
						}
						c.Check(okUse, rule, fnName(f), "iterator "+Expr(call), P.Pos(call.Pos()), "a map iterator is consumed only by slices.Sorted* (used otherwise at "+where+")")
						continue
					}
				}
				rg, ok := in.(*ssa.Range)
				if !ok {
					continue
				}
				if _, isMap := rg.X.Type().Underlying().(*types.Map); !isMap {
					continue
				}
				n++
				key := "range " + Expr(rg.X)
				// single-entry guard: the branch conditions on len(X) that dominate the loop leave only len(X) == 1
				_, hi := lenBoundsAt(f, b, rg.X)
				// at most one entry: the iteration order cannot matter
				single := hi >= 0 && hi <= 1
				if single {
					c.OK(rule, fnName(f), key, P.Pos(in.Pos()), "the map has exactly one entry on every path to the loop")
					continue
				}
				// loop blocks: reachable from the Next's block back to itself
				var next *ssa.Next
				for _, r := range *rg.Referrers() {
					if nx, ok := r.(*ssa.Next); ok {
						next = nx
					}
				}
				if next == nil {
					continue
				}
				hdr := next.Block()
				inLoop := map[*ssa.BasicBlock]bool{}
				for _, bb := range f.Blocks {
					if bb == hdr || (reachableFrom(hdr)[bb] && reachableFrom(bb)[hdr] && hdr.Dominates(bb)) {
						inLoop[bb] = true
					}
				}
				// accumulations: φ-nodes at the header (other than the iterator) and stores to outer cells in the loop
				var accs []ssa.Value
				for _, hi := range hdr.Instrs {
					if phi, ok := hi.(*ssa.Phi); ok {
						accs = append(accs, phi)
					}
				}
				bad := ""
				sorted := 0
				for _, acc := range accs {
					switch acc.Type().Underlying().(type) {
					case *types.Slice:
					case *types.Basic:
						if acc.Type().Underlying().(*types.Basic).Info()&types.IsString == 0 {
							continue // counters, sums: order independent
						}
					default:
						continue
					}
					// uses outside the loop
					var outside []ssa.Instruction
					for _, r := range *acc.Referrers() {
						if !inLoop[r.Block()] {
							outside = append(outside, r)
						}
					}
					var sortCall ssa.Instruction
					for _, r := range outside {
						if ci, ok := r.(ssa.CallInstruction); ok {
							nm := calleeName(ci.Common())
							if strings.HasPrefix(nm, "sort.") || strings.HasPrefix(nm, "slices.Sort") {
								sortCall = r
							}
						}
					}
					if sortCall != nil {
						okDom := true
						for _, r := range outside {
							if r != sortCall && !instrDominates(sortCall, r) {
								okDom = false
							}
						}
						if okDom {
							sorted++
							continue
						}
					}
					if len(outside) > 0 {
						bad = fmt.Sprintf("%s is built in map iteration order and used at %s without being sorted first", Expr(acc), P.Pos(posOf(outside[0])))
					}
				}
				// stores into captured / outer variables inside the loop
				for bb := range inLoop {
					for _, li := range bb.Instrs {
						if strict {
							if ci, ok := li.(ssa.CallInstruction); ok {
								cc := ci.Common()
								if _, isB := cc.Value.(*ssa.Builtin); isB {
									continue
								}
								if cc.IsInvoke() || staticCallee(cc) == nil || staticCallee(cc) == f {
									bad = "a callback / recursive visit runs inside the loop, in map iteration order (" + Expr(cc.Value) + ")"
								}
							}
						}
					}
				}
				if bad != "" {
					c.Bad(rule, fnName(f), key, P.Pos(in.Pos()), bad)
				} else {
					c.OK(rule, fnName(f), key, P.Pos(in.Pos()), fmt.Sprintf("%d accumulated values, all sorted before use (or order-independent)", sorted))
				}
			}
		}
	}
	return n, 0
}

func runC19(c *Ctx) {
	P := c.P
	ts := P.Func("path", "ToStrings")
	sv := P.Func("path", "sortedVals")
	if ts == nil || sv == nil {
		c.Unresolved("C19.anchors", "path.ToStrings / path.sortedVals")
		return
	}
	c.Rule("C19.order", "packages path, value, client/gnmi: a slice/string accumulated while ranging over a map is passed to sort.* before any other use outside the loop, unless the loop is entered only when len(map)==1")
	c.Rule("C19.prefix", "ToStrings: nil path => empty; target and origin are appended only when the prefix flag is set and they are non-empty, target before origin, both before any element; no elems => the deprecated element list is appended verbatim; otherwise per element its name, then its key value (one key) or sortedVals(keys) (several keys)")
	c.Rule("C19.cp", "CompletePath decision table over the origin atoms")
	c.Rule("C19.equal-arms", "value.Equal arm by arm (see rule text of the shared arm analysis)")
	c.Rule("C19.scalar-exact", "value.FromScalar: the number, bool or string stored into a oneof wrapper (IntVal, UintVal, DoubleVal, BoolVal, StringVal) is the type-switched input itself or a plain Go conversion of it (widening: exact) - no call and no arithmetic lies between the input and the stored value (a detour through decimal text, rounding or scaling changes values that the plain conversion preserves)")
	{
		from := P.Func("value", "FromScalar")
		if from == nil {
			c.Unresolved("C19.scalar-exact", "value.FromScalar")
		} else {
			n := 0
			unit := scalarUnit(from)
			for _, f := range unit {
				instrs(f, func(in ssa.Instruction) {
					st, ok := in.(*ssa.Store)
					if !ok {
						return
					}
					fa, ok := st.Addr.(*ssa.FieldAddr)
					if !ok {
						return
					}
					nt, ok := deref(fa.X.Type()).(*types.Named)
					if !ok || !strings.HasPrefix(nt.Obj().Name(), "TypedValue_") || !strings.Contains(pkgPathOfType(nt), "proto/gnmi") {
						return
					}
					b, ok := st.Val.Type().Underlying().(*types.Basic)
					if !ok || b.Info()&(types.IsNumeric|types.IsBoolean|types.IsString) == 0 {
						return
					}
					// a constructor helper (intVal(v) ...): the stored value is its parameter - judged at every call site
					vals := []ssa.Value{st.Val}
					if pp, isP := unwrap(st.Val).(*ssa.Parameter); isP && f != from && f.Parent() == nil {
						vals = nil
						idx := -1
						for i, q := range f.Params {
							if q == pp {
								idx = i
							}
						}
						for _, h := range unit {
							for _, ci := range callsIn(h) {
								if staticCallee(ci.Common()) == f && idx >= 0 && idx < len(ci.Common().Args) {
									vals = append(vals, ci.Common().Args[idx])
								}
							}
						}
					}
					for _, sv := range vals {
						n++
						v := sv
						why := ""
						for i := 0; i < 8; i++ {
							switch x := v.(type) {
							case *ssa.Convert:
								v = x.X
								continue
							case *ssa.ChangeType:
								v = x.X
								continue
							}
							break
						}
						okSrc := false
						switch x := v.(type) {
						case *ssa.Extract:
							_, okSrc = x.Tuple.(*ssa.TypeAssert)
						case *ssa.TypeAssert:
							okSrc = true
						case *ssa.Parameter:
							okSrc = true
						case *ssa.UnOp, *ssa.Index, *ssa.Phi, *ssa.Next:
							// an element of the input (the string of a []string)
							okSrc = true
							if u, isU := x.(*ssa.UnOp); isU && u.Op != token.MUL {
								okSrc = false
							}
						}
						if !okSrc {
							why = fmt.Sprintf("the stored value is computed by %T: %s", v, Expr(v))
						}
						c.Check(okSrc, "C19.scalar-exact", fnName(from), "value stored into "+nt.Obj().Name()+" ("+b.Name()+")", P.Pos(st.Pos()), why)
					}
				})
			}
			c.Floor("C19.scalar-exact/stores", n, 10)
		}
	}
	c.Rule("C19.scalar-total", "value.FromScalar refuses an input only for one of three reasons, judged on every path that returns a non-nil error by the last undecided branch before the return: no arm of the type switch matched (unsupported type), the standard validity predicate utf8.ValidString / utf8.Valid said no about a string of the input, or the conversion of an element of the input failed (the error of a call inside the conversion unit - FromScalar itself, an unexported helper, or the conversion function handed to a helper - is non-nil; the helpers that return errors are judged the same way); any other deciding test (a hand-written scan, a length or range test) refuses values the conversion is defined for")
	if from := P.Func("value", "FromScalar"); from != nil {
		unit := map[*ssa.Function]bool{}
		for _, f := range scalarUnit(from) {
			unit[f] = true
		}
		kinds := map[string]int{}
		seenBad := map[token.Pos]bool{}
		var roots []*ssa.Function
		for _, f := range scalarUnit(from) {
			if f.Parent() != nil && f != from {
				continue
			}
			rs := f.Signature.Results()
			if f == from || (rs.Len() > 0 && types.TypeString(rs.At(rs.Len()-1).Type(), nil) == "error") {
				roots = append(roots, f)
			}
		}
		for _, root := range roots {
			e := &PPA{TraceBranches: true, NoAuto: true, Watch: func(ev *Ev) bool { return ev.Label == "if" }}
			e.Run(root)
			c.Paths += len(e.Paths)
			c.Analysed(fnName(root))
			if e.Overflow {
				c.Unknown("C19.scalar-total", fnName(root), "error paths", "", "path overflow")
			}
			isTypeTest := func(v ssa.Value) bool {
				ex, ok := v.(*ssa.Extract)
				if !ok || ex.Index != 1 {
					return false
				}
				_, ok = ex.Tuple.(*ssa.TypeAssert)
				return ok
			}
			for i := range e.Paths {
				p := &e.Paths[i]
				if p.End != "return" || len(p.Rets) == 0 || isNilConst(p.Rets[len(p.Rets)-1].V) {
					continue
				}
				var last *Ev
				armTaken := false
				for j := range p.Trace {
					ev := &p.Trace[j]
					if ev.Label != "if" || len(ev.Args) == 0 {
						continue
					}
					if isTypeTest(ev.Args[0].V) && ev.Taken {
						armTaken = true
					}
					if !ev.Folded {
						last = ev
					}
				}
				kind, why := "", ""
				// the error of a helper of the conversion unit handed on as it is (`return fromString(v)`): the helper is
				// judged itself
				delegated := false
				if ex, ok := p.Rets[len(p.Rets)-1].V.(*ssa.Extract); ok {
					if call, ok := ex.Tuple.(*ssa.Call); ok {
						if g := staticCallee(&call.Call); g != nil && (g == from || unit[g]) {
							delegated = true
						}
					}
				}
				switch {
				case delegated:
					kind = "element refused"
				case last == nil:
					why = "an error is returned unconditionally"
				case isTypeTest(last.Args[0].V):
					if !last.Taken && !armTaken {
						kind = "unsupported type"
					} else {
						why = fmt.Sprintf("an error is returned for a type the switch has an arm for, without any further test (returns %T %s)", p.Rets[len(p.Rets)-1].V, Expr(p.Rets[len(p.Rets)-1].V))
					}
				default:
					cond, neg := last.Args[0].V, false
					if u, ok := cond.(*ssa.UnOp); ok && u.Op == token.NOT {
						cond, neg = u.X, true
					}
					if call, ok := cond.(*ssa.Call); ok {
						switch calleeName(&call.Call) {
						case "unicode/utf8.ValidString", "unicode/utf8.Valid":
							if last.Taken == neg {
								kind = "invalid UTF-8"
							} else {
								why = "an error is returned for a string the validity predicate accepted"
							}
						default:
							why = "the refusal is decided by " + calleeName(&call.Call)
						}
					} else if b, ok := cond.(*ssa.BinOp); ok && (b.Op == token.NEQ || b.Op == token.EQL) && (isNilConst(b.X) || isNilConst(b.Y)) {
						x := b.X
						if isNilConst(x) {
							x = b.Y
						}
						x = e.Resolve(newState(), RV{last.F, x}).V
						if ex, ok := x.(*ssa.Extract); ok {
							if call, ok := ex.Tuple.(*ssa.Call); ok && types.TypeString(ex.Type(), nil) == "error" {
								g := staticCallee(&call.Call)
								_, viaParam := call.Call.Value.(*ssa.Parameter)
								if ((g != nil && (g == from || unit[g])) || (g == nil && viaParam && root != from)) && last.Taken == (b.Op == token.NEQ) {
									kind = "element refused"
								}
							}
						}
						if kind == "" {
							why = "the refusal is decided by " + Expr(cond)
						}
					} else {
						why = "the refusal is decided by " + Expr(cond)
					}
				}
				if kind != "" {
					kinds[kind]++
					continue
				}
				pos := root.Pos()
				if last != nil {
					pos = posOf(last.In)
				}
				if !seenBad[pos] {
					seenBad[pos] = true
					c.Check(false, "C19.scalar-total", fnName(root), "refusal justified", P.Pos(pos), why)
				}
			}
		}
		for _, k := range []string{"unsupported type", "invalid UTF-8", "element refused"} {
			c.Check(kinds[k] > 0, "C19.scalar-total", fnName(from), "refusal analysed: "+k, P.Pos(from.Pos()), fmt.Sprintf("%d error paths", kinds[k]))
		}
	} else {
		c.Unresolved("C19.scalar-total", "value.FromScalar")
	}
	c.Rule("C19.scalar-tables", "every oneof kind FromScalar can construct is converted by ToScalar without error; each ToScalar arm returns the getter of its own kind; both functions end in an error default")
	c.Rule("C19.client-path", "client/gnmi.subscribe builds each subscription path from ygot.StringToPath(pathToString(q)); pathToString escapes the same separator constant it joins with, and writes only into a copy of the query path")
	c.Rule("C19.alias", "append-ownership in packages path and client/gnmi")

	var fns []*ssa.Function
	for _, pk := range []string{"path", "value", "client/gnmi"} {
		for _, f := range P.PkgFuncs(pk) {
			if !P.InTestFile(f) {
				fns = append(fns, f)
			}
		}
	}
	n, _ := mapOrderAudit(c, "C19.order", fns, false)
	c.Floor("C19.order/map-ranges", n, 1)

	// ---- prefix / element table
	{
		c.Analysed(fnName(ts))
		p0, pfx := ssa.Value(param(ts, 0)), ssa.Value(param(ts, 1))
		cls := func(e *PPA, st *State, rv RV) string {
			rv = e.Resolve(st, rv)
			switch v := rv.V.(type) {
			case *ssa.Parameter:
				if v == pfx {
					return "PFX"
				}
				if v == p0 {
					return "PNN"
				}
			case *ssa.BinOp:
				if v.Op == token.NEQ || v.Op == token.EQL {
					if s, ok := constString(v.Y); ok && s == "" {
						x := e.Resolve(st, RV{rv.F, v.X})
						if call, ok := x.V.(*ssa.Call); ok {
							name := ""
							switch calleeName(&call.Call) {
							case "(*proto/gnmi.Path).GetTarget":
								name = "TNE"
							case "(*proto/gnmi.Path).GetOrigin":
								name = "ONE"
							}
							if name != "" {
								if v.Op == token.EQL {
									return "!" + name
								}
								return name
							}
						}
					}
				}
			case *ssa.Call:
				if b, ok := v.Call.Value.(*ssa.Builtin); ok && b.Name() == "len" {
					a := e.Resolve(st, RV{rv.F, v.Call.Args[0]})
					switch {
					case isCallNamed(a.V, "(*proto/gnmi.Path).GetElem"):
						return "NELEM"
					case isCallNamed(a.V, "(*proto/gnmi.PathElem).GetKey"):
						return "NKEYS"
					}
				}
				// the key map itself (its length is the atom len(KEYS): a range over it iterates that often)
				if isCallNamed(v, "(*proto/gnmi.PathElem).GetKey") {
					return "KEYS"
				}
			}
			return ""
		}
		describe := func(p *Path) string {
			var parts []string
			for i := range p.Trace {
				ev := &p.Trace[i]
				if ev.Label != "builtin:append" || len(ev.Args) < 2 {
					continue
				}
				a := ev.Args[1].V
				s := "?(" + Expr(a) + ")"
				switch {
				case isCallNamed(a, "(*proto/gnmi.Path).GetElement"):
					s = "elements"
				case isCallNamed(a, fnName(sv)):
					s = "sortedVals"
				default:
					// the appended literal element as resolved on this path (it may come out of a small table)
					if els := ev.Elems[1]; len(els) == 1 {
						switch {
						case isCallNamed(els[0].V, "(*proto/gnmi.Path).GetTarget"):
							s = "target"
						case isCallNamed(els[0].V, "(*proto/gnmi.Path).GetOrigin"):
							s = "origin"
						case isCallNamed(els[0].V, "(*proto/gnmi.PathElem).GetName"):
							s = "name"
						}
						if !strings.HasPrefix(s, "?") {
							break
						}
					}
					if sl, ok := a.(*ssa.Slice); ok {
						if al, ok := sl.X.(*ssa.Alloc); ok {
							for _, r := range *al.Referrers() {
								if ia, ok := r.(*ssa.IndexAddr); ok {
									for _, rr := range *ia.Referrers() {
										if st, ok := rr.(*ssa.Store); ok {
											switch {
											case isCallNamed(st.Val, "(*proto/gnmi.Path).GetTarget"):
												s = "target"
											case isCallNamed(st.Val, "(*proto/gnmi.Path).GetOrigin"):
												s = "origin"
											case isCallNamed(st.Val, "(*proto/gnmi.PathElem).GetName"):
												s = "name"
											default:
												if ex, ok := st.Val.(*ssa.Extract); ok {
													if _, ok := ex.Tuple.(*ssa.Next); ok && ex.Index == 2 {
														s = "keyvalue"
													}
												}
											}
										}
									}
								}
							}
						}
					}
				}
				parts = append(parts, s)
			}
			return strings.Join(parts, " ")
		}
		type row struct {
			name          string
			pfx, tne, one bool
			nelem, nkeys  int64
			want          string
		}
		for _, r := range []row{
			{"prefix requested, target+origin, no elems", true, true, true, 0, 0, "target origin elements"},
			{"prefix requested, only origin", true, false, true, 0, 0, "origin elements"},
			{"prefix requested, only target", true, true, false, 0, 0, "target elements"},
			{"prefix not requested", false, true, true, 0, 0, "elements"},
			{"one elem without keys", false, true, true, 1, 0, "name"},
			{"one elem with one key", true, true, false, 1, 1, "target name keyvalue"},
			{"one elem with several keys", true, false, false, 1, 2, "name sortedVals"},
		} {
			at := &Atoms{Class: cls, Bool: map[string]bool{"PNN": true, "PFX": r.pfx, "TNE": r.tne, "ONE": r.one}, Int: map[string]int64{"NELEM": r.nelem, "NKEYS": r.nkeys, "len(KEYS)": r.nkeys}}
			e := &PPA{Cond: at.Cond, MaxVisits: 3, Watch: func(ev *Ev) bool { return ev.Label == "builtin:append" }}
			e.Run(ts)
			c.Paths += len(e.Paths)
			c.Scen++
			seen := map[string]bool{}
			for i := range e.Paths {
				got := describe(&e.Paths[i])
				seen[got] = true
			}
			// for elem rows the loops run 0..2 times: accept repetitions of the per-element group
			ok := false
			var gots []string
			for g := range seen {
				gots = append(gots, g)
				if g == r.want {
					ok = true
				}
			}
			sort.Strings(gots)
			allOK := ok
			if r.nkeys <= 1 && r.nelem > 0 && len(gots) > 0 {
				allOK = true // decided below on the normalised sequences
			}
			for _, g := range gots {
				gg := g
				// every element handed to the sorted-values helper, whatever the number of keys: with one key that is
				// the key's value, without keys nothing
				if r.nkeys == 1 {
					gg = strings.ReplaceAll(gg, "sortedVals", "keyvalue")
				}
				if r.nkeys == 0 {
					gg = strings.TrimSpace(strings.ReplaceAll(strings.ReplaceAll(gg, " sortedVals", ""), "sortedVals", ""))
				}
				if r.nkeys == 1 {
					// the engine does not bound the iteration count of the single-entry key map:
					// 0..2 iterations of the inner loop are enumerated; order facts are unaffected
					for strings.Contains(gg, "keyvalue keyvalue") {
						gg = strings.ReplaceAll(gg, "keyvalue keyvalue", "keyvalue")
					}
					gg = strings.ReplaceAll(gg+" ", "name name", "name keyvalue name")
					gg = strings.ReplaceAll(gg, "name name", "name keyvalue name")
					gg = strings.TrimSpace(gg)
					if strings.HasSuffix(gg, "name") {
						gg += " keyvalue"
					}
				}
				if !repetitionOf(gg, r.want, r.nelem > 0) {
					allOK = false
				}
			}
			c.Check(allOK, "C19.prefix", fnName(ts), r.name, P.Pos(ts.Pos()), fmt.Sprintf("appended in order: %v (want %q, element group repeated per element)", gots, r.want))
		}
		// nil path
		at := &Atoms{Class: cls, Bool: map[string]bool{"PNN": false}}
		e := &PPA{Cond: at.Cond, Watch: func(ev *Ev) bool { return ev.Label == "builtin:append" }}
		e.Run(ts)
		for i := range e.Paths {
			c.Check(len(e.Paths[i].Trace) == 0, "C19.prefix", fnName(ts), "nil path gives an empty index", P.Pos(ts.Pos()), e.Paths[i].String())
		}
		// sortedVals sorts keys before collecting values
		c.Analysed(fnName(sv))
		sorted := false
		var sortInstr ssa.Instruction
		instrs(sv, func(in ssa.Instruction) {
			if call, ok := in.(*ssa.Call); ok && (strings.HasPrefix(calleeName(&call.Call), "sort.") || strings.HasPrefix(calleeName(&call.Call), "slices.Sort")) {
				sorted = true
				sortInstr = in
			}
		})
		okLookup := false
		if sorted {
			instrs(sv, func(in ssa.Instruction) {
				if lk, ok := in.(*ssa.Lookup); ok && lk.X == ssa.Value(param(sv, 0)) && instrDominates(sortInstr, lk) {
					okLookup = true
				}
			})
		}
		if !sorted {
			// the keys obtained already sorted: slices.Sorted(maps.Keys(m)) of the map parameter, lookups keyed by its elements
			instrs(sv, func(in ssa.Instruction) {
				call, ok := in.(*ssa.Call)
				if !ok {
					return
				}
				g := staticCallee(&call.Call)
				if g == nil || pkgPathOf(g) != "slices" || !strings.HasPrefix(g.Name(), "Sorted") || len(call.Call.Args) < 1 {
					return
				}
				if kc, ok := call.Call.Args[0].(*ssa.Call); ok {
					if h := staticCallee(&kc.Call); h != nil && pkgPathOf(h) == "maps" && strings.HasPrefix(h.Name(), "Keys") && len(kc.Call.Args) == 1 && kc.Call.Args[0] == ssa.Value(param(sv, 0)) {
						sorted = true
						sortInstr = in
					}
				}
			})
			if sorted {
				instrs(sv, func(in ssa.Instruction) {
					if lk, ok := in.(*ssa.Lookup); ok && lk.X == ssa.Value(param(sv, 0)) && instrDominates(sortInstr, lk) {
						okLookup = true
					}
				})
			}
		}
		c.Check(sorted && okLookup, "C19.prefix", fnName(sv), "keys sorted, then values collected by key", P.Pos(sv.Pos()), fmt.Sprintf("sort.Strings called=%v, value lookups after the sort=%v", sorted, okLookup))
	}
	completePathTable(c, "C19.cp")
	equalArms(c, "C19.equal-arms", true)
	// ---- scalar tables
	{
		from := P.Func("value", "FromScalar")
		to := P.Func("value", "ToScalar")
		if from == nil || to == nil {
			c.Unresolved("C19.scalar-tables", "value.FromScalar / value.ToScalar")
		} else {
			c.Analysed(fnName(from))
			c.Analysed(fnName(to))
			built := map[string]bool{}
			for _, uf := range scalarUnit(from) {
				instrs(uf, func(in ssa.Instruction) {
					if st, ok := in.(*ssa.Store); ok {
						if fa, ok := st.Addr.(*ssa.FieldAddr); ok && fieldName(fa.X.Type(), fa.Field) == "Value" {
							t := types.TypeString(deref(unwrap(st.Val).Type()), shortQ)
							if strings.Contains(t, "TypedValue_") {
								built[t] = true
							}
						}
					}
				})
			}
			conv := map[string]*ssa.TypeAssert{}
			instrs(to, func(in ssa.Instruction) {
				if ta, ok := in.(*ssa.TypeAssert); ok && ta.CommaOk {
					conv[types.TypeString(deref(ta.AssertedType), shortQ)] = ta
				}
			})
			var bl []string
			for k := range built {
				bl = append(bl, k)
			}
			sort.Strings(bl)
			for _, k := range bl {
				c.Check(conv[k] != nil, "C19.scalar-tables", fnName(to), "converts "+k+" (constructible by FromScalar)", P.Pos(to.Pos()), "")
			}
			c.Floor("C19.scalar-tables/constructible-kinds", len(bl), 7)
			// each arm returns its own getter: block dominated by the arm's ok edge calls Get<Kind>
			for k, ta := range conv {
				kind := k[strings.Index(k, "TypedValue_")+len("TypedValue_"):]
				var okEdge *ssa.BasicBlock
				for _, r := range *ta.Referrers() {
					if ex, ok := r.(*ssa.Extract); ok && ex.Index == 1 {
						for _, rr := range *ex.Referrers() {
							if ifi, ok := rr.(*ssa.If); ok {
								okEdge = ifi.Block().Succs[0]
							}
						}
					}
				}
				if okEdge == nil {
					continue
				}
				getter := ""
				for _, in := range okEdge.Instrs {
					if call, ok := in.(*ssa.Call); ok {
						nm := calleeName(&call.Call)
						if strings.HasPrefix(nm, "(*proto/gnmi.TypedValue).Get") {
							getter = strings.TrimPrefix(nm, "(*proto/gnmi.TypedValue).Get")
						}
					}
				}
				c.Check(getter == kind, "C19.scalar-tables", fnName(to), "arm "+kind+" reads its own kind", P.Pos(ta.Pos()), "getter used: Get"+getter)
			}
			// error defaults
			for _, f := range []*ssa.Function{from, to} {
				allFail := &PPA{Cond: func(e *PPA, st *State, rv RV) (bool, bool) {
					if ex, ok := rv.V.(*ssa.Extract); ok && ex.Index == 1 {
						if ta, ok := ex.Tuple.(*ssa.TypeAssert); ok && ta.CommaOk {
							return false, true
						}
					}
					return false, false
				}}
				allFail.Run(f)
				c.Paths += len(allFail.Paths)
				okDef := len(allFail.Paths) > 0
				for i := range allFail.Paths {
					p := &allFail.Paths[i]
					if len(p.Rets) != 2 || retClass(p.Rets[1]) == "nil" {
						okDef = false
					}
				}
				c.Check(okDef, "C19.scalar-tables", fnName(f), "unsupported input returns an error (total)", P.Pos(f.Pos()), fmt.Sprintf("%d paths with every arm failing", len(allFail.Paths)))
			}
		}
	}
	// ---- client path
	{
		sub := P.Func("client/gnmi", "subscribe")
		pts := P.Func("client/gnmi", "pathToString")
		if sub == nil || pts == nil {
			c.Unresolved("C19.client-path", "client/gnmi.subscribe / pathToString")
		} else {
			c.Analysed(fnName(sub))
			c.Analysed(fnName(pts))
			okFlow := false
			for _, ci := range callsIn(sub) {
				if strings.HasSuffix(calleeName(ci.Common()), "ygot.StringToPath") {
					okFlow = isCallNamed(ci.Common().Args[0], fnName(pts))
				}
			}
			c.Check(okFlow, "C19.client-path", fnName(sub), "subscription path = ygot.StringToPath(pathToString(q))", P.Pos(sub.Pos()), "")
			var repOld, repNew, joinSep string
			for _, ci := range callsIn(pts) {
				switch calleeName(ci.Common()) {
				case "strings.Replace":
					repOld, _ = constString(ci.Common().Args[1])
					repNew, _ = constString(ci.Common().Args[2])
				case "strings.ReplaceAll":
					repOld, _ = constString(ci.Common().Args[1])
					repNew, _ = constString(ci.Common().Args[2])
				case "strings.Join":
					joinSep, _ = constString(ci.Common().Args[1])
				}
			}
			c.Check(repOld != "" && repOld == joinSep && repNew == "\\"+joinSep, "C19.client-path", fnName(pts), "escapes exactly the separator it joins with", P.Pos(pts.Pos()), fmt.Sprintf("Replace(%q -> %q), Join(%q)", repOld, repNew, joinSep))
			// writes only into its own copy
			okCopy := true
			stores := 0
			instrs(pts, func(in ssa.Instruction) {
				st, ok := in.(*ssa.Store)
				if !ok {
					return
				}
				if _, isAlloc := st.Addr.(*ssa.Alloc); isAlloc {
					return
				}
				stores++
				root := st.Addr
				for i := 0; i < 6; i++ {
					switch x := root.(type) {
					case *ssa.IndexAddr:
						root = x.X
						continue
					case *ssa.FieldAddr:
						root = x.X
						continue
					case *ssa.ChangeType:
						root = x.X
						continue
					}
					break
				}
				switch root.(type) {
				case *ssa.MakeSlice, *ssa.Alloc:
				default:
					if sl, ok := root.(*ssa.Slice); ok {
						if _, ok := sl.X.(*ssa.Alloc); ok {
							return
						}
					}
					okCopy = false
				}
			})
			c.Check(okCopy && stores > 0, "C19.client-path", fnName(pts), "the caller's query path is not written", P.Pos(pts.Pos()), fmt.Sprintf("%d element stores, all into a slice made in the function: %v", stores, okCopy))
		}
	}
	aliasRule(c, "C19.alias", []string{"path", "client/gnmi"})
}

// repetitionOf: got consists of the fixed prefix part of want followed by zero or more repetitions of
// its per-element group (everything from "name" on), or equals want.
func repetitionOf(got, want string, elems bool) bool {
	if got == want {
		return true
	}
	if !elems {
		return false
	}
	i := strings.Index(want, "name")
	if i < 0 {
		return false
	}
	pre, grp := strings.TrimSpace(want[:i]), strings.TrimSpace(want[i:])
	rest := strings.TrimSpace(strings.TrimPrefix(got, pre))
	for rest != "" {
		if !strings.HasPrefix(rest, grp) {
			return false
		}
		rest = strings.TrimSpace(strings.TrimPrefix(rest, grp))
	}
	return strings.HasPrefix(got, pre)
}

// lenBoundsAt derives the interval len(X) lies in on every path that reaches block b, from the If
// instructions on those paths that compare len(X) with a constant (hi == -1: unbounded).  A block with
// several predecessors (`case 0, 1:`) gets the hull of what holds on each incoming edge.
func lenBoundsAt(f *ssa.Function, b *ssa.BasicBlock, X ssa.Value) (lo, hi int64) {
	type iv struct{ lo, hi int64 }
	memo := map[*ssa.BasicBlock]*iv{}
	var at func(b *ssa.BasicBlock, d int) iv
	edge := func(p, s *ssa.BasicBlock, in iv) iv {
		if len(p.Instrs) == 0 {
			return in
		}
		ifi, ok := p.Instrs[len(p.Instrs)-1].(*ssa.If)
		if !ok {
			return in
		}
		bo, ok := ifi.Cond.(*ssa.BinOp)
		if !ok {
			return in
		}
		op := bo.Op
		var k int64
		if la, ok := lenArg(bo.X); ok && pkey(la) == pkey(X) {
			kk, okc := constInt(bo.Y)
			if !okc {
				return in
			}
			k = kk
		} else if la, ok := lenArg(bo.Y); ok && pkey(la) == pkey(X) {
			kk, okc := constInt(bo.X)
			if !okc {
				return in
			}
			k = kk
			switch op {
			case token.LSS:
				op = token.GTR
			case token.GTR:
				op = token.LSS
			case token.LEQ:
				op = token.GEQ
			case token.GEQ:
				op = token.LEQ
			}
		} else {
			return in
		}
		if p.Succs[0] == p.Succs[1] {
			return in
		}
		if s == p.Succs[1] { // false edge
			switch op {
			case token.EQL:
				op = token.NEQ
			case token.NEQ:
				op = token.EQL
			case token.LSS:
				op = token.GEQ
			case token.GEQ:
				op = token.LSS
			case token.GTR:
				op = token.LEQ
			case token.LEQ:
				op = token.GTR
			}
		}
		out := in
		setLo := func(v int64) {
			if v > out.lo {
				out.lo = v
			}
		}
		setHi := func(v int64) {
			if out.hi < 0 || v < out.hi {
				out.hi = v
			}
		}
		switch op {
		case token.EQL:
			setLo(k)
			setHi(k)
		case token.NEQ:
			if out.lo == k {
				out.lo = k + 1
			}
			if out.hi == k {
				out.hi = k - 1
			}
		case token.LSS:
			setHi(k - 1)
		case token.LEQ:
			setHi(k)
		case token.GTR:
			setLo(k + 1)
		case token.GEQ:
			setLo(k)
		}
		return out
	}
	at = func(b *ssa.BasicBlock, d int) iv {
		if m, ok := memo[b]; ok {
			if m == nil {
				return iv{0, -1} // on the stack (cycle): no information
			}
			return *m
		}
		if d > 40 || len(b.Preds) == 0 {
			return iv{0, -1}
		}
		memo[b] = nil
		var res *iv
		for _, p := range b.Preds {
			if b.Dominates(p) {
				continue // back edge
			}
			x := edge(p, b, at(p, d+1))
			if res == nil {
				res = &x
				continue
			}
			if x.lo < res.lo {
				res.lo = x.lo
			}
			if x.hi < 0 || (res.hi >= 0 && x.hi > res.hi) {
				res.hi = x.hi
			}
		}
		if res == nil {
			res = &iv{0, -1}
		}
		memo[b] = res
		return *res
	}
	r := at(b, 0)
	return r.lo, r.hi
}

func pkgPathOfType(n *types.Named) string {
	if n.Obj().Pkg() == nil {
		return ""
	}
	return n.Obj().Pkg().Path()
}

// scalarUnit: FromScalar, its function literals, and the unexported constructor helpers of the package it calls.
func scalarUnit(from *ssa.Function) []*ssa.Function {
	unit := append([]*ssa.Function{}, withAnon(from)...)
	seen := map[*ssa.Function]bool{}
	for _, f := range unit {
		seen[f] = true
	}
	for i := 0; i < len(unit); i++ {
		for _, ci := range callsIn(unit[i]) {
			cal := staticCallee(ci.Common())
			if cal != nil && pkgPathOf(cal) == pkgPathOf(from) && len(cal.Blocks) > 0 && !seen[cal] && !isExportedFn(cal) {
				seen[cal] = true
				unit = append(unit, cal)
			}
		}
	}
	return unit
}
