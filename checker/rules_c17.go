package main

import (
	"fmt"
	"go/token"
	"go/types"
	"strings"

	"golang.org/x/tools/go/ssa"
)

func init() {
	register(&propDef{
		ID:       "C17",
		Explain:  "Decided for target.Config (structural necessary conditions): the load gate on every path (nil config, Validate error or revision error => error return with no handler call, no handleDiffs and no store of the configuration; otherwise handleDiffs(config) and then the store, both inside one critical section of c.mu, nil returned); the revision order table (first load accepted; new<current and new=current refused; new>current accepted); the per-target classification table of handleDiffs evaluated per iteration (gone => Delete(k) only; unchanged => no handler call; otherwise exactly one Update carrying the key, the new target and the NEW configuration's request; leftovers => exactly one Add each with the new configuration's request); the diff is read-only on both configurations (only the local copy map is mutated) and Current returns a clone; every handler call is nil-guarded. Also decided: Validate's rejection table (empty name, nil target, no address, empty request key, request key absent => error; otherwise nil); every proto.Equal in handleDiffs compares whole elements of the two configurations, never a part of them. Round-5 addition: Config.configuration is read and written only under Config.mu - the revision gate, the diff and the commit form one critical section. Round-6 addition: every loop of handleDiffs over requests or targets is left only through its header (no break / return inside: a scan that stops early leaves entries behind it in map order unexamined).",
		NotCover: "convergence of the replayed handler calls to the current configuration over histories (needs map/value semantics); Validate's own completeness",
		Run:      runC17,
	})
}

func c17Extra(c *Ctx, hd, val *ssa.Function) {
	P := c.P
	// ---- whole-object comparison
	{
		fns := []*ssa.Function{hd}
		seen := map[*ssa.Function]bool{hd: true}
		for i := 0; i < len(fns); i++ {
			for _, ci := range callsIn(fns[i]) {
				cal := staticCallee(ci.Common())
				if cal != nil && cal.Pkg == hd.Pkg && len(cal.Blocks) > 0 && !seen[cal] {
					seen[cal] = true
					fns = append(fns, cal)
				}
			}
		}
		var whole func(v ssa.Value, d int) bool
		whole = func(v ssa.Value, d int) bool {
			if d > 6 {
				return false
			}
			switch x := unwrap(v).(type) {
			case *ssa.Extract:
				if nx, ok := x.Tuple.(*ssa.Next); ok {
					_ = nx
					return x.Index == 2
				}
				if lk, ok := x.Tuple.(*ssa.Lookup); ok {
					_ = lk
					return x.Index == 0
				}
			case *ssa.Lookup:
				return true
			case *ssa.Parameter:
				return x.Parent() != hd
			case *ssa.Phi:
				for _, e := range x.Edges {
					if !whole(e, d+1) {
						return false
					}
				}
				return len(x.Edges) > 0
			}
			return false
		}
		n := 0
		for _, f := range fns {
			for _, ci := range callsIn(f) {
				if calleeName(ci.Common()) != "google.golang.org/protobuf/proto.Equal" {
					continue
				}
				n++
				a, b := ci.Common().Args[0], ci.Common().Args[1]
				c.Check(whole(a, 0) && whole(b, 0), "C17.whole-compare", fnName(f), "proto.Equal compares whole configuration elements", P.Pos(ci.Pos()), fmt.Sprintf("proto.Equal(%s, %s)", Expr(unwrap(a)), Expr(unwrap(b))))
			}
		}
		c.Floor("C17.whole-compare/comparisons", n, 2)
	}
	// ---- Validate table
	{
		c.Analysed(fnName(val))
		fReq := P.Field("proto/target", "Target", "Request")
		fAddr := P.Field("proto/target", "Target", "Addresses")
		if fReq == nil || fAddr == nil {
			c.Unresolved("C17.valid-table", "proto/target.Target.Request / Addresses")
			return
		}
		isRangeKey := func(v ssa.Value, idx int) bool {
			ex, ok := v.(*ssa.Extract)
			if !ok || ex.Index != idx {
				return false
			}
			_, isNext := ex.Tuple.(*ssa.Next)
			return isNext
		}
		cls := func(e *PPA, st *State, rv RV) string {
			r := e.Resolve(st, rv)
			switch v := r.V.(type) {
			case *ssa.BinOp:
				if v.Op != token.EQL && v.Op != token.NEQ {
					return ""
				}
				neg := ""
				if v.Op == token.NEQ {
					neg = "!"
				}
				for _, pr := range [][2]ssa.Value{{v.X, v.Y}, {v.Y, v.X}} {
					x := e.Resolve(st, RV{r.F, pr[0]}).V
					if s, ok := constString(pr[1]); ok && s == "" {
						if isRangeKey(x, 1) {
							return neg + "NAME_EMPTY"
						}
						if loadOfField(x, fReq) || isCallNamed(x, "(*proto/target.Target).GetRequest") {
							return neg + "REQ_EMPTY"
						}
					}
					if isNilConst(pr[1]) && isRangeKey(x, 2) {
						return neg + "TARGET_NIL"
					}
				}
			case *ssa.Call:
				if la, ok := lenArg(v); ok {
					a := e.Resolve(st, RV{r.F, la}).V
					if loadOfField(a, fAddr) || isCallNamed(a, "(*proto/target.Target).GetAddresses") {
						return "NADDR"
					}
				}
			case *ssa.Extract:
				if lk, ok := v.Tuple.(*ssa.Lookup); ok && lk.CommaOk && v.Index == 1 {
					return "REQ_PRESENT"
				}
			}
			return ""
		}
		type sc struct {
			name string
			b    map[string]bool
			n    int64
			bad  bool
		}
		base := func() map[string]bool {
			return map[string]bool{"NAME_EMPTY": false, "TARGET_NIL": false, "REQ_EMPTY": false, "REQ_PRESENT": true}
		}
		with := func(k string, v bool) map[string]bool { m := base(); m[k] = v; return m }
		scs := []sc{
			{"valid entry", base(), 1, false},
			{"empty target name", with("NAME_EMPTY", true), 1, true},
			{"nil target", with("TARGET_NIL", true), 1, true},
			{"no address", base(), 0, true},
			{"empty request key", with("REQ_EMPTY", true), 1, true},
			{"request key not in the request map", with("REQ_PRESENT", false), 1, true},
		}
		for _, s := range scs {
			// negated forms
			b := map[string]bool{}
			for k, v := range s.b {
				b[k] = v
				b["!"+k] = !v
			}
			at := &Atoms{Class: cls, Bool: b, Int: map[string]int64{"NADDR": s.n}}
			e := &PPA{Cond: at.Cond, MaxVisits: 2, TraceBranches: true, Watch: func(ev *Ev) bool { return ev.Label == "if" }}
			e.Run(val)
			c.Paths += len(e.Paths)
			c.Scen++
			n := 0
			for i := range e.Paths {
				p := &e.Paths[i]
				if p.End != "return" || len(p.Rets) != 1 {
					continue
				}
				// did the path examine an entry?
				entered := p.Has(func(ev *Ev) bool {
					if ev.Label != "if" || !ev.Taken || len(ev.Args) == 0 {
						return false
					}
					ex, ok := ev.Args[0].V.(*ssa.Extract)
					if !ok || ex.Index != 0 {
						return false
					}
					_, isNext := ex.Tuple.(*ssa.Next)
					return isNext
				})
				if !entered {
					continue
				}
				n++
				isErr := retClass(p.Rets[0]) != "nil"
				c.Check(isErr == s.bad, "C17.valid-table", fnName(val), s.name, P.Pos(val.Pos()), fmt.Sprintf("returns %s; path: %s", retClass(p.Rets[0]), p.String()))
			}
			c.Floor("C17.valid-table/"+s.name, n, 1)
		}
	}
}

func runC17(c *Ctx) {
	P := c.P
	Load := P.Method("target", "Config", "Load")
	chk := P.Method("target", "Config", "checkRevision")
	hd := P.Method("target", "Config", "handleDiffs")
	val := P.Func("target", "Validate")
	cur := P.Method("target", "Config", "Current")
	fCfg := P.Field("target", "Config", "configuration")
	fMu := P.Field("target", "Config", "mu")
	fRev := P.Field("proto/target", "Configuration", "Revision")
	hAdd := P.Field("target", "Handler", "Add")
	hUpd := P.Field("target", "Handler", "Update")
	hDel := P.Field("target", "Handler", "Delete")
	for n, ok := range map[string]bool{"(*Config).Load": Load != nil, "(*Config).handleDiffs": hd != nil, "Validate": val != nil, "(*Config).Current": cur != nil,
		"Config.configuration": fCfg != nil, "Config.mu": fMu != nil, "Handler.Add": hAdd != nil, "Handler.Update": hUpd != nil, "Handler.Delete": hDel != nil} {
		if !ok {
			c.Unresolved("C17.anchors", "target."+n)
		}
	}
	if fRev == nil {
		c.Unresolved("C17.anchors", "proto/target.Configuration.Revision")
	}
	if len(c.Unres) > 0 {
		return
	}
	c.Rule("C17.gate", "Load: nil config / Validate error / checkRevision error => error return, no handler, no handleDiffs, no store of c.configuration; otherwise Lock, handleDiffs(config), store c.configuration = config, Unlock, return nil — diff and store in the same critical section, diff first")
	c.Rule("C17.revision", "checkRevision: no current configuration => nil; new revision < current => error; = => error; > => nil")
	c.Rule("C17.classify", "handleDiffs, per iteration over the current targets: new target missing => Delete(k) only; request unchanged and proto.Equal => no handler call and k dropped from the pending set; otherwise exactly one Update{Name:k, Target:new target, Request:new configuration's request} and k dropped; second loop: exactly one Add per remaining target with the new configuration's request")
	c.Rule("C17.readonly", "handleDiffs and Validate store nothing through either configuration; the only maps mutated are local maps made in the function; Current returns proto.Clone of the stored configuration")
	c.Rule("C17.whole-compare", "handleDiffs (and same-package helpers it calls): every proto.Equal compares whole map elements of the two configurations (range values / map lookups), never a getter or field of them - a change in any part of a request or target must count as a change")
	c.Rule("C17.valid-table", "Validate, per target entry: empty name, nil target, no address, empty request key, request key absent from the request map => non-nil error; none of these => the loop continues and nil is returned at the end")
	c.Rule("C17.locked", "target.Config.configuration is read and written only with Config.mu held (lock audit over package target, requirements of unexported helpers discharged at their call sites): the revision gate, the diff and the commit of a load form one critical section - a gate evaluated before the lock admits a lower revision that arrives while a higher one is being applied")
	{
		fCfg, fMu := P.Field("target", "Config", "configuration"), P.Field("target", "Config", "mu")
		if fCfg == nil || fMu == nil {
			c.Unresolved("C17.locked", "target.Config.configuration / Config.mu")
		} else {
			la := NewLockAudit(c, "target", map[*types.Var]*types.Var{fCfg: fMu}, 2)
			la.Report(func(kind string) string { return "C17.locked" })
			c.Check(la.Accesses >= 3, "C17.locked", "target", "guarded accesses analysed", "", fmt.Sprintf("%d accesses of Config.configuration, %d directly under Config.mu, rest discharged at call sites", la.Accesses, la.Guarded))
		}
	}
	scanComplete(c, "C17.scan-complete", hd)
	c.Rule("C17.nil-handlers", "no handler field is invoked on a path where it is nil")

	c17Extra(c, hd, val)
	handlerOf := func(ev *Ev) *types.Var {
		if !strings.HasPrefix(ev.Label, "call:dyn:") || ev.Fn.V == nil {
			return nil
		}
		u, ok := ev.Fn.V.(*ssa.UnOp)
		if !ok {
			return nil
		}
		f := fieldOf(u.X)
		if f == hAdd || f == hUpd || f == hDel {
			return f
		}
		return nil
	}
	isHandler := func(ev *Ev) bool { return handlerOf(ev) != nil }

	// ---- gate and revision table, both evaluated from Load with the revision check entered (whatever helper holds it)
	{
		c.Analysed(fnName(Load))
		if chk != nil {
			c.Analysed(fnName(chk))
		}
		cls := func(e *PPA, st *State, rv RV) string {
			rv = e.Resolve(st, rv)
			revOf := func(recv RV) string {
				rr := e.Resolve(st, recv)
				if loadOfField(rr.V, fCfg) {
					return "CURREV"
				}
				r := rootOf(e, st, recv)
				if p, ok := r.V.(*ssa.Parameter); ok && isNamed(p.Type(), "proto/target", "Configuration") {
					return "NEWREV"
				}
				return ""
			}
			switch v := rv.V.(type) {
			case *ssa.Parameter:
				if v.Parent() == Load && isNamed(v.Type(), "proto/target", "Configuration") {
					return "CFG"
				}
			case *ssa.UnOp:
				if v.Op == token.MUL {
					if loadOfField(v, fCfg) {
						return "CUR"
					}
					if fa, ok := v.X.(*ssa.FieldAddr); ok && fieldOf(v.X) == fRev {
						return revOf(RV{rv.F, fa.X})
					}
				}
			case *ssa.Call:
				if staticCallee(&v.Call) == val {
					return "VERR"
				}
				if calleeName(&v.Call) == "(*proto/target.Configuration).GetRevision" {
					return revOf(RV{rv.F, v.Call.Args[0]})
				}
			}
			return ""
		}
		for _, sc := range []struct {
			name string
			rule string
			b    map[string]bool
			rel  int
			ok   bool
		}{
			{"nil configuration", "C17.gate", map[string]bool{"CFG": false}, 0, false},
			{"invalid configuration", "C17.gate", map[string]bool{"CFG": true, "VERR": true}, 0, false},
			{"first load", "C17.revision", map[string]bool{"CFG": true, "VERR": false, "CUR": false}, 0, true},
			{"new < current", "C17.revision", map[string]bool{"CFG": true, "VERR": false, "CUR": true}, -1, false},
			{"new = current", "C17.revision", map[string]bool{"CFG": true, "VERR": false, "CUR": true}, 0, false},
			{"new > current", "C17.revision", map[string]bool{"CFG": true, "VERR": false, "CUR": true}, 1, true},
		} {
			at := &Atoms{Class: cls, Bool: sc.b, Rel: map[[2]string]int{{"NEWREV", "CURREV"}: sc.rel}}
			e := &PPA{Cond: at.Cond, Inline: func(fr *Frame, call ssa.CallInstruction, callee *ssa.Function) bool {
				return callee.Parent() == Load || (chk != nil && callee == chk)
			},
				Watch: func(ev *Ev) bool {
					return isLockOp(ev) || isHandler(ev) || ev.Label == "call:"+fnName(hd) || ev.Label == "store:target.Config.configuration"
				}}
			e.Run(Load)
			c.Paths += len(e.Paths)
			c.Scen++
			n := 0
			for i := range e.Paths {
				p := &e.Paths[i]
				n++
				rc := ""
				if len(p.Rets) == 1 {
					rc = retClass(p.Rets[0])
					// `return err` with err the result of a check the scenario makes succeed is a nil return
					if sc.ok && rc == "call:"+fnName(val) {
						rc = "nil"
					}
				}
				di := p.Index(0, lbl("call:"+fnName(hd)))
				si := p.Index(0, lbl("store:target.Config.configuration"))
				if !sc.ok {
					ok := rc != "nil" && rc != "" && di < 0 && si < 0 && !p.Has(isHandler)
					c.Check(ok, sc.rule, fnName(Load), sc.name+": refused (error, no diff, no store)", P.Pos(Load.Pos()), "returns "+rc+"; path: "+p.String())
					continue
				}
				li := p.Index(0, func(ev *Ev) bool { return ev.Label == "call:(*sync.Mutex).Lock" && ev.Field == fMu })
				ui := p.Index(li+1, func(ev *Ev) bool { return ev.Label == "call:(*sync.Mutex).Unlock" && ev.Field == fMu })
				cfgArg := false
				if di >= 0 {
					// the new configuration is handed to the diff (as the reference parameter 1; an extra "previous" parameter may accompany it)
					for _, a := range p.Trace[di].Args[1:] {
						if a.V == ssa.Value(param(Load, 1)) {
							cfgArg = true
						}
					}
				}
				stored := si >= 0 && p.Trace[si].Args[1].V == ssa.Value(param(Load, 1))
				ok := rc == "nil" && li >= 0 && li < di && di < si && si < ui && cfgArg && stored &&
					p.Count(func(ev *Ev) bool { return ev.Label == "call:(*sync.Mutex).Lock" }) == 1
				c.Check(ok, sc.rule, fnName(Load), sc.name+": accepted (lock, diff, store, unlock, nil)", P.Pos(Load.Pos()), fmt.Sprintf("lock@%d diff@%d store@%d unlock@%d returns %s; path: %s", li, di, si, ui, rc, p.String()))
			}
			c.Check(n == 1, sc.rule, fnName(Load), sc.name+" (decided)", P.Pos(Load.Pos()), fmt.Sprintf("%d paths under this scenario (1 = all comparisons folded)", n))
		}
	}
	// ---- classify
	{
		c.Analysed(fnName(hd))
		// the NEW configuration is the one whose targets are copied into the local pending map
		var cfgParam ssa.Value
		instrs(hd, func(in ssa.Instruction) {
			mu, ok := in.(*ssa.MapUpdate)
			if !ok {
				return
			}
			if _, ok := mu.Map.(*ssa.MakeMap); !ok || !isNamed(mu.Value.Type(), "proto/target", "Target") {
				return
			}
			if ex, ok := mu.Value.(*ssa.Extract); ok {
				if nx, ok := ex.Tuple.(*ssa.Next); ok {
					if rg, ok := nx.Iter.(*ssa.Range); ok {
						if call, ok := rg.X.(*ssa.Call); ok && calleeName(&call.Call) == "(*proto/target.Configuration).GetTarget" {
							cfgParam = call.Call.Args[0]
						}
					}
				}
			}
		})
		// ... or cloned in one call: pending := maps.Clone(<new configuration>.GetTarget())
		isClone := func(v ssa.Value) (*ssa.Call, bool) {
			call, ok := v.(*ssa.Call)
			if !ok {
				return nil, false
			}
			g := staticCallee(&call.Call)
			return call, g != nil && pkgPathOf(g) == "maps" && strings.HasPrefix(g.Name(), "Clone")
		}
		if cfgParam == nil {
			instrs(hd, func(in ssa.Instruction) {
				if call, ok := in.(*ssa.Call); ok {
					if cl, ok := isClone(call); ok && len(cl.Call.Args) == 1 {
						if gt, ok := cl.Call.Args[0].(*ssa.Call); ok && calleeName(&gt.Call) == "(*proto/target.Configuration).GetTarget" {
							cfgParam = gt.Call.Args[0]
						}
					}
				}
			})
		}
		// ... or not copied at all: which new targets are additions is decided by looking them up in the
		// current configuration (form C).  The new configuration is then handleDiffs' only *Configuration parameter.
		formC := false
		fCur := P.Field("target", "Config", "configuration")
		isGetTargetOf := func(v ssa.Value, cur bool) bool {
			v = unwrap(v)
			if u, ok := v.(*ssa.UnOp); ok && u.Op == token.MUL {
				if al, ok := u.X.(*ssa.Alloc); ok {
					if sv := singleStore(al); sv != nil {
						v = unwrap(sv)
					}
				}
			}
			call, ok := v.(*ssa.Call)
			if !ok || calleeName(&call.Call) != "(*proto/target.Configuration).GetTarget" {
				return false
			}
			a := unwrap(call.Call.Args[0])
			if cur {
				return fCur != nil && loadOfField(a, fCur)
			}
			_, isP := a.(*ssa.Parameter)
			return isP
		}
		if cfgParam == nil {
			var cps []*ssa.Parameter
			for _, pp := range hd.Params {
				if isNamed(pp.Type(), "proto/target", "Configuration") {
					cps = append(cps, pp)
				}
			}
			existedLookup := false
			instrs(hd, func(in ssa.Instruction) {
				if lk, ok := in.(*ssa.Lookup); ok && lk.CommaOk && isGetTargetOf(lk.X, true) {
					if ex, ok := lk.Index.(*ssa.Extract); ok && ex.Index == 1 {
						if nx, ok := ex.Tuple.(*ssa.Next); ok {
							if rg, ok := nx.Iter.(*ssa.Range); ok && isGetTargetOf(rg.X, false) {
								existedLookup = true
							}
						}
					}
				}
			})
			if len(cps) == 1 && existedLookup {
				cfgParam = cps[0]
				formC = true
			}
		}
		if cfgParam == nil {
			c.Unresolved("C17.classify", "the copy of <new configuration>.GetTarget() into a local pending map in handleDiffs (loop or maps.Clone), or a lookup of the new names in the current configuration")
			return
		}
		isLocalMap := func(v ssa.Value) bool {
			if _, ok := v.(*ssa.MakeMap); ok {
				return true
			}
			_, ok := isClone(v)
			return ok
		}
		// "handled" sets: instead of deleting a carried-over name from the pending map, the name is entered into a
		// local set that the Add loop consults with its own range key (and skips the Add when it is found)
		handled := map[ssa.Value]bool{}
		instrs(hd, func(in ssa.Instruction) {
			lk, ok := in.(*ssa.Lookup)
			if !ok {
				return
			}
			mm, ok := lk.X.(*ssa.MakeMap)
			if !ok {
				return
			}
			if ex, ok := lk.Index.(*ssa.Extract); ok && ex.Index == 1 {
				if nx, ok := ex.Tuple.(*ssa.Next); ok {
					if rg, ok := nx.Iter.(*ssa.Range); ok && isLocalMap(rg.X) && isNamed(rg.X.Type().Underlying().(*types.Map).Elem(), "proto/target", "Target") {
						handled[mm] = true
					}
				}
			}
		})
		cls := func(e *PPA, st *State, rv RV) string {
			rv = e.Resolve(st, rv)
			if formC {
				switch v := rv.V.(type) {
				case *ssa.Lookup:
					if !v.CommaOk && isGetTargetOf(e.Resolve(st, RV{rv.F, v.X}).V, false) {
						return "NT"
					}
				case *ssa.Extract:
					if lk, ok := v.Tuple.(*ssa.Lookup); ok && lk.CommaOk && v.Index == 1 && isGetTargetOf(e.Resolve(st, RV{rv.F, lk.X}).V, true) {
						return "EXISTED"
					}
					// the new target a range over the new configuration's targets yields
					if nx, ok := v.Tuple.(*ssa.Next); ok && v.Index == 2 {
						if rg, ok := nx.Iter.(*ssa.Range); ok && isGetTargetOf(rg.X, false) {
							return "NEWT"
						}
					}
				}
			}
			switch v := rv.V.(type) {
			case *ssa.Lookup:
				x := e.Resolve(st, RV{rv.F, v.X})
				if handled[x.V] {
					if v.CommaOk {
						return ""
					}
					return "HANDLED"
				}
				if isLocalMap(x.V) && !v.CommaOk {
					if bt, ok := v.Type().Underlying().(*types.Basic); ok && bt.Kind() == types.Bool {
						return "RCH"
					}
					return "NT"
				}
			case *ssa.Extract:
				// membership in a local set: _, changed := set[k]
				if lk, ok := v.Tuple.(*ssa.Lookup); ok && lk.CommaOk && v.Index == 1 {
					if x := e.Resolve(st, RV{rv.F, lk.X}); handled[x.V] {
						return "HANDLED"
					} else if isLocalMap(x.V) {
						return "RCH"
					}
				}
			case *ssa.Call:
				if calleeName(&v.Call) == "google.golang.org/protobuf/proto.Equal" && isNamed(unwrap(v.Call.Args[0]).Type(), "proto/target", "Target") {
					return "TEQ"
				}
			case *ssa.UnOp:
				switch fieldOf(v.X) {
				case hAdd:
					return "HASADD"
				case hUpd:
					return "HASUPD"
				case hDel:
					return "HASDEL"
				}
			}
			return ""
		}
		iterations := func(p *Path) int {
			return p.Count(func(ev *Ev) bool {
				if ev.Label != "if" || len(ev.Args) == 0 {
					return false
				}
				b, ok := ev.Args[0].V.(*ssa.BinOp)
				if !ok || !isNilConst(b.Y) {
					return false
				}
				lk, ok := b.X.(*ssa.Lookup)
				return ok && !lk.CommaOk
			})
		}
		reqFromNew := func(p *Path, upto int, f *types.Var) (bool, string) {
			// the struct handed to the handler: last stores before the call
			var name, tgt, req RV
			for j := 0; j < upto; j++ {
				ev := &p.Trace[j]
				switch ev.Label {
				case "store:target.Update.Name":
					name = ev.Args[1]
				case "store:target.Update.Target":
					tgt = ev.Args[1]
				case "store:target.Update.Request":
					req = ev.Args[1]
				}
			}
			okReq := false
			if lk, ok := req.V.(*ssa.Lookup); ok {
				// operands are read in the frame that built the struct (a helper entered on this path, or handleDiffs itself)
				if call, ok := lk.X.(*ssa.Call); ok && calleeName(&call.Call) == "(*proto/target.Configuration).GetRequest" && frameResolve(RV{req.F, call.Call.Args[0]}).V == cfgParam {
					if kc, ok := lk.Index.(*ssa.Call); ok && calleeName(&kc.Call) == "(*proto/target.Target).GetRequest" {
						// keyed by the target being announced
						okReq = frameResolve(RV{req.F, kc.Call.Args[0]}).V == tgt.V
					}
				}
			}
			return okReq && name.V != nil && tgt.V != nil, fmt.Sprintf("Name=%s Target=%s Request=%s", exprOrNil(name.V), exprOrNil(tgt.V), exprOrNil(req.V))
		}
		mv := 3
		type scn struct {
			name         string
			nt, rch, teq bool
			want         string // delete | none | update
		}
		for _, sc := range []scn{
			{"target gone", false, false, false, "delete"},
			{"target gone (request changed)", false, true, true, "delete"},
			{"unchanged", true, false, true, "none"},
			{"target edited", true, false, false, "update"},
			{"request edited", true, true, true, "update"},
			{"both edited", true, true, false, "update"},
		} {
			at := &Atoms{Class: cls, Bool: map[string]bool{"NT": sc.nt, "RCH": sc.rch, "TEQ": sc.teq, "HASADD": true, "HASUPD": true, "HASDEL": true, "EXISTED": true, "NEWT": true}}
			e := &PPA{Cond: at.Cond, MaxVisits: mv, TraceBranches: true, Watch: func(ev *Ev) bool {
				return isHandler(ev) || ev.Label == "builtin:delete" || ev.Label == "if" || strings.HasPrefix(ev.Label, "store:target.Update.") || strings.HasPrefix(ev.Label, "mapupdate:")
			}}
			e.Run(hd)
			c.Paths += len(e.Paths)
			c.Scen++
			if e.Overflow {
				c.Unknown("C17.classify", fnName(hd), sc.name, "", "path overflow")
				continue
			}
			n := 0
			for i := range e.Paths {
				p := &e.Paths[i]
				it := iterations(p)
				if it == 0 {
					continue
				}
				n++
				nDel := p.Count(func(ev *Ev) bool { return handlerOf(ev) == hDel })
				nUpd := p.Count(func(ev *Ev) bool { return handlerOf(ev) == hUpd })
				nDrop := p.Count(func(ev *Ev) bool {
					if ev.Label == "builtin:delete" && len(ev.Args) > 0 && isLocalMap(ev.Args[0].V) {
						return true
					}
					// ... or entered into the handled set
					return strings.HasPrefix(ev.Label, "mapupdate:") && len(ev.Args) > 0 && handled[ev.Args[0].V]
				})
				ok := false
				extra := ""
				switch sc.want {
				case "delete":
					ok = nDel == it && nUpd == 0 && nDrop == 0
				case "none":
					ok = nDel == 0 && nUpd == 0 && (nDrop == it || formC)
				case "update":
					ok = nDel == 0 && nUpd == it && (nDrop == it || formC)
					for j := range p.Trace {
						if handlerOf(&p.Trace[j]) == hUpd {
							good, d := reqFromNew(p, j, hUpd)
							extra = d
							if !good {
								ok = false
							}
						}
					}
				}
				c.Check(ok, "C17.classify", fnName(hd), sc.name, P.Pos(hd.Pos()), fmt.Sprintf("iterations=%d Delete=%d Update=%d dropped-from-pending=%d %s", it, nDel, nUpd, nDrop, extra))
				// adds: one per second-loop iteration, request from the new config
				for j := range p.Trace {
					if handlerOf(&p.Trace[j]) == hAdd {
						good, d := reqFromNew(p, j, hAdd)
						c.Check(good, "C17.classify", fnName(hd), "Add carries the new configuration's request", P.Pos(posOf(p.Trace[j].In)), d)
					}
				}
			}
			c.Floor("C17.classify/"+sc.name, n, 1)
		}
		// form C: a new name that exists (non-nil) in the current configuration is not announced as added, any other is
		if formC {
			for _, existed := range []bool{true, false} {
				at := &Atoms{Class: cls, Bool: map[string]bool{"EXISTED": existed, "NEWT": true, "NT": true, "TEQ": true, "RCH": false, "HASADD": true, "HASUPD": true, "HASDEL": true}}
				e := &PPA{Cond: at.Cond, MaxVisits: 2, Watch: isHandler}
				e.Run(hd)
				c.Paths += len(e.Paths)
				c.Scen++
				adds, paths := 0, 0
				for i := range e.Paths {
					paths++
					adds += e.Paths[i].Count(func(ev *Ev) bool { return handlerOf(ev) == hAdd })
				}
				if existed {
					c.Check(adds == 0 && paths > 0, "C17.classify", fnName(hd), "a name of the current configuration is not announced as added", P.Pos(hd.Pos()), fmt.Sprintf("%d Add calls on %d paths", adds, paths))
				} else {
					c.Check(adds > 0, "C17.classify", fnName(hd), "a name the current configuration does not have is announced as added", P.Pos(hd.Pos()), fmt.Sprintf("%d Add calls on %d paths", adds, paths))
				}
			}
		}
		// a handled set really suppresses the Add: found => no Add on any path, not found => every Add-loop iteration adds
		if len(handled) > 0 {
			for _, found := range []bool{true, false} {
				at := &Atoms{Class: cls, Bool: map[string]bool{"HANDLED": found, "HASADD": true, "HASUPD": true, "HASDEL": true}}
				e := &PPA{Cond: at.Cond, MaxVisits: 2, Watch: isHandler}
				e.Run(hd)
				c.Paths += len(e.Paths)
				c.Scen++
				adds, paths := 0, 0
				for i := range e.Paths {
					paths++
					adds += e.Paths[i].Count(func(ev *Ev) bool { return handlerOf(ev) == hAdd })
				}
				if found {
					c.Check(adds == 0 && paths > 0, "C17.classify", fnName(hd), "a name in the handled set is not announced as added", P.Pos(hd.Pos()), fmt.Sprintf("%d Add calls on %d paths", adds, paths))
				} else {
					c.Check(adds > 0, "C17.classify", fnName(hd), "a name not in the handled set is announced as added", P.Pos(hd.Pos()), fmt.Sprintf("%d Add calls on %d paths", adds, paths))
				}
			}
		}
		// nil handlers
		for _, h := range []struct {
			atom string
			f    *types.Var
		}{{"HASADD", hAdd}, {"HASUPD", hUpd}, {"HASDEL", hDel}} {
			at := &Atoms{Class: cls, Bool: map[string]bool{h.atom: false}}
			e := &PPA{Cond: at.Cond, MaxVisits: 2, Watch: isHandler}
			e.Run(hd)
			c.Paths += len(e.Paths)
			c.Scen++
			bad := 0
			for i := range e.Paths {
				if e.Paths[i].Has(func(ev *Ev) bool { return handlerOf(ev) == h.f }) {
					bad++
				}
			}
			c.Check(bad == 0 && len(e.Paths) > 0, "C17.nil-handlers", fnName(hd), "Handler."+h.f.Name()+" nil", P.Pos(hd.Pos()), fmt.Sprintf("%d of %d paths invoke the nil handler", bad, len(e.Paths)))
		}
	}
	// ---- read only
	{
		for _, f := range []*ssa.Function{hd, val} {
			c.Analysed(fnName(f))
			bad := 0
			instrs(f, func(in ssa.Instruction) {
				switch x := in.(type) {
				case *ssa.Store:
					if _, ok := x.Addr.(*ssa.Alloc); ok {
						return
					}
					if fa, ok := x.Addr.(*ssa.FieldAddr); ok {
						if _, ok := fa.X.(*ssa.Alloc); ok {
							return // local struct literal (target.Update{…})
						}
					}
					if ia, ok := x.Addr.(*ssa.IndexAddr); ok {
						if _, ok := ia.X.(*ssa.Alloc); ok {
							return // varargs array
						}
					}
					bad++
					c.Bad("C17.readonly", fnName(f), "store through "+Expr(x.Addr), P.Pos(in.Pos()), "the diff must not write either configuration")
				case *ssa.MapUpdate:
					if !localMapValue(x.Map) {
						bad++
						c.Bad("C17.readonly", fnName(f), "map update of "+Expr(x.Map), P.Pos(in.Pos()), "only local maps may be mutated")
					}
				case *ssa.Call:
					if b, ok := x.Call.Value.(*ssa.Builtin); ok && b.Name() == "delete" {
						if !localMapValue(x.Call.Args[0]) {
							bad++
							c.Bad("C17.readonly", fnName(f), "delete on "+Expr(x.Call.Args[0]), P.Pos(in.Pos()), "only local maps may be mutated")
						}
					}
				}
			})
			if bad == 0 {
				c.OK("C17.readonly", fnName(f), "no write through either configuration", P.Pos(f.Pos()), "")
			}
		}
		c.Analysed(fnName(cur))
		okClone := false
		dbg := ""
		instrs(cur, func(in ssa.Instruction) {
			if r, ok := in.(*ssa.Return); ok && len(r.Results) == 1 {
				v := r.Results[0]
				for {
					if ta, ok := v.(*ssa.TypeAssert); ok {
						v = ta.X
						continue
					}
					if u, ok := v.(*ssa.UnOp); ok && u.Op == token.MUL {
						if a, ok := u.X.(*ssa.Alloc); ok {
							if s := singleStore(a); s != nil {
								v = s
								continue
							}
						}
					}
					break
				}
				if call, ok := v.(*ssa.Call); ok && calleeName(&call.Call) == "google.golang.org/protobuf/proto.Clone" {
					okClone = true
				}
			}
		})
		if !okClone {
			// ... or through a lock-scoping helper handed a closure (locked(&c.mu, func() T {...})): decided on paths
			e := &PPA{MaxVisits: 2}
			e.Run(cur)
			c.Paths += len(e.Paths)
			n, all := 0, true
			for i := range e.Paths {
				p := &e.Paths[i]
				if p.End != "return" || len(p.Rets) != 1 {
					continue
				}
				n++
				v := p.Rets[0].V
				for {
					if ta, ok := v.(*ssa.TypeAssert); ok {
						v = ta.X
						continue
					}
					break
				}
				if call, ok := v.(*ssa.Call); !ok || calleeName(&call.Call) != "google.golang.org/protobuf/proto.Clone" {
					all = false
				}
			}
			okClone = n > 0 && all && !e.Overflow
			if !okClone {
				for i := range e.Paths {
					dbg += e.Paths[i].String() + " || "
				}
			}
		}
		c.Check(okClone, "C17.readonly", fnName(cur), "Current returns a clone", P.Pos(cur.Pos()), dbg)
	}
}

// localMapValue: a map made in the function: make(...) / a literal, or a fresh copy from maps.Clone.
func localMapValue(v ssa.Value) bool {
	if _, ok := v.(*ssa.MakeMap); ok {
		return true
	}
	if call, ok := v.(*ssa.Call); ok {
		if g := staticCallee(&call.Call); g != nil && pkgPathOf(g) == "maps" && strings.HasPrefix(g.Name(), "Clone") {
			return true
		}
	}
	return false
}
