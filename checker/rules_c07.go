package main

import (
	"fmt"
	"go/constant"
	"go/token"
	"go/types"
	"strings"

	"golang.org/x/tools/go/ssa"
)

func init() {
	register(&propDef{
		ID:       "C07",
		Explain:  "Decided: (1) in Server.Subscribe, with an ACL configured a failing NewRPCACL makes every path return codes.Unauthenticated before any Recv/Send/go/registration/Insert, and otherwise the per-RPC ACL stored in the stream client is NewRPCACL's result; (2) for a single target, a false Check(target) makes every path return PermissionDenied with no goroutine, registration, Send or Insert, and every path that starts a goroutine passed the check; (3) who-may-send: every invoke of the stream's Send in package subscribe is either data-free (a package variable initialised to a sync_response and never reassigned) or guarded on every path by RPCACL.Check on the target of the very response being sent, using the RPC's own ACL; (4) the response wraps the cached notification or a proto.Clone of it (so its prefix cannot be lost), Cache.GnmiUpdate refuses a nil prefix and all cache-built notifications carry a prefix with the target; (5) streamClient.acl is written only in Subscribe. Round-3 addition: a response filtered by the ACL leaves the send timer disarmed (timer typestate borrowed from C08), so the idle stream is not ended by a timeout - 'everything for authorised targets is still delivered'. Round-4 addition: the all-targets snapshot walk never re-acquires Cache.mu (a wedged walk delivers nothing to authorised subscribers). Round-5 addition: the ACL is asked only about the subscription's own target under a dominating target != \"*\" edge (in the function or at every call site of the helper holding the call) or about the target of a message being delivered; a verdict on anything else (names enumerated when the RPC starts, the wildcard itself) withholds data from authorised callers. Round-7 addition: NewServer keeps what the Option functions configured (the options variable is not overwritten after an Option ran, is what Server.o is stored from, and only WithACL writes options.acl).",
		NotCover: "liveness: that everything for authorised targets is still delivered; truthfulness of the ACL implementation; direct calls of the exported Target.GnmiUpdate with a nil prefix",
		Run:      runC07,
	})
}

func grpcCode(p *Prog, name string) (int64, bool) {
	sp := p.SSA.ImportedPackage("google.golang.org/grpc/codes")
	if sp == nil {
		return 0, false
	}
	nc, ok := sp.Members[name].(*ssa.NamedConst)
	if !ok {
		return 0, false
	}
	return constant.Int64Val(nc.Value.Value)
}

// isACLCheck reports whether ev is an invoke of RPCACL.Check.
func isACLCheck(ev *Ev) bool {
	ci, ok := ev.In.(ssa.CallInstruction)
	if !ok {
		return false
	}
	c := ci.Common()
	return c.IsInvoke() && c.Method.Name() == "Check" && isNamed(c.Value.Type(), "subscribe", "RPCACL")
}

func runC07(c *Ctx) {
	P := c.P
	subscribe := P.Method("subscribe", "Server", "Subscribe")
	addSub := P.Func("subscribe", "addSubscription")
	fACL := P.Field("subscribe", "options", "acl")
	fSCacl := P.Field("subscribe", "streamClient", "acl")
	fSCtarget := P.Field("subscribe", "streamClient", "target")
	msr := P.Method("subscribe", "Server", "MakeSubscribeResponse")
	for n, ok := range map[string]bool{"subscribe.(*Server).Subscribe": subscribe != nil, "subscribe.addSubscription": addSub != nil, "subscribe.options.acl": fACL != nil,
		"subscribe.streamClient.acl": fSCacl != nil, "subscribe.streamClient.target": fSCtarget != nil, "subscribe.(*Server).MakeSubscribeResponse": msr != nil} {
		if !ok {
			c.Unresolved("C07.anchors", n)
		}
	}
	unauth, ok1 := grpcCode(P, "Unauthenticated")
	denied, ok2 := grpcCode(P, "PermissionDenied")
	if !ok1 || !ok2 {
		c.Unresolved("C07.anchors", "grpc/codes.Unauthenticated / PermissionDenied")
	}
	if len(c.Unres) > 0 {
		return
	}
	c.Analysed(fnName(subscribe))
	c.Rule("C07.walk-locks", "package cache: Cache.targets only under Cache.mu; no re-entrant acquisition of Cache.mu - 'everything for authorised targets is still delivered': an all-targets walk that re-acquires Cache.mu wedges behind a waiting writer and the authorised snapshot is never completed")
	walkLocks(c, "C07.walk-locks")
	c.Borrow("C08", map[string]string{"C08.timer": "C07.timer"}, "'everything for authorised targets is still delivered': a response the ACL filters out must leave the send timer disarmed, or the idle stream is ended by a timeout although nothing was being sent")
	c.Rule("C07.unauth", "ACL configured and NewRPCACL fails => every path of Subscribe returns status Unauthenticated and performs no Recv, Send, go, registration or Insert; NewRPCACL succeeds => the ACL stored in the stream client is its result; no ACL configured => the stub")
	c.Rule("C07.single", "target != \"*\" and Check(target) false => every path returns PermissionDenied with no go / registration / Send / Insert; every path that starts a goroutine for a single target contains an earlier Check of that target on the RPC's ACL")
	c.Rule("C07.send-guard", "every invoke of the gRPC stream's Send/SendMsg in non-test code of package subscribe is (a) data-free: the argument is a package variable initialised once to a SyncResponse, or (b) guarded: on every path to the Send, the response's update prefix is nil or RPCACL.Check(prefix.GetTarget()) of that same response returned true on the stream client's ACL")
	aclCheckSites(c, "C07.check-sites")
	c.Rule("C07.acl-flow", "streamClient.acl is stored only inside Server.Subscribe")
	c.Rule("C07.prefix-always", "Cache.GnmiUpdate returns an error for a nil prefix before dispatch; deleteNoti, metaNoti and toDeleteNotification build a non-nil Prefix with Target set")

	isNewACL := func(v ssa.Value) bool {
		call, ok := v.(*ssa.Call)
		return ok && call.Call.IsInvoke() && call.Call.Method.Name() == "NewRPCACL"
	}
	cls := func(e *PPA, st *State, rv RV) string {
		rv = e.Resolve(st, rv)
		switch v := rv.V.(type) {
		case *ssa.UnOp:
			if v.Op == token.MUL && fieldOf(v.X) == fACL {
				return "HASACL"
			}
		case *ssa.Extract:
			if isNewACL(v.Tuple) && v.Index == 1 {
				return "NEWERR"
			}
		case *ssa.Call:
			if v.Call.IsInvoke() && v.Call.Method.Name() == "Check" && isNamed(v.Call.Value.Type(), "subscribe", "RPCACL") {
				return "OK"
			}
		case *ssa.BinOp:
			if v.Op == token.EQL || v.Op == token.NEQ {
				for _, pr := range [][2]ssa.Value{{v.X, v.Y}, {v.Y, v.X}} {
					if s, ok := constString(pr[1]); ok && s == "*" {
						if _, isC := pr[0].(*ssa.Const); isC {
							continue
						}
						if v.Op == token.EQL {
							return "ISSTAR"
						}
						return "!ISSTAR"
					}
				}
			}
		}
		return ""
	}
	isReg := func(ev *Ev) bool {
		ci, ok := ev.In.(*ssa.Call)
		return ok && staticCallee(&ci.Call) == addSub
	}
	effect := func(ev *Ev) bool {
		return strings.HasPrefix(ev.Label, "go:") || isReg(ev) || isQueueInsert(ev) || evIsStream(ev, "Send") || evIsStream(ev, "SendMsg")
	}
	watch := func(ev *Ev) bool {
		return effect(ev) || evIsStream(ev, "Recv") || isACLCheck(ev) || ev.Label == "store:subscribe.streamClient.acl" || ev.Label == "store:subscribe.streamClient.target"
	}
	fn := fnName(subscribe)
	pos := P.Pos(subscribe.Pos())
	run := func(b map[string]bool) *PPA {
		at := &Atoms{Class: cls, Bool: b}
		e := &PPA{Cond: at.Cond, Watch: watch}
		e.Run(subscribe)
		c.Paths += len(e.Paths)
		c.Scen++
		return e
	}
	// --- unauth
	{
		e := run(map[string]bool{"HASACL": true, "NEWERR": true})
		n := 0
		for i := range e.Paths {
			p := &e.Paths[i]
			n++
			rc := ""
			if len(p.Rets) == 1 {
				rc = retClass(p.Rets[0])
			}
			ok := p.End == "return" && rc == fmt.Sprintf("status:%d", unauth) && !p.Has(effect) && !p.Has(func(ev *Ev) bool { return evIsStream(ev, "Recv") })
			c.Check(ok, "C07.unauth", fn, "ACL configured, NewRPCACL fails", pos, "returns "+rc+"; path: "+p.String())
		}
		c.Floor("C07.unauth/fail", n, 1)
		for _, has := range []bool{true, false} {
			e := run(map[string]bool{"HASACL": has, "NEWERR": false})
			n := 0
			for i := range e.Paths {
				p := &e.Paths[i]
				first := p.Index(0, func(ev *Ev) bool { return effect(ev) || isACLCheck(ev) })
				if first < 0 {
					continue
				}
				n++
				var last RV
				for j := 0; j < first; j++ {
					if p.Trace[j].Label == "store:subscribe.streamClient.acl" {
						last = p.Trace[j].Args[1]
					}
				}
				var ok bool
				if has {
					ex, isEx := last.V.(*ssa.Extract)
					ok = isEx && ex.Index == 0 && isNewACL(ex.Tuple)
				} else {
					ok = last.V != nil && isNamed(last.V.Type(), "subscribe", "aclStub")
					// ... or the RPCACL made by a permit-all stand-in of the module (a null object used when no
					// ACL is configured): a type other than the configured one whose NewRPCACL returns only
					// (&aclStub{}, nil)
					if ex, isEx := last.V.(*ssa.Extract); !ok && isEx && ex.Index == 0 && isNewACL(ex.Tuple) {
						recv := frameResolve(RV{last.F, ex.Tuple.(*ssa.Call).Call.Value})
						if mi, isMI := recv.V.(*ssa.MakeInterface); isMI {
							ok = permitAllACL(P, mi.X.Type())
						} else if call, isCall := recv.V.(*ssa.Call); isCall {
							// the accessor's result on this path (no ACL configured): every MakeInterface it can return
							// on the nil edge is judged; the configured object itself is excluded by the scenario
							if g := staticCallee(&call.Call); g != nil && g.Blocks != nil {
								all, any := true, false
								instrs(g, func(in ssa.Instruction) {
									if r, isR := in.(*ssa.Return); isR && len(r.Results) == 1 {
										if mi, isMI := r.Results[0].(*ssa.MakeInterface); isMI {
											any = true
											if !permitAllACL(P, mi.X.Type()) {
												all = false
											}
										} else if !loadOfField(r.Results[0], fACL) {
											all = false
										}
									}
								})
								ok = all && any
							}
						}
					}
				}
				c.Check(ok, "C07.unauth", fn, fmt.Sprintf("ACL object in use, configured=%v", has), pos, "streamClient.acl = "+exprOrNil(last.V))
			}
			c.Floor(fmt.Sprintf("C07.unauth/acl-object(configured=%v)", has), n, 1)
		}
	}
	// --- single target
	{
		e := run(map[string]bool{"NEWERR": false, "ISSTAR": false, "OK": false})
		n := 0
		for i := range e.Paths {
			p := &e.Paths[i]
			if !p.Has(isACLCheck) {
				// paths that end before the check must not have effects either
				c.Check(!p.Has(effect), "C07.single", fn, "single target, no effect before the ACL check", pos, "path: "+p.String())
				continue
			}
			n++
			rc := ""
			if len(p.Rets) == 1 {
				rc = retClass(p.Rets[0])
			}
			ok := p.End == "return" && rc == fmt.Sprintf("status:%d", denied) && !p.Has(effect)
			c.Check(ok, "C07.single", fn, "single target denied", pos, "returns "+rc+"; path: "+p.String())
		}
		c.Floor("C07.single/denied", n, 1)
		// allowed: every goroutine start is preceded by a Check of the stored target on the stored ACL
		e = run(map[string]bool{"NEWERR": false, "ISSTAR": false, "OK": true})
		n = 0
		for i := range e.Paths {
			p := &e.Paths[i]
			g := p.Index(0, effect)
			if g < 0 {
				continue
			}
			n++
			ck := p.Index(0, isACLCheck)
			var tgt, acl RV
			for j := 0; j < g; j++ {
				switch p.Trace[j].Label {
				case "store:subscribe.streamClient.target":
					tgt = p.Trace[j].Args[1]
				case "store:subscribe.streamClient.acl":
					acl = p.Trace[j].Args[1]
				}
			}
			ok := ck >= 0 && ck < g && len(p.Trace[ck].Args) == 2 && p.Trace[ck].Args[1] == tgt && p.Trace[ck].Args[0] == acl && tgt.V != nil
			c.Check(ok, "C07.single", fn, "single target: check precedes every effect", pos, fmt.Sprintf("check index %d, first effect %d, checks the subscribed target on the RPC's ACL: %v", ck, g, ok))
		}
		c.Floor("C07.single/allowed", n, 3)
	}
	// --- who may send
	{
		nSend := 0
		for _, f := range P.PkgFuncs("subscribe") {
			if P.InTestFile(f) {
				continue
			}
			for _, ci := range callsIn(f) {
				cc := ci.Common()
				if !isStreamInvoke(cc, "Send") && !isStreamInvoke(cc, "SendMsg") {
					continue
				}
				c.Sites++
				c.Analysed(fnName(f))
				arg := cc.Args[0]
				key := "Send(" + Expr(arg) + ")"
				if g := globalLoad(arg); g != nil {
					nSend++
					ok, why := syncOnlyGlobal(P, g)
					c.Check(ok, "C07.send-guard", fnName(f), key, P.Pos(ci.Pos()), "data-free send: "+why)
					continue
				}
				// judged from the function that owns the response: an unexported helper that only transmits
				// its parameter is analysed inlined into each of its callers (one shared "timed send" helper may
				// carry both the sync response and the data responses: each use is a send of its own)
				for _, rt := range sendRoots(P, f, unwrap(arg), 0) {
					nSend++
					if g := globalLoad(rt.sent); g != nil {
						ok, why := syncOnlyGlobal(P, g)
						c.Check(ok, "C07.send-guard", fnName(rt.fn), "Send("+Expr(rt.sent)+") through "+fnName(f), P.Pos(ci.Pos()), "data-free send: "+why)
						continue
					}
					sendGuarded(c, rt.fn, ci, key, fSCacl, rt.sent)
				}
			}
		}
		c.Floor("C07.send-guard", nSend, 2)
	}
	respFaithful(c, "C07.resp-faithful")
	optionsKept(c, "C07.options-kept")
	// --- acl flow
	{
		n := 0
		for _, f := range P.PkgFuncs("subscribe") {
			if P.InTestFile(f) {
				continue
			}
			instrs(f, func(in ssa.Instruction) {
				if st, ok := in.(*ssa.Store); ok && fieldOf(st.Addr) == fSCacl {
					n++
					c.Check(f == subscribe, "C07.acl-flow", fnName(f), "store streamClient.acl = "+Expr(st.Val), P.Pos(in.Pos()), "the per-RPC ACL may only be set while the RPC is being set up")
				}
			})
		}
		c.Floor("C07.acl-flow", n, 1)
	}
	prefixAlways(c, "C07.prefix-always")
}

func globalLoad(v ssa.Value) *ssa.Global {
	if u, ok := unwrap(v).(*ssa.UnOp); ok && u.Op == token.MUL {
		if g, ok := u.X.(*ssa.Global); ok {
			return g
		}
	}
	return nil
}

// syncOnlyGlobal: the global is stored exactly once, in the package initialiser,
// with a SubscribeResponse whose Response is a SyncResponse.
func syncOnlyGlobal(P *Prog, g *ssa.Global) (bool, string) {
	stores := 0
	ok := false
	for fn := range P.AllFuncs() {
		if fn.Pkg != g.Pkg || fn.Blocks == nil {
			continue
		}
		instrs(fn, func(in ssa.Instruction) {
			st, isSt := in.(*ssa.Store)
			if !isSt || st.Addr != ssa.Value(g) {
				return
			}
			stores++
			if fn.Name() != "init" {
				return
			}
			al, isAl := st.Val.(*ssa.Alloc)
			if !isAl || !isNamed(al.Type(), "proto/gnmi", "SubscribeResponse") {
				return
			}
			// the only store into the literal's Response field wraps a SyncResponse
			good := 0
			bad := 0
			for _, r := range *al.Referrers() {
				fa, isFa := r.(*ssa.FieldAddr)
				if !isFa {
					continue
				}
				for _, rr := range *fa.Referrers() {
					if s2, isS := rr.(*ssa.Store); isS && s2.Addr == ssa.Value(fa) {
						if fieldName(fa.X.Type(), fa.Field) == "Response" && isNamed(unwrap(s2.Val).Type(), "proto/gnmi", "SubscribeResponse_SyncResponse") {
							good++
						} else {
							bad++
						}
					}
				}
			}
			ok = good == 1 && bad == 0
		})
	}
	if stores != 1 {
		return false, fmt.Sprintf("global %s is stored %d times (must be initialised once)", g.Name(), stores)
	}
	if !ok {
		return false, fmt.Sprintf("global %s is not initialised to a SubscribeResponse{SyncResponse}", g.Name())
	}
	return true, fmt.Sprintf("global %s is initialised once to a sync_response and never reassigned", g.Name())
}

// sendGuarded checks class (b) of C07.send-guard for the Send call ci in f.
type sendRoot struct {
	fn   *ssa.Function
	sent ssa.Value
}

func sendRoots(P *Prog, f *ssa.Function, sent ssa.Value, d int) []sendRoot {
	pr, isP := sent.(*ssa.Parameter)
	if !isP || d > 2 || isExportedFn(f) || f.Parent() != nil {
		return []sendRoot{{f, sent}}
	}
	idx := -1
	for i, p := range f.Params {
		if p == pr {
			idx = i
		}
	}
	var out []sendRoot
	for _, g := range P.PkgFuncs(strings.TrimPrefix(pkgPathOf(f), modPath+"/")) {
		if P.InTestFile(g) {
			continue
		}
		for _, ci := range callsIn(g) {
			if staticCallee(ci.Common()) == f && idx >= 0 && idx < len(ci.Common().Args) {
				top := g
				for top.Parent() != nil {
					top = top.Parent()
				}
				out = append(out, sendRoots(P, top, unwrap(ci.Common().Args[idx]), d+1)...)
			}
		}
	}
	if len(out) == 0 {
		return []sendRoot{{f, sent}}
	}
	return out
}

func sendGuarded(c *Ctx, f *ssa.Function, ci ssa.CallInstruction, key string, fSCacl *types.Var, sent ssa.Value) {
	P := c.P
	// atoms: PRENN = the update prefix of the sent response is non-nil; OK = Check(...) result
	chainOK := func(e *PPA, st *State, v RV) bool {
		// v must be GetPrefix(GetUpdate(sent))
		v = e.Resolve(st, v)
		c1, ok := v.V.(*ssa.Call)
		if !ok || calleeName(&c1.Call) != "(*proto/gnmi.Notification).GetPrefix" {
			return false
		}
		u := e.Resolve(st, RV{v.F, c1.Call.Args[0]})
		c2, ok := u.V.(*ssa.Call)
		if !ok || calleeName(&c2.Call) != "(*proto/gnmi.SubscribeResponse).GetUpdate" {
			return false
		}
		return unwrap(e.Resolve(st, RV{u.F, c2.Call.Args[0]}).V) == sent
	}
	cls := func(e *PPA, st *State, rv RV) string {
		rv = e.Resolve(st, rv)
		if call, ok := rv.V.(*ssa.Call); ok {
			if calleeName(&call.Call) == "(*proto/gnmi.Notification).GetPrefix" && chainOK(e, st, rv) {
				return "PRENN"
			}
			if call.Call.IsInvoke() && call.Call.Method.Name() == "Check" && isNamed(call.Call.Value.Type(), "subscribe", "RPCACL") {
				// must check the target of the sent response on the stream client's ACL
				a := e.Resolve(st, RV{rv.F, call.Call.Args[0]})
				gt, ok := a.V.(*ssa.Call)
				if ok && calleeName(&gt.Call) == "(*proto/gnmi.Path).GetTarget" && chainOK(e, st, RV{a.F, gt.Call.Args[0]}) {
					recv := e.Resolve(st, RV{rv.F, call.Call.Value})
					if u, ok := recv.V.(*ssa.UnOp); ok && fieldOf(u.X) == fSCacl {
						return "OK"
					}
				}
			}
		}
		return ""
	}
	isThisSend := func(ev *Ev) bool { return ev.In == ssa.Instruction(ci) }
	for _, sc := range []struct {
		name string
		b    map[string]bool
		send bool
	}{
		{"prefix present, Check false", map[string]bool{"PRENN": true, "OK": false}, false},
		{"prefix present, Check true", map[string]bool{"PRENN": true, "OK": true}, true},
		{"prefix nil", map[string]bool{"PRENN": false}, true},
	} {
		at := &Atoms{Class: cls, Bool: sc.b}
		e := &PPA{Cond: at.Cond, Watch: func(ev *Ev) bool { return isThisSend(ev) || isACLCheck(ev) }}
		e.Run(f)
		c.Paths += len(e.Paths)
		c.Scen++
		sends := 0
		okAll := true
		detail := ""
		for i := range e.Paths {
			p := &e.Paths[i]
			si := p.Index(0, isThisSend)
			if si < 0 {
				continue
			}
			sends++
			if !sc.send {
				okAll = false
				detail = "Send reached although the ACL denies the target; path: " + p.String()
			}
			if sc.name == "prefix present, Check true" {
				// the check must precede the send on that path
				ck := p.Index(0, isACLCheck)
				if ck < 0 || ck > si {
					okAll = false
					detail = "Send not preceded by the ACL check of the sent response; path: " + p.String()
				}
			}
		}
		if sc.send && sends == 0 {
			// nothing to object to, but record it
			detail = "no Send in this scenario"
		}
		if detail == "" {
			detail = fmt.Sprintf("%d sending paths", sends)
		}
		c.Check(okAll, "C07.send-guard", fnName(f), key+" / "+sc.name, P.Pos(ci.Pos()), detail)
	}
}

// valueSources expands φ-nodes to the set of defining values.
func valueSources(v ssa.Value, d int, seen map[ssa.Value]bool) []ssa.Value {
	if seen[v] || d > 10 {
		return nil
	}
	seen[v] = true
	if phi, ok := v.(*ssa.Phi); ok {
		var out []ssa.Value
		for _, e := range phi.Edges {
			out = append(out, valueSources(e, d+1, seen)...)
		}
		return out
	}
	return []ssa.Value{v}
}

// notifFromParamOrClone: v is the type-asserted parameter of fn or proto.Clone of it.
func notifFromParamOrClone(v ssa.Value, fn *ssa.Function) bool {
	for i := 0; i < 8; i++ {
		switch x := v.(type) {
		case *ssa.Extract:
			v = x.Tuple
		case *ssa.TypeAssert:
			v = x.X
		case *ssa.MakeInterface:
			v = x.X
		case *ssa.ChangeInterface:
			v = x.X
		case *ssa.Call:
			if calleeName(&x.Call) == "google.golang.org/protobuf/proto.Clone" {
				v = x.Call.Args[0]
				continue
			}
			// a helper of the package (withDuplicates(n, dup)) every result of which is one of its own parameters
			// or a clone of it, applied to an operand that qualifies
			if g := staticCallee(&x.Call); g != nil && pkgPathOf(g) == pkgPathOf(fn) && !isExportedFn(g) && g.Parent() == nil && len(g.Blocks) > 0 && g != fn {
				var pidx = -1
				okAll, nret := true, 0
				instrs(g, func(in ssa.Instruction) {
					ret, isRet := in.(*ssa.Return)
					if !isRet || len(ret.Results) == 0 {
						return
					}
					nret++
					for _, sv := range valueSources(ret.Results[0], 0, map[ssa.Value]bool{}) {
						r := sv
						for k := 0; k < 8; k++ {
							switch y := r.(type) {
							case *ssa.Extract:
								r = y.Tuple
								continue
							case *ssa.TypeAssert:
								r = y.X
								continue
							case *ssa.MakeInterface:
								r = y.X
								continue
							case *ssa.Call:
								if calleeName(&y.Call) == "google.golang.org/protobuf/proto.Clone" {
									r = y.Call.Args[0]
									continue
								}
							}
							break
						}
						pp, isP := r.(*ssa.Parameter)
						if !isP || pp.Parent() != g {
							okAll = false
							continue
						}
						for i, q := range g.Params {
							if q == pp {
								if pidx >= 0 && pidx != i {
									okAll = false
								}
								pidx = i
							}
						}
					}
				})
				if okAll && nret > 0 && pidx >= 0 && pidx < len(x.Call.Args) {
					v = x.Call.Args[pidx]
					continue
				}
			}
			return false
		case *ssa.Phi:
			for _, e := range x.Edges {
				if !notifFromParamOrClone(e, fn) {
					return false
				}
			}
			return true
		case *ssa.Parameter:
			return x.Parent() == fn
		default:
			return false
		}
	}
	return false
}

// prefixAlways: shared between C07 and C14.
func prefixAlways(c *Ctx, rule string) {
	P := c.P
	cg := P.Method("cache", "Cache", "GnmiUpdate")
	tg := P.Method("cache", "Target", "GnmiUpdate")
	if cg == nil || tg == nil {
		c.Unresolved(rule, "cache.(*Cache).GnmiUpdate / (*Target).GnmiUpdate")
		return
	}
	c.Analysed(fnName(cg))
	cls := func(e *PPA, st *State, rv RV) string {
		rv = e.Resolve(st, rv)
		if call, ok := rv.V.(*ssa.Call); ok && calleeName(&call.Call) == "(*proto/gnmi.Notification).GetPrefix" {
			return "PFX"
		}
		if u, ok := rv.V.(*ssa.UnOp); ok && u.Op == token.MUL {
			if f := fieldOf(u.X); f != nil && f.Name() == "Prefix" {
				return "PFX"
			}
		}
		return ""
	}
	at := &Atoms{Class: cls, Bool: map[string]bool{"PFX": false}}
	e := &PPA{Cond: at.Cond, Watch: func(ev *Ev) bool { return ev.Label == "call:"+fnName(tg) }}
	e.Run(cg)
	c.Paths += len(e.Paths)
	c.Scen++
	n := 0
	for i := range e.Paths {
		p := &e.Paths[i]
		n++
		rc := ""
		if len(p.Rets) == 1 {
			rc = retClass(p.Rets[0])
		}
		c.Check(rc != "nil" && rc != "" && len(p.Trace) == 0, rule, fnName(cg), "nil prefix is refused before dispatch", P.Pos(cg.Pos()), "returns "+rc+"; path: "+p.String())
	}
	c.Floor(rule+"/refuse-nil", n, 1)
	fPrefix := P.Field("proto/gnmi", "Notification", "Prefix")
	fTarget := P.Field("proto/gnmi", "Path", "Target")
	for _, name := range []string{"deleteNoti", "metaNoti", "toDeleteNotification"} {
		f := P.Func("cache", name)
		if f == nil {
			c.Unresolved(rule, "cache."+name)
			continue
		}
		c.Analysed(fnName(f))
		ok := false
		instrs(f, func(in ssa.Instruction) {
			st, isSt := in.(*ssa.Store)
			if !isSt || fieldOf(st.Addr) != fPrefix {
				return
			}
			al, isAl := st.Val.(*ssa.Alloc)
			if !isAl {
				return
			}
			for _, r := range *al.Referrers() {
				if fa, isFa := r.(*ssa.FieldAddr); isFa && fieldOf(fa) == fTarget {
					for _, rr := range *fa.Referrers() {
						if s2, isS := rr.(*ssa.Store); isS && s2.Addr == ssa.Value(fa) {
							ok = true
						}
					}
				}
			}
		})
		c.Check(ok, rule, fnName(f), "builds Prefix{Target: …}", P.Pos(f.Pos()), "notification literal carries a non-nil prefix with the target stored")
	}
}

// permitAllACL: T is a type of package subscribe whose NewRPCACL returns (&aclStub{}, nil) on every path.
func permitAllACL(P *Prog, T types.Type) bool {
	var m *ssa.Function
	for _, tt := range []types.Type{T, types.NewPointer(T)} {
		if sel := P.SSA.MethodSets.MethodSet(tt).Lookup(nil, "NewRPCACL"); sel != nil {
			m = P.SSA.MethodValue(sel)
		}
	}
	if m == nil || m.Blocks == nil || !strings.HasSuffix(pkgPathOf(m), "/subscribe") {
		return false
	}
	// thunks/wrappers: follow to the declared method
	for i := 0; i < 3 && m.Synthetic != ""; i++ {
		var next *ssa.Function
		for _, ci := range callsIn(m) {
			if g := staticCallee(ci.Common()); g != nil && g.Name() == "NewRPCACL" {
				next = g
			}
		}
		if next == nil {
			break
		}
		m = next
	}
	ok, n := true, 0
	instrs(m, func(in ssa.Instruction) {
		r, isR := in.(*ssa.Return)
		if !isR {
			return
		}
		n++
		if len(r.Results) != 2 || !isNilConst(r.Results[1]) {
			ok = false
			return
		}
		mi, isMI := r.Results[0].(*ssa.MakeInterface)
		if !isMI || !isNamed(mi.X.Type(), "subscribe", "aclStub") {
			ok = false
		}
	})
	return ok && n > 0
}

// aclCheckSites: what the ACL may be asked.  The denial half of the property is complete with the
// admission check and the send guard; any *other* consultation of the ACL can only withhold data from
// authorised callers.  Every invoke of RPCACL.Check in package subscribe is therefore one of
//   - admission: the argument is the subscription's own target (streamClient.target) and the call is
//     made only when that target is not the all-targets wildcard ("*" is not a target name: Check("*")
//     is false for every real table) - a dominating `target != "*"` edge in the function, or at every
//     call site of the unexported helper that holds the call;
//   - per message: the argument is the target of the prefix of a message being delivered.
//
// A verdict asked about anything else (a name enumerated from the cache when the RPC starts, ...)
// decides delivery from a state that changes afterwards.
func aclCheckSites(c *Ctx, rule string) {
	P := c.P
	c.Rule(rule, "every invoke of RPCACL.Check in non-test code of package subscribe asks about (a) the subscription's own target, and then only where that target is known not to be the all-targets wildcard (a dominating target != \"*\" edge, in the function or at every call site of the unexported helper holding the call), or (b) the target of the prefix of a message being delivered; the ACL is asked about nothing else (a verdict on names enumerated at some moment withholds what appears later; Check(\"*\") denies an all-targets subscription outright)")
	fTarget := P.Field("subscribe", "streamClient", "target")
	if fTarget == nil {
		c.Unresolved(rule, "subscribe.streamClient.target")
		return
	}
	isStar := func(v ssa.Value) bool { s, ok := constString(v); return ok && s == "*" }
	targetLoad := func(v ssa.Value) bool {
		v = unwrap(v)
		if loadOfField(v, fTarget) {
			return true
		}
		// a local copy of the field (t := c.target)
		if ph, ok := v.(*ssa.Phi); ok {
			for _, e := range ph.Edges {
				if !loadOfField(unwrap(e), fTarget) {
					return false
				}
			}
			return len(ph.Edges) > 0
		}
		return false
	}
	// notStarAt: block b is dominated by an edge on which streamClient.target != "*"
	notStarAt := func(b *ssa.BasicBlock) bool {
		for x := b; x != nil; x = x.Idom() {
			d := x.Idom()
			if d == nil {
				break
			}
			iff, ok := d.Instrs[len(d.Instrs)-1].(*ssa.If)
			if !ok {
				continue
			}
			cmp, ok := iff.Cond.(*ssa.BinOp)
			if !ok || (cmp.Op != token.NEQ && cmp.Op != token.EQL) {
				continue
			}
			if !((targetLoad(cmp.X) && isStar(cmp.Y)) || (targetLoad(cmp.Y) && isStar(cmp.X))) {
				continue
			}
			want := 0 // successor index on which target != "*"
			if cmp.Op == token.EQL {
				want = 1
			}
			if d.Succs[want] == x && len(x.Preds) == 1 {
				return true
			}
		}
		return false
	}
	var guarded func(f *ssa.Function, b *ssa.BasicBlock, depth int) (bool, string)
	guarded = func(f *ssa.Function, b *ssa.BasicBlock, depth int) (bool, string) {
		if notStarAt(b) {
			return true, "target != \"*\" on a dominating edge in " + fnName(f)
		}
		if depth >= 2 || f.Parent() != nil || (f.Object() != nil && f.Object().Exported()) {
			return false, "no dominating target != \"*\" edge in " + fnName(f)
		}
		// an unexported helper: every call site (incl. go / defer) must be guarded
		sites := 0
		for _, g := range P.PkgFuncs("subscribe") {
			if P.InTestFile(g) {
				continue
			}
			for _, h := range withAnon(g) {
				for _, ci := range callsIn(h) {
					if staticCallee(ci.Common()) != f {
						continue
					}
					sites++
					if ok, why := guarded(h, ci.Block(), depth+1); !ok {
						return false, "call site in " + fnName(h) + ": " + why
					}
				}
			}
		}
		if sites == 0 {
			return false, "helper " + fnName(f) + " has no static call site"
		}
		return true, fmt.Sprintf("every one of the %d call sites of %s is under target != \"*\"", sites, fnName(f))
	}
	n := 0
	for _, top := range P.PkgFuncs("subscribe") {
		if P.InTestFile(top) {
			continue
		}
		for _, f := range withAnon(top) {
			for _, ci := range callsIn(f) {
				cc := ci.Common()
				if !cc.IsInvoke() || cc.Method.Name() != "Check" || len(cc.Args) != 1 {
					continue
				}
				if nm, ok := cc.Value.Type().(*types.Named); !ok || nm.Obj().Name() != "RPCACL" {
					continue
				}
				n++
				c.Analysed(fnName(top))
				arg := unwrap(cc.Args[0])
				key := "Check(" + Expr(cc.Args[0]) + ")"
				switch {
				case targetLoad(arg):
					ok, why := guarded(f, ci.Block(), 0)
					c.Check(ok, rule, fnName(f), key+" admission check only for a named target", P.Pos(ci.Pos()), why)
				default:
					msg := false
					if call, ok := arg.(*ssa.Call); ok && calleeName(&call.Call) == "(*proto/gnmi.Path).GetTarget" {
						msg = true
					}
					if u, ok := arg.(*ssa.UnOp); ok && u.Op == token.MUL {
						if fa, ok := u.X.(*ssa.FieldAddr); ok && vname(fieldOf(fa)) == "Target" && isNamed(deref(fa.X.Type()), "proto/gnmi", "Path") {
							msg = true
						}
					}
					c.Check(msg, rule, fnName(f), key+" asks about the target of a message being delivered", P.Pos(ci.Pos()), "the argument is neither the subscription's own target nor the target of a message's prefix")
				}
			}
		}
	}
	c.Floor(rule, n, 2)
}

// respFaithful (shared by C07 and C08; C01 and C04 borrow it from C07): the response handed to a
// subscriber wraps the whole cached notification, or a clone of the whole of it.
func respFaithful(c *Ctx, rule string) {
	P := c.P
	c.Rule(rule, "MakeSubscribeResponse wraps the cached *Notification itself or a proto.Clone of it (a message rebuilt field by field could drop the prefix that the send guard inspects, the other updates of an atomic group, or the atomic flag)")
	msr := P.Method("subscribe", "Server", "MakeSubscribeResponse")
	if msr == nil {
		c.Unresolved(rule, "subscribe.(*Server).MakeSubscribeResponse")
		return
	}
	// --- response faithful
	{
		c.Analysed(fnName(msr))
		fUpd := P.Field("proto/gnmi", "SubscribeResponse_Update", "Update")
		if fUpd == nil {
			c.Unresolved(rule, "proto/gnmi.SubscribeResponse_Update.Update")
		} else {
			n := 0
			instrs(msr, func(in ssa.Instruction) {
				st, ok := in.(*ssa.Store)
				if !ok || fieldOf(st.Addr) != fUpd {
					return
				}
				n++
				srcs := valueSources(st.Val, 0, map[ssa.Value]bool{})
				ok2 := len(srcs) > 0
				var desc []string
				for _, s := range srcs {
					desc = append(desc, Expr(s))
					if !notifFromParamOrClone(s, msr) {
						ok2 = false
					}
				}
				c.Check(ok2, rule, fnName(msr), "SubscribeResponse_Update.Update", P.Pos(in.Pos()), "wrapped notification comes from: "+strings.Join(desc, " | "))
			})
			c.Floor(rule, n, 1)
		}
	}
}
