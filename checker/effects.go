package main

// E5 — effect analysis: may-block.

import (
	"fmt"
	"go/token"
	"go/types"
	"sort"
	"strings"

	"golang.org/x/tools/go/ssa"
)

type blockSite struct {
	Fn   *ssa.Function
	In   ssa.Instruction
	What string
}

type Effects struct {
	P *Prog
	// Bind maps function-typed struct fields to the functions they are wired to
	// (e.g. cache.Target.client -> subscribe.(*Server).Update).
	Bind     map[*types.Var][]*ssa.Function
	memo     map[*ssa.Function][]blockSite
	visiting map[*ssa.Function]bool
	Assume   map[string]bool
	Unknown  []string
}

func NewEffects(p *Prog) *Effects {
	return &Effects{P: p, Bind: map[*types.Var][]*ssa.Function{}, memo: map[*ssa.Function][]blockSite{}, visiting: map[*ssa.Function]bool{}, Assume: map[string]bool{}}
}

// library functions that block (by full name or prefix)
var blockingLib = []string{
	"time.Sleep", "(*sync.WaitGroup).Wait", "(*sync.Cond).Wait", "(*time.Ticker)", "net.", "(*net.", "os.", "(*os.", "io.", "(*io.", "bufio.", "(*bufio.",
	"google.golang.org/grpc.Dial", "(*google.golang.org/grpc.ClientConn)", "(*google.golang.org/grpc.Server).Serve", "(*sync.Once).Do",
}

// library packages known not to block
var nonBlockingPkgs = []string{"sort", "slices", "maps", "cmp", "strings", "strconv", "fmt", "errors", "unicode/utf8", "math", "bytes", "sync/atomic", "reflect", "time", "encoding/json",
	"github.com/golang/glog", "google.golang.org/protobuf", "google.golang.org/grpc/status", "google.golang.org/grpc/codes", "google.golang.org/grpc/peer", "bitbucket.org/creachadair/stringset", "context", "sync"}

// implementers returns the module's non-test methods that an interface invoke may reach.
func (e *Effects) implementers(c *ssa.CallCommon) []*ssa.Function {
	var out []*ssa.Function
	iface, ok := c.Value.Type().Underlying().(*types.Interface)
	if !ok {
		return nil
	}
	for _, pk := range e.P.ModPkgs() {
		sp := e.P.SSAPkg[pk]
		for _, m := range sp.Members {
			t, ok := m.(*ssa.Type)
			if !ok {
				continue
			}
			for _, T := range []types.Type{t.Type(), types.NewPointer(t.Type())} {
				if _, isI := T.Underlying().(*types.Interface); isI {
					continue
				}
				if !types.Implements(T, iface) {
					continue
				}
				sel := e.P.SSA.MethodSets.MethodSet(T).Lookup(c.Method.Pkg(), c.Method.Name())
				if sel == nil {
					continue
				}
				f := e.P.SSA.MethodValue(sel)
				if f == nil || e.P.InTestFile(f) {
					continue
				}
				dup := false
				for _, o := range out {
					if o == f {
						dup = true
					}
				}
				if !dup {
					out = append(out, f)
				}
			}
		}
	}
	return out
}

// Blocking returns the blocking sites reachable from f (empty = cannot block).
func (e *Effects) Blocking(f *ssa.Function) []blockSite {
	if r, ok := e.memo[f]; ok {
		return r
	}
	if e.visiting[f] || f == nil || f.Blocks == nil {
		return nil
	}
	e.visiting[f] = true
	defer delete(e.visiting, f)
	var out []blockSite
	add := func(in ssa.Instruction, what string) { out = append(out, blockSite{f, in, what}) }
	// channel operations that are arms of a select are judged at the select
	instrs(f, func(in ssa.Instruction) {
		switch x := in.(type) {
		case *ssa.Send:
			add(in, "channel send "+Expr(x.Chan))
		case *ssa.UnOp:
			if x.Op.String() == "<-" {
				add(in, "channel receive "+Expr(x.X))
			}
		case *ssa.Select:
			if x.Blocking {
				add(in, "select without default")
			}
		case ssa.CallInstruction:
			out = append(out, e.CallBlocking(f, x)...)
		}
	})
	e.memo[f] = out
	return out
}

// CallBlocking returns the blocking sites reachable through one call instruction.
func (e *Effects) CallBlocking(f *ssa.Function, x ssa.CallInstruction) []blockSite {
	var out []blockSite
	in := ssa.Instruction(x)
	add := func(in ssa.Instruction, what string) { out = append(out, blockSite{f, in, what}) }
	func() {
		if _, isGo := in.(*ssa.Go); isGo {
			return
		}
		cc := x.Common()
		if _, isB := cc.Value.(*ssa.Builtin); isB {
			return
		}
		name := calleeName(cc)
		if cc.IsInvoke() {
			mn := cc.Method.Name()
			if isStreamInvoke(cc, "Send") || isStreamInvoke(cc, "Recv") || isStreamInvoke(cc, "SendMsg") || isStreamInvoke(cc, "RecvMsg") {
				add(in, "gRPC stream "+mn)
				return
			}
			impls := e.implementers(cc)
			if len(impls) == 0 {
				// interface without module implementers (context.Context, error, proto.Message, ACL…)
				ts := types.TypeString(cc.Value.Type(), nil)
				if strings.HasPrefix(ts, "context.") || ts == "error" || strings.Contains(ts, "proto") || strings.HasSuffix(ts, "RPCACL") || strings.HasSuffix(ts, ".ACL") {
					e.Assume["methods of context.Context / error / proto.Message / the ACL interfaces do not block"] = true
					return
				}
				e.Unknown = append(e.Unknown, fnName(f)+": invoke "+name)
				return
			}
			for _, g := range impls {
				for _, b := range e.Blocking(g) {
					out = append(out, b)
				}
			}
			return
		}
		if cal := staticCallee(cc); cal != nil {
			pp := pkgPathOf(cal)
			if strings.HasPrefix(pp, modPath) {
				if e.P.IsGenerated(cal) {
					return
				}
				out = append(out, e.Blocking(cal)...)
				return
			}
			full := cal.String()
			for _, b := range blockingLib {
				if strings.HasPrefix(full, b) {
					add(in, "blocking library call "+full)
					return
				}
			}
			// sync.Mutex acquisition: judged by the critical-section rule, not here
			for _, nb := range nonBlockingPkgs {
				if pp == nb || strings.HasPrefix(pp, nb+"/") {
					return
				}
			}
			e.Unknown = append(e.Unknown, fnName(f)+": library call "+full)
			return
		}
		// dynamic call: a bound struct field?
		if fld := fieldOf(cc.Value); fld != nil {
			if tg, ok := e.Bind[fld]; ok {
				for _, g := range tg {
					out = append(out, e.Blocking(g)...)
				}
				return
			}
		}
		if mc, ok := cc.Value.(*ssa.MakeClosure); ok {
			out = append(out, e.Blocking(mc.Fn.(*ssa.Function))...)
			return
		}
		// a function value handed down as a parameter / returned by a module function / captured
		if fs, ok := e.funcValues(cc.Value, map[ssa.Value]bool{}, 0); ok {
			for _, g := range fs {
				out = append(out, e.Blocking(g)...)
			}
			return
		}
		e.Unknown = append(e.Unknown, fnName(f)+": dynamic call "+Expr(cc.Value))
	}()
	return out
}

func describeSites(p *Prog, bs []blockSite) string {
	var s []string
	for _, b := range bs {
		s = append(s, fmt.Sprintf("%s at %s in %s", b.What, p.Pos(posOf(b.In)), fnName(b.Fn)))
	}
	sort.Strings(s)
	if len(s) > 4 {
		s = append(s[:4], fmt.Sprintf("… %d more", len(s)-4))
	}
	return strings.Join(s, "; ")
}

// Reach returns the module functions reachable from f through the same edges Blocking follows.
func (e *Effects) Reach(f *ssa.Function) map[*ssa.Function]bool {
	seen := map[*ssa.Function]bool{}
	var w func(g *ssa.Function)
	w = func(g *ssa.Function) {
		if g == nil || seen[g] || g.Blocks == nil || e.P.IsGenerated(g) {
			return
		}
		seen[g] = true
		for _, ci := range callsIn(g) {
			if _, isGo := ci.(*ssa.Go); isGo {
				continue
			}
			cc := ci.Common()
			if cc.IsInvoke() {
				for _, h := range e.implementers(cc) {
					w(h)
				}
				continue
			}
			if cal := staticCallee(cc); cal != nil {
				if strings.HasPrefix(pkgPathOf(cal), modPath) {
					w(cal)
				}
				continue
			}
			if fld := fieldOf(cc.Value); fld != nil {
				for _, h := range e.Bind[fld] {
					w(h)
				}
				continue
			}
			if mc, ok := cc.Value.(*ssa.MakeClosure); ok {
				w(mc.Fn.(*ssa.Function))
				continue
			}
			if fs, ok := e.funcValues(cc.Value, map[ssa.Value]bool{}, 0); ok {
				for _, h := range fs {
					w(h)
				}
			}
		}
	}
	w(f)
	return seen
}

// funcValues: the module functions a function-typed value can be - a literal, a named function, the result
// of a module function that returns literals, a captured variable, or a parameter (then: what every static
// caller in the module passes, a recursive pass-through of the same parameter aside).  ok=false when some
// source cannot be enumerated.
func (e *Effects) funcValues(v ssa.Value, seen map[ssa.Value]bool, d int) ([]*ssa.Function, bool) {
	if d > 8 {
		return nil, false
	}
	if seen[v] {
		return nil, true
	}
	seen[v] = true
	switch x := v.(type) {
	case *ssa.MakeClosure:
		return []*ssa.Function{x.Fn.(*ssa.Function)}, true
	case *ssa.Function:
		if x.Blocks == nil {
			return nil, false
		}
		return []*ssa.Function{x}, true
	case *ssa.ChangeType:
		return e.funcValues(x.X, seen, d+1)
	case *ssa.Phi:
		var out []*ssa.Function
		for _, ed := range x.Edges {
			fs, ok := e.funcValues(ed, seen, d+1)
			if !ok {
				return nil, false
			}
			out = append(out, fs...)
		}
		return out, true
	case *ssa.FreeVar:
		if b := bindingOf(x); b != nil {
			return e.funcValues(b, seen, d+1)
		}
	case *ssa.UnOp:
		// load of a local cell holding the function
		if al, ok := x.X.(*ssa.Alloc); ok && x.Op == token.MUL {
			var out []*ssa.Function
			n := 0
			for _, r := range *al.Referrers() {
				if st, ok := r.(*ssa.Store); ok && st.Addr == ssa.Value(al) {
					n++
					fs, ok := e.funcValues(st.Val, seen, d+1)
					if !ok {
						return nil, false
					}
					out = append(out, fs...)
				}
			}
			return out, n > 0
		}
	case *ssa.Call:
		if h := staticCallee(&x.Call); h != nil && strings.HasPrefix(pkgPathOf(h), modPath) && h.Blocks != nil {
			rf := returnedFuncs(h)
			if len(rf) == 0 {
				return nil, false
			}
			var out []*ssa.Function
			for g := range rf {
				out = append(out, g)
			}
			sort.Slice(out, func(i, j int) bool { return fnName(out[i]) < fnName(out[j]) })
			return out, true
		}
	case *ssa.Parameter:
		g := x.Parent()
		idx := -1
		for i, p := range g.Params {
			if p == x {
				idx = i
			}
		}
		if idx < 0 || isExportedFn(g) && g.Parent() == nil {
			return nil, false // callers outside the module may pass anything
		}
		var out []*ssa.Function
		n := 0
		for _, mp := range e.P.ModPkgs() {
			for _, h := range e.P.PkgFuncs(strings.TrimPrefix(mp, modPath+"/")) {
				if e.P.InTestFile(h) {
					continue
				}
				for _, ci := range callsIn(h) {
					if staticCallee(ci.Common()) != g || idx >= len(ci.Common().Args) {
						continue
					}
					a := ci.Common().Args[idx]
					if a == ssa.Value(x) {
						continue // recursive pass-through
					}
					n++
					fs, ok := e.funcValues(a, seen, d+1)
					if !ok {
						return nil, false
					}
					out = append(out, fs...)
				}
			}
		}
		return out, n > 0
	}
	return nil, false
}
