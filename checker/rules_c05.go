package main

import (
	"fmt"
	"go/token"
	"go/types"
	"strings"

	"golang.org/x/tools/go/ssa"
)

func init() {
	register(&propDef{
		ID:       "C05",
		Explain:  "Decided (structural necessary conditions): ONCE arm = goroutine that runs the walk and then closes the queue unconditionally, in that order; the sender ends the RPC successfully (errC <- nil) exactly when the queue reports closed, and the queue reports closed only when empty (drain-before-closed, evaluated at Len 0/1); POLL = one initial walk, then on every received trigger exactly one further walk, io.EOF ends cleanly, other errors are returned; one sync marker per walk, after the last Query/Insert, none after a failed step; the walk visitor inserts every visited leaf while no error is pending; ONCE/POLL never register with the streaming match tree; the snapshot path follows the CompletePath decision table (origin in prefix / path / both / neither); the all-targets walk does not re-acquire the cache lock. Also decided: the send timer is armed only around a Send (stopped after every Send and at every wait for the next item), so an idle POLL stream is not ended by a stale timer. Round-3 additions: wake-up token / wait set of the queue (borrowed from C11); the duplicate count is written into a clone, never into the cached notification (borrowed from C08). Round-4 additions: every subscription of the request is walked before the marker (replayed with two subscriptions, also prefix-only ones); the query descent's per-node table with two children per branch and a child literally named * (C09.query-table, borrowed). Round-6 addition: nothing but the allowed writers stores into a node's content - a delete does not nil the value of a node whose handle a pending ONCE/POLL response still holds. Round-7 additions: the ToStrings index table (borrowed from C19) and the faithful-response rule (shared with C04/C07/C08) under C05's id.",
		NotCover: "exactness of ctree.Query's matching (C09) and of the values observed during the call; concurrent writers",
		Run:      runC05,
	})
}

func runC05(c *Ctx) {
	P := c.P
	subscribe := P.Method("subscribe", "Server", "Subscribe")
	procSub := P.Method("subscribe", "Server", "processSubscription")
	poll := P.Method("subscribe", "Server", "processPollingSubscription")
	sres := P.Method("subscribe", "Server", "sendStreamingResults")
	addSub := P.Func("subscribe", "addSubscription")
	Next := P.Method("coalesce", "Queue", "Next")
	for n, ok := range map[string]bool{"Subscribe": subscribe != nil, "processSubscription": procSub != nil, "processPollingSubscription": poll != nil, "sendStreamingResults": sres != nil, "addSubscription": addSub != nil} {
		if !ok {
			c.Unresolved("C05.anchors", "subscribe."+n)
		}
	}
	if Next == nil {
		c.Unresolved("C05.anchors", "coalesce.(*Queue).Next")
	}
	once, ok1 := pbConst(P, "SubscriptionList_ONCE")
	pollC, ok2 := pbConst(P, "SubscriptionList_POLL")
	if !ok1 || !ok2 {
		c.Unresolved("C05.anchors", "proto/gnmi.SubscriptionList_ONCE/POLL")
	}
	if len(c.Unres) > 0 {
		return
	}
	c.Rule("C05.timer", "the send timer is armed only around a Send: stopped after every Send and whenever the sender waits for the next item, so a POLL stream that idles between triggers is not ended by a stale timer")
	sendTimerDiscipline(c, "C05.timer")
	c.Borrow("C11", map[string]string{"C11.token": "C05.wakeup", "C11.wait-set": "C05.wait-set"}, "a lost wake-up leaves the sender asleep before the sync marker of a poll round: the poll is never answered")
	c.Borrow("C09", map[string]string{"C09.query-table": "C05.query-table"}, "the snapshot is what ctree.Query selects: per node the query descent must reach every child a glob covers and exactly the named child otherwise, or matching leaves are missing from the ONCE/POLL answer")
	contentWriters(c, "C05.handles-keep-value")
	c.Borrow("C19", map[string]string{"C19.prefix": "C05.path-index"}, "the snapshot query is keyed by path.ToStrings of the request's prefix and path: an index that differs from the one the cache filed the leaves under (key values, element order, which of the two encodings wins) selects nothing, and the ONCE/POLL answer is an empty snapshot")
	respFaithful(c, "C05.resp-faithful")
	c.Borrow("C08", map[string]string{"C08.dup-clone": "C05.dup-clone"}, "a duplicate count written into the cached notification is returned by every later ONCE/POLL as a value no writer stored")
	c.Rule("C05.once", "ONCE: Subscribe starts exactly one goroutine whose body is processSubscription followed unconditionally by queue.Close(), plus the sender; no registration with the match tree. sendStreamingResults: queue closed => errC <- nil and return without another Send")
	c.Rule("C05.drain", "coalesce.Next never reports closed while items are pending (closed arm with Len()==1 retries next())")
	c.Rule("C05.poll", "processPollingSubscription: a walk precedes the loop; after each successful Recv exactly one walk happens before the next Recv; io.EOF => errC <- nil, return; other error => errC <- that error, return")
	c.Rule("C05.one-sync", "processSubscription: at most one sync marker per path, after the last Query/Insert, none reachable from an error edge")
	c.Rule("C05.visitor-total", "the walk visitor inserts its leaf on every path on which no error is pending and returns nil; ONCE and POLL paths of Subscribe contain no registration")
	c.Rule("C05.complete-path", "path.CompletePath: origin in both => error; origin in path with prefix elements => error; origin in prefix => [origin]+prefix index+path index; origin in path => [origin]+path index; neither => prefix index+path index; result built on a fresh slice")
	c.Rule("C05.walk-locks", "package cache: Cache.targets only under Cache.mu; no re-entrant acquisition of Cache.mu (the all-targets walk holds it for reading while visiting every target), all locks released on every exit")

	isProc := func(ev *Ev) bool { return ev.Label == "call:"+fnName(procSub) }
	// ---- ONCE / POLL arms of Subscribe
	for _, m := range []struct {
		name string
		val  int64
	}{{"ONCE", once}, {"POLL", pollC}} {
		c.Analysed(fnName(subscribe))
		e := &PPA{
			Cond: func(e *PPA, st *State, rv RV) (bool, bool) { return modeCond(m.val)(rv.V) },
			Watch: func(ev *Ev) bool {
				return strings.HasPrefix(ev.Label, "go:") || ev.Label == "call:"+fnName(addSub) || ev.Label == "call:(*match.Match).AddQuery"
			},
		}
		e.Run(subscribe)
		c.Paths += len(e.Paths)
		c.Scen++
		n := 0
		for i := range e.Paths {
			p := &e.Paths[i]
			gos := p.Count(lblPrefix("go:"))
			if gos == 0 {
				continue
			}
			n++
			reg := p.Has(func(ev *Ev) bool { return !strings.HasPrefix(ev.Label, "go:") })
			var walker *ssa.Function
			senders := 0
			for j := range p.Trace {
				if g, ok := p.Trace[j].In.(*ssa.Go); ok {
					t := goTarget(g)
					if t == sres {
						senders++
					} else {
						walker = t
					}
				}
			}
			ok := gos == 2 && senders == 1 && walker != nil && !reg
			detail := fmt.Sprintf("goroutines=%d sender=%d walker=%s registration=%v", gos, senders, fnName(walker), reg)
			if ok && m.name == "ONCE" {
				// body: processSubscription ; queue.Close()
				c.Analysed(fnName(walker))
				pe := &PPA{Watch: func(ev *Ev) bool { return isProc(ev) || ev.Label == "call:(*coalesce.Queue).Close" }}
				pe.Run(walker)
				c.Paths += len(pe.Paths)
				for k := range pe.Paths {
					l := pe.Paths[k].Labels()
					if len(l) != 2 || l[0] != "call:"+fnName(procSub) || l[1] != "call:(*coalesce.Queue).Close" {
						ok = false
						detail += "; walker path: " + pe.Paths[k].String()
					}
				}
			}
			if ok && m.name == "POLL" {
				ok = walker == poll
			}
			c.Check(ok, "C05.once", fnName(subscribe), m.name+" arm", P.Pos(subscribe.Pos()), detail)
		}
		c.Floor("C05.once/"+m.name+"-paths", n, 1)
	}
	// ---- sender ends cleanly on closed queue
	{
		c.Analysed(fnName(sres))
		isSend := func(ev *Ev) bool { return evIsStream(ev, "Send") }
		at := &Atoms{
			Class: func(e *PPA, st *State, rv RV) string {
				if isCallNamed(rv.V, "coalesce.IsClosedQueue") {
					return "CLOSED"
				}
				// the error Next returned: what IsClosedQueue recognises is a non-nil error
				if b, ok := rv.V.(*ssa.BinOp); ok && (b.Op == token.NEQ || b.Op == token.EQL) && isNilConst(b.Y) {
					x := e.Resolve(st, RV{rv.F, b.X})
					if ex, ok := x.V.(*ssa.Extract); ok && ex.Index == 2 && isCallNamed(ex.Tuple, "(*coalesce.Queue).Next") {
						if b.Op == token.NEQ {
							return "ERRNN"
						}
						return "!ERRNN"
					}
				}
				return ""
			},
			Bool: map[string]bool{"CLOSED": true, "ERRNN": true},
		}
		e := &PPA{Cond: at.Cond, MaxVisits: 2, Watch: func(ev *Ev) bool {
			return ev.Label == "call:(*coalesce.Queue).Next" || isSend(ev) || strings.HasPrefix(ev.Label, "send:") || ev.Label == "call:"+fnName(P.Method("subscribe", "Server", "sendSubscribeResponse"))
		}}
		e.Run(sres)
		c.Paths += len(e.Paths)
		c.Scen++
		n := 0
		for i := range e.Paths {
			p := &e.Paths[i]
			ni := p.Index(0, lbl("call:(*coalesce.Queue).Next"))
			if ni < 0 {
				continue
			}
			n++
			ok := ni+1 < len(p.Trace) && strings.HasPrefix(p.Trace[ni+1].Label, "send:") && strings.Contains(p.Trace[ni+1].Label, "errC") && isNilConst(p.Trace[ni+1].Args[1].V) &&
				ni+2 == len(p.Trace) && p.End == "return"
			c.Check(ok, "C05.once", fnName(sres), "closed queue ends the RPC successfully", P.Pos(sres.Pos()), "path: "+p.String())
		}
		c.Floor("C05.once/closed-paths", n, 1)
	}
	// ---- drain
	{
		Len := P.Method("coalesce", "Queue", "Len")
		next := P.Method("coalesce", "Queue", "next")
		fClosed := P.Field("coalesce", "Queue", "closed")
		if Len == nil || next == nil || fClosed == nil {
			c.Unresolved("C05.drain", "coalesce.(*Queue).Len/next/closed")
		} else {
			c.Analysed(fnName(Next))
			at := &Atoms{
				Class: func(e *PPA, st *State, rv RV) string {
					rv = e.Resolve(st, rv)
					if call, ok := rv.V.(*ssa.Call); ok && staticCallee(&call.Call) == Len {
						return "LEN"
					}
					// the boolean result of next(), wherever it sits in the result list
					if ex, ok := rv.V.(*ssa.Extract); ok {
						if bt, isB := ex.Type().Underlying().(*types.Basic); isB && bt.Kind() == types.Bool {
							if call, ok := ex.Tuple.(*ssa.Call); ok && staticCallee(&call.Call) == next {
								return "VALID"
							}
						}
					}
					return ""
				},
				Int:  map[string]int64{"LEN": 1},
				Bool: map[string]bool{"VALID": false},
			}
			e := &PPA{Cond: at.Cond, Watch: func(ev *Ev) bool { return strings.HasPrefix(ev.Label, "select:") }}
			e.Run(Next)
			c.Paths += len(e.Paths)
			c.Scen++
			bad := 0
			for i := range e.Paths {
				p := &e.Paths[i]
				if len(p.Trace) == 0 {
					continue
				}
				last := &p.Trace[len(p.Trace)-1]
				if len(last.Args) > 0 && loadOfField(last.Args[0].V, fClosed) {
					bad++
					c.Bad("C05.drain", fnName(Next), "closed reported while items are pending", P.Pos(Next.Pos()), "path: "+p.String()+" => "+retString(p.Rets))
				}
			}
			c.Check(bad == 0 && e.Truncated > 0, "C05.drain", fnName(Next), "closed arm with pending items retries", P.Pos(Next.Pos()), fmt.Sprintf("%d terminating paths via the closed arm, %d retrying (truncated) paths", bad, e.Truncated))
		}
	}
	// ---- poll
	{
		c.Analysed(fnName(poll))
		isRecv := func(ev *Ev) bool { return evIsStream(ev, "Recv") }
		eof := P.SSA.ImportedPackage("io")
		var eofG *ssa.Global
		if eof != nil {
			eofG, _ = eof.Members["EOF"].(*ssa.Global)
		}
		for _, sc := range []struct {
			name       string
			isEOF, err bool
		}{{"trigger received", false, false}, {"io.EOF", true, true}, {"other error", false, true}} {
			at := &Atoms{
				Class: func(e *PPA, st *State, rv RV) string {
					rv = e.Resolve(st, rv)
					switch v := rv.V.(type) {
					case *ssa.BinOp:
						if v.Op == token.EQL || v.Op == token.NEQ {
							for _, pr := range [][2]ssa.Value{{v.X, v.Y}, {v.Y, v.X}} {
								if u, ok := pr[1].(*ssa.UnOp); ok && u.X == ssa.Value(eofG) && eofG != nil {
									if v.Op == token.EQL {
										return "ISEOF"
									}
									return "!ISEOF"
								}
							}
						}
					case *ssa.Extract:
						if call, ok := v.Tuple.(*ssa.Call); ok && v.Index == 1 && isStreamInvoke(&call.Call, "Recv") {
							return "RERR"
						}
					case *ssa.Call:
						if calleeName(&v.Call) == "(*coalesce.Queue).IsClosed" {
							return "QCLOSED"
						}
					}
					return ""
				},
				Bool: map[string]bool{"ISEOF": sc.isEOF, "RERR": sc.err, "QCLOSED": false},
			}
			e := &PPA{Cond: at.Cond, MaxVisits: 3, Watch: func(ev *Ev) bool { return isProc(ev) || isRecv(ev) || strings.HasPrefix(ev.Label, "send:") }}
			e.Run(poll)
			c.Paths += len(e.Paths)
			c.Scen++
			if sc.name == "trigger received" {
				// all paths are truncated (infinite loop); inspect the truncated prefixes through a bounded variant:
				// the loop body must contain exactly one walk between consecutive Recvs.
				c.Check(len(e.Paths) == 0 && e.Truncated > 0, "C05.poll", fnName(poll), "loop continues after a trigger", P.Pos(poll.Pos()), fmt.Sprintf("%d returning paths, %d continuing", len(e.Paths), e.Truncated))
				continue
			}
			n := 0
			for i := range e.Paths {
				p := &e.Paths[i]
				n++
				l := p.Labels()
				ok := len(l) == 3 && l[0] == "call:"+fnName(procSub) && isRecv(&p.Trace[1]) && strings.HasPrefix(l[2], "send:") && strings.Contains(l[2], "errC")
				if ok {
					v := p.Trace[2].Args[1].V
					if sc.isEOF {
						ok = isNilConst(v)
					} else {
						ex, isEx := v.(*ssa.Extract)
						ok = isEx && ex.Index == 1 && ex.Tuple == ssa.Value(p.Trace[1].In.(*ssa.Call))
					}
				}
				c.Check(ok, "C05.poll", fnName(poll), sc.name+" ends the RPC", P.Pos(poll.Pos()), "path: "+p.String())
			}
			c.Floor("C05.poll/"+sc.name, n, 1)
		}
		// one walk per trigger: structure of the loop body
		e := &PPA{MaxVisits: 3, Cond: func(e *PPA, st *State, rv RV) (bool, bool) {
			if call, ok := rv.V.(*ssa.Call); ok && calleeName(&call.Call) == "(*coalesce.Queue).IsClosed" {
				return false, true
			}
			return false, false
		}, Watch: func(ev *Ev) bool { return isProc(ev) || isRecv(ev) }}
		e.Run(poll)
		c.Paths += len(e.Paths)
		n := 0
		for i := range e.Paths {
			p := &e.Paths[i]
			n++
			// pattern: proc (recv proc)* recv
			ok := len(p.Trace) >= 2 && isProc(&p.Trace[0])
			for j := 1; j < len(p.Trace); j++ {
				if j%2 == 1 && !isRecv(&p.Trace[j]) {
					ok = false
				}
				if j%2 == 0 && !isProc(&p.Trace[j]) {
					ok = false
				}
			}
			ok = ok && isRecv(&p.Trace[len(p.Trace)-1])
			c.Check(ok, "C05.poll", fnName(poll), "initial walk, then exactly one walk per trigger", P.Pos(poll.Pos()), "path: "+p.String())
		}
		c.Floor("C05.poll/loop-paths", n, 2)
	}
	markerPlacement(c, "C05.one-sync")
	// ---- visitor total
	{
		cacheQuery := P.Method("cache", "Cache", "Query")
		found := 0
		for _, vf := range walkVisitors(P, procSub, cacheQuery) {
			{
				found++
				leafP := leafParam(vf)
				c.Analysed(fnName(vf))
				e := &PPA{
					Cond: func(e *PPA, st *State, rv RV) (bool, bool) {
						// `err != nil` on the captured error variable: no error pending
						if b, ok := rv.V.(*ssa.BinOp); ok && (b.Op == token.NEQ || b.Op == token.EQL) && isNilConst(b.Y) && types.Identical(b.X.Type(), types.Universe.Lookup("error").Type()) {
							return b.Op == token.EQL, true
						}
						return false, false
					},
					Watch: isQueueInsert,
				}
				e.Run(vf)
				c.Paths += len(e.Paths)
				for i := range e.Paths {
					p := &e.Paths[i]
					ins := p.Count(isQueueInsert)
					rc := ""
					if len(p.Rets) == 1 {
						rc = retClass(p.Rets[0])
					}
					okArg := ins == 1 && leafP != nil && frameResolve(RV{p.Trace[0].Args[1].F, unwrap(p.Trace[0].Args[1].V)}).V == leafP
					c.Check(okArg && rc == "nil", "C05.visitor-total", fnName(vf), "every visited leaf is inserted while no error is pending", P.Pos(vf.Pos()), fmt.Sprintf("inserts=%d returns %s", ins, rc))
				}
			}
		}
		c.Floor("C05.visitor-total/visitors", found, 1)
	}
	completePathTable(c, "C05.complete-path")
	// ---- cache lock discipline on the walk path
	walkLocks(c, "C05.walk-locks")
}

// walkLocks: lock discipline of Cache.mu / Cache.targets (shared by the properties that depend on the
// all-targets walk not wedging the cache).
func walkLocks(c *Ctx, rule string) {
	P := c.P
	fTargets := P.Field("cache", "Cache", "targets")
	fCMu := P.Field("cache", "Cache", "mu")
	if fTargets == nil || fCMu == nil {
		c.Unresolved(rule, "cache.Cache.targets / mu")
		return
	}
	la := NewLockAudit(c, "cache", map[*types.Var]*types.Var{fTargets: fCMu}, 2)
	la.Report(func(kind string) string { return rule })
	c.Check(la.Accesses >= 8, rule, "cache", "guarded accesses analysed", "", fmt.Sprintf("%d accesses of Cache.targets on paths, %d directly under Cache.mu", la.Accesses, la.Guarded))
}

// completePathTable: decision table of path.CompletePath (shared by C05 and C19).
func completePathTable(c *Ctx, rule string) {
	P := c.P
	cp := P.Func("path", "CompletePath")
	ts := P.Func("path", "ToStrings")
	if cp == nil || ts == nil {
		c.Unresolved(rule, "path.CompletePath / path.ToStrings")
		return
	}
	c.Analysed(fnName(cp))
	prefixP, pathP := ssa.Value(param(cp, 0)), ssa.Value(param(cp, 1))
	cls := func(e *PPA, st *State, rv RV) string {
		rv = e.Resolve(st, rv)
		switch v := rv.V.(type) {
		case *ssa.BinOp:
			if v.Op != token.NEQ && v.Op != token.EQL {
				return ""
			}
			if s, ok := constString(v.Y); ok && s == "" {
				x := e.Resolve(st, RV{rv.F, v.X})
				// oPre + oPath != "": one of the two origins is set
				if cat, ok := x.V.(*ssa.BinOp); ok && cat.Op == token.ADD {
					l, r2 := e.Resolve(st, RV{x.F, cat.X}).V, e.Resolve(st, RV{x.F, cat.Y}).V
					if isCallNamed(l, "(*proto/gnmi.Path).GetOrigin") && isCallNamed(r2, "(*proto/gnmi.Path).GetOrigin") {
						if v.Op == token.EQL {
							return "!OANY"
						}
						return "OANY"
					}
				}
				// cmp.Or(oPre, oPath) != "": by its contract the first non-zero argument - set iff one of the origins is
				if oc, ok := x.V.(*ssa.Call); ok && isCmpOrOfOrigins(e, st, RV{x.F, oc}) {
					if v.Op == token.EQL {
						return "!OANY"
					}
					return "OANY"
				}
				if call, ok := x.V.(*ssa.Call); ok && calleeName(&call.Call) == "(*proto/gnmi.Path).GetOrigin" {
					name := ""
					if call.Call.Args[0] == prefixP {
						name = "OPRE"
					} else if call.Call.Args[0] == pathP {
						name = "OPATH"
					}
					if name != "" {
						if v.Op == token.EQL {
							return "!" + name
						}
						return name
					}
				}
			}
		case *ssa.Call:
			if b, ok := v.Call.Value.(*ssa.Builtin); ok && b.Name() == "len" {
				x := e.Resolve(st, RV{rv.F, v.Call.Args[0]})
				if call, ok := x.V.(*ssa.Call); ok && staticCallee(&call.Call) == ts && call.Call.Args[0] == prefixP {
					return "PLEN"
				}
			}
		}
		return ""
	}
	// the order of what is appended to the result
	describe := func(p *Path, opre, opath bool, plen int64) string {
		var parts []string
		for i := range p.Trace {
			ev := &p.Trace[i]
			// the operands of a slices.Concat, classified when it was executed
			if ev.Label == "fact" && strings.HasPrefix(ev.Note, "part:") {
				switch part := strings.TrimPrefix(ev.Note, "part:"); part {
				case "":
				case "prefix-index":
					if plen > 0 {
						parts = append(parts, part)
					}
				default:
					parts = append(parts, part)
				}
				continue
			}
			if ev.Label != "builtin:append" || len(ev.Args) < 2 {
				continue
			}
			a := ev.Args[1].V
			switch {
			case isCallNamed(a, fnName(ts)):
				call := a.(*ssa.Call)
				if call.Call.Args[0] == prefixP {
					if plen > 0 { // an empty prefix index contributes nothing
						parts = append(parts, "prefix-index")
					}
				} else if call.Call.Args[0] == pathP {
					parts = append(parts, "path-index")
				} else {
					parts = append(parts, "index(?)")
				}
			default:
				// a one-element literal holding an origin
				s := "elem(" + Expr(a) + ")"
				if els := ev.Elems[1]; len(els) == 1 {
					// cmp.Or(prefix origin, path origin): the first of the two that is set
					if oc, ok := els[0].V.(*ssa.Call); ok && isCmpOrOfOrigins(nil, nil, RV{els[0].F, oc}) {
						fromPrefixFirst := cmpOrFirstIs(oc, prefixP)
						switch {
						case opre && fromPrefixFirst, opre && !opath:
							s = "prefix-origin"
						case opath:
							s = "path-origin"
						}
						parts = append(parts, s)
						continue
					}
					// the element as resolved on this path (a variable assigned from either origin)
					if call, ok := els[0].V.(*ssa.Call); ok && calleeName(&call.Call) == "(*proto/gnmi.Path).GetOrigin" {
						if call.Call.Args[0] == prefixP {
							s = "prefix-origin"
						} else {
							s = "path-origin"
						}
						parts = append(parts, s)
						continue
					}
				}
				if sl, ok := a.(*ssa.Slice); ok {
					if al, ok := sl.X.(*ssa.Alloc); ok {
						for _, r := range *al.Referrers() {
							if ia, ok := r.(*ssa.IndexAddr); ok {
								for _, rr := range *ia.Referrers() {
									if st, ok := rr.(*ssa.Store); ok {
										if call, ok := st.Val.(*ssa.Call); ok && calleeName(&call.Call) == "(*proto/gnmi.Path).GetOrigin" {
											if call.Call.Args[0] == prefixP {
												s = "prefix-origin"
											} else {
												s = "path-origin"
											}
										}
										// oPre + oPath with exactly one of them set is that one
										if cat, ok := st.Val.(*ssa.BinOp); ok && cat.Op == token.ADD && isCallNamed(cat.X, "(*proto/gnmi.Path).GetOrigin") && isCallNamed(cat.Y, "(*proto/gnmi.Path).GetOrigin") {
											switch {
											case opre && !opath:
												s = "prefix-origin"
											case opath && !opre:
												s = "path-origin"
											}
										}
									}
								}
							}
						}
					}
				}
				parts = append(parts, s)
			}
		}
		return strings.Join(parts, " + ")
	}
	for _, sc := range []struct {
		name        string
		opre, opath bool
		plen        int64
		wantErr     bool
		want        string
	}{
		{"origin in prefix and path", true, true, 0, true, ""},
		{"origin in prefix and path (prefix elems)", true, true, 1, true, ""},
		{"origin in path, elements in prefix", false, true, 1, true, ""},
		{"origin in prefix", true, false, 1, false, "prefix-origin + prefix-index + path-index"},
		{"origin in path, empty prefix", false, true, 0, false, "path-origin + path-index"},
		{"no origin", false, false, 1, false, "prefix-index + path-index"},
	} {
		at := &Atoms{Class: cls, Bool: map[string]bool{"OPRE": sc.opre, "OPATH": sc.opath, "OANY": sc.opre || sc.opath}, Int: map[string]int64{"PLEN": sc.plen}}
		e := &PPA{Cond: at.Cond, Watch: func(ev *Ev) bool { return ev.Label == "builtin:append" || ev.Label == "fact" },
			Probe: func(e *PPA, st *State, fr *Frame, in ssa.Instruction) {
				// slices.Concat(a, b, c): the result is a, b, c in order, on a fresh backing array
				call, ok := in.(*ssa.Call)
				if !ok || len(call.Call.Args) != 1 {
					return
				}
				if g := staticCallee(&call.Call); g == nil || pkgPathOf(g) != "slices" || !strings.HasPrefix(g.Name(), "Concat") {
					return
				}
				els, ok := e.sliceLitElems(st, e.Resolve(st, RV{fr, call.Call.Args[0]}))
				if !ok {
					e.emit(st, Ev{Label: "fact", In: in, F: fr, Note: "part:concat(?)"})
					return
				}
				for _, el := range els {
					r := e.Resolve(st, el)
					part := "elem(" + Expr(r.V) + ")"
					switch {
					case isNilConst(r.V):
						part = ""
					case isCallNamed(r.V, fnName(ts)):
						switch r.V.(*ssa.Call).Call.Args[0] {
						case prefixP:
							part = "prefix-index"
						case pathP:
							part = "path-index"
						default:
							part = "index(?)"
						}
					default:
						if one, ok := e.sliceLitElems(st, r); ok && len(one) == 1 {
							if oc, ok := e.Resolve(st, one[0]).V.(*ssa.Call); ok && calleeName(&oc.Call) == "(*proto/gnmi.Path).GetOrigin" {
								switch oc.Call.Args[0] {
								case prefixP:
									part = "prefix-origin"
								case pathP:
									part = "path-origin"
								}
							}
						}
					}
					e.emit(st, Ev{Label: "fact", In: in, F: fr, Note: "part:" + part})
				}
				e.emit(st, Ev{Label: "fact", In: in, F: fr, Note: "concat-result"})
			}}
		e.Run(cp)
		c.Paths += len(e.Paths)
		c.Scen++
		for i := range e.Paths {
			p := &e.Paths[i]
			if len(p.Rets) != 2 {
				continue
			}
			rc := retClass(p.Rets[1])
			if sc.wantErr {
				c.Check(rc != "nil" && retClass(p.Rets[0]) == "nil", rule, fnName(cp), sc.name, P.Pos(cp.Pos()), "returns ("+retClass(p.Rets[0])+", "+rc+")")
				continue
			}
			got := describe(p, sc.opre, sc.opath, sc.plen)
			// what is returned is the accumulated slice itself: the result of the last append on the path,
			// not something computed from it (filtered, re-sliced, converted)
			var lastApp ssa.Value
			for j := range p.Trace {
				if p.Trace[j].Label == "builtin:append" || (p.Trace[j].Label == "fact" && p.Trace[j].Note == "concat-result") {
					lastApp, _ = p.Trace[j].In.(ssa.Value)
				}
			}
			if lastApp != nil && p.Rets[0].V != lastApp {
				got += " then " + retClass(p.Rets[0])
			}
			c.Check(rc == "nil" && got == sc.want, rule, fnName(cp), sc.name, P.Pos(cp.Pos()), fmt.Sprintf("result = %s (want %s), error %s", got, sc.want, rc))
		}
		c.Check(len(e.Paths) == 1, rule, fnName(cp), sc.name+" (decided)", P.Pos(cp.Pos()), fmt.Sprintf("%d paths (1 = every condition folded)", len(e.Paths)))
	}
	// fresh result
	au := NewAliasAudit(P)
	c.Check(au.returnsFresh(cp), rule, fnName(cp), "result is built on a fresh slice (not aliased with an argument)", P.Pos(cp.Pos()), "")
}

// isCmpOrOfOrigins: v is cmp.Or(x.GetOrigin(), y.GetOrigin()) (the variadic arguments of the generic instance).
func isCmpOrOfOrigins(e *PPA, st *State, rv RV) bool {
	call, ok := rv.V.(*ssa.Call)
	if !ok {
		return false
	}
	g := staticCallee(&call.Call)
	if g == nil || pkgPathOf(g) != "cmp" || !strings.HasPrefix(g.Name(), "Or") || len(call.Call.Args) != 1 {
		return false
	}
	els, ok := literalElems(call.Call.Args[0])
	if !ok || len(els) != 2 {
		return false
	}
	for _, el := range els {
		if !isCallNamed(unwrap(el), "(*proto/gnmi.Path).GetOrigin") {
			return false
		}
	}
	return true
}

// cmpOrFirstIs: the first argument of cmp.Or(...) is GetOrigin() of p.
func cmpOrFirstIs(call *ssa.Call, p ssa.Value) bool {
	els, ok := literalElems(call.Call.Args[0])
	if !ok || len(els) == 0 {
		return false
	}
	c0, ok := unwrap(els[0]).(*ssa.Call)
	return ok && len(c0.Call.Args) == 1 && c0.Call.Args[0] == p
}
