package main

import (
	"fmt"
	"go/token"
	"go/types"
	"strings"

	"golang.org/x/tools/go/ssa"
)

func init() {
	register(&propDef{
		ID:       "C20",
		Explain:  "Decided for the synthetic target's generator (structural necessary conditions): all randomness comes from *rand.Rand objects created by rand.New(rand.NewSource(seed)) with the queue seed or the value's own seed, no package-level math/rand, no crypto/rand, time.Now only on the seed==0 edge of queue.New, and no map iteration order reaches the emitted sequence (same config + same non-zero seed => same draws, single goroutine); range generators clamp: the stored value is the maximum when above it, the minimum when below it, the drawn value otherwise (evaluated on all boundary combinations, int/uint/double); timestamp deltas are refused when min>max or min<0, so steps are non-negative, and the new timestamp is t + Int63n(max-min+1) + min; repeat boundaries: Repeat==1 drops the value without touching the message, Repeat>1 decrements the clone (never the configuration object), Repeat==0 leaves it, and Next re-adds a value only while it is alive; Next returns the head element read before it is advanced; unless disabled, a sync value with repeat 1 stamped with the same queue's latest timestamp is added after the queue is built; every generator/convertor covers all value kinds or returns an error/nil explicitly. Also decided: UpdateQueue.Next removes the returned entry from the head before it re-inserts the regenerated value (addValue's placement search never sees the entry being returned). Round-3 addition: a value computed from a random draw never reaches .Value without passing both range comparisons. Also decided: the placement search of addValue replayed with 0..3 queued buckets and the new timestamp at every position (strictly before bucket k => new bucket at index k, equal to bucket k => joins bucket k, the search terminates) - the per-call core of 'non-decreasing timestamp order'. Round-4 additions: the range gate of update{Int,Uint,Double}Value replayed over the orderings of value/minimum/maximum (closed range accepted, outside refused); FixedQueue never stores into the caller's response slice it shares; slices.BinarySearchFunc in addValue is taken by contract with the comparison function's orientation decided. Round-5 addition: every value that stays alive gets a new timestamp in nextValue, the payload-free delete and sync markers included. Round-6 additions: UpdateQueue.Next and Add are one critical section each (the head that is returned is the head that is popped); the fake client writes the subscriber's target only into a proto.Clone or a freshly built response, never into a part shared with the configuration. Round-7 addition: the timestamp buckets of the queue never share a backing array (no two-index sub-slice is stored as a bucket; addValue appends in place).",
		NotCover: "ordering with more than 3 queued buckets (the search is replayed exhaustively for 0..3 buckets and every position of the new timestamp; larger queues by the same arms), exact repeat counts when Add is called during iteration, overflow of max-min+1, concurrent use (Latest reads without the mutex)",
		Run:      runC20,
	})
}

func runC20(c *Ctx) {
	P := c.P
	qNew := P.Func("testing/fake/queue", "New")
	newValue := P.Func("testing/fake/queue", "newValue")
	nextValue := P.Method("testing/fake/queue", "value", "nextValue")
	updTS := P.Method("testing/fake/queue", "value", "updateTimestamp")
	Next := P.Method("testing/fake/queue", "UpdateQueue", "Next")
	addValue := P.Method("testing/fake/queue", "UpdateQueue", "addValue")
	reset := P.Method("testing/fake/gnmi", "Client", "reset")
	for n, ok := range map[string]bool{"queue.New": qNew != nil, "queue.newValue": newValue != nil, "queue.(*value).nextValue": nextValue != nil, "queue.(*value).updateTimestamp": updTS != nil,
		"queue.(*UpdateQueue).Next": Next != nil, "queue.(*UpdateQueue).addValue": addValue != nil, "fake/gnmi.(*Client).reset": reset != nil} {
		if !ok {
			c.Unresolved("C20.anchors", "testing/fake/"+n)
		}
	}
	if len(c.Unres) > 0 {
		return
	}
	c.Rule("C20.seeded", "packages testing/fake/queue and testing/fake/gnmi (non-test): no call of a package-level math/rand function other than rand.New/rand.NewSource, no crypto/rand; every *rand.Rand method call has as receiver a field `r` of a generator object; rand.NewSource is seeded from the seed parameter or the value's Seed field; time.Now in package queue only on the true edge of seed == 0 in New; no range over a map in package queue")
	c.Rule("C20.clamp", "update{Int,Uint,Double}Value, range arm: on every path the value stored into .Value is Maximum when the drawn value > Maximum, Minimum when < Minimum, the drawn value otherwise")
	c.Rule("C20.delta", "updateTimestamp: nil timestamp, t<0, delta_min>delta_max or delta_min<0 => error and no store; otherwise Timestamp = t + r.Int63n(max-min+1) + min")
	c.Rule("C20.repeat", "nextValue: Repeat==1 => v.v=nil, nil returned, message untouched; Repeat>1 => Repeat-1 stored after (into) the proto.Clone; Repeat==0 => Repeat not written; Next re-adds the value iff v.v != nil")
	c.Rule("C20.head", "UpdateQueue.Next returns q[0][0].v read before nextValue is called; an empty queue returns (nil, nil)")
	c.Rule("C20.sync", "fake/gnmi (*Client).reset: with sync enabled, after queue.New a value {Timestamp: q.Latest() of that queue, Repeat: 1, Value_Sync} is added to that queue; the fixed-queue arm adds syncResp")
	c.Rule("C20.kinds", "nextValue, ValueOf, TypedValueOf and valToResp have an arm for every implementer of the fake value oneof they are responsible for, or an explicit default returning an error / nil")

	// ---- seeded
	{
		nDraw, nSrc := 0, 0
		for _, pk := range []string{"testing/fake/queue", "testing/fake/gnmi"} {
			for _, f := range P.PkgFuncs(pk) {
				if P.InTestFile(f) {
					continue
				}
				c.Analysed(fnName(f))
				for _, ci := range callsIn(f) {
					cal := staticCallee(ci.Common())
					if cal == nil {
						continue
					}
					pp := pkgPathOf(cal)
					switch {
					case pp == "crypto/rand":
						c.Bad("C20.seeded", fnName(f), "call of crypto/rand."+cal.Name(), P.Pos(ci.Pos()), "unseedable randomness")
					case pp == "math/rand" || pp == "math/rand/v2":
						if cal.Signature.Recv() == nil {
							if cal.Name() == "New" || cal.Name() == "NewSource" {
								if cal.Name() == "NewSource" {
									nSrc++
									arg := ci.Common().Args[0]
									okSeed := false
									desc := Expr(arg)
									if p, ok := arg.(*ssa.Parameter); ok && strings.Contains(strings.ToLower(p.Name()), "seed") {
										okSeed = true
									}
									if phi, ok := arg.(*ssa.Phi); ok {
										// seed := param, replaced by time.Now on the zero edge
										okSeed = true
										for _, e := range phi.Edges {
											if _, isP := e.(*ssa.Parameter); isP {
												continue
											}
											if call, ok := e.(*ssa.Call); ok && calleeName(&call.Call) == "(time.Time).UnixNano" {
												continue
											}
											okSeed = false
										}
									}
									if u, ok := arg.(*ssa.UnOp); ok && fieldOf(u.X) != nil && fieldOf(u.X).Name() == "Seed" {
										okSeed = true
									}
									c.Check(okSeed, "C20.seeded", fnName(f), "rand.NewSource("+desc+")", P.Pos(ci.Pos()), "the source must be seeded from the configured seed")
								}
								continue
							}
							c.Bad("C20.seeded", fnName(f), "package-level math/rand."+cal.Name(), P.Pos(ci.Pos()), "the global generator is not reproducible")
							continue
						}
						// method on *rand.Rand
						nDraw++
						recv := ci.Common().Args[0]
						okRecv := false
						if u, ok := recv.(*ssa.UnOp); ok && fieldOf(u.X) != nil && vname(fieldOf(u.X)) == "r" {
							okRecv = true
						}
						// a helper that is handed the source: judged at every call site of the helper
						if pr, ok := recv.(*ssa.Parameter); ok && !isExportedFn(f) {
							idx := -1
							for i, q := range f.Params {
								if q == pr {
									idx = i
								}
							}
							nSites, allOK := 0, idx >= 0
							for _, h := range P.PkgFuncs(pk) {
								if P.InTestFile(h) {
									continue
								}
								for _, hc := range callsIn(h) {
									g := staticCallee(hc.Common())
									if g == nil || (g != f && g.Origin() != f && (f.Origin() == nil || g.Origin() != f.Origin())) || idx >= len(hc.Common().Args) {
										continue
									}
									nSites++
									a := hc.Common().Args[idx]
									if u, ok := a.(*ssa.UnOp); !ok || fieldOf(u.X) == nil || vname(fieldOf(u.X)) != "r" {
										allOK = false
									}
								}
							}
							okRecv = allOK && nSites > 0
						}
						c.Check(okRecv, "C20.seeded", fnName(f), "draw "+Expr(recv)+"."+cal.Name(), P.Pos(ci.Pos()), "receiver must be the generator's own seeded *rand.Rand")
					case pp == "time" && cal.Name() == "Now" && pk == "testing/fake/queue":
						okEdge := false
						if f == qNew {
							for _, b := range f.Blocks {
								ifi, ok := b.Instrs[len(b.Instrs)-1].(*ssa.If)
								if !ok {
									continue
								}
								bo, ok := ifi.Cond.(*ssa.BinOp)
								if !ok || bo.Op != token.EQL {
									continue
								}
								if k, ok := constInt(bo.Y); ok && k == 0 {
									if p, ok := bo.X.(*ssa.Parameter); ok && strings.Contains(strings.ToLower(p.Name()), "seed") && b.Succs[0] == ci.Block() {
										okEdge = true
									}
								}
							}
						}
						c.Check(okEdge, "C20.seeded", fnName(f), "time.Now()", P.Pos(ci.Pos()), "wall-clock time may only replace a zero seed")
					}
				}
			}
		}
		c.Floor("C20.seeded/draw-sites", nDraw, 4)
		c.Floor("C20.seeded/sources", nSrc, 2)
		var fns []*ssa.Function
		for _, f := range P.PkgFuncs("testing/fake/queue") {
			if !P.InTestFile(f) {
				fns = append(fns, f)
			}
		}
		n, _ := mapOrderAudit(c, "C20.seeded", fns, true)
		c.Note("map ranges in package queue: %d", n)
	}
	// ---- clamp
	for _, name := range []string{"updateIntValue", "updateUintValue", "updateDoubleValue"} {
		f := P.Method("testing/fake/queue", "value", name)
		if f == nil {
			c.Unresolved("C20.clamp", "queue.(*value)."+name)
			continue
		}
		c.Analysed(fnName(f))
		side := func(v ssa.Value) string {
			if u, ok := v.(*ssa.UnOp); ok && u.Op == token.MUL {
				if fl := fieldOf(u.X); fl != nil {
					switch fl.Name() {
					case "Maximum":
						return "MAX"
					case "Minimum":
						return "MIN"
					case "Value":
						return "V"
					case "DeltaMin":
						return "DMIN"
					case "DeltaMax":
						return "DMAX"
					}
				}
			}
			if call, ok := v.(*ssa.Call); ok {
				switch {
				case strings.HasSuffix(calleeName(&call.Call), ").GetMaximum"):
					return "MAX"
				case strings.HasSuffix(calleeName(&call.Call), ").GetMinimum"):
					return "MIN"
				}
			}
			if _, isC := v.(*ssa.Const); isC {
				return "K"
			}
			return "NEW"
		}
		cls := func(e *PPA, st *State, rv RV) string {
			b, ok := rv.V.(*ssa.BinOp)
			if !ok {
				return ""
			}
			x, y := side(e.Resolve(st, RV{rv.F, b.X}).V), side(e.Resolve(st, RV{rv.F, b.Y}).V)
			switch b.Op {
			case token.GTR:
				return x + ">" + y
			case token.LSS:
				return x + "<" + y
			}
			return ""
		}
		storeVal := func(ev *Ev) bool {
			return strings.HasPrefix(ev.Label, "store:") && strings.HasSuffix(ev.Label, "Value.Value")
		}
		n := 0
		for _, sc := range []struct {
			gt, lt bool
			want   string
		}{{true, false, "MAX"}, {false, true, "MIN"}, {false, false, "NEW"}} {
			at := &Atoms{Class: cls, Bool: map[string]bool{"NEW>MAX": sc.gt, "NEW<MIN": sc.lt, "V>MAX": false, "V<MIN": false, "MIN>MAX": false, "DMIN>DMAX": false,
				"MAX<MIN": false, "MIN<MIN": false, "MAX>MAX": false, "MIN>MAX ": false, "NEW<K": false}}
			e := &PPA{Cond: at.Cond, TraceBranches: true, Watch: func(ev *Ev) bool { return storeVal(ev) || ev.Label == "if" }}
			e.Run(f)
			c.Paths += len(e.Paths)
			c.Scen++
			for i := range e.Paths {
				p := &e.Paths[i]
				// only paths that went through the clamp comparisons (the range arm)
				clamp := p.Has(func(ev *Ev) bool {
					return ev.Label == "if" && len(ev.Args) > 0 && (cls(e, newState(), ev.Args[0]) == "NEW>MAX" || cls(e, newState(), ev.Args[0]) == "NEW<MIN")
				})
				si := p.Index(0, storeVal)
				if si >= 0 && !clamp && drawnArith(p.Trace[si].Args[1].V, 0) {
					// computed from a random draw (not an element picked from an option list), yet stored
					// without passing the two range comparisons
					c.Bad("C20.clamp", fnName(f), "a drawn value reaches .Value without the range clamps", P.Pos(posOf(p.Trace[si].In)), "stores "+Expr(p.Trace[si].Args[1].V)+"; path: "+p.String())
				}
				if !clamp || si < 0 {
					continue
				}
				n++
				got := side(p.Trace[si].Args[1].V)
				if got == "K" || got == "V" {
					got = "NEW"
				}
				c.Check(got == sc.want, "C20.clamp", fnName(f), fmt.Sprintf("drawn>max=%v drawn<min=%v", sc.gt, sc.lt), P.Pos(f.Pos()), fmt.Sprintf("stores %s (%s), want %s", got, Expr(p.Trace[si].Args[1].V), sc.want))
			}
		}
		c.Floor("C20.clamp/"+name, n, 3)
	}
	// ---- the fixed generator plays its configuration without writing into it
	nextAtomic(c, "C20.next-atomic")
	configIntact(c, "C20.config-intact")
	bucketsDisjoint(c, "C20.buckets-disjoint")
	c.Rule("C20.fixed-intact", "FixedQueue: NewFixed keeps the caller's response slice (the configuration every Subscribe/Poll is reset from), so no FixedQueue method stores into an element of resp or through a response taken from it - unless NewFixed copies the slice first; a second generator built from the same configuration must find it unchanged")
	{
		fResp := P.Field("testing/fake/queue", "FixedQueue", "resp")
		newFixed := P.Func("testing/fake/queue", "NewFixed")
		if fResp == nil || newFixed == nil {
			c.Unresolved("C20.fixed-intact", "queue.FixedQueue.resp / queue.NewFixed")
		} else {
			c.Analysed(fnName(newFixed))
			// does NewFixed store its parameter itself (shared) or a copy?
			shared := false
			instrs(newFixed, func(in ssa.Instruction) {
				if st, ok := in.(*ssa.Store); ok && fieldOf(st.Addr) == fResp {
					src := map[baseKind][]ssa.Value{}
					NewAliasAudit(P).sources(st.Val, map[ssa.Value]bool{}, src)
					if len(src[baseForeign]) > 0 {
						shared = true
					}
					for _, ch := range src[baseChain] {
						if !NewAliasAudit(P).rootedFresh(ch, map[ssa.Value]bool{}) {
							shared = true
						}
					}
				}
			})
			n := 0
			for _, f := range P.PkgFuncs("testing/fake/queue") {
				if P.InTestFile(f) {
					continue
				}
				instrs(f, func(in ssa.Instruction) {
					st, ok := in.(*ssa.Store)
					if !ok {
						return
					}
					// address rooted in an element of q.resp: q.resp[i] = … or q.resp[i].X = …
					v := st.Addr
					through := false
					for i := 0; i < 12; i++ {
						switch x := v.(type) {
						case *ssa.FieldAddr:
							v = x.X
							continue
						case *ssa.UnOp:
							if x.Op == token.MUL {
								if fieldOf(x.X) == fResp {
									through = true
								}
								v = x.X
								continue
							}
						case *ssa.IndexAddr:
							v = x.X
							continue
						case *ssa.Slice:
							v = x.X
							continue
						}
						break
					}
					if fieldOf(st.Addr) == fResp {
						return // q.resp = … replaces the queue's own slice header
					}
					if through {
						n++
						c.Check(!shared, "C20.fixed-intact", fnName(f), "store into the configured responses: "+Expr(st.Addr), P.Pos(in.Pos()), "NewFixed keeps the caller's slice: the write is visible to the configuration and to every later generator built from it")
					}
				})
			}
			c.OK("C20.fixed-intact", fnName(newFixed), "stores through FixedQueue.resp inspected", P.Pos(newFixed.Pos()), fmt.Sprintf("NewFixed shares the caller's slice=%v; %d element stores", shared, n))
		}
	}
	// ---- range gate: a current value anywhere in [minimum, maximum] (bounds included) is accepted
	c.Rule("C20.range-gate", "update{Int,Uint,Double}Value, range arm, replayed over the orderings of the current value, Minimum and Maximum: a value inside the closed range (at the minimum, strictly inside, at the maximum - the clamp itself produces the bounds) is never refused; a value outside it, or Minimum > Maximum, returns an error without storing")
	for _, name := range []string{"updateIntValue", "updateUintValue", "updateDoubleValue"} {
		f := P.Method("testing/fake/queue", "value", name)
		if f == nil {
			c.Unresolved("C20.range-gate", "queue.(*value)."+name)
			continue
		}
		opClass := func(e *PPA, st *State, rv RV) string {
			r := e.Resolve(st, rv)
			fieldName := ""
			switch v := r.V.(type) {
			case *ssa.UnOp:
				if v.Op == token.MUL {
					if fa, ok := v.X.(*ssa.FieldAddr); ok {
						if n, ok := deref(fa.X.Type()).(*types.Named); ok && n.Obj().Pkg() != nil && strings.HasSuffix(n.Obj().Pkg().Path(), "testing/fake/proto") {
							fieldName = vname(fieldOf(fa))
						}
					}
				}
			case *ssa.Call:
				if g := staticCallee(&v.Call); g != nil && isProtoGetter(g) {
					fieldName = strings.TrimPrefix(g.Name(), "Get")
				}
			}
			switch fieldName {
			case "Value":
				return "V"
			case "Minimum":
				return "MIN"
			case "Maximum":
				return "MAX"
			case "DeltaMin":
				return "DMIN"
			case "DeltaMax":
				return "DMAX"
			}
			return ""
		}
		storeVal := func(ev *Ev) bool {
			return strings.HasPrefix(ev.Label, "store:") && strings.HasSuffix(ev.Label, "Value.Value")
		}
		n := 0
		for _, sc := range []struct {
			name           string
			vmin, vmax, mm int // sign(V-MIN), sign(V-MAX), sign(MIN-MAX)
			accept         bool
		}{
			{"value at the minimum", 0, -1, -1, true},
			{"value strictly inside the range", 1, -1, -1, true},
			{"value at the maximum", 1, 0, -1, true},
			{"minimum = maximum = value", 0, 0, 0, true},
			{"value below the minimum", -1, -1, -1, false},
			{"value above the maximum", 1, 1, -1, false},
			{"minimum above maximum", 1, -1, 1, false},
		} {
			at := &Atoms{Class: opClass, Rel: map[[2]string]int{{"V", "MIN"}: sc.vmin, {"V", "MAX"}: sc.vmax, {"MIN", "MAX"}: sc.mm, {"DMIN", "DMAX"}: -1}}
			e := &PPA{Cond: at.Cond, TraceBranches: true, Watch: func(ev *Ev) bool { return storeVal(ev) || ev.Label == "if" }}
			e.Run(f)
			c.Paths += len(e.Paths)
			c.Scen++
			for i := range e.Paths {
				p := &e.Paths[i]
				if p.End != "return" || len(p.Rets) != 1 {
					continue
				}
				// the range arm: a decision over the value and the bounds was taken on this path
				gate := p.Has(func(ev *Ev) bool {
					if ev.Label != "if" || len(ev.Args) == 0 {
						return false
					}
					b, ok := ev.Args[0].V.(*ssa.BinOp)
					if !ok {
						return false
					}
					st := newState()
					x, y := opClass(e, st, RV{ev.Args[0].F, b.X}), opClass(e, st, RV{ev.Args[0].F, b.Y})
					in := func(s string) bool { return s == "V" || s == "MIN" || s == "MAX" }
					return in(x) && in(y)
				})
				if !gate {
					continue
				}
				n++
				rc := retClass(p.Rets[0])
				stored := p.Has(storeVal)
				if sc.accept {
					c.Check(rc == "nil" && stored, "C20.range-gate", fnName(f), sc.name+": accepted", P.Pos(f.Pos()), fmt.Sprintf("returns %s, new value stored=%v", rc, stored))
				} else {
					c.Check(rc != "nil" && !stored, "C20.range-gate", fnName(f), sc.name+": refused", P.Pos(f.Pos()), fmt.Sprintf("returns %s, new value stored=%v", rc, stored))
				}
			}
		}
		c.Floor("C20.range-gate/"+name, n, 7)
	}
	// ---- delta
	{
		c.Analysed(fnName(updTS))
		fld := func(v ssa.Value) string {
			if u, ok := v.(*ssa.UnOp); ok && u.Op == token.MUL {
				if fl := fieldOf(u.X); fl != nil {
					return fl.Name()
				}
			}
			if _, ok := v.(*ssa.Const); ok {
				return "K"
			}
			return "?"
		}
		cls := func(e *PPA, st *State, rv RV) string {
			r := e.Resolve(st, rv)
			b, ok := r.V.(*ssa.BinOp)
			if !ok {
				return ""
			}
			x, y := fld(e.Resolve(st, RV{r.F, b.X}).V), fld(e.Resolve(st, RV{r.F, b.Y}).V)
			if isNilConst(b.Y) {
				if b.Op == token.EQL {
					return "TSNIL"
				}
				return "!TSNIL"
			}
			switch b.Op {
			case token.GTR:
				return x + ">" + y
			case token.LSS:
				return x + "<" + y
			}
			return ""
		}
		isStore := func(ev *Ev) bool {
			return strings.HasSuffix(ev.Label, "Timestamp.Timestamp") && strings.HasPrefix(ev.Label, "store:")
		}
		for _, sc := range []struct {
			name                      string
			tsnil, tneg, mingt, minlt bool
			ok                        bool
		}{
			{"timestamp missing", true, false, false, false, false},
			{"negative timestamp", false, true, false, false, false},
			{"delta_min > delta_max", false, false, true, false, false},
			{"delta_min < 0", false, false, false, true, false},
			{"valid", false, false, false, false, true},
		} {
			at := &Atoms{Class: cls, Bool: map[string]bool{"TSNIL": sc.tsnil, "Timestamp<K": sc.tneg, "DeltaMin>DeltaMax": sc.mingt, "DeltaMin<K": sc.minlt}}
			e := &PPA{Cond: at.Cond, Watch: func(ev *Ev) bool { return isStore(ev) || strings.Contains(ev.Label, "rand.Rand).") }}
			e.Run(updTS)
			c.Paths += len(e.Paths)
			c.Scen++
			n := 0
			for i := range e.Paths {
				p := &e.Paths[i]
				n++
				rc := retClass(p.Rets[0])
				if !sc.ok {
					c.Check(rc != "nil" && !p.Has(isStore), "C20.delta", fnName(updTS), sc.name+" is refused", P.Pos(updTS.Pos()), "returns "+rc+"; path: "+p.String())
					continue
				}
				si := p.Index(0, isStore)
				okExpr := false
				if si >= 0 {
					ex := Expr(p.Trace[si].Args[1].V)
					okExpr = strings.Contains(ex, "Int63n(((") && strings.Contains(ex, "DeltaMax - ") && strings.Contains(ex, "DeltaMin) + 1)") && strings.HasSuffix(ex, "DeltaMin)")
				}
				c.Check(rc == "nil" && si >= 0 && okExpr, "C20.delta", fnName(updTS), "valid deltas: t + Int63n(max-min+1) + min", P.Pos(updTS.Pos()), "stores "+exprAt(p, si))
			}
			c.Check(n >= 1, "C20.delta", fnName(updTS), sc.name+" (paths)", P.Pos(updTS.Pos()), fmt.Sprintf("%d paths", n))
		}
	}
	// ---- repeat
	{
		c.Analysed(fnName(nextValue))
		cls := func(e *PPA, st *State, rv RV) string {
			r := e.Resolve(st, rv)
			if u, ok := r.V.(*ssa.UnOp); ok && u.Op == token.MUL {
				if fl := fieldOf(u.X); fl != nil && fl.Name() == "Repeat" {
					return "REPEAT"
				}
			}
			return ""
		}
		isClone := func(ev *Ev) bool { return ev.Label == "call:google.golang.org/protobuf/proto.Clone" }
		isRepStore := func(ev *Ev) bool {
			return strings.HasPrefix(ev.Label, "store:") && strings.HasSuffix(ev.Label, "Value.Repeat")
		}
		isVNil := func(ev *Ev) bool { return ev.Label == "store:queue.value.v" && isNilConst(ev.Args[1].V) }
		for _, rep := range []int64{0, 1, 2} {
			at := &Atoms{Class: cls, Int: map[string]int64{"REPEAT": rep}}
			e := &PPA{Cond: at.Cond, Watch: func(ev *Ev) bool { return isClone(ev) || isRepStore(ev) || ev.Label == "store:queue.value.v" }}
			e.Run(nextValue)
			c.Paths += len(e.Paths)
			c.Scen++
			for i := range e.Paths {
				p := &e.Paths[i]
				ci, ri := p.Index(0, isClone), p.Index(0, isRepStore)
				var ok bool
				switch rep {
				case 1:
					ok = p.Has(isVNil) && ci < 0 && ri < 0 && retClass(p.Rets[0]) == "nil"
				case 2:
					ok = ci >= 0 && ri > ci && !p.Has(isVNil)
					if ok {
						b, isB := p.Trace[ri].Args[1].V.(*ssa.BinOp)
						k := int64(0)
						if isB {
							k, _ = constInt(b.Y)
						}
						ok = isB && b.Op == token.SUB && k == 1
					}
				case 0:
					ok = ci >= 0 && ri < 0 && !p.Has(isVNil)
				}
				c.Check(ok, "C20.repeat", fnName(nextValue), fmt.Sprintf("Repeat=%d", rep), P.Pos(nextValue.Pos()), fmt.Sprintf("clone@%d repeat-store@%d dropped=%v; path: %s", ci, ri, p.Has(isVNil), p.String()))
			}
		}
		// every value that stays alive moves on in time, whatever its kind (markers included)
		c.Rule("C20.advance", "nextValue with Repeat 0 (unbounded) and Repeat 2: every path that keeps the value and returns without error has called updateTimestamp - for every kind of value, the payload-free delete and sync markers included (a repeating marker whose timestamp stands still is re-queued at its first timestamp for ever and nothing behind it is ever emitted)")
		for _, rep := range []int64{0, 2} {
			at := &Atoms{Class: cls, Int: map[string]int64{"REPEAT": rep}}
			isTS := lbl("call:" + fnName(updTS))
			e := &PPA{Cond: at.Cond, Watch: func(ev *Ev) bool { return isTS(ev) || ev.Label == "store:queue.value.v" }}
			e.Run(nextValue)
			c.Paths += len(e.Paths)
			c.Scen++
			n := 0
			for i := range e.Paths {
				p := &e.Paths[i]
				if p.End != "return" || len(p.Rets) != 1 || retClass(p.Rets[0]) != "nil" || p.Has(isVNil) {
					continue
				}
				n++
				c.Check(p.Has(isTS), "C20.advance", fnName(nextValue), fmt.Sprintf("Repeat=%d: a value that stays alive gets a new timestamp", rep), P.Pos(nextValue.Pos()), "path: "+p.String())
			}
			c.Floor(fmt.Sprintf("C20.advance/paths(repeat=%d)", rep), n, 2)
		}
		// Next re-adds iff alive
		c.Analysed(fnName(Next))
		for _, alive := range []bool{true, false} {
			at := &Atoms{Class: func(e *PPA, st *State, rv RV) string {
				r := e.Resolve(st, rv)
				if u, ok := r.V.(*ssa.UnOp); ok && u.Op == token.MUL {
					if fl := fieldOf(u.X); fl != nil && vname(fl) == "v" && isNamed(fl.Type(), "testing/fake/proto", "Value") {
						return "ALIVE"
					}
				}
				if call, ok := r.V.(*ssa.Call); ok && staticCallee(&call.Call) == nextValue {
					return "NVERR"
				}
				return ""
			}, Bool: map[string]bool{"ALIVE": alive, "NVERR": false}, Int: map[string]int64{}}
			e := &PPA{Cond: at.Cond, Watch: func(ev *Ev) bool {
				return ev.Label == "call:"+fnName(addValue) || ev.Label == "call:"+fnName(nextValue)
			}}
			e.Run(Next)
			c.Paths += len(e.Paths)
			c.Scen++
			n := 0
			for i := range e.Paths {
				p := &e.Paths[i]
				nv := p.Index(0, lbl("call:"+fnName(nextValue)))
				if nv < 0 {
					continue
				}
				n++
				re := p.Index(nv, lbl("call:"+fnName(addValue))) >= 0
				c.Check(re == alive, "C20.repeat", fnName(Next), fmt.Sprintf("advanced value re-enters the queue iff alive (alive=%v)", alive), P.Pos(Next.Pos()), fmt.Sprintf("re-added=%v", re))
			}
			c.Floor(fmt.Sprintf("C20.repeat/Next-paths(alive=%v)", alive), n, 1)
		}
	}
	// ---- head
	{
		var nvCall ssa.Instruction
		for _, ci := range callsIn(Next) {
			if staticCallee(ci.Common()) == nextValue {
				nvCall = ci
			}
		}
		okHead := false
		nEmpty := 0
		instrs(Next, func(in ssa.Instruction) {
			r, ok := in.(*ssa.Return)
			if !ok || len(r.Results) != 2 {
				return
			}
			v := unwrap(r.Results[0])
			for _, sv := range storedValues(v) {
				if isNilConst(sv) {
					nEmpty++
				}
			}
			if isNilConst(r.Results[0]) {
				nEmpty++
				return
			}
			// load of the spilled result cell?
			for _, sv := range storedValues(v) {
				sv = unwrap(sv)
				u, ok := sv.(*ssa.UnOp)
				if !ok {
					continue
				}
				fa, ok := u.X.(*ssa.FieldAddr)
				if !ok || fieldName(fa.X.Type(), fa.Field) != "v" {
					continue
				}
				ex := Expr(fa.X)
				if strings.HasSuffix(ex, ".q[0][0]") && nvCall != nil && instrDominates(u, nvCall) {
					okHead = true
				}
			}
		})
		c.Check(okHead, "C20.head", fnName(Next), "returns q[0][0].v read before nextValue", P.Pos(Next.Pos()), "")
		c.Check(nEmpty >= 1, "C20.head", fnName(Next), "empty queue / error returns a nil value", P.Pos(Next.Pos()), fmt.Sprintf("%d nil-value returns", nEmpty))
	}
	// ---- pop before re-add
	c.Rule("C20.pop-first", "UpdateQueue.Next removes the returned entry from the head of the queue (a store to u.q or to u.q[0]) before it re-inserts the regenerated value with addValue, on every path (addValue's placement search must not see the entry being returned)")
	{
		fQ := P.Field("testing/fake/queue", "UpdateQueue", "q")
		if fQ == nil {
			c.Unresolved("C20.pop-first", "queue.UpdateQueue.q")
		} else {
			isAdd := lbl("call:" + fnName(addValue))
			isPop := func(ev *Ev) bool {
				if !strings.HasPrefix(ev.Label, "store:") {
					return false
				}
				if ev.Field == fQ {
					return true
				}
				// u.q[0] = ...
				if st, ok := ev.In.(*ssa.Store); ok {
					if ia, ok := st.Addr.(*ssa.IndexAddr); ok && loadOfField(ia.X, fQ) {
						return true
					}
				}
				return false
			}
			e := &PPA{Watch: func(ev *Ev) bool { return isAdd(ev) || isPop(ev) }}
			e.Run(Next)
			c.Paths += len(e.Paths)
			n := 0
			for i := range e.Paths {
				p := &e.Paths[i]
				ai := p.Index(0, isAdd)
				if ai < 0 {
					continue
				}
				n++
				pi := p.Index(0, isPop)
				c.Check(pi >= 0 && pi < ai, "C20.pop-first", fnName(Next), "head entry removed before the value is re-added", P.Pos(Next.Pos()), "path: "+p.String())
			}
			c.Floor("C20.pop-first/paths", n, 1)
		}
	}
	// ---- placement search of addValue
	c.Rule("C20.order", "UpdateQueue.addValue, replayed with 0..3 timestamp buckets queued (counters folded) and the new timestamp at every possible position: strictly before bucket k (k = 0..n, n = after all) => inserted as a new bucket at index k; equal to bucket k => appended to that bucket, no new bucket; the search terminates in every scenario")
	{
		fQ := P.Field("testing/fake/queue", "UpdateQueue", "q")
		if fQ == nil {
			c.Unresolved("C20.order", "queue.UpdateQueue.q")
		} else {
			c.Analysed(fnName(addValue))
			vP := ssa.Value(param(addValue, 1))
			tsClass := func(e *PPA, st *State, rv RV) string {
				r := e.Resolve(st, rv)
				u, ok := r.V.(*ssa.UnOp)
				if !ok || u.Op != token.MUL {
					return ""
				}
				fa, ok := u.X.(*ssa.FieldAddr)
				if !ok || vname(fieldOf(fa)) != "Timestamp" || !isNamed(fa.X.Type(), "testing/fake/proto", "Timestamp") {
					return ""
				}
				root := rootOf(e, st, RV{r.F, fa.X})
				if root.V == vP {
					return "T"
				}
				// the timestamp of bucket k: …u.q[k][0].v.Timestamp.Timestamp with k constant on this path
				cur := RV{r.F, fa.X}
				for i := 0; i < 24; i++ {
					cur = e.Resolve(st, cur)
					switch x := cur.V.(type) {
					case *ssa.UnOp:
						cur = RV{cur.F, x.X}
						continue
					case *ssa.FieldAddr:
						cur = RV{cur.F, x.X}
						continue
					case *ssa.IndexAddr:
						if loadOfField(e.Resolve(st, RV{cur.F, x.X}).V, fQ) || loadOfField(x.X, fQ) {
							if k, ok := e.intVal(st, e.Resolve(st, RV{cur.F, x.Index}), 0); ok {
								return fmt.Sprintf("T2@%d", k)
							}
							return "T2"
						}
						cur = RV{cur.F, x.X}
						continue
					}
					break
				}
				return "T2"
			}
			// slices.BinarySearchFunc(u.q, t, cmp) is taken by its documented contract (on a slice sorted by cmp:
			// the position of the target, or where it would be inserted, and whether it was found); what is
			// decided here is that cmp orders a bucket by its first element's timestamp against the target
			var bsCalls []*ssa.Call
			for _, h := range withAnon(addValue) {
				instrs(h, func(in ssa.Instruction) {
					if call, ok := in.(*ssa.Call); ok {
						if g := staticCallee(&call.Call); g != nil && pkgPathOf(g) == "slices" && strings.HasPrefix(g.Name(), "BinarySearchFunc") && len(call.Call.Args) == 3 && loadOfField(call.Call.Args[0], fQ) {
							bsCalls = append(bsCalls, call)
						}
					}
				})
			}
			isBS := func(v ssa.Value) bool {
				for _, b := range bsCalls {
					if v == ssa.Value(b) {
						return true
					}
				}
				return false
			}
			for _, bs := range bsCalls {
				var cf *ssa.Function
				if mc, _ := closureArg(bs.Call.Args[2]); mc != nil {
					cf = mc.Fn.(*ssa.Function)
				} else if f, ok := bs.Call.Args[2].(*ssa.Function); ok && f.Blocks != nil {
					cf = f
				}
				if cf == nil {
					c.Unknown("C20.order", fnName(addValue), "comparison function of slices.BinarySearchFunc", P.Pos(bs.Pos()), "not a function of this package: "+Expr(bs.Call.Args[2]))
					continue
				}
				// the target handed to the search is the new value's timestamp
				tgtOK := false
				{
					e := &PPA{}
					st := newState()
					if tsClass(e, st, RV{nil, bs.Call.Args[1]}) == "T" {
						tgtOK = true
					}
				}
				c.Check(tgtOK, "C20.order", fnName(addValue), "slices.BinarySearchFunc searches for the new value's timestamp", P.Pos(bs.Pos()), "target: "+Expr(bs.Call.Args[1]))
				cmpClass := func(e *PPA, st *State, rv RV) string {
					r := e.Resolve(st, rv)
					if p, ok := r.V.(*ssa.Parameter); ok && p.Parent() == cf && len(cf.Params) == 2 && p == cf.Params[1] {
						return "TARGET"
					}
					u, ok := r.V.(*ssa.UnOp)
					if !ok || u.Op != token.MUL {
						return ""
					}
					fa, ok := u.X.(*ssa.FieldAddr)
					if !ok || vname(fieldOf(fa)) != "Timestamp" || !isNamed(fa.X.Type(), "testing/fake/proto", "Timestamp") {
						return ""
					}
					// <bucket>[0].v.Timestamp.Timestamp
					cur := RV{r.F, fa.X}
					for i := 0; i < 24; i++ {
						cur = e.Resolve(st, cur)
						switch x := cur.V.(type) {
						case *ssa.UnOp:
							cur = RV{cur.F, x.X}
							continue
						case *ssa.FieldAddr:
							cur = RV{cur.F, x.X}
							continue
						case *ssa.IndexAddr:
							if k, ok := constInt(x.Index); ok && k == 0 && len(cf.Params) == 2 && e.Resolve(st, RV{cur.F, x.X}).V == ssa.Value(cf.Params[0]) {
								return "ELEM"
							}
						}
						break
					}
					return ""
				}
				for _, rel := range []int{-1, 0, 1} {
					at := &Atoms{Class: cmpClass, Rel: map[[2]string]int{{"ELEM", "TARGET"}: rel}}
					e := &PPA{Cond: at.Cond}
					e.Run(cf)
					c.Paths += len(e.Paths)
					n := 0
					for i := range e.Paths {
						p := &e.Paths[i]
						if p.End != "return" || len(p.Rets) != 1 {
							continue
						}
						n++
						st := newState()
						got, known := at.intOf(e, st, p.Rets[0], 0)
						sign := 0
						switch {
						case got < 0:
							sign = -1
						case got > 0:
							sign = 1
						}
						c.Check(known && sign == rel, "C20.order", fnName(cf), fmt.Sprintf("comparison function: bucket's first timestamp vs target, order %+d", rel), P.Pos(cf.Pos()), fmt.Sprintf("returns %s (sign known=%v, %+d)", retString(p.Rets), known, sign))
					}
					c.Check(n == 1, "C20.order", fnName(cf), fmt.Sprintf("comparison function decided for order %+d", rel), P.Pos(cf.Pos()), fmt.Sprintf("%d paths", n))
				}
			}
			type pos struct {
				at    int64 // the new timestamp lies before bucket `at` (== qlen: after all)
				equal bool  // ... or equals the timestamp of bucket `at`
			}
			for qlen := int64(0); qlen <= 3; qlen++ {
				var scs []pos
				for k := int64(0); k <= qlen; k++ {
					scs = append(scs, pos{k, false})
					if k < qlen {
						scs = append(scs, pos{k, true})
					}
				}
				for _, sc := range scs {
					rel := 0 // kept for the messages below: -1 before all, +1 after all
					relMap := map[[2]string]int{}
					for k := int64(0); k < qlen; k++ {
						v := 1
						switch {
						case sc.equal && k == sc.at:
							v = 0
						case k >= sc.at:
							v = -1
						}
						relMap[[2]string{"T", fmt.Sprintf("T2@%d", k)}] = v
					}
					at := &Atoms{Class: tsClass, Rel: relMap, Bool: map[string]bool{}}
					hi := []int64{}
					e := &PPA{Cond: func(e *PPA, st *State, rv RV) (bool, bool) {
						// the latest-timestamp bookkeeping is irrelevant here; nil timestamp: present
						if ex, ok := rv.V.(*ssa.Extract); ok && ex.Index == 1 && isBS(ex.Tuple) {
							return sc.equal, true
						}
						return at.Cond(e, st, rv)
					}, MaxVisits: 6,
						IntHook: func(e *PPA, st *State, rv RV) (int64, bool) {
							if ex, ok := rv.V.(*ssa.Extract); ok && ex.Index == 0 && isBS(ex.Tuple) {
								return sc.at, true
							}
							if call, ok := rv.V.(*ssa.Call); ok {
								if la, ok := lenArg(call); ok && loadOfField(e.Resolve(st, RV{rv.F, la}).V, fQ) {
									return qlen, true
								}
							}
							return 0, false
						},
						Watch: func(ev *Ev) bool {
							if ev.Label == "fact" {
								return true
							}
							if !strings.HasPrefix(ev.Label, "store:") {
								return false
							}
							if ev.Field == fQ {
								return true
							}
							if st, ok := ev.In.(*ssa.Store); ok {
								if ia, ok := st.Addr.(*ssa.IndexAddr); ok && loadOfField(ia.X, fQ) {
									return true
								}
							}
							return false
						},
						Probe: func(e *PPA, st *State, fr *Frame, in ssa.Instruction) {
							// slices.Insert(u.q, k, bucket)
							if call, ok := in.(*ssa.Call); ok {
								if g := staticCallee(&call.Call); g != nil && pkgPathOf(g) == "slices" && strings.HasPrefix(g.Name(), "Insert") && len(call.Call.Args) >= 2 && loadOfField(call.Call.Args[0], fQ) {
									if k, ok := e.intVal(st, e.Resolve(st, RV{fr, call.Call.Args[1]}), 0); ok {
										e.emit(st, Ev{Label: "fact", In: in, F: fr, Note: fmt.Sprintf("insert-at:%d", k)})
									} else {
										e.emit(st, Ev{Label: "fact", In: in, F: fr, Note: "insert-at:?"})
									}
								}
							}
							if sl, ok := in.(*ssa.Slice); ok && sl.High != nil && sl.Low == nil && loadOfField(sl.X, fQ) {
								if k, ok := e.intVal(st, e.Resolve(st, RV{fr, sl.High}), 0); ok {
									e.emit(st, Ev{Label: "fact", In: in, F: fr, Note: fmt.Sprintf("insert-at:%d", k)})
								} else {
									e.emit(st, Ev{Label: "fact", In: in, F: fr, Note: "insert-at:?"})
								}
							}
						}}
					e.deepApplied = true
					_ = hi
					e.Run(addValue)
					c.Paths += len(e.Paths)
					c.Scen++
					_ = rel
					name := fmt.Sprintf("%d buckets queued, new timestamp before bucket %d", qlen, sc.at)
					if sc.equal {
						name = fmt.Sprintf("%d buckets queued, new timestamp equal to bucket %d", qlen, sc.at)
					}
					n := 0
					for i := range e.Paths {
						p := &e.Paths[i]
						if p.End != "return" {
							continue
						}
						n++
						insertAt := ""
						joined := ""
						for j := range p.Trace {
							ev := &p.Trace[j]
							if ev.Label == "fact" && strings.HasPrefix(ev.Note, "insert-at:") {
								insertAt = strings.TrimPrefix(ev.Note, "insert-at:")
							}
							if strings.HasPrefix(ev.Label, "store:") && ev.Field != fQ {
								joined = "?"
								if strings.HasPrefix(ev.Note, "idx:") {
									joined = strings.TrimPrefix(ev.Note, "idx:")
								}
							}
						}
						var ok bool
						want := ""
						if sc.equal {
							want = fmt.Sprintf("appended to bucket %d", sc.at)
							ok = insertAt == "" && joined == fmt.Sprint(sc.at)
						} else {
							want = fmt.Sprintf("new bucket at %d", sc.at)
							ok = insertAt == fmt.Sprint(sc.at) && joined == ""
						}
						c.Check(ok, "C20.order", fnName(addValue), name, P.Pos(addValue.Pos()), fmt.Sprintf("want %s; new bucket at %q, joined bucket %q; path: %s", want, insertAt, joined, p.String()))
					}
					c.Check(n >= 1, "C20.order", fnName(addValue), name+": the search terminates", P.Pos(addValue.Pos()), fmt.Sprintf("%d returning paths, %d cut at the unrolling bound", n, e.Truncated))
				}
			}
		}
	}
	// ---- sync
	{
		c.Analysed(fnName(reset))
		cls := func(e *PPA, st *State, rv RV) string {
			r := e.Resolve(st, rv)
			if u, ok := r.V.(*ssa.UnOp); ok && u.Op == token.MUL {
				if fl := fieldOf(u.X); fl != nil && fl.Name() == "DisableSync" {
					return "NOSYNC"
				}
			}
			if call, ok := r.V.(*ssa.Call); ok && strings.HasSuffix(calleeName(&call.Call), ".GetFixed") {
				return "FIXED"
			}
			return ""
		}
		for _, fixed := range []bool{false, true} {
			for _, nosync := range []bool{false, true} {
				at := &Atoms{Class: cls, Bool: map[string]bool{"NOSYNC": nosync, "FIXED": fixed}}
				e := &PPA{Cond: at.Cond, Watch: func(ev *Ev) bool {
					return strings.HasSuffix(ev.Label, "queue.New") || strings.HasSuffix(ev.Label, "queue.NewFixed") || strings.HasSuffix(ev.Label, ").Add") || strings.HasSuffix(ev.Label, ").Latest") ||
						strings.HasSuffix(ev.Label, ".setQueue") || (strings.HasPrefix(ev.Label, "store:") && (strings.Contains(ev.Label, "fake.Value.") || strings.Contains(ev.Label, "fake.Timestamp.")))
				}}
				e.Run(reset)
				c.Paths += len(e.Paths)
				c.Scen++
				for i := range e.Paths {
					p := &e.Paths[i]
					ni := p.Index(0, func(ev *Ev) bool {
						return strings.HasSuffix(ev.Label, "queue.New") || strings.HasSuffix(ev.Label, "queue.NewFixed")
					})
					ai := p.Index(0, func(ev *Ev) bool { return strings.HasSuffix(ev.Label, ").Add") })
					si := p.Index(0, func(ev *Ev) bool { return strings.HasSuffix(ev.Label, ".setQueue") })
					name := fmt.Sprintf("fixed=%v sync-disabled=%v", fixed, nosync)
					if nosync {
						c.Check(ai < 0 && ni >= 0 && si > ni, "C20.sync", fnName(reset), name, P.Pos(reset.Pos()), "no sync injected; path: "+p.String())
						continue
					}
					ok := ni >= 0 && ai > ni && si > ai && p.Trace[ai].Args[0].V == ssa.Value(p.Trace[ni].In.(*ssa.Call))
					detail := ""
					if ok && !fixed {
						// the added literal: Timestamp from q.Latest() of the same queue, Repeat 1, Value_Sync
						li := p.Index(ni, func(ev *Ev) bool { return strings.HasSuffix(ev.Label, ").Latest") })
						okLatest := li > ni && li < ai && p.Trace[li].Args[0].V == ssa.Value(p.Trace[ni].In.(*ssa.Call))
						okRep, okSync, okTs := false, false, false
						for j := ni; j < ai; j++ {
							ev := &p.Trace[j]
							switch {
							case strings.HasSuffix(ev.Label, "fake.Value.Repeat"):
								k, isK := constInt(ev.Args[1].V)
								okRep = isK && k == 1
							case strings.HasSuffix(ev.Label, "fake.Value.Value"):
								okSync = isNamed(unwrap(ev.Args[1].V).Type(), "testing/fake/proto", "Value_Sync")
							case strings.HasSuffix(ev.Label, "fake.Timestamp.Timestamp"):
								okTs = li >= 0 && ev.Args[1].V == ssa.Value(p.Trace[li].In.(*ssa.Call))
							}
						}
						ok = okLatest && okRep && okSync && okTs
						detail = fmt.Sprintf("Latest-of-same-queue=%v repeat1=%v sync-kind=%v stamped=%v", okLatest, okRep, okSync, okTs)
					}
					c.Check(ok, "C20.sync", fnName(reset), name, P.Pos(reset.Pos()), detail+"; path: "+p.String())
				}
			}
		}
	}
	// ---- kinds
	{
		impls := oneofImplementers(P, "testing/fake/proto", "isValue_Value")
		c.Note("implementers of the fake value oneof: %s", strings.Join(impls, ", "))
		c.Floor("C20.kinds/oneof-arms", len(impls), 8)
		for _, spec := range []struct {
			pkg, recv, name string
			subset          []string // arms the function must handle itself; others must reach an explicit default
		}{
			{"testing/fake/queue", "value", "nextValue", impls},
			{"testing/fake/queue", "", "ValueOf", impls},
			{"testing/fake/queue", "", "TypedValueOf", nil},
			{"testing/fake/gnmi", "", "valToResp", nil},
		} {
			var f *ssa.Function
			if spec.recv != "" {
				f = P.Method(spec.pkg, spec.recv, spec.name)
			} else {
				f = P.Func(spec.pkg, spec.name)
			}
			if f == nil {
				c.Unresolved("C20.kinds", spec.pkg+"."+spec.name)
				continue
			}
			c.Analysed(fnName(f))
			// the kind dispatch may have been split off into an unexported helper: take the function, among f and
			// the same-package helpers it calls, that holds the type switch (most comma-ok assertions to Value_ kinds)
			countArms := func(g *ssa.Function) int {
				n := 0
				instrs(g, func(in ssa.Instruction) {
					if ta, ok := in.(*ssa.TypeAssert); ok && ta.CommaOk && strings.Contains(types.TypeString(ta.AssertedType, nil), "Value_") {
						n++
					}
				})
				return n
			}
			root := f
			disp := f
			for _, ci := range callsIn(f) {
				if g := staticCallee(ci.Common()); g != nil && g.Pkg == f.Pkg && !isExportedFn(g) && len(g.Blocks) > 0 && countArms(g) > countArms(disp) {
					disp = g
				}
			}
			f = disp
			handled := map[string]bool{}
			instrs(f, func(in ssa.Instruction) {
				if ta, ok := in.(*ssa.TypeAssert); ok && ta.CommaOk {
					handled[types.TypeString(deref(ta.AssertedType), shortQ)] = true
				}
			})
			var missing []string
			for _, k := range spec.subset {
				if !handled[k] {
					missing = append(missing, k)
				}
			}
			// explicit default: with every arm failing, every path returns an error or nil value explicitly
			nArms := 0
			instrs(f, func(in ssa.Instruction) {
				if ta, ok := in.(*ssa.TypeAssert); ok && ta.CommaOk && strings.Contains(types.TypeString(ta.AssertedType, nil), "Value_") {
					nArms++
				}
			})
			isArm := func(v ssa.Value) bool {
				if ex, ok := v.(*ssa.Extract); ok && ex.Index == 1 {
					if ta, ok := ex.Tuple.(*ssa.TypeAssert); ok && ta.CommaOk && strings.Contains(types.TypeString(ta.AssertedType, nil), "Value_") {
						return true
					}
				}
				return false
			}
			allFail := &PPA{TraceBranches: true, Watch: func(ev *Ev) bool { return ev.Label == "if" && len(ev.Args) > 0 && isArm(ev.Args[0].V) },
				Cond: func(e *PPA, st *State, rv RV) (bool, bool) {
					if isArm(rv.V) {
						return false, true
					}
					return false, false
				}}
			allFail.Run(f)
			okDef := false
			errPath := false
			for i := range allFail.Paths {
				p := &allFail.Paths[i]
				if len(p.Trace) < nArms || len(p.Rets) == 0 {
					continue // left before the kind switch was exhausted
				}
				okDef = true
			}
			for i := range allFail.Paths {
				p := &allFail.Paths[i]
				if len(p.Trace) < nArms || len(p.Rets) == 0 {
					continue
				}
				last := retClass(p.Rets[len(p.Rets)-1])
				if len(p.Rets) == 1 {
					if last != "nil" && !strings.HasPrefix(last, "call:fmt.Errorf") {
						okDef = false
					}
				} else if last != "nil" {
					errPath = true
				}
			}
			if f.Signature.Results().Len() == 2 && !errPath {
				okDef = false // no exhausted path reports an error
			}
			c.Check(len(missing) == 0 && okDef, "C20.kinds", fnName(root), "covers its value kinds, explicit default", P.Pos(f.Pos()), fmt.Sprintf("handled %d kinds, missing %v, explicit default=%v (dispatch in %s)", len(handled), missing, okDef, fnName(f)))
		}
	}
}

func exprAt(p *Path, i int) string {
	if i < 0 || i >= len(p.Trace) || len(p.Trace[i].Args) < 2 {
		return "<none>"
	}
	return Expr(p.Trace[i].Args[1].V)
}

// oneofImplementers lists the named struct types of pkg whose pointer implements the sealed oneof interface.
func oneofImplementers(P *Prog, pkg, iface string) []string {
	sp := P.pkg(pkg)
	if sp == nil {
		return nil
	}
	it, ok := sp.Members[iface].(*ssa.Type)
	if !ok {
		return nil
	}
	ii, ok := it.Type().Underlying().(*types.Interface)
	if !ok {
		return nil
	}
	var out []string
	for _, m := range sp.Members {
		t, ok := m.(*ssa.Type)
		if !ok {
			continue
		}
		if _, isStruct := t.Type().Underlying().(*types.Struct); !isStruct {
			continue
		}
		if types.Implements(types.NewPointer(t.Type()), ii) {
			out = append(out, types.TypeString(t.Type(), shortQ))
		}
	}
	sortStrings(out)
	return out
}

// drawnArith: the value is arithmetic over the result of a *rand.Rand method (a generated number),
// as opposed to a constant or an element selected from a configured list.
func drawnArith(v ssa.Value, d int) bool {
	if d > 10 || v == nil {
		return false
	}
	switch x := v.(type) {
	case *ssa.BinOp:
		return drawnArith(x.X, d+1) || drawnArith(x.Y, d+1)
	case *ssa.Convert:
		return drawnArith(x.X, d+1)
	case *ssa.ChangeType:
		return drawnArith(x.X, d+1)
	case *ssa.Phi:
		for _, e := range x.Edges {
			if drawnArith(e, d+1) {
				return true
			}
		}
	case *ssa.Call:
		if g := staticCallee(&x.Call); g != nil && g.Signature.Recv() != nil {
			if pp := pkgPathOf(g); pp == "math/rand" || pp == "math/rand/v2" {
				// a draw used as a number; an index into an option list is not arithmetic on the stored value
				return true
			}
		}
	}
	return false
}
