package main

// runeIndexAudit: in `for i, r := range s` the index i is a BYTE offset and advances by the encoded
// width of r.  Cutting s (or any string) at `i + k` / `i - k` with a constant k != 0 is right only when
// the rune at i is known to be one byte wide; otherwise text with multi-byte runes is split in the
// middle of a character or keeps part of the separator.  The only facts accepted as "one byte wide"
// are a dominating comparison of r with an ASCII constant (r == '/' , a switch case on such a
// constant) or r < utf8.RuneSelf.

import (
	"fmt"
	"go/token"
	"go/types"

	"golang.org/x/tools/go/ssa"
)

func runeIndexAudit(c *Ctx, rule string, pkgs []string) {
	P := c.P
	c.Rule(rule, fmt.Sprintf("packages %v: where a string is ranged over (byte index, rune), no string is sliced at that index plus/minus a non-zero constant unless the rune is known to be ASCII at that point (compared equal to an ASCII constant or below utf8.RuneSelf on a dominating edge) - the index advances by the rune's encoded width, not by one", pkgs))
	isString := func(t types.Type) bool {
		b, ok := t.Underlying().(*types.Basic)
		return ok && b.Info()&types.IsString != 0
	}
	ranges, sites := 0, 0
	for _, pk := range pkgs {
		for _, top := range P.PkgFuncs(pk) {
			if P.InTestFile(top) || P.IsGenerated(top) {
				continue
			}
			for _, f := range withAnon(top) {
				// string range iterators of f: index and rune extracts
				idx := map[ssa.Value]ssa.Value{} // index extract -> rune extract (may be nil)
				instrs(f, func(in ssa.Instruction) {
					nx, ok := in.(*ssa.Next)
					if !ok || !nx.IsString {
						return
					}
					ranges++
					var ie, re ssa.Value
					for _, r := range *nx.Referrers() {
						if ex, ok := r.(*ssa.Extract); ok {
							switch ex.Index {
							case 1:
								ie = ex
							case 2:
								re = ex
							}
						}
					}
					if ie != nil {
						idx[ie] = re
					}
				})
				if len(idx) == 0 {
					continue
				}
				c.Analysed(fnName(top))
				// offset(v): v = index extract +/- non-zero constant (through conversions)
				var offset func(v ssa.Value, d int) (ssa.Value, int64, bool)
				offset = func(v ssa.Value, d int) (ssa.Value, int64, bool) {
					if d > 6 {
						return nil, 0, false
					}
					switch x := v.(type) {
					case *ssa.Convert:
						return offset(x.X, d+1)
					case *ssa.BinOp:
						if x.Op != token.ADD && x.Op != token.SUB {
							return nil, 0, false
						}
						if k, ok := constInt(x.Y); ok {
							if _, isIdx := idx[x.X]; isIdx {
								if x.Op == token.SUB {
									k = -k
								}
								return x.X, k, true
							}
							if b, k0, ok := offset(x.X, d+1); ok {
								if x.Op == token.SUB {
									k = -k
								}
								return b, k0 + k, true
							}
						}
						if k, ok := constInt(x.X); ok && x.Op == token.ADD {
							if _, isIdx := idx[x.Y]; isIdx {
								return x.Y, k, true
							}
						}
					}
					return nil, 0, false
				}
				// values stored to a local cell and read back (start = i + 1 ... s[start:j]) are followed
				// through φ and through single-assignment cells
				var derived func(v ssa.Value, seen map[ssa.Value]bool) (ssa.Value, int64, bool)
				derived = func(v ssa.Value, seen map[ssa.Value]bool) (ssa.Value, int64, bool) {
					if seen[v] {
						return nil, 0, false
					}
					seen[v] = true
					if b, k, ok := offset(v, 0); ok && k != 0 {
						return b, k, true
					}
					switch x := v.(type) {
					case *ssa.Phi:
						for _, ed := range x.Edges {
							if b, k, ok := derived(ed, seen); ok {
								return b, k, true
							}
						}
					case *ssa.UnOp:
						if x.Op == token.MUL {
							if al, ok := x.X.(*ssa.Alloc); ok && al.Referrers() != nil {
								for _, r := range *al.Referrers() {
									if st, ok := r.(*ssa.Store); ok && st.Addr == ssa.Value(al) {
										if b, k, ok := derived(st.Val, seen); ok {
											return b, k, true
										}
									}
								}
							}
						}
					}
					return nil, 0, false
				}
				asciiAt := func(run ssa.Value, at *ssa.BasicBlock, def *ssa.BasicBlock) bool {
					if run == nil {
						return false
					}
					// some dominating branch edge establishes: run == ASCII constant, or run < 0x80
					for b := def; b != nil; b = b.Idom() {
						idom := b.Idom()
						if idom == nil {
							break
						}
						iff, ok := idom.Instrs[len(idom.Instrs)-1].(*ssa.If)
						if !ok {
							continue
						}
						cmp, ok := iff.Cond.(*ssa.BinOp)
						if !ok {
							continue
						}
						onTrue := idom.Succs[0] == b && len(b.Preds) == 1
						onFalse := idom.Succs[1] == b && len(b.Preds) == 1
						for _, pr := range [][2]ssa.Value{{cmp.X, cmp.Y}, {cmp.Y, cmp.X}} {
							if pr[0] != run {
								continue
							}
							k, okc := constInt(pr[1])
							if !okc {
								continue
							}
							swapped := pr[0] == cmp.Y
							switch {
							case cmp.Op == token.EQL && onTrue && k >= 0 && k < 0x80:
								return true
							case cmp.Op == token.NEQ && onFalse && k >= 0 && k < 0x80:
								return true
							case cmp.Op == token.LSS && !swapped && onTrue && k <= 0x80:
								return true
							case cmp.Op == token.GEQ && !swapped && onFalse && k <= 0x80:
								return true
							}
						}
					}
					return false
				}
				instrs(f, func(in ssa.Instruction) {
					sl, ok := in.(*ssa.Slice)
					if !ok || !isString(sl.X.Type()) {
						return
					}
					for _, bound := range []ssa.Value{sl.Low, sl.High} {
						if bound == nil {
							continue
						}
						base, k, ok := derived(bound, map[ssa.Value]bool{})
						if !ok {
							continue
						}
						sites++
						// the fact must hold where the offset was computed (the block of the arithmetic)
						defBlock := sl.Block()
						if bi, ok := bound.(ssa.Instruction); ok {
							defBlock = bi.Block()
						}
						var arith *ssa.BasicBlock
						var find func(v ssa.Value, seen map[ssa.Value]bool)
						find = func(v ssa.Value, seen map[ssa.Value]bool) {
							if seen[v] || arith != nil {
								return
							}
							seen[v] = true
							if _, _, ok := offset(v, 0); ok {
								if vi, ok := v.(ssa.Instruction); ok {
									arith = vi.Block()
								}
								return
							}
							switch x := v.(type) {
							case *ssa.Phi:
								for _, ed := range x.Edges {
									find(ed, seen)
								}
							case *ssa.UnOp:
								if al, ok := x.X.(*ssa.Alloc); ok && al.Referrers() != nil {
									for _, r := range *al.Referrers() {
										if st, ok := r.(*ssa.Store); ok {
											find(st.Val, seen)
										}
									}
								}
							}
						}
						find(bound, map[ssa.Value]bool{})
						if arith != nil {
							defBlock = arith
						}
						ok = asciiAt(idx[base], sl.Block(), defBlock)
						c.Check(ok, rule, fnName(top), fmt.Sprintf("string cut at range index %+d: %s", k, Expr(sl)), P.Pos(sl.Pos()), "the ranged rune is not known to be one byte wide here (the index advances by its encoded width)")
					}
				})
			}
		}
	}
	c.Check(ranges >= 1, rule, "packages", "string range loops audited", "", fmt.Sprintf("%d range-over-string loops, %d cuts at index+/-constant", ranges, sites))
}
