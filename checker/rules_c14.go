package main

import (
	"fmt"
	"go/token"
	"go/types"
	"strings"

	"golang.org/x/tools/go/ssa"
)

func init() {
	register(&propDef{
		ID:       "C14",
		Explain:  "Decided (structural necessary conditions): Target.Reset clears timestamp and metadata and regenerates the metadata leaves before its loop, and the loop deletes (unconditionally, Tree.Delete) and announces every child root other than the metadata root, announcing exactly the root it deleted; Cache.Remove forgets the target and then announces the whole-target delete, both inside the cache write lock; per-target isolation: Target has no field through which another Target or the Cache is reachable, Cache.Add gives every target a fresh tree/metadata/latency object, Target methods store only through their receiver (or objects they created), and each Cache entry point that takes a target name performs exactly one lookup with that name and acts on its result only; a delivered whole-target delete ends a single-target stream cleanly (errC <- nil), and isTargetDelete is true exactly for one delete, empty origin, path [\"*\"] (16-row table); metadata.Clear visits all three registries and ResetEntry has an arm per kind. Also decided: Cache.Reset calls Target.Reset while holding Cache.mu (a concurrent Remove/Add cannot interleave with the reset's announcements); Metadata.Clear changes values only through ResetEntry, and ResetEntry applies each string entry's policy (DefaultValue => \"\", Delete => removed, Keep => untouched). Round-4 additions: the all-targets query runs every per-target Tree.Query under Cache.mu (a Remove cannot complete in the middle of the walk); a stream registers before it walks (C04.reg-before-walk, borrowed), so the announcements of a Reset/Remove reach it. Round-5 addition: generateMetaUpdates rewrites every metadata leaf whose stored value differs from the current value, for each of the three registries, whether or not the leaf already exists (a Reset's 'not synced / not connected' reaches queries and the feed). Round-6 addition: the registry map is the only field of Cache through whose type a Target can be reached (no memo or second index that Remove would have to invalidate as well).",
		NotCover: "that Delete([root]) removes all leaves below the root (ctree semantics, C09), the metadata values after reset beyond Clear's structure, the package-level metadata registries shared by design",
		Run:      runC14,
	})
}

func runC14(c *Ctx) {
	P := c.P
	resetRemoveAnnounce(c, "C14.reset")
	// ---- isolation
	c.Rule("C14.isolation", "type-level: no field of cache.Target has a type containing cache.Target or cache.Cache; Cache.Add stores a fresh ctree.Tree, metadata.New() and latency.New() into every new Target; every store in a Target method goes through the receiver, a local, or an object created in the method (no package-level state, no other target); Cache.GnmiUpdate/Reset/Sync/Connect/ConnectError/Remove look the target up once, keyed by their name argument, and call methods only on that result")
	tn := P.Named("cache", "Target")
	cn := P.Named("cache", "Cache")
	add := P.Method("cache", "Cache", "Add")
	if tn == nil || cn == nil || add == nil {
		c.Unresolved("C14.isolation", "cache.Target / cache.Cache / (*Cache).Add")
		return
	}
	{
		st := tn.Underlying().(*types.Struct)
		for i := 0; i < st.NumFields(); i++ {
			f := st.Field(i)
			ts := types.TypeString(f.Type(), nil)
			bad := strings.Contains(ts, "cache.Target") || strings.Contains(ts, "cache.Cache")
			c.Check(!bad, "C14.isolation", "cache.Target", "field "+f.Name()+" "+types.TypeString(f.Type(), shortQ), "", "a field of this type could reach another target's state")
		}
		c.Floor("C14.isolation/fields", st.NumFields(), 8)
	}
	{
		c.Analysed(fnName(add))
		want := map[string]string{"t": "alloc", "meta": "metadata.New", "lat": "latency.New"}
		got := map[string]string{}
		instrs(add, func(in ssa.Instruction) {
			st, ok := in.(*ssa.Store)
			if !ok {
				return
			}
			fa, ok := st.Addr.(*ssa.FieldAddr)
			if !ok || !isNamed(fa.X.Type(), "cache", "Target") {
				return
			}
			name := fieldName(fa.X.Type(), fa.Field)
			switch v := st.Val.(type) {
			case *ssa.Alloc:
				got[name] = "alloc"
			case *ssa.Call:
				got[name] = strings.TrimPrefix(calleeName(&v.Call), "")
			default:
				got[name] = Expr(st.Val)
			}
		})
		for f, w := range want {
			c.Check(got[f] == w, "C14.isolation", fnName(add), "Target."+f+" is fresh per target", P.Pos(add.Pos()), "initialised from "+got[f])
		}
		// the constructors return fresh objects
		for _, ctor := range [][2]string{{"metadata", "New"}, {"latency", "New"}} {
			f := P.Func(ctor[0], ctor[1])
			if f == nil {
				c.Unresolved("C14.isolation", ctor[0]+"."+ctor[1])
				continue
			}
			fresh := true
			instrs(f, func(in ssa.Instruction) {
				if r, ok := in.(*ssa.Return); ok {
					for _, res := range r.Results {
						if _, isAlloc := res.(*ssa.Alloc); !isAlloc {
							fresh = false
						}
					}
				}
			})
			c.Check(fresh, "C14.isolation", fnName(f), "constructor returns a fresh allocation", P.Pos(f.Pos()), "")
		}
	}
	{
		// stores in Target methods
		n := 0
		for _, f := range P.PkgFuncs("cache") {
			if P.InTestFile(f) {
				continue
			}
			root := f
			for root.Parent() != nil {
				root = root.Parent()
			}
			if root.Signature.Recv() == nil || !isNamed(root.Signature.Recv().Type(), "cache", "Target") {
				continue
			}
			instrs(f, func(in ssa.Instruction) {
				var addr ssa.Value
				switch x := in.(type) {
				case *ssa.Store:
					addr = x.Addr
				case *ssa.MapUpdate:
					addr = x.Map
				default:
					return
				}
				n++
				r, _ := addrRoot(addr)
				okRoot := false
				switch rv := r.(type) {
				case *ssa.Alloc, *ssa.MakeMap, *ssa.MakeSlice:
					okRoot = true
				case *ssa.Parameter:
					okRoot = true // receiver, or the caller's notification (its protection is C03.input-intact)
				case *ssa.FreeVar:
					okRoot = true // variable of the enclosing Target method
				case *ssa.Call:
					okRoot = true // object returned to this method (clone, new notification, leaf handle of this target's tree)
				case *ssa.Global:
					okRoot = false
					_ = rv
				}
				if !okRoot {
					c.Bad("C14.isolation", fnName(f), "store outside the target: "+Expr(addr), P.Pos(in.Pos()), "root "+Expr(r)+" is package-level or foreign state")
				}
			})
		}
		c.Check(n > 10, "C14.isolation", "cache.(*Target) methods", "stores audited", "", fmt.Sprintf("%d stores / map updates in Target methods, none into package-level state", n))
	}
	{
		// one lookup per entry point
		type ep struct {
			name string
			key  string // "param" or "prefix-target"
		}
		for _, e := range []ep{{"Reset", "param"}, {"Sync", "param"}, {"Connect", "param"}, {"ConnectError", "param"}, {"Remove", "param"}, {"GnmiUpdate", "prefix-target"}} {
			f := P.Method("cache", "Cache", e.name)
			if f == nil {
				c.Unresolved("C14.isolation", "cache.(*Cache)."+e.name)
				continue
			}
			c.Analysed(fnName(f))
			// on paths (helpers of the package and function values handed to them entered): at most one lookup of a
			// target, keyed by the argument; every Target method runs on its result
			isLookup := func(ev *Ev) bool {
				if ev.Label == "call:(*cache.Cache).GetTarget" || (ev.Label == "builtin:delete" && len(ev.Args) >= 1 && strings.Contains(ev.Args[0].V.Type().String(), "cache.Target")) {
					return true
				}
				return strings.HasPrefix(ev.Label, "lookup:") && len(ev.Args) >= 1 && strings.Contains(ev.Args[0].V.Type().String(), "cache.Target")
			}
			isTargetMethod := func(ev *Ev) bool {
				ci, ok := ev.In.(ssa.CallInstruction)
				if !ok || !strings.HasPrefix(ev.Label, "call:") {
					return false
				}
				cal := staticCallee(ci.Common())
				return cal != nil && cal.Signature.Recv() != nil && isNamed(cal.Signature.Recv().Type(), "cache", "Target")
			}
			gt := P.Method("cache", "Cache", "GetTarget")
			pe := &PPA{MaxVisits: 2, TraceLookups: true,
				Inline: func(fr *Frame, call ssa.CallInstruction, callee *ssa.Function) bool {
					if callee == gt || callee.Pkg == nil || callee.Pkg != f.Pkg || callee == f {
						return callee.Synthetic != "" && callee != gt
					}
					if callee.Signature.Recv() != nil && isNamed(callee.Signature.Recv().Type(), "cache", "Target") {
						return false
					}
					return !isExportedFn(callee) || callee.Parent() != nil
				},
				Watch: func(ev *Ev) bool { return isLookup(ev) || isTargetMethod(ev) }}
			pe.Run(f)
			c.Paths += len(pe.Paths)
			lookups, okKey, okRecv := 0, true, true
			for pi := range pe.Paths {
				p := &pe.Paths[pi]
				var results []RV
				nl := 0
				for ti := range p.Trace {
					ev := &p.Trace[ti]
					if isLookup(ev) {
						nl++
						keyIdx := 1
						if len(ev.Args) <= keyIdx {
							okKey = false
							continue
						}
						key := frameResolve(ev.Args[keyIdx])
						switch e.key {
						case "param":
							if key.V != ssa.Value(param(f, 1)) {
								okKey = false
							}
						case "prefix-target":
							if !isCallNamed(key.V, "(*proto/gnmi.Path).GetTarget") {
								okKey = false
							}
						}
						if v, ok := ev.In.(ssa.Value); ok {
							results = append(results, RV{ev.F, v})
						}
						continue
					}
					// a Target method: on the result of the lookup
					recv := frameResolve(ev.Args[0])
					found := false
					for _, r := range results {
						if recv.V == r.V {
							found = true
						}
						if ex, ok := recv.V.(*ssa.Extract); ok && ex.Tuple == r.V {
							found = true
						}
					}
					if !found {
						okRecv = false
					}
				}
				if nl > lookups {
					lookups = nl
				}
			}
			c.Check(lookups == 1 && okKey && okRecv, "C14.isolation", fnName(f), "one target lookup keyed by the argument; methods only on its result", P.Pos(f.Pos()), fmt.Sprintf("lookups=%d key-is-argument=%v methods-on-result-only=%v", lookups, okKey, okRecv))
		}
	}
	// ---- stream end
	c.Rule("C14.stream-end", "sendStreamingResults: after a successful sendSubscribeResponse, isTargetDelete(n) && target != \"*\" => errC <- nil and return; isTargetDelete returns true iff exactly one delete, origin empty, joined path of length 1 equal to \"*\"")
	{
		sres := P.Method("subscribe", "Server", "sendStreamingResults")
		itd := P.Func("subscribe", "isTargetDelete")
		ssr := P.Method("subscribe", "Server", "sendSubscribeResponse")
		if sres == nil || itd == nil || ssr == nil {
			c.Unresolved("C14.stream-end", "subscribe.sendStreamingResults / isTargetDelete / sendSubscribeResponse")
			return
		}
		c.Analysed(fnName(sres))
		c.Analysed(fnName(itd))
		at := &Atoms{
			Class: func(e *PPA, st *State, rv RV) string {
				rv = e.Resolve(st, rv)
				switch v := rv.V.(type) {
				case *ssa.Call:
					switch {
					case staticCallee(&v.Call) == itd:
						return "ISDEL"
					case staticCallee(&v.Call) == ssr:
						return "SENDERR"
					case calleeName(&v.Call) == "coalesce.IsClosedQueue":
						return "CLOSED"
					}
				case *ssa.Extract:
					if call, ok := v.Tuple.(*ssa.Call); ok && calleeName(&call.Call) == "(*coalesce.Queue).Next" {
						if v.Index == 2 {
							return "NEXTERR"
						}
					}
					if ta, ok := v.Tuple.(*ssa.TypeAssert); ok && v.Index == 1 {
						if isNamed(ta.AssertedType, "subscribe", "syncMarker") {
							return "ISMARKER"
						}
						if isNamed(ta.AssertedType, "ctree", "Leaf") {
							return "ISLEAF"
						}
					}
				case *ssa.BinOp:
					if v.Op == token.EQL || v.Op == token.NEQ {
						for _, pr := range [][2]ssa.Value{{v.X, v.Y}, {v.Y, v.X}} {
							if s, ok := constString(pr[1]); ok && s == "*" {
								if v.Op == token.EQL {
									return "ISSTAR"
								}
								return "!ISSTAR"
							}
						}
						if isNilConst(v.Y) && isNamed(v.X.Type(), "ctree", "Leaf") {
							if v.Op == token.EQL {
								return "!LEAFNN"
							}
							return "LEAFNN"
						}
					}
				}
				return ""
			},
			Bool: map[string]bool{"ISDEL": true, "SENDERR": false, "CLOSED": false, "NEXTERR": false, "ISMARKER": false, "ISLEAF": true, "ISSTAR": false, "LEAFNN": true},
		}
		e := &PPA{Cond: at.Cond, MaxVisits: 2, Watch: func(ev *Ev) bool {
			return ev.Label == "call:"+fnName(ssr) || strings.HasPrefix(ev.Label, "send:") || ev.Label == "call:(*coalesce.Queue).Next"
		}}
		e.Run(sres)
		c.Paths += len(e.Paths)
		c.Scen++
		n := 0
		for i := range e.Paths {
			p := &e.Paths[i]
			si := p.Index(0, lbl("call:"+fnName(ssr)))
			if si < 0 {
				continue
			}
			n++
			ok := si+1 < len(p.Trace) && strings.HasPrefix(p.Trace[si+1].Label, "send:") && strings.Contains(p.Trace[si+1].Label, "errC") && isNilConst(p.Trace[si+1].Args[1].V) && si+2 == len(p.Trace) && p.End == "return"
			c.Check(ok, "C14.stream-end", fnName(sres), "whole-target delete delivered on a single-target stream ends it cleanly", P.Pos(sres.Pos()), "path: "+p.String())
		}
		c.Floor("C14.stream-end/paths", n, 1)
		// isTargetDelete table.  The function is pure over (number of deletes, prefix origin, index of the prefix,
		// index of the deleted path); the two indexes are replayed separately (lengths PL, DL), their
		// concatenation - by append or slices.Concat - has length PL+DL, and slices.Equal(x, []string{"*"}) is
		// by contract len(x) == 1 && x[0] == "*".
		fDelete := P.Field("proto/gnmi", "Notification", "Delete")
		fPrefix := P.Field("proto/gnmi", "Notification", "Prefix")
		var lenClass func(e *PPA, st *State, a RV, d int) string
		lenClass = func(e *PPA, st *State, a RV, d int) string {
			if d > 6 {
				return ""
			}
			a = e.Resolve(st, a)
			if loadOfField(a.V, fDelete) || isCallNamed(a.V, "(*proto/gnmi.Notification).GetDelete") {
				return "LDEL"
			}
			if _, ok := isAppend(a.V); ok {
				return "PLEN"
			}
			if call, ok := a.V.(*ssa.Call); ok {
				if g := staticCallee(&call.Call); g != nil && pkgPathOf(g) == "slices" && strings.HasPrefix(g.Name(), "Concat") {
					return "PLEN"
				}
				if isCallNamed(a.V, "path.ToStrings") && len(call.Call.Args) > 0 {
					arg := e.Resolve(st, RV{a.F, call.Call.Args[0]})
					if loadOfField(arg.V, fPrefix) || isCallNamed(arg.V, "(*proto/gnmi.Notification).GetPrefix") {
						return "PL"
					}
					return "DL"
				}
			}
			return ""
		}
		cls := func(e *PPA, st *State, rv RV) string {
			rv = e.Resolve(st, rv)
			switch v := rv.V.(type) {
			case *ssa.Call:
				if b, ok := v.Call.Value.(*ssa.Builtin); ok && b.Name() == "len" {
					return lenClass(e, st, RV{rv.F, v.Call.Args[0]}, 0)
				}
				// slices.Equal(x, []string{"*"})
				if g := staticCallee(&v.Call); g != nil && pkgPathOf(g) == "slices" && strings.HasPrefix(g.Name(), "Equal") && len(v.Call.Args) == 2 {
					for _, k := range []int{0, 1} {
						if els, ok := e.sliceLitElems(st, e.Resolve(st, RV{rv.F, v.Call.Args[k]})); ok && len(els) == 1 {
							if sc, ok := constString(e.Resolve(st, els[0]).V); ok && sc == "*" {
								switch lenClass(e, st, RV{rv.F, v.Call.Args[1-k]}, 0) {
								case "PLEN":
									return "ONLYSTAR"
								case "PL":
									return "ONLYSTAR-PL"
								case "DL":
									return "ONLYSTAR-DL"
								}
							}
						}
					}
				}
			case *ssa.BinOp:
				if v.Op == token.EQL || v.Op == token.NEQ {
					for _, pr := range [][2]ssa.Value{{v.X, v.Y}, {v.Y, v.X}} {
						if s, ok := constString(pr[1]); ok {
							name := ""
							if s == "*" {
								name = "STAR"
							} else if s == "" {
								name = "OEMPTY"
							}
							if name != "" {
								if v.Op == token.NEQ {
									return "!" + name
								}
								return name
							}
						}
						if isNilConst(pr[1]) && loadOfField(e.Resolve(st, RV{rv.F, pr[0]}).V, fPrefix) {
							if v.Op == token.NEQ {
								return "!PNIL"
							}
							return "PNIL"
						}
					}
				}
			case *ssa.Extract:
				if ta, ok := v.Tuple.(*ssa.TypeAssert); ok && v.Index == 1 && isNamed(ta.AssertedType, "proto/gnmi", "Notification") {
					return "ISNOTI"
				}
			}
			return ""
		}
		rows := 0
		for _, ldel := range []int64{0, 1, 2} {
			for _, oe := range []bool{true, false} {
				for _, pd := range [][2]int64{{1, 0}, {0, 1}, {1, 1}, {2, 0}, {0, 2}, {0, 0}} {
					for _, star := range []bool{true, false} {
						pl, dl := pd[0], pd[1]
						bools := map[string]bool{"ISNOTI": true, "OEMPTY": oe, "STAR": star,
							"ONLYSTAR": pl+dl == 1 && star, "ONLYSTAR-PL": pl == 1 && star, "ONLYSTAR-DL": dl == 1 && star}
						if !oe {
							bools["PNIL"] = false // an origin lives in the prefix
						}
						at := &Atoms{Class: cls, Bool: bools, Int: map[string]int64{"LDEL": ldel, "PLEN": pl + dl, "PL": pl, "DL": dl}}
						e := &PPA{Cond: at.Cond}
						e.Run(itd)
						c.Paths += len(e.Paths)
						c.Scen++
						want := 0
						if ldel == 1 && oe && pl+dl == 1 && star {
							want = 1
						}
						for i := range e.Paths {
							p := &e.Paths[i]
							if len(p.RetB) != 1 {
								continue
							}
							rows++
							c.Check(p.RetB[0] == want, "C14.stream-end", fnName(itd), fmt.Sprintf("deletes=%d origin-empty=%v prefix-len=%d path-len=%d elem-is-star=%v", ldel, oe, pl, dl, star), P.Pos(itd.Pos()), fmt.Sprintf("returns %d want %d", p.RetB[0], want))
						}
					}
				}
			}
		}
		c.Floor("C14.stream-end/table-rows", rows, 24)
	}
	resetExcl(c, "C14.reset-excl")
	c.Borrow("C04", map[string]string{"C04.reg-before-walk": "C14.attach-order"}, "the deletes a Reset/Remove announces reach a subscriber only through its registration: a stream that walks the cache before it registers is sent the leaves and never the announcement that removed them (and a removed target's stream is never ended)")
	walkExcl(c, "C14.walk-excl")
	metaExport(c, "C14.meta-export")
	singleRegistry(c, "C14.single-registry")
	// ---- meta init
	c.Rule("C14.meta-init", "metadata.Clear ranges over the bool, int and string registries and calls ResetEntry for every key; ResetEntry has an arm for each kind and an error for unknown entries")
	{
		clr := P.Method("metadata", "Metadata", "Clear")
		re := P.Method("metadata", "Metadata", "ResetEntry")
		if clr == nil || re == nil {
			c.Unresolved("C14.meta-init", "metadata.(*Metadata).Clear / ResetEntry")
			return
		}
		c.Analysed(fnName(clr))
		// replayed with exactly one entry in each registry (map ranges folded), same-package helpers entered: every
		// path calls ResetEntry exactly once per registry, with the key that registry's range produced
		regOf := func(v ssa.Value) string {
			if u, ok := v.(*ssa.UnOp); ok && u.Op == token.MUL {
				if g, ok := u.X.(*ssa.Global); ok && strings.HasPrefix(g.Name(), "Target") && strings.HasSuffix(g.Name(), "Values") {
					return g.Name()
				}
			}
			return ""
		}
		at := &Atoms{Class: func(e *PPA, st *State, rv RV) string {
			if g := regOf(e.Resolve(st, rv).V); g != "" {
				return g
			}
			return ""
		}, Int: map[string]int64{"len(TargetBoolValues)": 1, "len(TargetIntValues)": 1, "len(TargetStrValues)": 1}}
		isRE := lbl("call:" + fnName(re))
		e := &PPA{Cond: at.Cond, MaxVisits: 3, Watch: func(ev *Ev) bool { return isRE(ev) }}
		e.Run(clr)
		c.Paths += len(e.Paths)
		n := 0
		for i := range e.Paths {
			p := &e.Paths[i]
			if p.End != "return" {
				continue
			}
			n++
			got := map[string]int{}
			other := 0
			for j := range p.Trace {
				ev := &p.Trace[j]
				g := ""
				if len(ev.Args) == 2 {
					if ex, ok := ev.Args[1].V.(*ssa.Extract); ok && ex.Index == 1 {
						if nx, ok := ex.Tuple.(*ssa.Next); ok {
							if rg, ok := nx.Iter.(*ssa.Range); ok {
								g = regOf(frameResolve(RV{ev.Args[1].F, rg.X}).V)
							}
						}
					}
				}
				if g == "" {
					other++
				} else {
					got[g]++
				}
			}
			ok := other == 0 && got["TargetBoolValues"] == 1 && got["TargetIntValues"] == 1 && got["TargetStrValues"] == 1
			c.Check(ok, "C14.meta-init", fnName(clr), "one entry per registry: ResetEntry is called once with the key of each of the bool, int and string registries", P.Pos(clr.Pos()), fmt.Sprintf("calls per registry %v, %d with another key; path: %s", got, other, p.String()))
		}
		c.Floor("C14.meta-init/clear-paths", n, 1)
		c.Analysed(fnName(re))
		kinds := map[string]bool{}
		for _, ci := range callsIn(re) {
			switch calleeName(ci.Common()) {
			case "metadata.validBool":
				kinds["bool"] = true
			case "metadata.validInt":
				kinds["int"] = true
			case "metadata.validStr":
				kinds["str"] = true
			}
		}
		c.Check(len(kinds) == 3, "C14.meta-init", fnName(re), "an arm per kind (bool, int, string)", P.Pos(re.Pos()), fmt.Sprintf("%v", kinds))
		// Clear writes the value maps only through ResetEntry (which applies each entry's reset policy)
		{
			bad := ""
			for _, g := range withAnon(clr) {
				instrs(g, func(in ssa.Instruction) {
					switch x := in.(type) {
					case *ssa.Store:
						if fl := fieldOf(x.Addr); fl != nil && strings.HasPrefix(vname(fl), "values") {
							bad = "store to Metadata." + fl.Name() + " at " + P.Pos(in.Pos())
						}
					case *ssa.MapUpdate:
						if _, fl := loadedFieldStatic(x.Map); fl != nil && strings.HasPrefix(vname(fl), "values") {
							bad = "map write to Metadata." + fl.Name() + " at " + P.Pos(in.Pos())
						}
					case *ssa.Call:
						if b, ok := x.Call.Value.(*ssa.Builtin); ok && b.Name() == "delete" {
							if _, fl := loadedFieldStatic(x.Call.Args[0]); fl != nil && strings.HasPrefix(vname(fl), "values") {
								bad = "delete from Metadata." + fl.Name() + " at " + P.Pos(in.Pos())
							}
						}
					}
				})
			}
			c.Check(bad == "", "C14.meta-init", fnName(clr), "Clear changes values only through ResetEntry", P.Pos(clr.Pos()), bad)
		}
		// ResetEntry honours the string entries' policy: DefaultValue => SetStr(entry, ""), Delete => delete, Keep => untouched
		{
			consts := map[string]int64{}
			if sp := P.pkg("metadata"); sp != nil {
				for _, nm := range []string{"DefaultValue", "Delete", "Keep"} {
					if nc, ok := sp.Members[nm].(*ssa.NamedConst); ok {
						if k, ok := constInt(nc.Value); ok {
							consts[nm] = k
						}
					}
				}
			}
			if len(consts) != 3 {
				c.Unresolved("C14.meta-init", "metadata.DefaultValue / Delete / Keep")
			} else {
				for _, act := range []string{"DefaultValue", "Delete", "Keep"} {
					cond := func(e *PPA, st *State, rv RV) (bool, bool) {
						r := e.Resolve(st, rv)
						if b, ok := r.V.(*ssa.BinOp); ok && (b.Op == token.EQL || b.Op == token.NEQ) {
							// validX(entry) == nil
							for _, pr := range [][2]ssa.Value{{b.X, b.Y}, {b.Y, b.X}} {
								if call, ok := pr[0].(*ssa.Call); ok && isNilConst(pr[1]) {
									switch calleeName(&call.Call) {
									case "metadata.validBool", "metadata.validInt":
										return b.Op == token.NEQ, true // not a bool / int entry
									case "metadata.validStr":
										return b.Op == token.EQL, true
									}
								}
								if k, ok := constInt(pr[1]); ok {
									if fl := fieldOf(stripLoad(pr[0])); fl != nil && fl.Name() == "ResetAction" {
										return (k == consts[act]) == (b.Op == token.EQL), true
									}
									if f, ok := pr[0].(*ssa.Field); ok && fieldName(f.X.Type(), f.Field) == "ResetAction" {
										return (k == consts[act]) == (b.Op == token.EQL), true
									}
								}
							}
						}
						return false, false
					}
					e := &PPA{Cond: cond, Watch: func(ev *Ev) bool {
						return ev.Label == "call:(*metadata.Metadata).SetStr" || ev.Label == "builtin:delete" || strings.HasPrefix(ev.Label, "mapupdate:") || ev.Label == "call:(*metadata.Metadata).SetInt" || ev.Label == "call:(*metadata.Metadata).SetBool"
					}}
					e.Run(re)
					c.Paths += len(e.Paths)
					c.Scen++
					n := 0
					for i := range e.Paths {
						p := &e.Paths[i]
						if p.End != "return" {
							continue
						}
						n++
						set := p.Count(lbl("call:(*metadata.Metadata).SetStr"))
						del := p.Count(lbl("builtin:delete"))
						other := len(p.Trace) - set - del
						var ok bool
						switch act {
						case "DefaultValue":
							ok = set == 1 && del == 0 && other == 0
							if ok {
								s, isC := constString(p.Trace[0].Args[2].V)
								ok = isC && s == ""
							}
						case "Delete":
							ok = set == 0 && del == 1 && other == 0
						case "Keep":
							ok = len(p.Trace) == 0
						}
						c.Check(ok, "C14.meta-init", fnName(re), "string entry with reset policy "+act, P.Pos(re.Pos()), "path: "+p.String())
					}
					c.Floor("C14.meta-init/string-policy "+act, n, 1)
				}
			}
		}
	}
}

// loadedFieldStatic: the struct field a map/slice value was loaded from (x.f), statically.
func loadedFieldStatic(v ssa.Value) (ssa.Value, *types.Var) {
	if u, ok := v.(*ssa.UnOp); ok && u.Op == token.MUL {
		if fa, ok := u.X.(*ssa.FieldAddr); ok {
			return fa.X, fieldOf(fa)
		}
	}
	return nil, nil
}

func stripLoad(v ssa.Value) ssa.Value {
	if u, ok := v.(*ssa.UnOp); ok && u.Op == token.MUL {
		return u.X
	}
	return v
}

// resetExcl / walkExcl: shared with C03 and C04 (the feed order and the snapshot both depend on them).
func resetExcl(c *Ctx, rule string) {
	P := c.P
	// ---- Cache.Reset excludes Remove/Add while the target is being reset
	c.Rule(rule, "Cache.Reset calls Target.Reset while holding Cache.mu (read or write) on every path, so a concurrent Remove/Add of that target (which take it for writing) cannot interleave with the announcements of the reset")
	{
		cr := P.Method("cache", "Cache", "Reset")
		tr := P.Method("cache", "Target", "Reset")
		fMu := P.Field("cache", "Cache", "mu")
		if cr == nil || tr == nil || fMu == nil {
			c.Unresolved(rule, "cache.(*Cache).Reset / (*Target).Reset / Cache.mu")
		} else {
			c.Analysed(fnName(cr))
			isTR := lbl("call:" + fnName(tr))
			e := &PPA{Watch: func(ev *Ev) bool { return isTR(ev) || (isLockOp(ev) && ev.Field == fMu) }}
			e.Run(cr)
			c.Paths += len(e.Paths)
			n := 0
			for i := range e.Paths {
				p := &e.Paths[i]
				held := 0
				for j := range p.Trace {
					ev := &p.Trace[j]
					if isLockOp(ev) {
						if lockOps[ev.Label][1] == '+' {
							held++
						} else {
							held--
						}
						continue
					}
					n++
					c.Check(held > 0, rule, fnName(cr), "Target.Reset runs under Cache.mu", P.Pos(posOf(ev.In)), "path: "+p.String())
				}
			}
			c.Floor(rule+"/calls", n, 1)
		}
	}
}

func walkExcl(c *Ctx, rule string) {
	P := c.P
	// ---- the all-targets walk excludes Remove: a removed target is not reported after its whole-target delete
	c.Rule(rule, "Cache.Query for all targets (target == \"*\"): every per-target Tree.Query runs while Cache.mu is held, so a Remove (write lock) cannot complete - forget the target and announce its whole-target delete - in the middle of the walk and be followed by leaves of the removed target")
	{
		cq := P.Method("cache", "Cache", "Query")
		fMu := P.Field("cache", "Cache", "mu")
		if cq == nil || fMu == nil || len(cq.Params) < 2 {
			c.Unresolved(rule, "cache.(*Cache).Query / Cache.mu")
		} else {
			c.Analysed(fnName(cq))
			tP := ssa.Value(param(cq, 1))
			cls := func(e *PPA, st *State, rv RV) string {
				r := e.Resolve(st, rv)
				b, ok := r.V.(*ssa.BinOp)
				if !ok || (b.Op != token.EQL && b.Op != token.NEQ) {
					return ""
				}
				for _, pr := range [][2]ssa.Value{{b.X, b.Y}, {b.Y, b.X}} {
					if e.Resolve(st, RV{r.F, pr[0]}).V != tP {
						continue
					}
					if s, ok := constString(pr[1]); ok {
						name := "OTHER"
						switch s {
						case "*":
							name = "ALL"
						case "":
							name = "NONE"
						}
						if b.Op == token.NEQ {
							return "!" + name
						}
						return name
					}
				}
				return ""
			}
			at := &Atoms{Class: cls, Bool: map[string]bool{"ALL": true, "NONE": false}}
			isTQ := lbl("call:(*ctree.Tree).Query")
			e := &PPA{Cond: at.Cond, MaxVisits: 3, Watch: func(ev *Ev) bool { return isTQ(ev) || (isLockOp(ev) && ev.Field == fMu) }}
			e.Run(cq)
			c.Paths += len(e.Paths)
			n := 0
			for i := range e.Paths {
				p := &e.Paths[i]
				held := 0
				for j := range p.Trace {
					ev := &p.Trace[j]
					if isLockOp(ev) {
						if lockOps[ev.Label][1] == '+' {
							held++
						} else {
							held--
						}
						continue
					}
					n++
					c.Check(held > 0, rule, fnName(cq), "per-target query of the all-targets walk runs under Cache.mu", P.Pos(posOf(ev.In)), "path: "+p.String())
				}
			}
			c.Floor(rule+"/queries", n, 1)
		}
	}
}

// metaExport: the metadata a Reset (or any lifecycle call) changes reaches the tree - and with it
// queries and the change feed - only through generateMetaUpdates.  For every registry (bool, int,
// string) and every key whose value was obtained: when the stored leaf's value differs from the
// current metadata value the leaf is rewritten, whether or not a leaf already exists.  A pass that
// only creates missing leaves leaves "synced / connected = true" in the tree after a Reset.
func metaExport(c *Ctx, rule string) {
	P := c.P
	gen := P.Method("cache", "Target", "generateMetaUpdates")
	upd := P.Method("cache", "Target", "gnmiUpdate")
	if gen == nil || upd == nil {
		c.Unresolved(rule, "cache.(*Target).generateMetaUpdates / gnmiUpdate")
		return
	}
	c.Rule(rule, "(*Target).generateMetaUpdates, replayed with up to two keys per registry in the scenario 'key not excluded, value read without error, every comparison of the stored value with the current one reports a difference': every key whose value was read (Metadata.GetBool / GetInt / GetStr) is followed, before the next key, by a gnmiUpdate - whether or not a leaf for it already exists (a pass that only creates missing leaves keeps the pre-Reset values visible to queries and subscribers)")
	c.Analysed(fnName(gen))
	isGet := func(ev *Ev) bool {
		return ev.Label == "call:(*metadata.Metadata).GetBool" || ev.Label == "call:(*metadata.Metadata).GetInt" || ev.Label == "call:(*metadata.Metadata).GetStr"
	}
	isUpd := lbl("call:" + fnName(upd))
	same := P.Func("cache", "sameMetaValue")
	opaque := map[*ssa.Function]bool{}
	if same != nil {
		opaque[same] = true
	}
	e := &PPA{MaxVisits: 3, MaxPaths: 20000, Opaque: opaque, Watch: func(ev *Ev) bool { return isGet(ev) || isUpd(ev) },
		Cond: func(e *PPA, st *State, rv RV) (bool, bool) {
			r := e.Resolve(st, rv)
			switch v := r.V.(type) {
			case *ssa.Call:
				switch calleeName(&v.Call) {
				case "cache.sameMetaValue", "value.Equal", "proto.Equal", "google.golang.org/protobuf/proto.Equal":
					return false, true // the stored value differs
				}
				if g := staticCallee(&v.Call); g != nil && g.Name() == "Contains" {
					return false, true // not excluded
				}
			case *ssa.BinOp:
				if v.Op != token.EQL && v.Op != token.NEQ {
					return false, false
				}
				for _, pr := range [][2]ssa.Value{{v.X, v.Y}, {v.Y, v.X}} {
					if !isNilConst(pr[1]) {
						continue
					}
					x := e.Resolve(st, RV{r.F, pr[0]})
					if ex, ok := x.V.(*ssa.Extract); ok {
						if call, ok := ex.Tuple.(*ssa.Call); ok {
							switch calleeName(&call.Call) {
							case "(*metadata.Metadata).GetBool", "(*metadata.Metadata).GetInt", "(*metadata.Metadata).GetStr":
								if ex.Index == 1 {
									return v.Op == token.EQL, true // no error
								}
							case fnName(upd):
								if ex.Index == 0 {
									return v.Op == token.NEQ, true // the update produced a leaf
								}
							}
						}
					}
					if p, ok := x.V.(*ssa.Parameter); ok && p.Parent() == gen {
						return v.Op == token.NEQ, true // the callback is set
					}
				}
			}
			return false, false
		}}
	e.Run(gen)
	c.Paths += len(e.Paths)
	if e.Overflow {
		c.Unknown(rule, fnName(gen), "paths", P.Pos(gen.Pos()), "path overflow")
		return
	}
	keys := map[string]int{}
	for i := range e.Paths {
		p := &e.Paths[i]
		if p.End != "return" {
			continue
		}
		for j := range p.Trace {
			if !isGet(&p.Trace[j]) {
				continue
			}
			kind := strings.TrimPrefix(p.Trace[j].Label, "call:(*metadata.Metadata).Get")
			keys[kind]++
			wrote := false
			for k := j + 1; k < len(p.Trace) && !isGet(&p.Trace[k]); k++ {
				if isUpd(&p.Trace[k]) {
					wrote = true
				}
			}
			c.Check(wrote, rule, fnName(gen), kind+" registry: a key whose stored value differs is rewritten", P.Pos(posOf(p.Trace[j].In)), "path: "+p.String())
		}
	}
	for _, k := range []string{"Bool", "Int", "Str"} {
		c.Floor(rule+"/"+k, keys[k], 1)
	}
}
