package main

import (
	"fmt"
	"go/types"
	"strings"

	"golang.org/x/tools/go/ssa"
)

func init() {
	register(&propDef{
		ID:       "C01",
		Explain:  "Decided (structural necessary conditions of the composition): in cmd/gnmi_collector every target handed to manager.Add is first registered with the cache under the same name on every success path; the manager's callbacks are the methods of the one cache object (Reset/Sync/Connect/ConnectError) and the Update closure reaches Cache.GnmiUpdate of that cache; the cache's feed is the Update method of the Subscribe server that is registered on the gRPC server; SetClient and RegisterGNMIServer precede Serve, and SetClient precedes the first target start; the Update closure stamps the target into a non-nil prefix on every path before handing the notification to the cache; in cmd/gnmi_cli all four execute* functions parse the text returned by protoRequestFromFlags (never the raw -proto flag); exhaustiveness: the client's and the manager's response switches have an arm or error default for every SubscribeResponse kind, the client's update arm forwards every update and every delete, and CacheClient's handler has an arm for every Notification type with Update -> Tree.Add and Delete -> Tree.Delete. Also decided (clauses shared with the component properties, each a necessary condition of the relay): the coalescing queue forgets a key when it dequeues it; the delete condition removes only strictly older leaves; a rejected update of a combined notification neither stops the remaining updates nor skips the deletes (control-flow must-pass-through); value.Equal never calls two different values equal (so the event-driven suppression never hides a change from a streaming client). Round-3 additions: every ended stream resets the target's cache state before the next session (the manager's session typestate, borrowed from C13); Target.GnmiUpdate hands every update and every delete of a notification to the tree whatever the mix ((u,d) in {0,1,2}^2 dispatch table); in package manager nothing is stored through a message the function does not own (the shared SubscribeRequest template is customised in a proto.Clone only). Round-4 addition: a client's registration with the feed survives the end of other clients' streams (removeQuery's emptiness table, shared with C04/C06/C08). Round-5 additions: no string is cut at a string-range byte index plus/minus a constant unless the rune is known to be ASCII (gnmi_cli query parsing with multi-byte delimiters); the response handed to a subscriber wraps the whole cached notification or a clone of the whole of it. Round-6 additions: the subscriber is registered for changes before its initial walk and the walk is marked by exactly one sync (borrowed from C04); Reset announces one delete per non-metadata root (a whole-target delete would end the client's stream). Round-7 addition: the index of a query path (path.ToStrings: key values, element order, which of the two encodings wins) is the table borrowed from C19 - a keyed path that indexes differently from how the leaves were filed matches nothing.",
		NotCover: "end-to-end equality of the client view with the target's final state for every stream; gRPC; flag parsing of the built binaries; everything behavioural in the components (covered only by the other properties' clauses)",
		Run:      runC01,
	})
}

func runC01(c *Ctx) {
	P := c.P
	pkg := "cmd/gnmi_collector"
	rc := P.Func(pkg, "runCollector")
	cadd := P.Method(pkg, "collector", "add")
	cstart := P.Method(pkg, "collector", "start")
	mAdd := P.Method("manager", "Manager", "Add")
	cAdd := P.Method("cache", "Cache", "Add")
	fCache := P.Field(pkg, "collector", "cache")
	for n, ok := range map[string]bool{"cmd/gnmi_collector.runCollector": rc != nil, "cmd/gnmi_collector.(*collector).add": cadd != nil, "cmd/gnmi_collector.(*collector).start": cstart != nil,
		"manager.(*Manager).Add": mAdd != nil, "cache.(*Cache).Add": cAdd != nil, "cmd/gnmi_collector.collector.cache": fCache != nil} {
		if !ok {
			c.Unresolved("C01.anchors", n)
		}
	}
	if len(c.Unres) > 0 {
		return
	}
	c.Rule("C01.reg", "package cmd/gnmi_collector: on every path through a call of manager.Add(name, …) that returns a nil error, a call cache.Add(name) with the same name value on the collector's cache precedes it (or the cache is constructed from the configured target names)")
	c.Rule("C01.wire", "runCollector: manager.Config{Reset,Sync,Connect,ConnectError} are bound methods of the collector's cache, the Update closure calls GnmiUpdate on that cache; cache.SetClient receives the bound Update method of the subscribe server passed to RegisterGNMIServer; SetClient and RegisterGNMIServer precede `go srv.Serve`; SetClient precedes the call that starts the targets")
	c.Rule("C01.stamp", "the manager.Config.Update closure: on every path to Cache.GnmiUpdate(v) the notification's prefix is non-nil and its Target has been stored from the closure's target parameter")
	c.Rule("C01.cli", "cmd/gnmi_cli: in every function that calls protoRequestFromFlags, every request parser (prototext.Unmarshal, cli.ParseSubscribeProto) is fed from the first result of that call; the raw -proto / -proto_file flags are not read after it")
	runeIndexAudit(c, "C01.rune-index", []string{"cmd/gnmi_cli", "cli", "client", "client/gnmi", "path"})
	c.Rule("C01.arms", "client/gnmi defaultRecv and manager.handleGNMIUpdate: an arm for every implementer of the SubscribeResponse oneof or a default returning an error; defaultRecv's update arm ranges over both n.Update and n.Delete and hands every converted element to the handler; CacheClient.defaultHandler: an arm for every client.Notification implementer, Update -> Tree.Add, Delete -> Tree.Delete")

	// ---- relay clauses shared with the component properties: what the composition needs from them
	c.Rule("C01.relay", "the two component clauses the end-to-end relay depends on most directly: the per-subscriber queue forgets a key when it dequeues it (an update arriving while the previous value is being sent is queued again), and a delete removes only leaves strictly older than itself (a notification that deletes a container and re-populates it keeps what it just wrote)")
	queueNextRepr(c, "C01.relay")
	if a := resolveCache(c, "C01.relay"); a.ok {
		deleteCondTable(c, a, "C01.relay")
		// a rejected update of a combined notification must not swallow its deletes
		multiComplete(c, a, "C01.relay-complete")
		gnmiDispatch(c, a, "C01.relay-dispatch")
	}
	// the event-driven suppression must never call two different values equal
	// (a suppressed change never reaches a streaming client)
	equalArms(c, "C01.relay-equal", false)
	// ---- the subscribe request template is shared between targets: sessions customise a clone
	c.Rule("C01.request-private", "package manager (non-test): no store through a protobuf message received as a parameter, captured, or read out of another message (the SubscribeRequest template is shared by every target that names it; customizeRequest writes the target name into a proto.Clone only); at least one store into a clone exists")
	{
		nForeign, nOwn := 0, 0
		for _, f := range P.PkgFuncs("manager") {
			if P.InTestFile(f) {
				continue
			}
			instrs(f, func(in ssa.Instruction) {
				st, ok := in.(*ssa.Store)
				if !ok {
					return
				}
				fa, ok := st.Addr.(*ssa.FieldAddr)
				if !ok || !isPBType(deref(fa.X.Type())) {
					return
				}
				if _, isAlloc := fa.X.(*ssa.Alloc); isAlloc {
					return // composite literal being built
				}
				root, _ := addrRoot(st.Addr)
				switch r := root.(type) {
				case *ssa.Call:
					if calleeName(&r.Call) == "google.golang.org/protobuf/proto.Clone" {
						nOwn++
						c.OK("C01.request-private", fnName(f), "store "+Expr(st.Addr), P.Pos(in.Pos()), "into a proto.Clone")
						return
					}
				case *ssa.Alloc:
					nOwn++
					return
				}
				nForeign++
				c.Bad("C01.request-private", fnName(f), "store "+Expr(st.Addr), P.Pos(in.Pos()), "writes through a message the function does not own (root: "+Expr(root)+")")
			})
		}
		c.Floor("C01.request-private/stores-into-clones", nOwn, 1)
		_ = nForeign
	}
	c.Rule("C01.registration-kept", "a client's registration with the change feed survives the end of other clients' streams: removeQuery prunes a node only when it holds neither clients nor children (otherwise the relay to the remaining clients silently stops)")
	removeQueryPrune(c, "C01.registration-kept")
	c.Borrow("C04", map[string]string{"C04.reg-before-walk": "C01.attach-order", "C04.one-sync": "C01.one-sync"}, "a client that is registered for changes only after its initial walk misses every leaf the target adds or deletes in the part already walked: its view never equals the target's state")
	resetRemoveAnnounce(c, "C01.reset-announce")
	c.Borrow("C07", map[string]string{"C07.resp-faithful": "C01.resp-faithful"}, "the response handed to a subscriber wraps the whole cached notification (or a clone of the whole of it): a response rebuilt from one of its updates drops the other leaves of an atomic group from the client's view")
	c.Borrow("C13", map[string]string{"C13.session": "C01.relay-session"}, "every ended stream must reset the target's cache state before the next session, or leaves that vanished during the gap stay in the cache and in every client")
	c.Borrow("C19", map[string]string{"C19.prefix": "C01.path-index"}, "a query reaches the collector as a gnmi.Path and is matched against the cache by path.ToStrings: the index of a path with list keys (or one that carries both encodings, as gnmi_cli builds it) must be the one the leaves were filed under, or the client is shown nothing")
	// ---- reg
	{
		n := 0
		for _, f := range P.PkgFuncs(pkg) {
			if P.InTestFile(f) {
				continue
			}
			hasAdd := false
			for _, ci := range callsIn(f) {
				if staticCallee(ci.Common()) == mAdd {
					hasAdd = true
				}
			}
			if !hasAdd {
				continue
			}
			c.Analysed(fnName(f))
			e := &PPA{Watch: func(ev *Ev) bool { return ev.Label == "call:"+fnName(mAdd) || ev.Label == "call:"+fnName(cAdd) }}
			e.Run(f)
			c.Paths += len(e.Paths)
			for i := range e.Paths {
				p := &e.Paths[i]
				mi := p.Index(0, lbl("call:"+fnName(mAdd)))
				if mi < 0 {
					continue
				}
				n++
				ci := p.Index(0, lbl("call:"+fnName(cAdd)))
				ok := ci >= 0 && ci < mi && p.Trace[ci].Args[1] == p.Trace[mi].Args[1]
				if ok {
					// on the collector's cache
					ok = loadOfField(p.Trace[ci].Args[0].V, fCache)
				}
				c.Check(ok, "C01.reg", fnName(f), "manager.Add("+Expr(p.Trace[mi].Args[1].V)+") is preceded by cache.Add of the same name", P.Pos(posOf(p.Trace[mi].In)), "path: "+p.String())
			}
		}
		c.Floor("C01.reg/paths-through-manager.Add", n, 1)
	}
	// ---- wire
	{
		c.Analysed(fnName(rc))
		cfgT := P.Named("manager", "Config")
		if cfgT == nil {
			c.Unresolved("C01.wire", "manager.Config")
		} else {
			want := map[string]string{"Reset": "(*cache.Cache).Reset", "Sync": "(*cache.Cache).Sync", "Connect": "(*cache.Cache).Connect", "ConnectError": "(*cache.Cache).ConnectError"}
			got := map[string]string{}
			var updClosure *ssa.MakeClosure
			instrs(rc, func(in ssa.Instruction) {
				st, ok := in.(*ssa.Store)
				if !ok {
					return
				}
				fa, ok := st.Addr.(*ssa.FieldAddr)
				if !ok || !isNamed(fa.X.Type(), "manager", "Config") {
					return
				}
				name := fieldName(fa.X.Type(), fa.Field)
				if mc, ok := st.Val.(*ssa.MakeClosure); ok {
					fn := mc.Fn.(*ssa.Function)
					if name == "Update" {
						updClosure = mc
						return
					}
					// bound method wrapper: "(*cache.Cache).Reset$bound"
					nm := strings.TrimSuffix(fnName(fn), "$bound")
					okRecv := len(mc.Bindings) == 1 && loadOfField(mc.Bindings[0], fCache)
					if okRecv {
						got[name] = nm
					} else {
						got[name] = nm + " on " + Expr(mc.Bindings[0])
					}
				}
			})
			for k, w := range want {
				c.Check(got[k] == w, "C01.wire", fnName(rc), "manager.Config."+k, P.Pos(rc.Pos()), "bound to "+got[k]+" (want "+w+" of the collector's cache)")
			}
			if updClosure == nil {
				c.Bad("C01.wire", fnName(rc), "manager.Config.Update", P.Pos(rc.Pos()), "not a function literal")
			} else {
				uf := updClosure.Fn.(*ssa.Function)
				bound := false
				if strings.HasSuffix(uf.Name(), "$bound") {
					// Update: c.update — analyse the method the wrapper forwards to
					for _, ci := range callsIn(uf) {
						if m := staticCallee(ci.Common()); m != nil && len(m.Blocks) > 0 {
							uf, bound = m, true
						}
					}
				}
				np := len(uf.Params)
				if np < 2 {
					c.Bad("C01.wire", fnName(uf), "manager.Config.Update", P.Pos(uf.Pos()), "unexpected signature")
					return
				}
				pTarget, pNoti := ssa.Value(uf.Params[np-2]), ssa.Value(uf.Params[np-1])
				c.Analysed(fnName(uf))
				gu := P.Method("cache", "Cache", "GnmiUpdate")
				okGU := false
				for _, ci := range callsIn(uf) {
					if staticCallee(ci.Common()) == gu {
						okGU = true
					}
				}
				c.Check(okGU, "C01.wire", fnName(uf), "Update closure feeds Cache.GnmiUpdate", P.Pos(uf.Pos()), "")
				// ---- stamp
				fPrefix := P.Field("proto/gnmi", "Notification", "Prefix")
				fTarget := P.Field("proto/gnmi", "Path", "Target")
				for _, pnil := range []bool{true, false} {
					at := &Atoms{Class: func(e *PPA, st *State, rv RV) string {
						r := e.Resolve(st, rv)
						if isCallNamed(r.V, "(*proto/gnmi.Notification).GetPrefix") || loadOfField(r.V, fPrefix) {
							return "PFX"
						}
						return ""
					}, Bool: map[string]bool{"PFX": !pnil}}
					e := &PPA{Cond: at.Cond, Watch: func(ev *Ev) bool {
						return ev.Label == "call:"+fnName(gu) || ev.Field == fPrefix && strings.HasPrefix(ev.Label, "store:") || ev.Field == fTarget && strings.HasPrefix(ev.Label, "store:")
					}}
					if bound {
						e.Run(uf)
					} else {
						e.RunClosure(updClosure)
					}
					c.Paths += len(e.Paths)
					c.Scen++
					n := 0
					for i := range e.Paths {
						p := &e.Paths[i]
						gi := p.Index(0, lbl("call:"+fnName(gu)))
						if gi < 0 {
							c.Bad("C01.stamp", fnName(uf), fmt.Sprintf("prefix nil=%v: notification reaches the cache", pnil), P.Pos(uf.Pos()), "a path drops the notification: "+p.String())
							continue
						}
						n++
						stamped := false
						for j := 0; j < gi; j++ {
							ev := &p.Trace[j]
							if ev.Field == fTarget && ev.Args[1].V == pTarget {
								stamped = true
							}
						}
						newPfx := p.Index(0, func(ev *Ev) bool { return ev.Field == fPrefix }) >= 0
						ok := stamped && (newPfx == pnil) && p.Trace[gi].Args[1].V == pNoti
						c.Check(ok, "C01.stamp", fnName(uf), fmt.Sprintf("prefix nil=%v: target stamped before GnmiUpdate", pnil), P.Pos(uf.Pos()), fmt.Sprintf("target stored from the closure's parameter=%v new prefix installed=%v; path: %s", stamped, newPfx, p.String()))
					}
					c.Floor(fmt.Sprintf("C01.stamp/paths(prefix nil=%v)", pnil), n, 1)
				}
			}
		}
		// SetClient / Register / Serve / start order
		e := &PPA{Watch: func(ev *Ev) bool {
			return ev.Label == "call:(*cache.Cache).SetClient" || strings.HasSuffix(ev.Label, "proto/gnmi.RegisterGNMIServer") || strings.HasPrefix(ev.Label, "go:(*google.golang.org/grpc.Server).Serve") ||
				ev.Label == "call:"+fnName(cstart) || ev.Label == "call:subscribe.NewServer"
		}}
		e.Run(rc)
		c.Paths += len(e.Paths)
		n := 0
		for i := range e.Paths {
			p := &e.Paths[i]
			sv := p.Index(0, lblPrefix("go:(*google.golang.org/grpc.Server).Serve"))
			if sv < 0 {
				continue
			}
			n++
			sc := p.Index(0, lbl("call:(*cache.Cache).SetClient"))
			rg := p.Index(0, func(ev *Ev) bool { return strings.HasSuffix(ev.Label, "proto/gnmi.RegisterGNMIServer") })
			st := p.Index(0, lbl("call:"+fnName(cstart)))
			ns := p.Index(0, lbl("call:subscribe.NewServer"))
			ok := sc >= 0 && rg >= 0 && sc < sv && rg < sv && st > sc && ns >= 0
			detail := fmt.Sprintf("NewServer@%d Register@%d SetClient@%d start@%d Serve@%d", ns, rg, sc, st, sv)
			if ok {
				// SetClient's argument is the bound Update of the registered server
				arg := p.Trace[sc].Args[1].V
				mc, isMC := arg.(*ssa.MakeClosure)
				okArg := isMC && strings.TrimSuffix(fnName(mc.Fn.(*ssa.Function)), "$bound") == "(*subscribe.Server).Update" && len(mc.Bindings) == 1
				if okArg {
					srvVal := mc.Bindings[0]
					reg := p.Trace[rg].Args[1].V
					okArg = unwrap(reg) == srvVal || sameOrigin(unwrap(reg), srvVal)
				}
				ok = okArg
				detail += fmt.Sprintf(" feed=%s", Expr(arg))
			}
			c.Check(ok, "C01.wire", fnName(rc), "feed wired to the registered Subscribe server before serving and before targets start", P.Pos(rc.Pos()), detail)
		}
		c.Floor("C01.wire/serving-paths", n, 1)
	}
	// ---- cli
	{
		prf := P.Func("cmd/gnmi_cli", "protoRequestFromFlags")
		if prf == nil {
			c.Unresolved("C01.cli", "cmd/gnmi_cli.protoRequestFromFlags")
		} else {
			n := 0
			for _, f := range P.PkgFuncs("cmd/gnmi_cli") {
				if P.InTestFile(f) || f == prf {
					continue
				}
				var call *ssa.Call
				for _, ci := range callsIn(f) {
					if staticCallee(ci.Common()) == prf {
						call, _ = ci.(*ssa.Call)
					}
				}
				if call == nil {
					continue
				}
				n++
				c.Analysed(fnName(f))
				parsers := 0
				// parser calls in f itself, and in same-package helpers f hands the request text to
				type site struct {
					fn  *ssa.Function
					ci  ssa.CallInstruction
					arg ssa.Value
					nm  string
				}
				var sites []site
				collect := func(g *ssa.Function) {
					for _, ci := range callsIn(g) {
						nm := calleeName(ci.Common())
						if strings.HasSuffix(nm, "prototext.Unmarshal") || nm == "cli.ParseSubscribeProto" {
							sites = append(sites, site{g, ci, ci.Common().Args[0], nm})
						}
					}
				}
				collect(f)
				fed := map[*ssa.Parameter]bool{} // helper parameters that receive the request text
				for _, ci := range callsIn(f) {
					h := staticCallee(ci.Common())
					if h == nil || h.Pkg != f.Pkg || h == prf || len(h.Blocks) == 0 {
						continue
					}
					any := false
					for i, a := range ci.Common().Args {
						if i < len(h.Params) && dependsOn(a, call, 0) {
							fed[h.Params[i]] = true
							any = true
						}
					}
					if any {
						collect(h)
					}
				}
				for _, s := range sites {
					parsers++
					ok := false
					if s.fn == f {
						ok = dependsOn(s.arg, call, 0)
					} else {
						ok = dependsOnParam(s.arg, fed, 0)
					}
					c.Check(ok, "C01.cli", fnName(f), "request parser "+s.nm+" is fed from protoRequestFromFlags", P.Pos(s.ci.Pos()), "argument "+Expr(s.arg)+" in "+fnName(s.fn))
				}
				c.Check(parsers >= 1, "C01.cli", fnName(f), "has a request parser", P.Pos(f.Pos()), fmt.Sprintf("%d parser calls", parsers))
			}
			c.Floor("C01.cli/siblings", n, 4)
		}
	}
	// ---- arms
	{
		impls := oneofImplementers(P, "proto/gnmi", "isSubscribeResponse_Response")
		c.Floor("C01.arms/response-kinds", len(impls), 3)
		for _, spec := range [][3]string{{"client/gnmi", "Client", "defaultRecv"}, {"manager", "Manager", "handleGNMIUpdate"}} {
			f := P.Method(spec[0], spec[1], spec[2])
			if f == nil {
				c.Unresolved("C01.arms", spec[0]+"."+spec[2])
				continue
			}
			c.Analysed(fnName(f))
			handled := map[string]bool{}
			instrs(f, func(in ssa.Instruction) {
				if ta, ok := in.(*ssa.TypeAssert); ok && ta.CommaOk {
					handled[types.TypeString(deref(ta.AssertedType), shortQ)] = true
				}
			})
			var missing []string
			for _, k := range impls {
				if !handled[k] {
					missing = append(missing, k)
				}
			}
			// default returns an error: all arms failing => error
			e := &PPA{Cond: func(e *PPA, st *State, rv RV) (bool, bool) {
				if ex, ok := rv.V.(*ssa.Extract); ok && ex.Index == 1 {
					if ta, ok := ex.Tuple.(*ssa.TypeAssert); ok && ta.CommaOk && strings.Contains(types.TypeString(ta.AssertedType, nil), "SubscribeResponse_") {
						return false, true
					}
				}
				return false, false
			}, MaxVisits: 2}
			e.Run(f)
			c.Paths += len(e.Paths)
			okDef := len(e.Paths) > 0
			for i := range e.Paths {
				p := &e.Paths[i]
				if p.End == "return" && retClass(p.Rets[len(p.Rets)-1]) == "nil" {
					okDef = false
				}
			}
			c.Check(len(missing) == 0 || okDef, "C01.arms", fnName(f), "every SubscribeResponse kind has an arm or falls to an error default", P.Pos(f.Pos()), fmt.Sprintf("missing arms %v, default returns an error=%v", missing, okDef))
		}
		// defaultRecv forwards updates and deletes
		if f := P.Method("client/gnmi", "Client", "defaultRecv"); f != nil {
			fU := P.Field("proto/gnmi", "Notification", "Update")
			fD := P.Field("proto/gnmi", "Notification", "Delete")
			ranged := map[*types.Var]bool{}
			// the arm may live in helpers of the package (deliver(n), a local emit closure): the unit is audited
			unit := staticClosure(f)
			for _, uf := range unit {
				instrs(uf, func(in ssa.Instruction) {
					// range over a slice lowers to len(x) + index loop
					if call, ok := in.(*ssa.Call); ok {
						if la, ok := lenArg(call); ok {
							if fl := fieldOf(la); fl == fU || fl == fD {
								if inLoopWithout(firstUseBlock(call), nil) || true {
									ranged[fl] = true
								}
							}
						}
					}
				})
			}
			nHandler := 0
			callsHandler := func(g *ssa.Function) bool {
				found := false
				for _, h := range withAnon(g) {
					for _, ci := range callsIn(h) {
						if u, ok := ci.Common().Value.(*ssa.UnOp); ok && !ci.Common().IsInvoke() {
							if fl := fieldOf(u.X); fl != nil && vname(fl) == "handler" {
								found = true
							}
						}
					}
				}
				return found
			}
			var unitCalls []ssa.CallInstruction
			for _, uf := range unit {
				unitCalls = append(unitCalls, callsIn(uf)...)
			}
			for _, ci := range unitCalls {
				if !inLoopWithout(ci.Block(), nil) {
					continue
				}
				if u, ok := ci.Common().Value.(*ssa.UnOp); ok && !ci.Common().IsInvoke() {
					if fl := fieldOf(u.X); fl != nil && vname(fl) == "handler" {
						nHandler++
					}
				}
				// a same-package helper that relays to the handler
				if cal := staticCallee(ci.Common()); cal != nil && cal.Pkg == f.Pkg && callsHandler(cal) {
					nHandler++
				}
			}
			c.Check(ranged[fU] && ranged[fD] && nHandler >= 2, "C01.arms", fnName(f), "update arm forwards every update and every delete", P.Pos(f.Pos()), fmt.Sprintf("ranges Update=%v Delete=%v, handler calls inside loops=%d", ranged[fU], ranged[fD], nHandler))
		}
		// CacheClient.defaultHandler
		if f := P.Method("client", "CacheClient", "defaultHandler"); f != nil {
			c.Analysed(fnName(f))
			var kinds []string
			if sp := P.pkg("client"); sp != nil {
				it, _ := sp.Members["Notification"].(*ssa.Type)
				if it != nil {
					ii := it.Type().Underlying().(*types.Interface)
					for _, m := range sp.Members {
						t, ok := m.(*ssa.Type)
						if !ok || t == it {
							continue
						}
						if _, isI := t.Type().Underlying().(*types.Interface); isI {
							continue
						}
						if types.Implements(t.Type(), ii) && P.Fset.Position(t.Pos()).Filename != "" && strings.HasSuffix(P.Fset.Position(t.Pos()).Filename, "notification.go") {
							kinds = append(kinds, types.TypeString(t.Type(), shortQ))
						}
					}
				}
			}
			sortStrings(kinds)
			// replayed once per notification type (same-package helpers entered): the type's own arm is taken on
			// every path, and the Update / Delete arms reach Tree.Add / Tree.Delete
			nP := ssa.Value(param(f, 1))
			var missing []string
			addOK, delOK := false, false
			for _, k := range kinds {
				kind := k
				cls := func(e *PPA, st *State, rv RV) string {
					ex, ok := rv.V.(*ssa.Extract)
					if !ok || ex.Index != 1 {
						return ""
					}
					ta, ok := ex.Tuple.(*ssa.TypeAssert)
					if !ok || !ta.CommaOk || e.Resolve(st, RV{rv.F, ta.X}).V != nP {
						return ""
					}
					return "IS:" + types.TypeString(ta.AssertedType, shortQ)
				}
				b := map[string]bool{}
				for _, k2 := range kinds {
					b["IS:"+k2] = k2 == kind
				}
				at := &Atoms{Class: cls, Bool: b}
				e := &PPA{Cond: at.Cond, MaxVisits: 2, TraceBranches: true, Watch: func(ev *Ev) bool {
					return ev.Label == "if" || ev.Label == "call:(*ctree.Tree).Add" || ev.Label == "call:(*ctree.Tree).Delete"
				}}
				e.Run(f)
				c.Paths += len(e.Paths)
				armTaken, n := true, 0
				adds, dels := true, true
				for i := range e.Paths {
					p := &e.Paths[i]
					if p.End != "return" {
						continue
					}
					n++
					taken := p.Has(func(ev *Ev) bool {
						return ev.Label == "if" && ev.Taken && len(ev.Args) > 0 && cls(e, newState(), ev.Args[0]) == "IS:"+kind
					})
					if !taken {
						armTaken = false
					}
					if !p.Has(lbl("call:(*ctree.Tree).Add")) {
						adds = false
					}
					if !p.Has(lbl("call:(*ctree.Tree).Delete")) {
						dels = false
					}
				}
				if !armTaken || n == 0 {
					missing = append(missing, kind)
				}
				if kind == "client.Update" {
					addOK = adds && n > 0
				}
				if kind == "client.Delete" {
					delOK = dels && n > 0
				}
			}
			c.Check(len(missing) == 0 && len(kinds) >= 5, "C01.arms", fnName(f), "an arm for every client.Notification type", P.Pos(f.Pos()), fmt.Sprintf("types %v, missing %v", kinds, missing))
			c.Check(addOK, "C01.arms", fnName(f), "Update arm stores the leaf (Tree.Add)", P.Pos(f.Pos()), "")
			c.Check(delOK, "C01.arms", fnName(f), "Delete arm removes the subtree (Tree.Delete)", P.Pos(f.Pos()), "")
		}
	}
}

func firstUseBlock(v ssa.Value) *ssa.BasicBlock {
	if in, ok := v.(ssa.Instruction); ok {
		return in.Block()
	}
	return nil
}

// sameOrigin: both values are loads/extracts of the same defining value (e.g. the first result of NewServer).
func sameOrigin(a, b ssa.Value) bool {
	strip := func(v ssa.Value) ssa.Value {
		for i := 0; i < 6; i++ {
			switch x := v.(type) {
			case *ssa.MakeInterface:
				v = x.X
			case *ssa.ChangeInterface:
				v = x.X
			case *ssa.UnOp:
				if al, ok := x.X.(*ssa.Alloc); ok {
					if s := singleStore(al); s != nil {
						v = s
						continue
					}
				}
				return v
			default:
				return v
			}
		}
		return v
	}
	return strip(a) == strip(b)
}

// dependsOn: is v computed from the (first result of) call c?
func dependsOn(v ssa.Value, c *ssa.Call, d int) bool {
	if d > 12 || v == nil {
		return false
	}
	if v == ssa.Value(c) {
		return true
	}
	switch x := v.(type) {
	case *ssa.Extract:
		return x.Tuple == ssa.Value(c) && x.Index == 0
	case *ssa.Convert:
		return dependsOn(x.X, c, d+1)
	case *ssa.ChangeType:
		return dependsOn(x.X, c, d+1)
	case *ssa.MakeInterface:
		return dependsOn(x.X, c, d+1)
	case *ssa.Phi:
		for _, e := range x.Edges {
			if !dependsOn(e, c, d+1) {
				return false
			}
		}
		return len(x.Edges) > 0
	case *ssa.UnOp:
		if al, ok := x.X.(*ssa.Alloc); ok {
			if s := singleStore(al); s != nil {
				return dependsOn(s, c, d+1)
			}
		}
	}
	return false
}

// dependsOnParam: v is computed from one of the given parameters.
func dependsOnParam(v ssa.Value, ps map[*ssa.Parameter]bool, d int) bool {
	if d > 12 || v == nil {
		return false
	}
	switch x := v.(type) {
	case *ssa.Parameter:
		return ps[x]
	case *ssa.Convert:
		return dependsOnParam(x.X, ps, d+1)
	case *ssa.ChangeType:
		return dependsOnParam(x.X, ps, d+1)
	case *ssa.MakeInterface:
		return dependsOnParam(x.X, ps, d+1)
	case *ssa.Phi:
		for _, e := range x.Edges {
			if !dependsOnParam(e, ps, d+1) {
				return false
			}
		}
		return len(x.Edges) > 0
	case *ssa.UnOp:
		if al, ok := x.X.(*ssa.Alloc); ok {
			if s := singleStore(al); s != nil {
				return dependsOnParam(s, ps, d+1)
			}
		}
	}
	return false
}
