package main

import (
	"fmt"
	"go/token"
	"go/types"
	"sort"
	"strings"

	"golang.org/x/tools/go/ssa"
)

func init() {
	register(&propDef{
		ID:       "C09",
		Explain:  "Decided (structural necessary conditions; model equivalence with a prefix-free map is NOT decided): sorted walks and String() never act in map iteration order (keys collected, sorted, then visited; no visitor call or recursion inside a range over a map); internalDelete's selection: a leaf reached with an exhausted path or one trailing glob is always offered to the condition (no early exit in front of the terminal/glob test) and is removed, reported and handed to the callback exactly when the condition accepts it; pruning: a child is deleted from its parent's map only after its recursive call reported it removable, a branch reached through a glob reports itself removable exactly when it has become empty (evaluated at 0/1 remaining children, with and without remaining glob elements), WalkDeleted/DeleteConditional clear the root only on that flag; an empty node (nil) is never offered to the condition; visitors are invoked at most once per node activation; Walk/WalkSorted hand every child its own copy of the path; Delete passes a constant-true condition. Also decided: with retDeletedPaths set the paths reported by a child's visit reach the result whether or not the child became removable, and the explicit-child arm returns the child's list; Walk/WalkSorted visit a leaf stored at the root exactly once with its own value and do not visit an empty root. Also decided: the per-node decision table of the query descent (queryInternal with enumerateChildren inlined: 18 rows over node kind x remaining path, incl. that every descent extends the reported prefix by the child's own key) - the same table internalDelete is held to, which now includes that a leaf reached with more path left (plain element, or glob followed by further elements) is never removed; add atomicity (terminalAdd / intermediateAdd / slowAdd: an error path made in the function writes nothing and does not descend; a branch node is refused by terminalAdd, a path through a leaf by the other two; terminalAdd stores exactly its value parameter). Round-3 additions: what may hand out a node's content ((*Tree).Value returns nil for a branch; only it and the leaf-handle accessor return it; package ctree never calls its own handle methods); who may store into a node's content and what; Add only dispatches (makes no error of its own). Round-4 additions to the query table: a branch is replayed with exactly two children and both must be descended into; a child stored under the literal name * does not capture a glob. Round-5 additions: the exact-path lookup table (Get / GetLeaf / GetLeafValue) in recursive or loop form; the append-ownership audit over package ctree (paths handed to callers and callbacks do not share a backing array). Round-7 addition: a walk enumerates a node's children from the node's own child map, ranged over in the same activation before the first child is visited (no answer from a list kept by an earlier walk).",
		NotCover: "model equivalence over operation sequences (the per-node tables of add, query and delete are decided; their closure over sequences is not); slowAdd's newBranch chain building a complete path",
		Run:      runC09,
	})
}

func runC09(c *Ctx) {
	P := c.P
	id := P.Method("ctree", "Tree", "internalDelete")
	wis := P.Method("ctree", "Tree", "walkInternalSorted")
	wi := P.Method("ctree", "Tree", "walkInternal")
	str := P.Method("ctree", "Tree", "String")
	ec := P.Method("ctree", "Tree", "enumerateChildren")
	wd := P.Method("ctree", "Tree", "WalkDeleted")
	dc := P.Method("ctree", "Tree", "DeleteConditional")
	del := P.Method("ctree", "Tree", "Delete")
	fLB := P.Field("ctree", "Tree", "leafBranch")
	for n, ok := range map[string]bool{"internalDelete": id != nil, "WalkDeleted": wd != nil, "DeleteConditional": dc != nil, "Delete": del != nil} {
		if !ok {
			c.Unresolved("C09.anchors", "ctree.(*Tree)."+n)
		}
	}
	if fLB == nil {
		c.Unresolved("C09.anchors", "ctree.Tree.leafBranch")
	}
	if len(c.Unres) > 0 {
		return
	}
	// the walk rules have anchors of their own: when one of them no longer resolves those rules fail
	// (closed), the delete / query / add rules - and every property that borrows them - are still decided
	walkOK := true
	ws := P.Method("ctree", "Tree", "WalkSorted")
	// (enumerateChildren may be folded into queryInternal: the query table does not depend on the split)
	for n, ok := range map[string]bool{"walkInternalSorted / WalkSorted": wis != nil || ws != nil, "walkInternal": wi != nil, "String": str != nil} {
		if !ok {
			c.Unresolved("C09.sorted", "ctree.(*Tree)."+n)
			walkOK = false
		}
	}
	// the sorted walk merged into the plain one behind an iteration-order function: what runs below the
	// exported WalkSorted is found by entering its callees (function-typed parameters resolved on the path)
	var sortedFns []*ssa.Function
	if wis != nil {
		sortedFns = []*ssa.Function{wis}
	} else if ws != nil {
		seen := map[*ssa.Function]bool{}
		e := &PPA{MaxVisits: 2, MaxPaths: 4000, NoAuto: true,
			Inline: func(fr *Frame, call ssa.CallInstruction, callee *ssa.Function) bool {
				if pkgPathOf(callee) != pkgPathOf(ws) {
					return false
				}
				for x := fr; x != nil; x = x.Parent {
					if x.Fn == callee {
						return false // the recursion itself stays a call
					}
				}
				return true
			},
			Watch: func(ev *Ev) bool { return false },
			Probe: func(e *PPA, st *State, fr *Frame, in ssa.Instruction) { seen[fr.Fn] = true }}
		e.Run(ws)
		c.Paths += len(e.Paths)
		for f := range seen {
			sortedFns = append(sortedFns, f)
		}
		sort.Slice(sortedFns, func(i, j int) bool { return fnName(sortedFns[i]) < fnName(sortedFns[j]) })
	}
	c.Rule("C09.sorted", "walkInternalSorted and String: no callback invocation or recursive visit inside a range over a map; the keys accumulated in such a range are sorted before any other use")
	c.Rule("C09.conditional", "internalDelete, leaf arm: f is called and deletion reported exactly on the true edge of condition(value); Delete passes a condition that is constantly true")
	c.Rule("C09.select", "internalDelete: a leaf reached with len(subpath)==0, or with subpath == [\"*\"], is offered to the condition on every path (nothing returns before the terminal/glob test); a leaf reached with more path left (a plain element, or a glob followed by further elements) is never offered and nothing is removed - exactly what Query reports for the same path; a nil (empty) node is never offered to the condition")
	c.Rule("C09.prune-guard", "internalDelete: delete(children, k) only after the recursive call for k returned true; the glob arm over a branch returns 'removable' iff the branch has no children left (0 => true, 1 => false), whether or not glob elements remain; the explicit-child arm returns removable iff the map became empty; WalkDeleted / DeleteConditional store leafBranch=nil only when internalDelete reported the root removable")
	c.Rule("C09.returned-paths", "internalDelete with retDeletedPaths set: the paths reported by a child's visit can reach the accumulated result whether or not the child itself became removable (glob arm), and the explicit-child arm returns a non-nil list taken from the child's visit")
	c.Rule("C09.walk-root", "Walk and WalkSorted (their unexported helpers inlined): a leaf stored at the root is handed to the visitor exactly once with its own value, an empty root is not visited")
	c.Rule("C09.visit-once", "walkInternal, walkInternalSorted and enumerateChildren call the visitor at most once per activation, never inside a loop")
	c.Rule("C09.path-copy", "walkInternal and walkInternalSorted pass to each child's visit a path built on a slice made inside the loop iteration (never an append onto the path parameter, whose spare capacity siblings would share)")

	queryTable(c, "C09.query-table")
	getTable(c, "C09.get-table")
	aliasRule(c, "C09.alias", []string{"ctree"})
	addAtomic(c, "C09.add-atomic")
	ctreeExposure(c, "C09.exposure")
	contentWriters(c, "C09.content-writers")
	// ---- sorted
	if walkOK {
		_, nRoots := mapOrderAudit(c, "C09.sorted", append(append([]*ssa.Function{}, sortedFns...), str), true)
		c.Floor("C09.sorted/functions-ranging-over-children", nRoots, 2)
	}

	// ---- live children: a walk enumerates a node's children from the node's own child map, read in this activation
	c.Rule("C09.live-children", "walkInternal and the sorted walk (unexported helpers inlined): on every path on which a child is visited, the node's own child map (a value of type branch) has been ranged over in the same activation before the first visit - an enumeration that can be answered from anything else (a list kept from an earlier walk) reports leaves that were deleted and misses leaves that were added since")
	if walkOK {
		roots := []*ssa.Function{}
		if wi != nil {
			roots = append(roots, wi)
		}
		if wis != nil {
			roots = append(roots, wis)
		} else if ws != nil {
			roots = append(roots, ws)
		}
		nVisit := 0
		for _, root := range roots {
			inUnit := map[*ssa.Function]bool{}
			for _, f := range sortedFns {
				inUnit[f] = true
			}
			inUnit[root] = true
			isVisit := func(ev *Ev) bool {
				if !strings.HasPrefix(ev.Label, "call:") {
					return false
				}
				ci, ok := ev.In.(ssa.CallInstruction)
				if !ok {
					return false
				}
				g := staticCallee(ci.Common())
				if g == nil || g.Signature.Recv() == nil || !isNamed(g.Signature.Recv().Type(), "ctree", "Tree") {
					return false
				}
				// a visit of a child: a recursive call of a function of this walk
				for x := ev.F; x != nil; x = x.Parent {
					if x.Fn == g {
						return true
					}
				}
				return false
			}
			e := &PPA{MaxVisits: 2, MaxPaths: 6000,
				Inline: func(fr *Frame, call ssa.CallInstruction, callee *ssa.Function) bool {
					if pkgPathOf(callee) != pkgPathOf(root) || len(callee.Blocks) == 0 {
						return false
					}
					for x := fr; x != nil; x = x.Parent {
						if x.Fn == callee {
							return false
						}
					}
					return true
				},
				Probe: func(e *PPA, st *State, fr *Frame, in ssa.Instruction) {
					if rg, ok := in.(*ssa.Range); ok && isNamed(rg.X.Type(), "ctree", "branch") {
						e.emit(st, Ev{Label: "fact", In: in, F: fr, Note: "range-children"})
					}
					// ... or handed to an iterator of package maps (maps.Keys(b), maps.All(b))
					if call, ok := in.(*ssa.Call); ok && len(call.Call.Args) > 0 {
						if g := staticCallee(&call.Call); g != nil && pkgPathOf(g) == "maps" && isNamed(call.Call.Args[0].Type(), "ctree", "branch") {
							e.emit(st, Ev{Label: "fact", In: in, F: fr, Note: "range-children"})
						}
					}
				},
				Watch: func(ev *Ev) bool { return ev.Label == "fact" || isVisit(ev) }}
			e.Run(root)
			c.Paths += len(e.Paths)
			c.Analysed(fnName(root))
			if e.Overflow {
				c.Unknown("C09.live-children", fnName(root), "paths", "", "path overflow")
				continue
			}
			bad := map[token.Pos]bool{}
			for i := range e.Paths {
				p := &e.Paths[i]
				first := p.Index(0, isVisit)
				if first < 0 {
					continue
				}
				nVisit++
				rg := p.Index(0, func(ev *Ev) bool { return ev.Label == "fact" && ev.Note == "range-children" })
				if rg >= 0 && rg < first {
					continue
				}
				pos := posOf(p.Trace[first].In)
				if !bad[pos] {
					bad[pos] = true
					c.Check(false, "C09.live-children", fnName(root), "children enumerated from the live child map", P.Pos(pos), "a path visits a child without having ranged over the node's child map in this activation")
				}
			}
			c.Check(true, "C09.live-children", fnName(root), "children enumerated from the live child map (all visiting paths)", P.Pos(root.Pos()), "")
		}
		c.Floor("C09.live-children/visiting-paths", nVisit, 2)
	}

	// ---- conditional
	deleteHonoursCondition(c, "C09.conditional")
	{
		// Delete passes constant true
		okTrue := false
		for _, ci := range callsIn(del) {
			if staticCallee(ci.Common()) == dc {
				for _, a := range ci.Common().Args {
					var cf *ssa.Function
					if mc, ok := unwrap(a).(*ssa.MakeClosure); ok {
						cf = mc.Fn.(*ssa.Function)
					} else if fn, ok := unwrap(a).(*ssa.Function); ok {
						cf = fn
					}
					if cf == nil {
						continue
					}
					all := true
					instrs(cf, func(in ssa.Instruction) {
						if r, ok := in.(*ssa.Return); ok {
							if b, isB := constBool(r.Results[0]); !isB || !b {
								all = false
							}
						}
					})
					okTrue = all
				}
			}
		}
		c.Check(okTrue, "C09.conditional", fnName(del), "Delete's condition is constantly true", P.Pos(del.Pos()), "")
	}
	// ---- select + prune: path scenarios over internalDelete
	c.Analysed(fnName(id))
	subP := ssa.Value(param(id, 1))
	roles := delRolesOf(id)
	cls := func(e *PPA, st *State, rv RV) string {
		rv = e.Resolve(st, rv)
		switch v := rv.V.(type) {
		case *ssa.Call:
			if b, ok := v.Call.Value.(*ssa.Builtin); ok && b.Name() == "len" {
				a := e.Resolve(st, RV{rv.F, v.Call.Args[0]})
				if a.V == subP {
					return "SUBLEN"
				}
				if sl, ok := a.V.(*ssa.Slice); ok && sl.High == nil && sl.Low != nil {
					if k, okc := constInt(sl.Low); okc && k == 1 && e.Resolve(st, RV{a.F, sl.X}).V == subP {
						return "SUBLEN-1"
					}
				}
				if isNilConst(a.V) {
					return "NILLEN"
				}
				if isNamed(a.V.Type(), "ctree", "branch") {
					return "LENB"
				}
			}
			if roles.cond(v.Call.Value) {
				return "COND"
			}
		case *ssa.BinOp:
			if v.Op == token.EQL || v.Op == token.NEQ {
				if isNilConst(v.Y) && loadOfField(v.X, fLB) {
					if v.Op == token.EQL {
						return "EMPTY"
					}
					return "!EMPTY"
				}
				for _, pr := range [][2]ssa.Value{{v.X, v.Y}, {v.Y, v.X}} {
					if s, ok := constString(pr[1]); ok && s == "*" {
						if v.Op == token.EQL {
							return "GLOB"
						}
						return "!GLOB"
					}
				}
			}
		case *ssa.Parameter, *ssa.Field, *ssa.UnOp:
			if roles.ret(v) {
				return "RET"
			}
		case *ssa.Extract:
			if ta, ok := v.Tuple.(*ssa.TypeAssert); ok && v.Index == 1 && isNamed(ta.AssertedType, "ctree", "branch") {
				return "ISBRANCH"
			}
			if call, ok := v.Tuple.(*ssa.Call); ok && staticCallee(&call.Call) == id && v.Index == 0 {
				return "REC"
			}
		}
		return ""
	}
	isCond := func(ev *Ev) bool { return strings.HasPrefix(ev.Label, "call:dyn:") && roles.cond(ev.Fn.V) }
	isF := func(ev *Ev) bool { return strings.HasPrefix(ev.Label, "call:dyn:") && roles.f(ev.Fn.V) }
	isRec := func(ev *Ev) bool { return ev.Label == "call:"+fnName(id) }
	isDel := func(ev *Ev) bool { return ev.Label == "builtin:delete" }
	run := func(b map[string]bool, i map[string]int64, mv int) *PPA {
		if v, ok := i["SUBLEN"]; ok {
			i["SUBLEN-1"] = v - 1
		}
		at := &Atoms{Class: cls, Bool: b, Int: i}
		e := &PPA{Cond: at.Cond, MaxVisits: mv, Watch: func(ev *Ev) bool { return isCond(ev) || isF(ev) || isRec(ev) || isDel(ev) }}
		e.Run(id)
		c.Paths += len(e.Paths)
		c.Scen++
		return e
	}
	// leaf selection
	for _, sc := range []struct {
		name   string
		sublen int64
		glob   bool
	}{{"leaf, path exhausted", 0, false}, {"leaf, one trailing glob", 1, true}, {"leaf, glob followed by more elements (the path continues past the leaf)", 2, true}, {"leaf, plain element left (the path continues past the leaf)", 1, false}} {
		for _, cond := range []bool{true, false} {
			e := run(map[string]bool{"GLOB": sc.glob, "ISBRANCH": false, "EMPTY": false, "COND": cond}, map[string]int64{"SUBLEN": sc.sublen}, 2)
			nP := 0
			for i := range e.Paths {
				p := &e.Paths[i]
				nP++
				called := p.Has(isCond)
				ret := -1
				if b, ok := constBool(p.Rets[0].V); ok {
					ret = 0
					if b {
						ret = 1
					}
				}
				want := 0
				if cond {
					want = 1
				}
				ok := called && ret == want && p.Has(isF) == cond
				if strings.Contains(sc.name, "continues past the leaf") {
					// deleting through a leaf removes nothing, whatever the condition says
					ok = !called && ret == 0 && !p.Has(isF)
				}
				c.Check(ok, "C09.select", fnName(id), fmt.Sprintf("%s, condition=%v", sc.name, cond), P.Pos(id.Pos()), fmt.Sprintf("offered to the condition=%v removed=%d callback=%v; path: %s", called, ret, p.Has(isF), p.String()))
			}
			c.Floor("C09.select/"+sc.name, nP, 1)
		}
	}
	// an empty node is not offered to the condition: the switch on leafBranch has a nil arm before the leaf arm,
	// or the leaf arm tests for nil
	{
		nilSafe := false
		instrs(id, func(in ssa.Instruction) {
			b, ok := in.(*ssa.BinOp)
			if !ok || (b.Op != token.EQL && b.Op != token.NEQ) || !isNilConst(b.Y) {
				return
			}
			if loadOfField(b.X, fLB) {
				nilSafe = true
			}
			if ta, ok := b.X.(*ssa.TypeAssert); ok && loadOfField(ta.X, fLB) {
				nilSafe = true
			}
		})
		c.Check(nilSafe, "C09.select", fnName(id), "an empty (nil) node is never offered to the condition", P.Pos(id.Pos()), "deleting from an empty tree must remove nothing and must not hand nil to callbacks")
	}
	// prune guard: delete only after a removable child
	for _, rec := range []bool{true, false} {
		e := run(map[string]bool{"ISBRANCH": true, "EMPTY": false, "REC": rec}, map[string]int64{}, 3)
		nP := 0
		for i := range e.Paths {
			p := &e.Paths[i]
			if !p.Has(isRec) {
				continue
			}
			nP++
			ok := true
			for j := range p.Trace {
				if isRec(&p.Trace[j]) {
					next := j+1 < len(p.Trace) && isDel(&p.Trace[j+1])
					if next != rec {
						ok = false
					}
				}
				if isDel(&p.Trace[j]) && (j == 0 || !isRec(&p.Trace[j-1])) {
					ok = false
				}
			}
			c.Check(ok, "C09.prune-guard", fnName(id), fmt.Sprintf("child pruned iff its visit reported it removable (removable=%v)", rec), P.Pos(id.Pos()), "path: "+p.String())
		}
		c.Floor(fmt.Sprintf("C09.prune-guard/paths(removable=%v)", rec), nP, 2)
	}
	// removable flag of a branch
	for _, sc := range []struct {
		name   string
		sublen int64
		glob   bool
	}{{"glob over a branch, more glob elements follow", 2, true}, {"glob over a branch, last element", 1, true}, {"path exhausted at a branch", 0, false}, {"explicit child", 1, false}} {
		for _, left := range []int64{0, 1} {
			e := run(map[string]bool{"GLOB": sc.glob, "ISBRANCH": true, "EMPTY": false}, map[string]int64{"SUBLEN": sc.sublen, "LENB": left}, 2)
			nP := 0
			for i := range e.Paths {
				p := &e.Paths[i]
				if len(p.RetB) == 0 {
					continue
				}
				if sc.name == "explicit child" && !p.Has(isRec) {
					continue // child not present: nothing removed
				}
				nP++
				want := 0
				if left == 0 {
					want = 1
				}
				c.Check(p.RetB[0] == want, "C09.prune-guard", fnName(id), fmt.Sprintf("%s: %d children left", sc.name, left), P.Pos(id.Pos()), fmt.Sprintf("reports removable=%d want %d; path: %s", p.RetB[0], want, p.String()))
			}
			c.Floor("C09.prune-guard/"+sc.name, nP, 1)
		}
	}
	// returned paths
	{
		isAcc := func(ev *Ev) bool {
			if ev.Label != "builtin:append" {
				return false
			}
			call, ok := ev.In.(*ssa.Call)
			return ok && call.Type().String() == "[][]string"
		}
		at := func(b map[string]bool, i map[string]int64) *PPA {
			a := &Atoms{Class: cls, Bool: b, Int: i}
			e := &PPA{Cond: a.Cond, MaxVisits: 3, Watch: func(ev *Ev) bool { return isRec(ev) || isAcc(ev) }}
			e.Run(id)
			c.Paths += len(e.Paths)
			c.Scen++
			return e
		}
		for _, rec := range []bool{true, false} {
			// glob arm: some path carries a child's reported paths into the accumulator
			e := at(map[string]bool{"ISBRANCH": true, "REC": rec, "RET": true, "GLOB": false}, map[string]int64{"SUBLEN": 0})
			reach := false
			nRec := 0
			for i := range e.Paths {
				p := &e.Paths[i]
				for j := range p.Trace {
					if isRec(&p.Trace[j]) {
						nRec++
						if j+1 < len(p.Trace) && isAcc(&p.Trace[j+1]) {
							reach = true
						}
					}
				}
			}
			c.Check(reach, "C09.returned-paths", fnName(id), fmt.Sprintf("glob arm: a child's reported paths reach the result (child removable=%v)", rec), P.Pos(id.Pos()), fmt.Sprintf("%d child visits on %d paths; accumulation reachable after a visit=%v", nRec, len(e.Paths), reach))
			c.Floor(fmt.Sprintf("C09.returned-paths/glob-visits(removable=%v)", rec), nRec, 1)
			// explicit child: the returned list is not dropped
			e = at(map[string]bool{"ISBRANCH": true, "REC": rec, "RET": true, "GLOB": false}, map[string]int64{"SUBLEN": 1})
			n := 0
			for i := range e.Paths {
				p := &e.Paths[i]
				if !p.Has(isRec) || len(p.Rets) < 2 {
					continue
				}
				n++
				c.Check(!isNilConst(p.Rets[1].V), "C09.returned-paths", fnName(id), fmt.Sprintf("explicit child: the child's reported paths are returned (child removable=%v)", rec), P.Pos(id.Pos()), "returns "+Expr(p.Rets[1].V)+"; path: "+p.String())
			}
			c.Floor(fmt.Sprintf("C09.returned-paths/explicit-child(removable=%v)", rec), n, 1)
		}
	}
	// walk of a root leaf
	for _, name := range []string{"Walk", "WalkSorted"} {
		f := P.Method("ctree", "Tree", name)
		if f == nil {
			c.Unresolved("C09.walk-root", "ctree.(*Tree)."+name)
			continue
		}
		c.Analysed(fnName(f))
		var vp ssa.Value
		for _, p := range f.Params {
			if isNamed(p.Type(), "ctree", "VisitFunc") {
				vp = p
			}
		}
		if vp == nil {
			c.Unresolved("C09.walk-root", fnName(f)+" VisitFunc parameter")
			continue
		}
		for _, empty := range []bool{false, true} {
			a := &Atoms{Class: cls, Bool: map[string]bool{"ISBRANCH": false, "EMPTY": empty}, Int: map[string]int64{"NILLEN": 0}}
			e := &PPA{Cond: a.Cond, MaxVisits: 2,
				Inline: func(fr *Frame, call ssa.CallInstruction, callee *ssa.Function) bool {
					return callee.Pkg == f.Pkg && (fbase(callee) == "IsBranch" || fbase(callee) == "isBranch")
				},
				Watch: func(ev *Ev) bool {
					return strings.HasPrefix(ev.Label, "call:dyn:") && e2v(ev) == vp
				}}
			e.Run(f)
			c.Paths += len(e.Paths)
			c.Scen++
			n := 0
			for i := range e.Paths {
				p := &e.Paths[i]
				if p.End != "return" {
					continue
				}
				n++
				want := 1
				if empty {
					want = 0
				}
				ok := len(p.Trace) == want
				if ok && want == 1 {
					// the value handed over is the node's own value
					args := p.Trace[0].Args
					ok = len(args) == 3 && loadOfField(args[2].V, fLB)
				}
				c.Check(ok, "C09.walk-root", fnName(f), fmt.Sprintf("root leaf visited once (root empty=%v)", empty), P.Pos(f.Pos()), fmt.Sprintf("%d visitor calls; path: %s", len(p.Trace), p.String()))
			}
			c.Floor(fmt.Sprintf("C09.walk-root/%s(empty=%v)", name, empty), n, 1)
		}
	}
	// root cleared only on the flag
	for _, f := range []*ssa.Function{wd, dc} {
		c.Analysed(fnName(f))
		for _, flag := range []bool{true, false} {
			at := &Atoms{Class: func(e *PPA, st *State, rv RV) string {
				if ex, ok := rv.V.(*ssa.Extract); ok && ex.Index == 0 {
					if call, ok := ex.Tuple.(*ssa.Call); ok && staticCallee(&call.Call) == id {
						return "FLAG"
					}
				}
				return ""
			}, Bool: map[string]bool{"FLAG": flag}}
			e := &PPA{Cond: at.Cond, Watch: func(ev *Ev) bool { return ev.Label == "store:ctree.Tree.leafBranch" }}
			e.Run(f)
			c.Paths += len(e.Paths)
			for i := range e.Paths {
				p := &e.Paths[i]
				cleared := len(p.Trace) == 1 && isNilConst(p.Trace[0].Args[1].V)
				c.Check(cleared == flag && len(p.Trace) <= 1, "C09.prune-guard", fnName(f), fmt.Sprintf("root cleared iff reported removable (removable=%v)", flag), P.Pos(f.Pos()), fmt.Sprintf("cleared=%v", cleared))
			}
		}
	}
	if !walkOK {
		return
	}
	// ---- visit once
	walkFns := []*ssa.Function{wi}
	if wis != nil {
		walkFns = append(walkFns, wis)
	}
	visitFns := append([]*ssa.Function{}, walkFns...)
	if ec != nil {
		visitFns = append(visitFns, ec)
	} else if qi := P.Method("ctree", "Tree", "queryInternal"); qi != nil {
		visitFns = append(visitFns, qi)
	}
	for _, f := range visitFns {
		c.Analysed(fnName(f))
		var vp ssa.Value
		for _, p := range f.Params {
			if isNamed(p.Type(), "ctree", "VisitFunc") {
				vp = p
			}
		}
		if vp == nil {
			c.Unresolved("C09.visit-once", fnName(f)+" VisitFunc parameter")
			continue
		}
		inLoopCall := false
		instrs(f, func(in ssa.Instruction) {
			if call, ok := in.(*ssa.Call); ok && call.Call.Value == vp && inLoopWithout(in.Block(), nil) {
				inLoopCall = true
			}
		})
		e := &PPA{MaxVisits: 3, Watch: func(ev *Ev) bool { return strings.HasPrefix(ev.Label, "call:dyn:") && ev.Fn.V == vp }}
		e.Run(f)
		c.Paths += len(e.Paths)
		max := 0
		for i := range e.Paths {
			if n := len(e.Paths[i].Trace); n > max {
				max = n
			}
		}
		c.Check(max <= 1 && !inLoopCall, "C09.visit-once", fnName(f), "visitor invoked at most once per activation", P.Pos(f.Pos()), fmt.Sprintf("max visitor calls on a path: %d, call inside a loop: %v", max, inLoopCall))
	}
	// ---- path copy
	for _, f0 := range walkFns {
		// the walk may be split into a locking wrapper and a body that recurse through each other: the
		// per-child call is the call, inside a loop, from a member of that group to a member of it
		group := map[*ssa.Function]bool{f0: true}
		for _, ci := range callsIn(f0) {
			if g := staticCallee(ci.Common()); g != nil && g.Pkg == f0.Pkg && g != f0 {
				for _, cj := range callsIn(g) {
					if staticCallee(cj.Common()) == f0 {
						group[g] = true
					}
				}
			}
		}
		nRec := 0
		for f := range group {
			pathP := ssa.Value(param(f, 1))
			var calls []ssa.CallInstruction
			for _, g := range withAnon(f) {
				for _, ci := range callsIn(g) {
					if g != f {
						// a per-child visit written as a closure handed to an iteration helper
						if group[staticCallee(ci.Common())] {
							calls = append(calls, ci)
						}
						continue
					}
					if !group[staticCallee(ci.Common())] || (len(group) > 1 && !inLoopWithout(ci.Block(), nil)) {
						continue
					}
					calls = append(calls, ci)
				}
			}
			for _, ci := range calls {
				nRec++
				arg := refArgs(ci.Common())[1]
				ok := false
				detail := Expr(arg)
				// a same-package helper that returns a freshly allocated copy (childPath(path, name))
				if call, isCall := arg.(*ssa.Call); isCall {
					if g := staticCallee(&call.Call); g != nil && g.Pkg == f.Pkg && len(g.Blocks) > 0 {
						au := NewAliasAudit(P)
						ok = au.returnsFresh(g)
						detail = fmt.Sprintf("%s returns a fresh slice=%v", fnName(g), ok)
					}
				}
				if ac, isApp := isAppend(arg); isApp {
					base := ac.Call.Args[0]
					// the base must be a slice made in the loop, not the parameter
					au := NewAliasAudit(P)
					src := map[baseKind][]ssa.Value{}
					au.sources(base, map[ssa.Value]bool{}, src)
					fresh := len(src[baseForeign]) == 0 && len(src[baseChain]) == 0 && (len(src[baseSpare]) > 0 || len(src[baseExact]) > 0)
					inLoop := true
					for _, kinds := range [][]ssa.Value{src[baseSpare], src[baseExact]} {
						for _, s := range kinds {
							if def, okI := s.(ssa.Instruction); okI && !inLoopWithout(def.Block(), nil) {
								// made anew by every invocation of the per-child closure counts as per iteration
								if def.Parent() == f || def.Parent() != ci.Parent() {
									inLoop = false
								}
							}
						}
					}
					ok = fresh && inLoop && base != pathP
					detail = fmt.Sprintf("append base %s: made in the function=%v, inside the loop=%v", Expr(base), fresh, inLoop)
				}
				c.Check(ok, "C09.path-copy", fnName(f), "each child gets its own path slice", P.Pos(ci.Pos()), detail)
			}
		}
		c.Floor("C09.path-copy/"+fnName(f0), nRec, 1)
	}
}

// e2v: the resolved callee value of a dynamic call event (through inlined frames).
func e2v(ev *Ev) ssa.Value { return ev.Fn.V }

// delRoles locates, by type, the three things internalDelete is parameterised with - the condition
// func(interface{}) bool, the callback func(interface{}) and the "collect paths" flag - whether they are
// parameters of their own or fields of one struct parameter.
type delRoles struct {
	cond, f, ret func(v ssa.Value) bool
}

func delRolesOf(id *ssa.Function) delRoles {
	// the parameter a local cell was spilled from: its only whole-cell store stores a parameter of id
	spilled := func(al *ssa.Alloc) bool {
		n, ok := 0, false
		if al.Referrers() == nil {
			return false
		}
		for _, r := range *al.Referrers() {
			if st, isSt := r.(*ssa.Store); isSt && st.Addr == ssa.Value(al) {
				n++
				if p, isP := st.Val.(*ssa.Parameter); isP && p.Parent() == id {
					ok = true
				}
			}
		}
		return n == 1 && ok
	}
	fromParam := func(v ssa.Value) (types.Type, bool) {
		switch x := v.(type) {
		case *ssa.Parameter:
			return x.Type(), x.Parent() == id
		case *ssa.Field:
			if p, ok := x.X.(*ssa.Parameter); ok && p.Parent() == id {
				return x.Type(), true
			}
			// a struct parameter spilled to a local cell
			if u, ok := x.X.(*ssa.UnOp); ok && u.Op == token.MUL {
				if al, ok := u.X.(*ssa.Alloc); ok && spilled(al) {
					return x.Type(), true
				}
			}
		case *ssa.UnOp:
			if x.Op != token.MUL {
				return nil, false
			}
			// a parameter that a closure captures lives in a cell: the load of that cell is the parameter
			if al, ok := x.X.(*ssa.Alloc); ok && spilled(al) {
				return x.Type(), true
			}
			if fa, ok := x.X.(*ssa.FieldAddr); ok {
				switch b := fa.X.(type) {
				case *ssa.Parameter:
					return x.Type(), b.Parent() == id
				case *ssa.Alloc:
					if spilled(b) {
						return x.Type(), true
					}
				}
			}
		}
		return nil, false
	}
	sig := func(t types.Type, results int) bool {
		s, ok := t.Underlying().(*types.Signature)
		if !ok || s.Params().Len() != 1 || s.Results().Len() != results {
			return false
		}
		if _, isI := s.Params().At(0).Type().Underlying().(*types.Interface); !isI {
			return false
		}
		if results == 1 {
			b, ok := s.Results().At(0).Type().Underlying().(*types.Basic)
			return ok && b.Kind() == types.Bool
		}
		return true
	}
	return delRoles{
		cond: func(v ssa.Value) bool { t, ok := fromParam(v); return ok && sig(t, 1) },
		f:    func(v ssa.Value) bool { t, ok := fromParam(v); return ok && sig(t, 0) },
		ret: func(v ssa.Value) bool {
			t, ok := fromParam(v)
			if !ok {
				return false
			}
			b, isB := t.Underlying().(*types.Basic)
			return isB && b.Kind() == types.Bool
		},
	}
}
