package main

import (
	"fmt"
	"go/types"
	"strings"

	"golang.org/x/tools/go/ssa"
)

func init() {
	register(&propDef{
		ID:       "C08",
		Explain:  "Decided (structural necessary conditions): the feed callback subscribe.(*Server).Update and everything it can reach (UpdateNotification, path.ToStrings, match.UpdateOnce/(*branch).update, every non-test match.Client implementer, coalesce.Insert/insert) contains no blocking construct (channel op outside a select with default, select without default, stream Send/Recv, sleeping/waiting/IO library calls); no blocking construct is executed while Match.mu, the queue mutex, or any lock of cache/ctree/metadata/latency is held, with the cache's client field bound to Server.Update and module visitors checked to be non-blocking; at most one queue entry per pending key (a pending key is never appended again); every stream Send in package subscribe is bracketed by Reset/Stop of the timer the watcher goroutine selects on, whose expiry sends a non-nil error to errC; duplicate counts are written only into a proto.Clone and carry the count returned by Queue.Next. Also decided: typestate of the send timer over the sender loop (stopped whenever Queue.Next is called, by induction over one iteration with sendSubscribeResponse inlined); removeQuery prunes only nodes without clients and children (ending one subscriber's registration leaves the others in place); coalesce.next forgets the dequeued key. Round-3 additions: a deleted leaf keeps its value for queued handles (who-may-write table of a node's content: internalDelete stores nothing into a node); the wake-up token (C11.token, borrowed). Round-4 additions: the all-targets walk never re-acquires Cache.mu (a recursive read lock behind a waiting writer blocks every later GnmiUpdate); the handle announced for a change is the tree's own node, on whose identity the queue coalesces (borrowed from C03). Round-5 addition: a change is offered to one subscriber at most once per notification also when several of its subscription paths match (borrowed from C06): otherwise it is inserted, and counted as a duplicate, several times. Round-6 addition: the response handed to a subscriber wraps the whole cached notification or a clone of the whole of it (a rebuilt message drops the atomic flag / the other updates of a coalesced atomic group). Round-7 additions: every path of the timeout watcher that takes the timer arm reports on errC before waiting again; one match client per subscriber (the per-notification set is keyed by client identity).",
		NotCover: "actual latency / non-interference timings; exactness of duplicate counts (C11); sufficiency of errC's capacity for late senders",
		Run:      runC08,
	})
}

// blockingUnderLocks reports blocking constructs executed while a lock is held, per path.
func blockingUnderLocks(c *Ctx, rule string, eff *Effects, pkgs []string) {
	P := c.P
	nFns, nCrit := 0, 0
	for _, pk := range pkgs {
		for _, f := range P.PkgFuncs(pk) {
			if P.InTestFile(f) || P.IsGenerated(f) {
				continue
			}
			hasLock := false
			for _, ci := range callsIn(f) {
				if _, ok := lockOps["call:"+calleeName(ci.Common())]; ok {
					hasLock = true
				}
			}
			if !hasLock {
				continue
			}
			nFns++
			c.Analysed(fnName(f))
			e := &PPA{NoAuto: true, MaxVisits: 2,
				Inline: func(fr *Frame, call ssa.CallInstruction, callee *ssa.Function) bool { return callee.Parent() == fr.Fn },
				Watch: func(ev *Ev) bool {
					return isLockOp(ev) || strings.HasPrefix(ev.Label, "send:") || strings.HasPrefix(ev.Label, "recv:") || strings.HasPrefix(ev.Label, "select:") || strings.HasPrefix(ev.Label, "call:")
				}}
			e.Run(f)
			c.Paths += len(e.Paths)
			if e.Overflow {
				c.Unknown(rule, fnName(f), "critical sections", P.Pos(f.Pos()), "path overflow")
				continue
			}
			reported := map[string]bool{}
			for pi := range e.Paths {
				p := &e.Paths[pi]
				held := 0
				for j := range p.Trace {
					ev := &p.Trace[j]
					if op, ok := lockOps[ev.Label]; ok {
						if op[1] == '+' {
							held++
							nCrit++
						} else if held > 0 {
							held--
						}
						continue
					}
					if held == 0 {
						continue
					}
					what := ""
					switch {
					case strings.HasPrefix(ev.Label, "send:"), strings.HasPrefix(ev.Label, "recv:"):
						what = "channel operation " + ev.Label
					case strings.HasPrefix(ev.Label, "select:") && ev.Blocking:
						what = "select without default (" + ev.Label + ")"
					case strings.HasPrefix(ev.Label, "call:"):
						if ci, ok := ev.In.(ssa.CallInstruction); ok {
							if bs := eff.CallBlocking(f, ci); len(bs) > 0 {
								what = "call " + strings.TrimPrefix(ev.Label, "call:") + " may block: " + describeSites(P, bs)
							}
						}
					}
					if what != "" && !reported[what] {
						reported[what] = true
						c.Bad(rule, fnName(f), "blocking while a lock is held: "+strings.SplitN(what, " may block:", 2)[0], P.Pos(posOf(ev.In)), what+"; path: "+p.String())
					}
				}
			}
			if len(reported) == 0 {
				c.OK(rule, fnName(f), "critical sections are non-blocking", P.Pos(f.Pos()), "")
			}
		}
	}
	c.Floor(rule+"/functions-with-locks", nFns, 3)
}

func runC08(c *Ctx) {
	P := c.P
	sUpd := P.Method("subscribe", "Server", "Update")
	Insert := P.Method("coalesce", "Queue", "Insert")
	insert := P.Method("coalesce", "Queue", "insert")
	ssr := P.Method("subscribe", "Server", "sendSubscribeResponse")
	sres := P.Method("subscribe", "Server", "sendStreamingResults")
	msr := P.Method("subscribe", "Server", "MakeSubscribeResponse")
	fTClient := P.Field("cache", "Target", "client")
	fCClient := P.Field("cache", "Cache", "client")
	fCoal := P.Field("coalesce", "Queue", "coalesced")
	for n, ok := range map[string]bool{"subscribe.(*Server).Update": sUpd != nil, "coalesce.(*Queue).Insert": Insert != nil, "coalesce.(*Queue).insert": insert != nil,
		"subscribe.(*Server).sendSubscribeResponse": ssr != nil, "subscribe.(*Server).sendStreamingResults": sres != nil, "subscribe.(*Server).MakeSubscribeResponse": msr != nil,
		"cache.Target.client": fTClient != nil, "cache.Cache.client": fCClient != nil, "coalesce.Queue.coalesced": fCoal != nil} {
		if !ok {
			c.Unresolved("C08.anchors", n)
		}
	}
	if len(c.Unres) > 0 {
		return
	}
	c.Rule("C08.nonblocking-feed", "subscribe.(*Server).Update and its whole call closure (static calls, every non-test implementer of invoked module interfaces) contain no blocking construct; the closure must include coalesce.(*Queue).Insert")
	c.Rule("C08.nonblocking-locks", "no blocking construct is executed while a mutex is held in packages match, coalesce, cache, ctree, metadata, latency (cache client fields bound to Server.Update; visitors passed to Query/Walk inside the module must be non-blocking)")
	c.Rule("C08.bounded-backlog", "coalesce.insert never appends to the queue for a key that is already pending (<= 1 entry per distinct pending key)")
	contentWriters(c, "C08.handles-keep-value")
	respFaithful(c, "C08.resp-faithful")
	c.Borrow("C06", map[string]string{"C06.once": "C08.once"}, "'at most one entry per distinct pending leaf' and 'a duplicate count equal to the number of updates coalesced': a change offered to one subscriber once per matching subscription path is inserted, and counted, several times")
	oneClientPerSubscriber(c, "C08.one-client")
	c.Borrow("C11", map[string]string{"C11.token": "C08.wakeup"}, "a producer that skips the wake-up token leaves a healthy subscriber's sender parked with updates pending: it stops receiving although nothing is blocked")
	c.Borrow("C03", map[string]string{"C03.write-then-return": "C08.leaf-handle"}, "the backlog is bounded because the queue coalesces on the identity of the leaf handle: the handle announced for a change must be the tree's own node, not a fresh detached leaf per update")
	c.Rule("C08.walk-locks", "package cache: Cache.targets only under Cache.mu; no re-entrant acquisition of Cache.mu - 'accepting a target update never waits on any subscriber': a subscriber's all-targets snapshot walk that re-acquires Cache.mu for reading deadlocks behind a waiting writer, and every later GnmiUpdate then blocks behind it")
	walkLocks(c, "C08.walk-locks")
	c.Rule("C08.isolation", "dropping one subscriber's registration leaves the others in place: removeQuery prunes a node only when it holds neither clients nor children")
	removeQueryPrune(c, "C08.isolation")
	c.Rule("C08.timer", "every gRPC Send in package subscribe is preceded on its path by Reset of the send timer and followed by its Stop; on every path of the sender loop (sendSubscribeResponse inlined) the timer is stopped whenever Queue.Next is called; the timer is the one the watcher goroutine of sendStreamingResults selects on, whose expiry arm sends a non-nil error on errC on every path, without waiting again in between")
	c.Rule("C08.dup-clone", "in package subscribe the only store into a field of a gnmi Notification/Update writes Update.Duplicates of a proto.Clone of the cached notification, and the value stored is the duplicate count handed to MakeSubscribeResponse, which sendStreamingResults takes from Queue.Next")

	eff := NewEffects(P)
	eff.Bind[fTClient] = []*ssa.Function{sUpd}
	eff.Bind[fCClient] = []*ssa.Function{sUpd}
	c.Assumption("cache.Target.client / cache.Cache.client are bound to subscribe.(*Server).Update as wired by cmd/gnmi_collector (checked under C01.wire)")

	// ---- non-blocking feed
	{
		bs := eff.Blocking(sUpd)
		reach := eff.Reach(sUpd)
		for f := range reach {
			c.Analysed(fnName(f))
		}
		c.Check(len(bs) == 0, "C08.nonblocking-feed", fnName(sUpd), "feed callback cannot block", P.Pos(sUpd.Pos()), fmt.Sprintf("%d functions in the closure; blocking sites: %s", len(reach), describeSites(P, bs)))
		c.Check(reach[Insert] && reach[insert], "C08.nonblocking-feed", fnName(sUpd), "closure reaches coalesce.Insert (the analysed closure is the real one)", P.Pos(sUpd.Pos()), fmt.Sprintf("%d functions", len(reach)))
		c.Floor("C08.nonblocking-feed/closure-size", len(reach), 8)
		for _, u := range eff.Unknown {
			c.Unknown("C08.nonblocking-feed", "-", "unresolved callee: "+u, "", "a callee the effect analysis cannot classify")
		}
		// the match.Client implementers
		n := 0
		for f := range reach {
			if f.Name() == "Update" && f.Signature.Recv() != nil && isNamed(f.Signature.Recv().Type(), "subscribe", "matchClient") {
				n++
			}
		}
		c.Floor("C08.nonblocking-feed/match.Client implementers", n, 1)
	}
	// ---- locks
	{
		eff.Unknown = nil
		blockingUnderLocks(c, "C08.nonblocking-locks", eff, []string{"match", "coalesce", "cache", "ctree", "metadata", "latency"})
		// visitors
		walkers := map[string]bool{"(*ctree.Tree).Query": true, "(*ctree.Tree).Walk": true, "(*ctree.Tree).WalkSorted": true, "(*ctree.Tree).WalkDeleted": true,
			"(*ctree.Tree).DeleteConditional": true, "(*cache.Cache).Query": true}
		nV := 0
		for _, pk := range P.ModPkgs() {
			for _, f := range P.PkgFuncs(pk) {
				if P.InTestFile(f) || P.IsGenerated(f) || strings.Contains(pk, "/cmd/") {
					continue
				}
				for _, ci := range callsIn(f) {
					if !walkers[calleeName(ci.Common())] {
						continue
					}
					for _, a := range ci.Common().Args {
						var vf *ssa.Function
						if mc, ok := unwrap(a).(*ssa.MakeClosure); ok {
							vf = mc.Fn.(*ssa.Function)
						} else if fn, ok := unwrap(a).(*ssa.Function); ok {
							vf = fn
						}
						if vf == nil {
							continue
						}
						nV++
						bs := eff.Blocking(vf)
						// the CLI's display visitor writes to its output by design; it runs in the client process, not in the collector
						if pk == modPath+"/cli" {
							c.OK("C08.nonblocking-locks", fnName(f), "visitor "+fnName(vf)+" (client-side display, outside the collector)", P.Pos(ci.Pos()), "not part of the collector's write path")
							continue
						}
						c.Check(len(bs) == 0, "C08.nonblocking-locks", fnName(f), "visitor "+fnName(vf)+" runs under node locks and must not block", P.Pos(ci.Pos()), describeSites(P, bs))
					}
				}
			}
		}
		c.Floor("C08.nonblocking-locks/visitors", nV, 5)
		for _, u := range eff.Unknown {
			c.Note("effect analysis: unclassified callee %s (taken as non-blocking only if listed under assumptions)", u)
		}
	}
	for k := range eff.Assume {
		c.Assumption(k)
	}
	c.Assumption("standard-library calls outside the blocking table (time.Sleep, sync waits, net/os/io, grpc) do not block")
	// ---- bounded backlog
	{
		at := &Atoms{
			Class: func(e *PPA, st *State, rv RV) string {
				if ex, ok := rv.V.(*ssa.Extract); ok && ex.Index == 1 {
					if lk, ok := ex.Tuple.(*ssa.Lookup); ok && lk.CommaOk && loadOfField(lk.X, fCoal) {
						return "FOUND"
					}
				}
				return ""
			},
			Bool: map[string]bool{"FOUND": true},
		}
		e := &PPA{Cond: at.Cond, Watch: func(ev *Ev) bool { return ev.Label == "builtin:append" || ev.Label == "store:coalesce.Queue.queue" }}
		e.Run(insert)
		c.Paths += len(e.Paths)
		c.Scen++
		n := 0
		for i := range e.Paths {
			n++
			c.Check(len(e.Paths[i].Trace) == 0, "C08.bounded-backlog", fnName(insert), "pending key is coalesced, not appended", P.Pos(insert.Pos()), "path: "+e.Paths[i].String())
		}
		c.Floor("C08.bounded-backlog/paths", n, 1)
	}
	c.Rule("C08.requeue", "coalesce.next forgets the key it dequeues on every path (so an update arriving while the item is being sent is queued again and the subscriber later receives the newest value), returns the head with the count looked up before the delete")
	queueNextRepr(c, "C08.requeue")
	// ---- timer
	{
		sendTimerDiscipline(c, "C08.timer")
		// the timer handed to sendSubscribeResponse is the one the watcher selects on
		// (whatever carries it there: a struct field, a parameter): the receiver of the Timer.Reset that brackets the
		// Send, resolved on the paths of the sender loop with sendSubscribeResponse entered
		var timerVal ssa.Value
		okWire := false
		{
			e := &PPA{MaxVisits: 2, Inline: func(fr *Frame, call ssa.CallInstruction, callee *ssa.Function) bool { return callee == ssr },
				Watch: func(ev *Ev) bool { return ev.Label == "call:(*time.Timer).Reset" }}
			e.Run(sres)
			c.Paths += len(e.Paths)
			oneTimer := true
			for i := range e.Paths {
				p := &e.Paths[i]
				for j := range p.Trace {
					if p.Trace[j].Label != "call:(*time.Timer).Reset" || len(p.Trace[j].Args) == 0 {
						continue
					}
					v := p.Trace[j].Args[0].V
					if timerVal == nil {
						timerVal = v
					} else if timerVal != v {
						oneTimer = false
					}
				}
			}
			if !oneTimer {
				timerVal = nil
			}
		}
		var watcher *ssa.Function
		var watcherMC *ssa.MakeClosure
		var watcherGo *ssa.Go
		instrs(sres, func(in ssa.Instruction) {
			if g, ok := in.(*ssa.Go); ok {
				if mc, ok := g.Call.Value.(*ssa.MakeClosure); ok {
					watcher = mc.Fn.(*ssa.Function)
					watcherMC = mc
					watcherGo = g
				} else if fn := staticCallee(&g.Call); fn != nil && len(fn.Blocks) > 0 {
					// the watcher written as a named function: go watch(t, done, …)
					watcher = fn
					watcherGo = g
				}
			}
		})
		expiryOK := false
		nExpiry, expiryAll := 0, true
		if watcher != nil && timerVal != nil {
			c.Analysed(fnName(watcher))
			e := &PPA{Watch: func(ev *Ev) bool {
				return strings.HasPrefix(ev.Label, "select:") || strings.HasPrefix(ev.Label, "send:")
			}}
			if watcherMC != nil {
				e.RunClosure(watcherMC)
			} else {
				e.Run(watcher)
			}
			c.Paths += len(e.Paths)
			for i := range e.Paths {
				p := &e.Paths[i]
				si := p.Index(0, func(ev *Ev) bool {
					if !strings.HasPrefix(ev.Label, "select:recv:") || len(ev.Args) == 0 {
						return false
					}
					// <-t.C with t the timer value of sendStreamingResults
					u, ok := ev.Args[0].V.(*ssa.UnOp)
					if !ok {
						return false
					}
					fa, ok := u.X.(*ssa.FieldAddr)
					if !ok || fieldName(fa.X.Type(), fa.Field) != "C" {
						return false
					}
					base := ev.Args[0]
					_ = base
					return true
				})
				if si < 0 {
					continue
				}
				okWire = true
				se := p.Index(si, lblPrefix("send:"))
				good := se >= 0 && strings.Contains(p.Trace[se].Label, "errC") && !isNilConst(p.Trace[se].Args[1].V)
				// ... on every path, and at once: no second wait lies between the expiry and the report (an expiry
				// that is looked at and then waited over again ends nothing - the timer is not re-armed by the watcher)
				if good && p.Index(si+1, lblPrefix("select:")) >= 0 && p.Index(si+1, lblPrefix("select:")) < se {
					good = false
				}
				if good {
					nExpiry++
				} else {
					expiryAll = false
				}
			}
			expiryOK = nExpiry > 0 && expiryAll
			// the timer bound into the watcher is the same value stored in resp.t
			same := false
			if watcherMC == nil && watcherGo != nil {
				// named watcher: the timer is one of its arguments
				for _, a := range watcherGo.Call.Args {
					if a == timerVal || sameOrigin(a, timerVal) {
						same = true
					}
				}
			}
			var binds []ssa.Value
			if watcherMC != nil {
				binds = watcherMC.Bindings
			}
			for _, b := range binds {
				if b == timerVal {
					same = true
				}
				if al, ok := b.(*ssa.Alloc); ok {
					if s := singleStore(al); s != nil && (s == timerVal || sameLoad(timerVal, al)) {
						same = true
					}
				}
			}
			okWire = okWire && same
		}
		c.Check(okWire && expiryOK, "C08.timer", fnName(sres), "watcher selects on the send timer and reports expiry on errC", P.Pos(sres.Pos()), fmt.Sprintf("same timer=%v, every expiry path sends a non-nil error at once=%v (%d paths)", okWire, expiryOK, nExpiry))
	}
	// ---- dup clone
	{
		c.Analysed(fnName(msr))
		fDup := P.Field("proto/gnmi", "Update", "Duplicates")
		n := 0
		for _, f := range P.PkgFuncs("subscribe") {
			if P.InTestFile(f) {
				continue
			}
			instrs(f, func(in ssa.Instruction) {
				st, ok := in.(*ssa.Store)
				if !ok {
					return
				}
				fa, ok := st.Addr.(*ssa.FieldAddr)
				if !ok || !isPBType(deref(fa.X.Type())) {
					return
				}
				if _, isAlloc := fa.X.(*ssa.Alloc); isAlloc {
					return // composite literal being built
				}
				n++
				root, _ := addrRoot(st.Addr)
				isClone := isCallNamed(root, "google.golang.org/protobuf/proto.Clone")
				okVal := f == msr && len(msr.Params) == 3 && st.Val == ssa.Value(param(msr, 2))
				c.Check(isClone && fieldOf(fa) == fDup && okVal, "C08.dup-clone", fnName(f), "store "+Expr(st.Addr), P.Pos(in.Pos()), fmt.Sprintf("base object is a proto.Clone=%v (root %s), field=%s, value is the dup parameter=%v", isClone, Expr(root), fieldName(fa.X.Type(), fa.Field), okVal))
			})
		}
		c.Floor("C08.dup-clone/stores", n, 1)
		// dup flows from Queue.Next to MakeSubscribeResponse
		// (through a struct field or a parameter): on every path of the sender loop with sendSubscribeResponse entered,
		// the count handed to MakeSubscribeResponse is the uint32 result of the Queue.Next call that produced the item
		okFlow, nMSR := true, 0
		{
			e := &PPA{MaxVisits: 2, Inline: func(fr *Frame, call ssa.CallInstruction, callee *ssa.Function) bool { return callee == ssr },
				Watch: func(ev *Ev) bool { return ev.Label == "call:"+fnName(msr) }}
			e.Run(sres)
			c.Paths += len(e.Paths)
			for i := range e.Paths {
				p := &e.Paths[i]
				for j := range p.Trace {
					ev := &p.Trace[j]
					if len(ev.Args) < 3 {
						continue
					}
					nMSR++
					ex, ok := ev.Args[2].V.(*ssa.Extract)
					if !ok || !isCallNamed(ex.Tuple, "(*coalesce.Queue).Next") {
						okFlow = false
						continue
					}
					if bt, isB := ex.Type().Underlying().(*types.Basic); !isB || bt.Kind() != types.Uint32 {
						okFlow = false
					}
				}
			}
		}
		c.Check(okFlow && nMSR > 0, "C08.dup-clone", fnName(sres), "duplicate count flows Queue.Next -> MakeSubscribeResponse", P.Pos(sres.Pos()), fmt.Sprintf("%d MakeSubscribeResponse calls on the sender's paths, count is Next()'s uint32 result on all of them: %v", nMSR, okFlow))
	}
	_ = types.Typ
}

// sameLoad: v is a load of the cell al.
func sameLoad(v ssa.Value, al *ssa.Alloc) bool {
	u, ok := v.(*ssa.UnOp)
	return ok && u.X == ssa.Value(al)
}

// sendTimerDiscipline: every stream Send runs under the armed send timer and the timer is
// stopped afterwards; the timer is stopped whenever the sender waits for the next item
// (shared by C08 and C05: a timer left armed ends a healthy POLL stream).
func sendTimerDiscipline(c *Ctx, rule string) {
	P := c.P
	ssr := P.Method("subscribe", "Server", "sendSubscribeResponse")
	sres := P.Method("subscribe", "Server", "sendStreamingResults")
	if ssr == nil || sres == nil {
		c.Unresolved(rule, "subscribe.(*Server).sendSubscribeResponse / sendStreamingResults")
		return
	}
	{
		isSend := func(ev *Ev) bool { return evIsStream(ev, "Send") || evIsStream(ev, "SendMsg") }
		nSend := 0
		for _, f := range []*ssa.Function{ssr, sres} {
			c.Analysed(fnName(f))
			e := &PPA{MaxVisits: 2, Watch: func(ev *Ev) bool {
				return isSend(ev) || ev.Label == "call:(*time.Timer).Reset" || ev.Label == "call:(*time.Timer).Stop"
			}}
			e.Run(f)
			c.Paths += len(e.Paths)
			seen := map[ssa.Instruction]bool{}
			for i := range e.Paths {
				p := &e.Paths[i]
				for j := range p.Trace {
					ev := &p.Trace[j]
					if !isSend(ev) {
						continue
					}
					if !seen[ev.In] {
						seen[ev.In] = true
						nSend++
					}
					// nearest timer op before must be Reset, and a Stop must follow
					armed := false
					for k := j - 1; k >= 0; k-- {
						if p.Trace[k].Label == "call:(*time.Timer).Reset" {
							armed = true
							break
						}
						if p.Trace[k].Label == "call:(*time.Timer).Stop" {
							break
						}
					}
					stopped := p.Index(j+1, lbl("call:(*time.Timer).Stop")) >= 0
					key := "Send(" + Expr(ev.In.(ssa.CallInstruction).Common().Args[0]) + ") under the send timer"
					c.Check(armed && stopped, rule, fnName(f), key, P.Pos(posOf(ev.In)), fmt.Sprintf("timer armed before=%v stopped after=%v; path: %s", armed, stopped, p.String()))
				}
			}
		}
		c.Floor(rule+"/send-sites", nSend, 2)
		// typestate of the send timer over the sender loop: it is disarmed whenever the
		// sender goes back to wait for the next item (only sending is charged to the timeout)
		{
			isNext := lbl("call:(*coalesce.Queue).Next")
			// induction over the loop: stopped at the first wait, and one iteration
			// started in the stopped state ends in it (two visits of the header)
			mv := 2
			if c.Deep {
				mv = 3
			}
			// the sender loop may live in a helper of sendStreamingResults (the function that waits on the queue)
			holdsLoop := func(g *ssa.Function) bool {
				if g == nil || g.Pkg != sres.Pkg || len(g.Blocks) == 0 || g == sres {
					return false
				}
				for _, ci := range callsIn(g) {
					if calleeName(ci.Common()) == "(*coalesce.Queue).Next" {
						return true
					}
				}
				return false
			}
			e := &PPA{MaxVisits: mv, NoAuto: true, Inline: func(fr *Frame, call ssa.CallInstruction, callee *ssa.Function) bool {
				return callee == ssr || (fr.Fn == sres && holdsLoop(callee))
			},
				Watch: func(ev *Ev) bool {
					return isNext(ev) || ev.Label == "call:(*time.Timer).Reset" || ev.Label == "call:(*time.Timer).Stop" || ev.Label == "call:time.NewTimer"
				}}
			e.Run(sres)
			c.Paths += len(e.Paths)
			nWait := 0
			bad := ""
			for i := range e.Paths {
				p := &e.Paths[i]
				state := "none"
				for j := range p.Trace {
					ev := &p.Trace[j]
					switch {
					case ev.Label == "call:time.NewTimer" || ev.Label == "call:(*time.Timer).Reset":
						state = "armed"
					case ev.Label == "call:(*time.Timer).Stop":
						state = "stopped"
					case isNext(ev):
						nWait++
						if state != "stopped" && bad == "" {
							bad = "timer is " + state + " when the sender waits for the next item; path: " + p.String()
						}
					}
				}
			}
			if e.Overflow {
				c.Unknown(rule, fnName(sres), "send timer is disarmed while waiting for the next item", P.Pos(sres.Pos()), "path overflow")
			} else {
				c.Check(bad == "", rule, fnName(sres), "send timer is disarmed while waiting for the next item", P.Pos(sres.Pos()), fmt.Sprintf("%d waits on %d paths; %s", nWait, len(e.Paths), bad))
			}
			c.Floor(rule+"/waits", nWait, 2)
		}
	}
}
