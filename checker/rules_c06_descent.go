package main

import (
	"fmt"
	"go/token"
	"go/types"
	"strings"

	"golang.org/x/tools/go/ssa"
)

// matchDescent decides the structural core of the match relation: the decision
// table of (*branch).update's descent and its agreement with addQuery/removeQuery.
//
//   - the clients registered at a node are offered the notification on every path
//     that reaches the node (a query that is a prefix of the path matches);
//   - no children                   => no descent;
//   - path exhausted                => every child is visited with an exhausted path
//     (a delete of an intermediate node reaches all queries below);
//   - path[0] is the glob           => every child is visited with path[1:];
//   - otherwise                     => exactly the children registered under the glob and under
//     path[0] (those present) are visited, with path[1:];
//   - addQuery/removeQuery register/unregister the client at the node where the query is
//     exhausted and otherwise descend into children[query[0]] with query[1:] (the same key
//     and suffix update descends with).
func matchDescent(c *Ctx, rule string) {
	P := c.P
	upd := P.Method("match", "branch", "update")
	addQ := P.Method("match", "branch", "addQuery")
	remQ := P.Method("match", "branch", "removeQuery")
	fClients := P.Field("match", "branch", "clients")
	fChildren := P.Field("match", "branch", "children")
	if upd == nil || addQ == nil || remQ == nil || fClients == nil || fChildren == nil || len(upd.Params) < 2 {
		c.Unresolved(rule, "match.(*branch).update / addQuery / removeQuery / clients / children")
		return
	}
	c.Rule(rule, "(*branch).update, decision table over (children present, path exhausted, path[0] is the glob, glob child present, path[0] child present): clients of the node are offered on every path; no children => no descent; exhausted path => all children with an exhausted path; glob element => all children with path[1:]; otherwise exactly the glob child and the path[0] child (when present) with path[1:]. addQuery/removeQuery: exhausted query => the client is added to / deleted from this node's clients; otherwise descent into children[query[0]] with query[1:]")
	glob := ""
	if sp := P.pkg("match"); sp != nil {
		if nc, ok := sp.Members["Glob"].(*ssa.NamedConst); ok {
			glob, _ = constString(nc.Value)
		}
	}
	if glob == "" {
		c.Unresolved(rule, "match.Glob")
		return
	}
	pathP := ssa.Value(param(upd, 2))
	isElem0 := func(e *PPA, st *State, rv RV, of ssa.Value) bool {
		r := e.Resolve(st, rv)
		u, ok := r.V.(*ssa.UnOp)
		if !ok || u.Op != token.MUL {
			return false
		}
		ia, ok := u.X.(*ssa.IndexAddr)
		if !ok {
			return false
		}
		k, okc := constInt(ia.Index)
		return okc && k == 0 && e.Resolve(st, RV{r.F, ia.X}).V == of
	}
	cls := func(e *PPA, st *State, rv RV) string {
		r := e.Resolve(st, rv)
		switch v := r.V.(type) {
		case *ssa.Call:
			if la, ok := lenArg(v); ok {
				a := e.Resolve(st, RV{r.F, la}).V
				if a == pathP {
					return "PLEN"
				}
				if loadOfField(a, fChildren) {
					return "NCHILD"
				}
				if isNilConst(a) {
					return "ZERO"
				}
			}
		case *ssa.BinOp:
			if v.Op == token.EQL || v.Op == token.NEQ {
				for _, pr := range [][2]ssa.Value{{v.X, v.Y}, {v.Y, v.X}} {
					if s, ok := constString(pr[1]); ok && s == glob && isElem0(e, st, RV{r.F, pr[0]}, pathP) {
						if v.Op == token.EQL {
							return "ISGLOB"
						}
						return "!ISGLOB"
					}
				}
			}
		case *ssa.Extract:
			if lk, ok := v.Tuple.(*ssa.Lookup); ok && lk.CommaOk && v.Index == 1 && loadOfField(lk.X, fChildren) {
				if s, ok := constString(lk.Index); ok && s == glob {
					return "HASGLOB"
				}
				if isElem0(e, st, RV{r.F, lk.Index}, pathP) {
					return "HASKEY"
				}
			}
		}
		return ""
	}
	isRec := lbl("call:" + fnName(upd))
	isClientsRange := func(ev *Ev) bool { return ev.Label == "load:match.branch.clients" }
	// classification of a recursive call: which child, which path
	childKind := func(ev *Ev) string {
		v := ev.Args[0].V
		if ex, ok := v.(*ssa.Extract); ok {
			if nx, ok := ex.Tuple.(*ssa.Next); ok && ex.Index == 2 {
				if rg, ok := nx.Iter.(*ssa.Range); ok && loadOfField(rg.X, fChildren) {
					return "every child"
				}
			}
			if lk, ok := ex.Tuple.(*ssa.Lookup); ok && ex.Index == 0 && loadOfField(lk.X, fChildren) {
				if s, ok := constString(lk.Index); ok && s == glob {
					return "glob child"
				}
				if u, ok := lk.Index.(*ssa.UnOp); ok {
					// (the lookup may sit in a helper that was handed the path: its parameter is the caller's)
					if ia, ok := u.X.(*ssa.IndexAddr); ok && (ia.X == pathP || frameResolve(RV{ev.Args[0].F, ia.X}).V == pathP) {
						if k, okc := constInt(ia.Index); okc && k == 0 {
							return "path[0] child"
						}
					}
				}
			}
		}
		if lk, ok := v.(*ssa.Lookup); ok && loadOfField(lk.X, fChildren) {
			if s, ok := constString(lk.Index); ok && s == glob {
				return "glob child"
			}
			return "path[0] child?"
		}
		return "other:" + Expr(v)
	}
	pathKind := func(ev *Ev) string {
		// the path operand of the recursive call: the only []string argument
		v := ev.Args[len(ev.Args)-1].V
		for _, a := range ev.Args {
			if sl, ok := a.V.Type().Underlying().(*types.Slice); ok {
				if bt, ok := sl.Elem().Underlying().(*types.Basic); ok && bt.Kind() == types.String {
					v = a.V
				}
			}
		}
		if isNilConst(v) {
			return "exhausted"
		}
		if v == pathP {
			return "same path"
		}
		if sl, ok := v.(*ssa.Slice); ok && sl.X == pathP && sl.High == nil && sl.Low != nil {
			if k, okc := constInt(sl.Low); okc && k == 1 {
				return "path[1:]"
			}
		}
		return "other:" + Expr(v)
	}
	c.Analysed(fnName(upd))
	type row struct {
		name                    string
		nchild, plen            int64
		isglob, hasglob, haskey bool
		want                    []string // multiset of "child/path" for one iteration of each loop
		loop                    bool     // descent is a loop over all children
	}
	rows := []row{
		{"no children", 0, 1, false, false, false, nil, false},
		{"path exhausted", 1, 0, false, false, false, []string{"every child/exhausted"}, true},
		{"glob element", 1, 1, true, false, false, []string{"every child/path[1:]"}, true},
		{"plain element, neither child present", 1, 1, false, false, false, nil, false},
		{"plain element, glob child only", 1, 1, false, true, false, []string{"glob child/path[1:]"}, false},
		{"plain element, path[0] child only", 1, 1, false, false, true, []string{"path[0] child/path[1:]"}, false},
		{"plain element, both children", 1, 1, false, true, true, []string{"glob child/path[1:]", "path[0] child/path[1:]"}, false},
	}
	// rows with a non-empty path are evaluated at length 1 and 2 (a test on the exact length must not change the descent)
	var all []row
	for _, rw := range rows {
		all = append(all, rw)
		if rw.plen == 1 {
			r2 := rw
			r2.plen = 2
			r2.name += " (2 elements left)"
			all = append(all, r2)
		}
	}
	for _, rw := range all {
		b := map[string]bool{"ISGLOB": rw.isglob, "!ISGLOB": !rw.isglob, "HASGLOB": rw.hasglob, "HASKEY": rw.haskey}
		at := &Atoms{Class: cls, Bool: b, Int: map[string]int64{"PLEN": rw.plen, "NCHILD": rw.nchild, "ZERO": 0}}
		// (three visits of a loop header: a slice of two collected children is processed to its end)
		e := &PPA{Cond: at.Cond, MaxVisits: 3, TraceLoads: true, Watch: func(ev *Ev) bool { return isRec(ev) || isClientsRange(ev) }}
		e.Run(upd)
		c.Paths += len(e.Paths)
		c.Scen++
		n := 0
		sawLoop := false
		for i := range e.Paths {
			p := &e.Paths[i]
			if p.End != "return" {
				continue
			}
			n++
			ci := p.Index(0, isClientsRange)
			ri := p.Index(0, isRec)
			okClients := ci >= 0 && (ri < 0 || ci < ri)
			var got []string
			for j := range p.Trace {
				if isRec(&p.Trace[j]) {
					got = append(got, childKind(&p.Trace[j])+"/"+pathKind(&p.Trace[j]))
				}
			}
			ok := okClients
			if rw.loop {
				// zero or more iterations, each of the expected kind; at least one path iterates
				for _, g := range got {
					if g != rw.want[0] {
						ok = false
					}
				}
				if len(got) > 0 {
					sawLoop = true
				}
			} else {
				ok = ok && strings.Join(sortedCopy(got), ";") == strings.Join(sortedCopy(rw.want), ";")
			}
			c.Check(ok, rule, fnName(upd), "descent: "+rw.name, P.Pos(upd.Pos()), fmt.Sprintf("clients offered first=%v, descends into %v, want %v; path: %s", okClients, got, rw.want, p.String()))
		}
		if rw.loop {
			c.Check(sawLoop, rule, fnName(upd), "descent: "+rw.name+" reaches the children", P.Pos(upd.Pos()), "no explored path visits a child")
		}
		c.Floor(rule+"/"+rw.name, n, 1)
	}
	// ---- addQuery written as a loop instead of a recursion: evaluated with 0, 1 and 2 query elements
	selfCalls := func(f *ssa.Function) bool {
		for _, ci := range callsIn(f) {
			if staticCallee(ci.Common()) == f {
				return true
			}
		}
		return false
	}
	recFns := []*ssa.Function{addQ, remQ}
	if !selfCalls(addQ) {
		recFns = []*ssa.Function{remQ}
		f := addQ
		c.Analysed(fnName(f))
		qP, clP, recvP := ssa.Value(param(f, 1)), ssa.Value(param(f, 2)), ssa.Value(param(f, 0))
		qcls := func(e *PPA, st *State, rv RV) string {
			r := e.Resolve(st, rv)
			if call, ok := r.V.(*ssa.Call); ok {
				if la, ok := lenArg(call); ok && e.Resolve(st, RV{r.F, la}).V == qP {
					return "QLEN"
				}
			}
			return ""
		}
		for _, qlen := range []int64{0, 1, 2} {
			at := &Atoms{Class: qcls, Int: map[string]int64{"QLEN": qlen}}
			e := &PPA{Cond: at.Cond, MaxVisits: 4, TraceLookups: true, Watch: func(ev *Ev) bool {
				return strings.HasPrefix(ev.Label, "lookup:") || strings.HasPrefix(ev.Label, "mapupdate:") || ev.Label == "builtin:delete"
			}}
			e.deepApplied = true
			e.Run(f)
			c.Paths += len(e.Paths)
			c.Scen++
			n := 0
			for i := range e.Paths {
				p := &e.Paths[i]
				if p.End != "return" {
					continue
				}
				n++
				ok := true
				detail := ""
				step := int64(0)
				cur := RV{p.Trace0F(), recvP} // the node reached so far
				var lastLookup *Ev
				registered := false
				for j := range p.Trace {
					ev := &p.Trace[j]
					switch {
					case strings.HasPrefix(ev.Label, "lookup:") && ev.Field == fChildren:
						if ev.Note != fmt.Sprintf("elem:%d", step) || len(ev.Args) < 3 || ev.Args[2].V != qP || ev.Base.V != cur.V {
							ok, detail = false, fmt.Sprintf("step %d looks up %s (%s) in the children of %s", step, Expr(ev.Args[1].V), ev.Note, Expr(ev.Base.V))
						}
						lastLookup = ev
						// the node reached by this step: the looked-up child ...
						if lk, isLk := ev.In.(*ssa.Lookup); isLk {
							for _, rr := range *lk.Referrers() {
								if ex, isEx := rr.(*ssa.Extract); isEx && ex.Index == 0 {
									cur = RV{ev.F, ex}
								}
							}
							if !lk.CommaOk {
								cur = RV{ev.F, lk}
							}
						}
						step++
					case strings.HasPrefix(ev.Label, "mapupdate:") && ev.Field == fChildren:
						// ... or the child created for it (same key, stored into the same node)
						if lastLookup == nil || ev.Note != lastLookup.Note || ev.Base.V != lastLookup.Base.V {
							ok, detail = false, "child created under a key other than the one looked up"
						}
						cur = ev.Args[2]
					case strings.HasPrefix(ev.Label, "mapupdate:") && ev.Field == fClients:
						key := ev.Args[1].V
						if mi, isMI := key.(*ssa.MakeInterface); isMI {
							key = mi.X
						}
						if step != qlen || key != clP || ev.Base.V != cur.V {
							ok, detail = false, fmt.Sprintf("client registered after %d of %d steps at %s", step, qlen, Expr(ev.Base.V))
						}
						registered = true
					case strings.HasPrefix(ev.Label, "lookup:") || strings.HasPrefix(ev.Label, "mapupdate:"):
						// other maps (e.g. a nil check replaced by a lookup) are not part of the descent
					default:
						ok, detail = false, "unexpected "+ev.Label
					}
				}
				if !registered || step != qlen {
					ok = false
					if detail == "" {
						detail = fmt.Sprintf("%d descent steps for %d query elements, registered=%v", step, qlen, registered)
					}
				}
				c.Check(ok, rule, fnName(f), fmt.Sprintf("loop form, %d query elements: descends through children[query[0..]] in order and registers the client at the node reached", qlen), P.Pos(f.Pos()), detail+"; path: "+p.String())
			}
			c.Floor(fmt.Sprintf("%s/%s(loop,%d)", rule, fnName(f), qlen), n, 1)
		}
	}
	// ---- addQuery / removeQuery: same key and suffix
	for _, f := range recFns {
		c.Analysed(fnName(f))
		qP := ssa.Value(param(f, 1))
		clP := ssa.Value(param(f, 2))
		qcls := func(e *PPA, st *State, rv RV) string {
			r := e.Resolve(st, rv)
			if call, ok := r.V.(*ssa.Call); ok {
				if la, ok := lenArg(call); ok && e.Resolve(st, RV{r.F, la}).V == qP {
					return "QLEN"
				}
			}
			return ""
		}
		isSelf := lbl("call:" + fnName(f))
		for _, qlen := range []int64{0, 1} {
			at := &Atoms{Class: qcls, Int: map[string]int64{"QLEN": qlen}}
			e := &PPA{Cond: at.Cond, Inline: func(fr *Frame, call ssa.CallInstruction, callee *ssa.Function) bool { return callee.Parent() == f },
				Watch: func(ev *Ev) bool {
					return isSelf(ev) || ev.Label == "builtin:delete" || strings.HasPrefix(ev.Label, "mapupdate:")
				}}
			e.Run(f)
			c.Paths += len(e.Paths)
			c.Scen++
			n := 0
			some := false
			for i := range e.Paths {
				p := &e.Paths[i]
				if p.End != "return" {
					continue
				}
				n++
				ok := true
				detail := ""
				if qlen == 0 {
					// no descent; the client map of this node is the only thing touched, with the client parameter as key
					ok = !p.Has(isSelf)
					for j := range p.Trace {
						ev := &p.Trace[j]
						if isSelf(ev) {
							continue
						}
						if ev.Field != fClients {
							ok = false
							detail = "touches " + ev.Label
							continue
						}
						key := ev.Args[1].V
						if mi, isMI := key.(*ssa.MakeInterface); isMI {
							key = mi.X
						}
						if key != clP {
							ok = false
							detail = "key is not the client parameter"
						}
						some = true
					}
				} else {
					// descent (if any) into children[query[0]] with query[1:]; clients untouched
					for j := range p.Trace {
						ev := &p.Trace[j]
						if isSelf(ev) {
							some = true
							okChild := false
							switch v := ev.Args[0].V.(type) {
							case *ssa.Extract:
								if lk, isLk := v.Tuple.(*ssa.Lookup); isLk && v.Index == 0 && loadOfField(lk.X, fChildren) && isIndex0(lk.Index, qP) {
									okChild = true
								}
							case *ssa.Lookup:
								okChild = loadOfField(v.X, fChildren) && isIndex0(v.Index, qP)
							case *ssa.Alloc:
								// the child just created and stored under query[0]
								for k := 0; k < j; k++ {
									pe := &p.Trace[k]
									if strings.HasPrefix(pe.Label, "mapupdate:") && pe.Field == fChildren && len(pe.Args) >= 3 && pe.Args[2].V == ssa.Value(v) && isIndex0(pe.Args[1].V, qP) {
										okChild = true
									}
								}
							case *ssa.Phi:
								okChild = true
								for _, ed := range v.Edges {
									switch x := ed.(type) {
									case *ssa.Extract:
										lk, isLk := x.Tuple.(*ssa.Lookup)
										if !(isLk && x.Index == 0 && loadOfField(lk.X, fChildren) && isIndex0(lk.Index, qP)) {
											okChild = false
										}
									case *ssa.Alloc:
									default:
										okChild = false
									}
								}
							}
							okPath := false
							if sl, isSl := ev.Args[1].V.(*ssa.Slice); isSl && sl.X == qP && sl.High == nil && sl.Low != nil {
								if k, okc := constInt(sl.Low); okc && k == 1 {
									okPath = true
								}
							}
							if !okChild || !okPath {
								ok = false
								detail = fmt.Sprintf("descends into %s with %s", Expr(ev.Args[0].V), Expr(ev.Args[1].V))
							}
							continue
						}
						if ev.Field == fClients {
							ok = false
							detail = "clients touched before the query is exhausted"
						}
						if ev.Field == fChildren && len(ev.Args) >= 2 && !isIndex0(ev.Args[1].V, qP) {
							ok = false
							detail = "children keyed by something other than query[0]"
						}
					}
				}
				c.Check(ok, rule, fnName(f), fmt.Sprintf("query exhausted=%v", qlen == 0), P.Pos(f.Pos()), detail+"; path: "+p.String())
				// registration is unconditional: whatever the node already holds (other clients, this client
				// registered for a shorter query, children or none), addQuery stores the client / descends
				if f == addQ {
					if qlen == 0 {
						reg := p.Has(func(ev *Ev) bool { return strings.HasPrefix(ev.Label, "mapupdate:") && ev.Field == fClients })
						c.Check(reg, rule, fnName(f), "query exhausted: the client is stored on every path", P.Pos(f.Pos()), "path: "+p.String())
					} else {
						c.Check(p.Has(isSelf), rule, fnName(f), "query not exhausted: the descent happens on every path", P.Pos(f.Pos()), "path: "+p.String())
					}
				}
			}
			c.Check(some, rule, fnName(f), fmt.Sprintf("query exhausted=%v: the registration is touched / the descent happens on some path", qlen == 0), P.Pos(f.Pos()), "")
			c.Floor(fmt.Sprintf("%s/%s(exhausted=%v)", rule, fnName(f), qlen == 0), n, 1)
		}
	}
}

func isIndex0(v ssa.Value, base ssa.Value) bool {
	u, ok := v.(*ssa.UnOp)
	if !ok || u.Op != token.MUL {
		return false
	}
	ia, ok := u.X.(*ssa.IndexAddr)
	if !ok || ia.X != base {
		return false
	}
	k, okc := constInt(ia.Index)
	return okc && k == 0
}

func sortedCopy(s []string) []string {
	o := append([]string{}, s...)
	sortStrings(o)
	return o
}
