package main

import (
	"fmt"
	"go/token"
	"go/types"
	"sort"
	"strings"

	"golang.org/x/tools/go/ssa"
)

// equalArms checks value.Equal arm by arm (shared by C03, C12 and C19):
// soundness ("never reports two different values as equal"), totality facet
// (nil-safe getter on the other side) and sibling agreement.
func equalArms(c *Ctx, rule string, totality bool) {
	P := c.P
	eq := P.Func("value", "Equal")
	if eq == nil || len(eq.Params) != 2 {
		c.Unresolved(rule, "value.Equal(a, b)")
		return
	}
	c.Analysed(fnName(eq))
	c.Rule(rule, "for every arm X of value.Equal's switch on a's oneof: b's oneof is obtained through the nil-safe getter and comma-ok asserted to the same X; a mismatch returns false; true is returned only through == comparisons of the same fields of both sides (leaf-lists: different lengths => false on every path, equal lengths => element-wise recursive Equal on the same index, a false element => false); values of unhandled kinds => false")
	a, b := ssa.Value(param(eq, 0)), ssa.Value(param(eq, 1))
	getVal := "(*proto/gnmi.TypedValue).GetValue"
	// inside a same-package helper that Equal hands a or b to, the helper's parameter stands for that operand
	sideOf := func(v ssa.Value) string { return "" }
	sideIn := func(a, b ssa.Value) func(v ssa.Value) string {
		return func(v ssa.Value) string {
			switch x := v.(type) {
			case *ssa.Call:
				if calleeName(&x.Call) == getVal {
					if x.Call.Args[0] == a {
						return "a.getter"
					}
					if x.Call.Args[0] == b {
						return "b.getter"
					}
				}
			case *ssa.UnOp:
				if x.Op == token.MUL {
					if fa, ok := x.X.(*ssa.FieldAddr); ok && fieldName(fa.X.Type(), fa.Field) == "Value" {
						if fa.X == a {
							return "a.field"
						}
						if fa.X == b {
							return "b.field"
						}
					}
				}
			}
			return ""
		}
	}
	sideOf = sideIn(a, b)
	type arm struct {
		T        types.Type
		aAssert  *ssa.TypeAssert
		bAsserts []*ssa.TypeAssert
	}
	arms := map[string]*arm{}
	sideOfTA := map[*ssa.TypeAssert]string{}
	var scan func(f *ssa.Function, sd func(ssa.Value) string, d int)
	collect := func(ta *ssa.TypeAssert, side string) {}
	scan = func(f *ssa.Function, sd func(ssa.Value) string, d int) {
		instrs(f, func(in ssa.Instruction) {
			if ta, ok := in.(*ssa.TypeAssert); ok {
				if side := sd(ta.X); side != "" {
					sideOfTA[ta] = side
					collect(ta, side)
				}
				return
			}
			call, ok := in.(*ssa.Call)
			if !ok || d > 1 {
				return
			}
			g := staticCallee(&call.Call)
			if g == nil || g == eq || g.Blocks == nil || pkgPathOf(g) != pkgPathOf(eq) {
				return
			}
			var ga, gb ssa.Value
			for i, arg := range call.Call.Args {
				if i >= len(g.Params) {
					break
				}
				switch sd2 := arg; {
				case sd2 == a || (f != eq && sd(arg) == "a"):
					ga = g.Params[i]
				case sd2 == b || (f != eq && sd(arg) == "b"):
					gb = g.Params[i]
				}
			}
			if ga != nil || gb != nil {
				scan(g, sideIn(ga, gb), d+1)
			}
		})
	}
	collect = func(ta *ssa.TypeAssert, side string) {
		k := types.TypeString(ta.AssertedType, shortQ)
		if arms[k] == nil {
			arms[k] = &arm{T: ta.AssertedType}
		}
		if strings.HasPrefix(side, "a.") {
			arms[k].aAssert = ta
		} else {
			arms[k].bAsserts = append(arms[k].bAsserts, ta)
		}
	}
	scan(eq, sideOf, 0)
	var names []string
	for k := range arms {
		names = append(names, k)
	}
	sort.Strings(names)
	nArms := 0
	for _, k := range names {
		ar := arms[k]
		if ar.aAssert == nil {
			continue
		}
		nArms++
		// (1) nil-safe getter + comma-ok on b
		okB := len(ar.bAsserts) > 0
		how := ""
		for _, bt := range ar.bAsserts {
			s := sideOfTA[bt]
			how = s
			if s != "b.getter" || !bt.CommaOk {
				okB = false
			}
		}
		if !totality {
			// soundness only needs the comma-ok assertion to the same kind
			okB = len(ar.bAsserts) > 0
			for _, bt := range ar.bAsserts {
				if !bt.CommaOk {
					okB = false
				}
			}
		}
		c.Check(okB, rule, fnName(eq), "arm "+k+": other side via nil-safe getter, comma-ok", P.Pos(ar.aAssert.Pos()), fmt.Sprintf("b's value obtained by %s (a nil *TypedValue on the b side dereferences b when the field is read directly)", how))
		if len(ar.bAsserts) == 0 {
			continue
		}
		// (2)(3) path analysis of the arm
		isLeaflist := strings.Contains(k, "LeaflistVal")
		recName := fnName(eq)
		scen := []struct {
			name string
			bok  bool
			rel  int
			req  bool
		}{{"other side has a different kind", false, 0, true}, {"same kind", true, 0, true}}
		if isLeaflist {
			scen = []struct {
				name string
				bok  bool
				rel  int
				req  bool
			}{{"other side has a different kind", false, 0, true}, {"same kind, a shorter", true, -1, true}, {"same kind, a longer", true, 1, true},
				{"same kind, equal length, an element differs", true, 0, false}, {"same kind, equal length, elements equal", true, 0, true}}
		}
		for _, sc := range scen {
			cls := func(e *PPA, st *State, rv RV) string {
				switch v := rv.V.(type) {
				case *ssa.Extract:
					if ta, ok := v.Tuple.(*ssa.TypeAssert); ok && v.Index == 1 {
						if ta == ar.aAssert {
							return "A_IS"
						}
						for _, bt := range ar.bAsserts {
							if ta == bt {
								return "B_OK"
							}
						}
						if strings.HasPrefix(sideOf(ta.X), "a.") {
							return "A_OTHER"
						}
					}
				case *ssa.Call:
					if bi, ok := v.Call.Value.(*ssa.Builtin); ok && bi.Name() == "len" {
						r := assertRootR(e, st, RV{rv.F, v.Call.Args[0]})
						if ex, ok := r.V.(*ssa.TypeAssert); ok {
							if ex == ar.aAssert {
								return "LA"
							}
							for _, bt := range ar.bAsserts {
								if ex == bt {
									return "LB"
								}
							}
						}
					}
					if staticCallee(&v.Call) == eq {
						return "REQ"
					}
				}
				return ""
			}
			at := &Atoms{Class: cls, Bool: map[string]bool{"A_IS": true, "A_OTHER": false, "B_OK": sc.bok, "REQ": sc.req}, Rel: map[[2]string]int{{"LA", "LB"}: sc.rel}}
			e := &PPA{Cond: at.Cond, MaxVisits: 3, Watch: func(ev *Ev) bool { return ev.Label == "call:"+recName }}
			e.Run(eq)
			c.Paths += len(e.Paths)
			c.Scen++
			n := 0
			for i := range e.Paths {
				p := &e.Paths[i]
				if p.End != "return" || len(p.Rets) != 1 {
					continue
				}
				n++
				r := p.Rets[0]
				rb := p.RetB[0]
				key := "arm " + k + ": " + sc.name
				// the whole list comparison delegated to slices.EqualFunc(a-list, b-list, Equal): by the library's
				// contract false when the lengths differ, otherwise Equal on the same index of both
				if isLeaflist && sc.bok && equalFuncOverLists(r.V, eq, sideOf) {
					c.OK(rule, fnName(eq), key, P.Pos(ar.aAssert.Pos()), "slices.EqualFunc over the element lists of both sides with Equal itself")
					continue
				}
				switch {
				case !sc.bok, isLeaflist && sc.rel != 0, isLeaflist && !sc.req && p.Has(lbl("call:"+recName)):
					c.Check(rb == 0, rule, fnName(eq), key, P.Pos(ar.aAssert.Pos()), fmt.Sprintf("must return false; returns %s (folded: %d); path: %s", retClass(r), rb, p.String()))
				case isLeaflist:
					// equal lengths, elements equal: every recursive call compares the same index of both lists
					okIdx := true
					for j := range p.Trace {
						ev := &p.Trace[j]
						if ev.Label == "call:"+recName && len(ev.Args) == 2 {
							i0, i1 := indexExpr(ev.Args[0].V), indexExpr(ev.Args[1].V)
							if i0 == "" || i0 != i1 {
								okIdx = false
							}
						}
					}
					c.Check(okIdx, rule, fnName(eq), key, P.Pos(ar.aAssert.Pos()), fmt.Sprintf("element-wise comparison on the same index=%v; path: %s", okIdx, p.String()))
				default:
					// scalar arm, same kind: the result must be an == of the same field of both sides (or false)
					ok := rb == 0 || sameFieldEq(r.V, ar.aAssert, ar.bAsserts) || sameFieldEqRV(r, ar.aAssert, ar.bAsserts, 0)
					c.Check(ok, rule, fnName(eq), key, P.Pos(ar.aAssert.Pos()), "returns "+Expr(r.V))
				}
			}
			if n == 0 {
				c.Unknown(rule, fnName(eq), "arm "+k+": "+sc.name, P.Pos(ar.aAssert.Pos()), "no path in this scenario")
			}
		}
	}
	c.Floor(rule+"/arms", nArms, 9)
	// unhandled kinds fall to false
	{
		cls := func(e *PPA, st *State, rv RV) string {
			if ex, ok := rv.V.(*ssa.Extract); ok && ex.Index == 1 {
				if ta, ok := ex.Tuple.(*ssa.TypeAssert); ok && strings.HasPrefix(sideOf(ta.X), "a.") {
					return "A_OTHER"
				}
			}
			return ""
		}
		at := &Atoms{Class: cls, Bool: map[string]bool{"A_OTHER": false}}
		e := &PPA{Cond: at.Cond}
		e.Run(eq)
		c.Paths += len(e.Paths)
		for i := range e.Paths {
			p := &e.Paths[i]
			if len(p.RetB) == 1 {
				c.Check(p.RetB[0] == 0, rule, fnName(eq), "value of an unhandled kind (or nil) => false", P.Pos(eq.Pos()), "returns "+retClass(p.Rets[0]))
			}
		}
	}
}

// assertRootR is assertRoot with resolution through inlined frames.
func assertRootR(e *PPA, st *State, rv RV) RV {
	for i := 0; i < 24; i++ {
		rv = e.Resolve(st, rv)
		switch x := rv.V.(type) {
		case *ssa.UnOp:
			rv = RV{rv.F, x.X}
		case *ssa.FieldAddr:
			rv = RV{rv.F, x.X}
		case *ssa.Field:
			rv = RV{rv.F, x.X}
		case *ssa.Extract:
			rv = RV{rv.F, x.Tuple}
		default:
			return rv
		}
	}
	return rv
}

// assertRoot strips loads / field selections / tuple extraction down to a type assertion.
func assertRoot(v ssa.Value) ssa.Value {
	for i := 0; i < 16; i++ {
		switch x := v.(type) {
		case *ssa.UnOp:
			v = x.X
		case *ssa.FieldAddr:
			v = x.X
		case *ssa.Field:
			v = x.X
		case *ssa.Extract:
			v = x.Tuple
		default:
			return v
		}
	}
	return v
}

func indexExpr(v ssa.Value) string {
	if u, ok := v.(*ssa.UnOp); ok && u.Op == token.MUL {
		if ia, ok := u.X.(*ssa.IndexAddr); ok {
			return Expr(ia.Index)
		}
	}
	return ""
}

// sameFieldEq: v is (possibly a conjunction of) x.F == y.F with x rooted in the a-side
// assertion and y in a b-side assertion, the field paths being identical.
func sameFieldEq(v ssa.Value, aT *ssa.TypeAssert, bTs []*ssa.TypeAssert) bool {
	switch x := v.(type) {
	case *ssa.Phi:
		for _, e := range x.Edges {
			if cb, ok := constBool(e); ok && !cb {
				continue
			}
			if !sameFieldEq(e, aT, bTs) {
				return false
			}
		}
		return true
	case *ssa.Call:
		// library equality on the same field of both sides
		switch calleeName(&x.Call) {
		case "bytes.Equal", "slices.Equal", "strings.EqualFold":
			if calleeName(&x.Call) == "strings.EqualFold" || len(x.Call.Args) != 2 {
				return false
			}
			return sameFieldEq(&ssa.BinOp{Op: token.EQL, X: x.Call.Args[0], Y: x.Call.Args[1]}, aT, bTs)
		}
		return false
	case *ssa.BinOp:
		if x.Op != token.EQL {
			return false
		}
		pa, ra := fieldPath(x.X)
		pb, rb := fieldPath(x.Y)
		if pa == "" || pa != pb {
			return false
		}
		isA := func(r ssa.Value) bool {
			ex, ok := r.(*ssa.Extract)
			return (ok && ex.Tuple == ssa.Value(aT)) || r == ssa.Value(aT)
		}
		isB := func(r ssa.Value) bool {
			for _, bt := range bTs {
				if ex, ok := r.(*ssa.Extract); (ok && ex.Tuple == ssa.Value(bt)) || r == ssa.Value(bt) {
					return true
				}
			}
			// the asserted value handed back by a small helper: w, ok := helper(b) with helper returning the
			// two results of the assertion
			if ex, ok := r.(*ssa.Extract); ok && ex.Index == 0 {
				if call, ok := ex.Tuple.(*ssa.Call); ok {
					if g := staticCallee(&call.Call); g != nil && g.Blocks != nil {
						all, n := true, 0
						instrs(g, func(in ssa.Instruction) {
							ret, isR := in.(*ssa.Return)
							if !isR {
								return
							}
							n++
							okRet := false
							if len(ret.Results) >= 1 {
								if rex, ok := ret.Results[0].(*ssa.Extract); ok && rex.Index == 0 {
									for _, bt := range bTs {
										if rex.Tuple == ssa.Value(bt) {
											okRet = true
										}
									}
								}
							}
							if !okRet {
								all = false
							}
						})
						return all && n > 0
					}
				}
			}
			return false
		}
		return (isA(ra) && isB(rb)) || (isB(ra) && isA(rb))
	}
	return false
}

// fieldPath returns the chain of field names read from a root value ("" if not a pure field chain).
func fieldPath(v ssa.Value) (string, ssa.Value) {
	path := ""
	for i := 0; i < 8; i++ {
		switch x := v.(type) {
		case *ssa.UnOp:
			if x.Op != token.MUL {
				return "", nil
			}
			v = x.X
		case *ssa.FieldAddr:
			path = "." + fieldName(x.X.Type(), x.Field) + path
			v = x.X
		case *ssa.Field:
			path = "." + fieldName(x.X.Type(), x.Field) + path
			v = x.X
		case *ssa.Convert:
			path = "(conv)" + path
			v = x.X
		case *ssa.ChangeType:
			v = x.X
		default:
			return path, v
		}
	}
	return "", nil
}

// equalFuncOverLists: v is slices.EqualFunc(x, y, eq) with x read from side a and y from side b.
func equalFuncOverLists(v ssa.Value, eq *ssa.Function, sideOf func(ssa.Value) string) bool {
	call, ok := v.(*ssa.Call)
	if !ok {
		return false
	}
	g := staticCallee(&call.Call)
	if g == nil || pkgPathOf(g) != "slices" || !strings.HasPrefix(g.Name(), "EqualFunc") || len(call.Call.Args) != 3 {
		return false
	}
	fn := call.Call.Args[2]
	if ct, ok := fn.(*ssa.ChangeType); ok {
		fn = ct.X
	}
	if f, ok := fn.(*ssa.Function); !ok || f != eq {
		return false
	}
	side := func(v ssa.Value) string {
		r := assertRoot(v)
		if ta, ok := r.(*ssa.TypeAssert); ok {
			return sideOf(ta.X)
		}
		// the asserted wrapper obtained through a same-package helper that is handed a or b
		if hc, ok := r.(*ssa.Call); ok {
			if g := staticCallee(&hc.Call); g != nil && g.Blocks != nil && pkgPathOf(g) == pkgPathOf(eq) {
				for _, arg := range hc.Call.Args {
					switch arg {
					case ssa.Value(param(eq, 0)):
						return "a.helper"
					case ssa.Value(param(eq, 1)):
						return "b.helper"
					}
				}
			}
		}
		return ""
	}
	sa, sb := side(call.Call.Args[0]), side(call.Call.Args[1])
	return strings.HasPrefix(sa, "a") && strings.HasPrefix(sb, "b")
}

// sameFieldEqRV is sameFieldEq for a comparison made inside an inlined activation (a comparison closure
// handed to a generic helper that does the assertion): the operands' roots are followed through the
// frames - closure parameters to what the helper passed, captured variables to the cell's single store.
func sameFieldEqRV(rv RV, aT *ssa.TypeAssert, bTs []*ssa.TypeAssert, d int) bool {
	if d > 6 {
		return false
	}
	root := func(v ssa.Value) ssa.Value {
		r := RV{rv.F, v}
		for i := 0; i < 8; i++ {
			r = frameResolve(r)
			switch x := r.V.(type) {
			case *ssa.Alloc:
				if sv := singleStore(x); sv != nil {
					r = RV{r.F, sv}
					continue
				}
			case *ssa.UnOp:
				if al, ok := x.X.(*ssa.Alloc); ok && x.Op == token.MUL {
					if sv := singleStore(al); sv != nil {
						r = RV{r.F, sv}
						continue
					}
				}
			}
			break
		}
		return r.V
	}
	switch x := rv.V.(type) {
	case *ssa.Phi:
		for _, e := range x.Edges {
			if cb, ok := constBool(e); ok && !cb {
				continue
			}
			if !sameFieldEqRV(RV{rv.F, e}, aT, bTs, d+1) {
				return false
			}
		}
		return len(x.Edges) > 0
	case *ssa.Call:
		switch calleeName(&x.Call) {
		case "bytes.Equal", "slices.Equal":
			if len(x.Call.Args) == 2 {
				return sameFieldEqRV(RV{rv.F, &ssa.BinOp{Op: token.EQL, X: x.Call.Args[0], Y: x.Call.Args[1]}}, aT, bTs, d+1)
			}
		}
		return false
	case *ssa.BinOp:
		if x.Op != token.EQL {
			return false
		}
		pa, ra := fieldPath(x.X)
		pb, rb := fieldPath(x.Y)
		if pa == "" || pa != pb || ra == nil || rb == nil {
			return false
		}
		ra, rb = root(ra), root(rb)
		isA := func(r ssa.Value) bool {
			ex, ok := r.(*ssa.Extract)
			return (ok && ex.Tuple == ssa.Value(aT)) || r == ssa.Value(aT)
		}
		isB := func(r ssa.Value) bool {
			for _, bt := range bTs {
				if ex, ok := r.(*ssa.Extract); (ok && ex.Tuple == ssa.Value(bt)) || r == ssa.Value(bt) {
					return true
				}
			}
			return false
		}
		return (isA(ra) && isB(rb)) || (isB(ra) && isA(rb))
	}
	return false
}
