package main

import (
	"fmt"
	"go/constant"
	"go/token"
	"go/types"
	"strings"

	"golang.org/x/tools/go/ssa"
)

func init() {
	register(&propDef{
		ID:       "C11",
		Explain:  "Decided for coalesce.Queue (structural necessary conditions): queue/coalesced are touched only under the embedded mutex; Insert refuses after close before touching the queue; the wake-up token is a non-blocking send issued after (never before) a successful insert into a channel of capacity >= 1, `closed` is unbuffered, never sent on and closed at most once under the lock; Next's blocking select waits on exactly ctx.Done, inserted and closed and returns ctx.Err on cancellation; closed is reported only when Len()==0 (drain-before-closed); representation-level order/count: a pending key is only incremented by 1, a new key is appended at the tail with count 0, Next returns queue[0] with the count looked up before its delete, advances by exactly one and deletes that key on every path. Round-3 addition: the representation (queue, coalesced) is written only by the constructor, insert, next and unexported helpers reachable only from those two.",
		NotCover: "conservation and order under all producer/consumer interleavings, fairness among consumers, absence of lost wake-ups as a liveness statement (only its structural preconditions are decided)",
		Run:      runC11,
	})
}

// loadOfField reports whether rv is a load of the given struct field.
func loadOfField(v ssa.Value, f *types.Var) bool {
	u, ok := v.(*ssa.UnOp)
	return ok && u.Op == token.MUL && f != nil && fieldOf(u.X) == f
}

func runC11(c *Ctx) {
	P := c.P
	Insert := P.Method("coalesce", "Queue", "Insert")
	insert := P.Method("coalesce", "Queue", "insert")
	Next := P.Method("coalesce", "Queue", "Next")
	next := P.Method("coalesce", "Queue", "next")
	Len := P.Method("coalesce", "Queue", "Len")
	Close := P.Method("coalesce", "Queue", "Close")
	NewQueue := P.Func("coalesce", "NewQueue")
	IsClosedM := P.Method("coalesce", "Queue", "IsClosed")
	fQueue := P.Field("coalesce", "Queue", "queue")
	fCoal := P.Field("coalesce", "Queue", "coalesced")
	fIns := P.Field("coalesce", "Queue", "inserted")
	fClosed := P.Field("coalesce", "Queue", "closed")
	fMu := P.Field("coalesce", "Queue", "Mutex")
	errClosed := P.Global("coalesce", "errClosedQueue")
	for n, ok := range map[string]bool{"(*Queue).Insert": Insert != nil, "(*Queue).insert": insert != nil, "(*Queue).Next": Next != nil, "(*Queue).next": next != nil,
		"(*Queue).Len": Len != nil, "(*Queue).Close": Close != nil, "NewQueue": NewQueue != nil, "Queue.queue": fQueue != nil, "Queue.coalesced": fCoal != nil,
		"Queue.inserted": fIns != nil, "Queue.closed": fClosed != nil, "Queue.Mutex": fMu != nil, "errClosedQueue": errClosed != nil} {
		if !ok {
			c.Unresolved("C11.anchors", "coalesce."+n)
		}
	}
	if len(c.Unres) > 0 {
		return
	}
	c.Rule("C11.locked", "every read/write of Queue.queue and Queue.coalesced (incl. map updates/deletes) holds the queue's mutex; no entry point reaches them unlocked; every lock is released on all exits")
	c.Rule("C11.closed-first", "in Insert a non-blocking receive from q.closed whose ready arm returns (false, errClosedQueue) precedes the call of insert on every path")
	c.Rule("C11.token", "the wake-up token is sent on q.inserted by a select with default, on every path on which insert reported a new item, after the insert; NewQueue makes inserted with constant capacity >= 1 and closed unbuffered; closed is never sent on and close(closed) happens only in Close, under the mutex, on the default arm of a non-blocking receive from closed")
	c.Rule("C11.wait-set", "after a failed next(), Next blocks in a select without default whose arms are exactly receives on ctx.Done(), q.inserted and q.closed; the ctx arm returns ctx.Err()")
	c.Rule("C11.drain", "in Next's closed arm errClosedQueue is returned iff Len()==0; otherwise control returns to next()")
	c.Rule("C11.repr", "insert: pending key => count+1, no append, returns false; new key => append at tail, count 0, returns true. next: empty => (nil,0,false) with no write; otherwise returns queue[0], the count looked up before delete(coalesced, item), queue advanced by exactly one, and the key deleted on every such path")

	// ---- locked
	{
		la := NewLockAudit(c, "coalesce", map[*types.Var]*types.Var{fQueue: fMu, fCoal: fMu}, 2)
		la.Report(func(kind string) string { return "C11.locked" })
		c.Check(la.Accesses > 0 && la.Accesses == la.Guarded+countReqAccesses(la), "C11.locked", "coalesce", "all guarded accesses accounted", "", fmt.Sprintf("%d accesses on paths, %d under the mutex", la.Accesses, la.Guarded))
		c.Floor("C11.locked/accesses", la.Accesses, 10)
	}
	isIns := func(ev *Ev) bool { return ev.Label == "call:"+fnName(insert) }
	chanIs := func(ev *Ev, f *types.Var) bool { return len(ev.Args) > 0 && loadOfField(ev.Args[0].V, f) }

	// ---- closed-first + token (Insert)
	for _, okIns := range []bool{true, false} {
		c.Analysed(fnName(Insert))
		e := &PPA{
			Cond: func(e *PPA, st *State, rv RV) (bool, bool) {
				if call, ok := rv.V.(*ssa.Call); ok && staticCallee(&call.Call) == insert {
					return okIns, true
				}
				return false, false
			},
			Watch: func(ev *Ev) bool {
				return isIns(ev) || strings.HasPrefix(ev.Label, "select:") || strings.HasPrefix(ev.Label, "send:")
			},
			Inline: func(fr *Frame, call ssa.CallInstruction, callee *ssa.Function) bool { return callee == IsClosedM },
		}
		e.Run(Insert)
		c.Paths += len(e.Paths)
		c.Scen++
		n := 0
		for i := range e.Paths {
			p := &e.Paths[i]
			ii := p.Index(0, isIns)
			closedArm := p.Index(0, func(ev *Ev) bool {
				return ev.Label != "select:default" && strings.HasPrefix(ev.Label, "select:recv:") && chanIs(ev, fClosed)
			})
			if closedArm >= 0 {
				rc := retString(p.Rets)
				ok := ii < 0 && len(p.Rets) == 2 && retClass(p.Rets[1]) == "global:errClosedQueue" && retClass(p.Rets[0]) == "const:false"
				c.Check(ok, "C11.closed-first", fnName(Insert), "closed queue refuses the insertion", P.Pos(Insert.Pos()), "returns "+rc+"; path: "+p.String())
				continue
			}
			if ii < 0 {
				c.Bad("C11.closed-first", fnName(Insert), "path without insert and without closed arm", P.Pos(Insert.Pos()), p.String())
				continue
			}
			n++
			// a non-blocking select over q.closed took its default arm before insert
			def := -1
			for j := 0; j < ii; j++ {
				if p.Trace[j].Label == "select:default" {
					if sel, ok := p.Trace[j].In.(*ssa.Select); ok && !sel.Blocking && len(sel.States) == 1 && fieldOf(sel.States[0].Chan) == fClosed {
						def = j
					}
				}
			}
			c.Check(def >= 0, "C11.closed-first", fnName(Insert), "closed check precedes insert", P.Pos(posOf(p.Trace[ii].In)), "path: "+p.String())
			// token
			tok := -1
			blockingSend := false
			early := false
			for j := range p.Trace {
				ev := &p.Trace[j]
				if (strings.HasPrefix(ev.Label, "select:send:") || strings.HasPrefix(ev.Label, "send:")) && chanIs(ev, fIns) {
					if j < ii {
						early = true
					}
					if strings.HasPrefix(ev.Label, "send:") || ev.Blocking {
						blockingSend = true
					}
					tok = j
				}
				if ev.Label == "select:default" && j > ii {
					if sel, ok := ev.In.(*ssa.Select); ok && len(sel.States) == 1 && fieldOf(sel.States[0].Chan) == fIns {
						tok = j // token offered, channel full: default taken
					}
				}
			}
			if okIns {
				c.Check(tok > ii && !blockingSend && !early, "C11.token", fnName(Insert), "new item => non-blocking token after insert", P.Pos(Insert.Pos()),
					fmt.Sprintf("token offered=%v blocking=%v before-insert=%v; path: %s", tok > ii, blockingSend, early, p.String()))
			} else {
				c.Check(!blockingSend && !early, "C11.token", fnName(Insert), "coalesced item => no blocking send", P.Pos(Insert.Pos()), "path: "+p.String())
			}
		}
		c.Floor(fmt.Sprintf("C11.closed-first/insert-paths(new=%v)", okIns), n, 1)
	}
	// NewQueue channel capacities
	{
		c.Analysed(fnName(NewQueue))
		capOf := map[*types.Var]int64{}
		seen := map[*types.Var]bool{}
		instrs(NewQueue, func(in ssa.Instruction) {
			st, ok := in.(*ssa.Store)
			if !ok {
				return
			}
			f := fieldOf(st.Addr)
			if f != fIns && f != fClosed {
				return
			}
			if mc, ok := st.Val.(*ssa.MakeChan); ok {
				if n, ok := constInt(mc.Size); ok {
					capOf[f] = n
					seen[f] = true
				}
			}
		})
		c.Check(seen[fIns] && capOf[fIns] >= 1, "C11.token", fnName(NewQueue), "inserted has constant capacity >= 1", P.Pos(NewQueue.Pos()), fmt.Sprintf("capacity %d (made here: %v)", capOf[fIns], seen[fIns]))
		c.Check(seen[fClosed] && capOf[fClosed] == 0, "C11.token", fnName(NewQueue), "closed is unbuffered", P.Pos(NewQueue.Pos()), fmt.Sprintf("capacity %d (made here: %v)", capOf[fClosed], seen[fClosed]))
	}
	// closed: never sent on; closed only in Close on the default arm under the lock
	{
		nClose := 0
		for _, f := range P.PkgFuncs("coalesce") {
			if P.InTestFile(f) {
				continue
			}
			instrs(f, func(in ssa.Instruction) {
				switch x := in.(type) {
				case *ssa.Send:
					if fieldOf(x.Chan) == fClosed {
						c.Bad("C11.token", fnName(f), "send on q.closed", P.Pos(in.Pos()), "closed is a broadcast channel: only close() may signal it")
					}
				case *ssa.Select:
					for _, s := range x.States {
						if s.Dir == types.SendOnly && fieldOf(s.Chan) == fClosed {
							c.Bad("C11.token", fnName(f), "select-send on q.closed", P.Pos(in.Pos()), "closed is a broadcast channel")
						}
					}
				case *ssa.Call:
					if b, ok := x.Call.Value.(*ssa.Builtin); ok && b.Name() == "close" && fieldOf(x.Call.Args[0]) == fClosed {
						nClose++
						c.Check(f == Close, "C11.token", fnName(f), "close(q.closed) site", P.Pos(in.Pos()), "only Close may close the channel")
					}
				}
			})
		}
		c.Floor("C11.token/close-sites", nClose, 1)
		e := &PPA{Watch: func(ev *Ev) bool {
			return strings.HasPrefix(ev.Label, "select:") || ev.Label == "builtin:close" || isLockOp(ev)
		}, Inline: func(fr *Frame, call ssa.CallInstruction, callee *ssa.Function) bool { return callee == IsClosedM }}
		e.Run(Close)
		c.Analysed(fnName(Close))
		c.Paths += len(e.Paths)
		for i := range e.Paths {
			p := &e.Paths[i]
			ci := p.Index(0, lbl("builtin:close"))
			if ci < 0 {
				continue
			}
			def := -1
			locked := false
			for j := 0; j < ci; j++ {
				ev := &p.Trace[j]
				if ev.Label == "select:default" {
					if sel, ok := ev.In.(*ssa.Select); ok && !sel.Blocking && len(sel.States) == 1 && fieldOf(sel.States[0].Chan) == fClosed {
						def = j
					}
				}
				if ev.Label == "call:(*sync.Mutex).Lock" && !ev.Deferred {
					locked = true
				}
				if ev.Label == "call:(*sync.Mutex).Unlock" && !ev.Deferred {
					locked = false
				}
			}
			c.Check(def >= 0 && locked, "C11.token", fnName(Close), "close at most once: guarded by a non-blocking receive, under the mutex", P.Pos(posOf(p.Trace[ci].In)), fmt.Sprintf("guard=%v locked=%v path: %s", def >= 0, locked, p.String()))
		}
	}
	// ---- wait-set and drain (Next)
	{
		c.Analysed(fnName(Next))
		var sel *ssa.Select
		nSel := 0
		waitFns := []*ssa.Function{Next}
		for _, ci := range callsIn(Next) {
			if g := staticCallee(ci.Common()); g != nil && g.Pkg == Next.Pkg && !isExportedFn(g) && len(g.Blocks) > 0 && g != P.Method("coalesce", "Queue", "next") {
				waitFns = append(waitFns, g)
			}
		}
		for _, wf := range waitFns {
			instrs(wf, func(in ssa.Instruction) {
				if s, ok := in.(*ssa.Select); ok {
					sel = s
					nSel++
				}
			})
		}
		if nSel != 1 {
			c.Bad("C11.wait-set", fnName(Next), "exactly one select in Next", P.Pos(Next.Pos()), fmt.Sprintf("found %d", nSel))
		} else {
			arms := map[string]bool{}
			for _, s := range sel.States {
				k := "other:" + Expr(s.Chan)
				if s.Dir == types.RecvOnly {
					if fieldOf(s.Chan) == fIns {
						k = "inserted"
					} else if fieldOf(s.Chan) == fClosed {
						k = "closed"
					} else if call, ok := s.Chan.(*ssa.Call); ok && call.Call.IsInvoke() && call.Call.Method.Name() == "Done" {
						k = "ctx.Done"
					}
				}
				arms[k] = true
			}
			ok := sel.Blocking && len(sel.States) == 3 && arms["inserted"] && arms["closed"] && arms["ctx.Done"]
			c.Check(ok, "C11.wait-set", fnName(Next), "blocking select over {ctx.Done, inserted, closed}", P.Pos(sel.Pos()), fmt.Sprintf("blocking=%v arms=%v", sel.Blocking, keys(arms)))
		}
		for _, ln := range []int64{0, 1} {
			at := &Atoms{
				Class: func(e *PPA, st *State, rv RV) string {
					rv = e.Resolve(st, rv)
					if call, ok := rv.V.(*ssa.Call); ok && staticCallee(&call.Call) == Len {
						return "LEN"
					}
					if ex, ok := rv.V.(*ssa.Extract); ok {
						if bt, isB := ex.Type().Underlying().(*types.Basic); isB && bt.Kind() == types.Bool {
							if call, ok := ex.Tuple.(*ssa.Call); ok && staticCallee(&call.Call) == next {
								return "VALID"
							}
						}
					}
					return ""
				},
				Int:  map[string]int64{"LEN": ln},
				Bool: map[string]bool{"VALID": false},
			}
			e := &PPA{Cond: at.Cond, MaxVisits: 2, Watch: func(ev *Ev) bool {
				return strings.HasPrefix(ev.Label, "select:") || ev.Label == "call:"+fnName(next) || ev.Label == "call:"+fnName(Len) || strings.HasSuffix(ev.Label, ".Err")
			}}
			e.Run(Next)
			c.Paths += len(e.Paths)
			c.Scen++
			nClosed, nCtx := 0, 0
			for i := range e.Paths {
				p := &e.Paths[i]
				last := len(p.Trace) - 1
				// classify by the last select arm taken
				arm := -1
				for j := last; j >= 0; j-- {
					if strings.HasPrefix(p.Trace[j].Label, "select:") {
						arm = j
						break
					}
				}
				if arm < 0 {
					continue
				}
				ev := &p.Trace[arm]
				rc := ""
				if len(p.Rets) == 3 {
					rc = retClass(p.Rets[2])
				}
				switch {
				case chanIs(ev, fClosed):
					nClosed++
					if ln == 0 {
						c.Check(rc == "global:errClosedQueue", "C11.drain", fnName(Next), "closed and empty => errClosedQueue", P.Pos(Next.Pos()), "returns "+rc+"; path: "+p.String())
					} else {
						c.Bad("C11.drain", fnName(Next), "closed but not empty => must retry next()", P.Pos(Next.Pos()), "returns "+rc+" while items are pending; path: "+p.String())
					}
				case chanIs(ev, fIns):
					c.Bad("C11.drain", fnName(Next), "token arm must loop to next()", P.Pos(Next.Pos()), "path ends after the inserted arm: "+p.String())
				default:
					nCtx++
					okCtx := strings.HasSuffix(rc, ".Err") && strings.HasPrefix(rc, "call:invoke:")
					c.Check(okCtx, "C11.wait-set", fnName(Next), "cancellation returns ctx.Err()", P.Pos(Next.Pos()), "returns "+rc)
				}
			}
			if ln == 0 {
				c.Floor("C11.drain/closed-empty-paths", nClosed, 1)
			} else {
				// with pending items the closed arm must not terminate: check it is followed by next()
				c.Check(nClosed == 0, "C11.drain", fnName(Next), "closed but not empty never terminates Next", P.Pos(Next.Pos()), fmt.Sprintf("%d terminating paths", nClosed))
				c.Floor("C11.drain/truncated-retries", e.Truncated, 1)
			}
			c.Floor("C11.wait-set/ctx-paths", nCtx, 1)
		}
	}
	// ---- representation: insert
	{
		c.Analysed(fnName(insert))
		for _, found := range []bool{true, false} {
			at := &Atoms{
				Class: func(e *PPA, st *State, rv RV) string {
					if ex, ok := rv.V.(*ssa.Extract); ok && ex.Index == 1 {
						if lk, ok := ex.Tuple.(*ssa.Lookup); ok && lk.CommaOk && loadOfField(lk.X, fCoal) {
							return "FOUND"
						}
					}
					return ""
				},
				Bool: map[string]bool{"FOUND": found},
			}
			e := &PPA{Cond: at.Cond, Watch: func(ev *Ev) bool {
				return strings.HasPrefix(ev.Label, "mapupdate:") || ev.Label == "builtin:append" || strings.HasPrefix(ev.Label, "store:coalesce.Queue.")
			}}
			e.Run(insert)
			c.Paths += len(e.Paths)
			c.Scen++
			n := 0
			for i := range e.Paths {
				p := &e.Paths[i]
				n++
				apps := p.Count(lbl("builtin:append"))
				stq := p.Count(lbl("store:coalesce.Queue.queue"))
				mu := p.Index(0, lblPrefix("mapupdate:"))
				ret := ""
				if len(p.Rets) == 1 {
					ret = retClass(p.Rets[0])
				}
				ok := false
				detail := ""
				if mu >= 0 {
					ev := &p.Trace[mu]
					val := ev.Args[2].V
					if found {
						b, isB := val.(*ssa.BinOp)
						inc := false
						if isB && b.Op == token.ADD {
							if k, isK := constInt(b.Y); isK && k == 1 {
								// coalesced[i] + 1, the lookup spelled with or without comma-ok
								x := b.X
								if ex, isEx := x.(*ssa.Extract); isEx && ex.Index == 0 {
									x = ex.Tuple
								}
								if lk, isL := x.(*ssa.Lookup); isL && loadOfField(lk.X, fCoal) && (sameValue(lk.Index, ev.Args[1].V) || sameValue(frameResolve(RV{ev.Args[2].F, lk.Index}).V, ev.Args[1].V)) {
									inc = true
								}
							}
						}
						ok = inc && apps == 0 && stq == 0 && ret == "const:false" && p.Count(lblPrefix("mapupdate:")) == 1
						detail = fmt.Sprintf("increment-by-1=%v appends=%d queue stores=%d returns %s", inc, apps, stq, ret)
					} else {
						k, isK := constInt(val)
						// appended value is the item, base is the current queue
						tail := false
						if ai := p.Index(0, lbl("builtin:append")); ai >= 0 && len(p.Trace[ai].Args) >= 2 {
							tail = loadOfField(p.Trace[ai].Args[0].V, fQueue)
						}
						ok = isK && k == 0 && apps == 1 && stq == 1 && tail && ret == "const:true" && p.Count(lblPrefix("mapupdate:")) == 1
						detail = fmt.Sprintf("count0=%v appends=%d(at tail of q.queue=%v) queue stores=%d returns %s", isK && k == 0, apps, tail, stq, ret)
					}
				} else {
					detail = "no update of the coalesced map"
				}
				c.Check(ok, "C11.repr", fnName(insert), fmt.Sprintf("pending=%v", found), P.Pos(insert.Pos()), detail+"; path: "+p.String())
			}
			c.Floor(fmt.Sprintf("C11.repr/insert(pending=%v)", found), n, 1)
		}
	}
	queueNextRepr(c, "C11.repr")
	// ---- who may write the representation
	c.Rule("C11.repr-writers", "package coalesce (non-test): Queue.queue and Queue.coalesced are written (stores, map inserts/deletes) only by the constructor, by insert and next - whose transitions C11.repr decides - and by unexported helpers that are called from those two only; any other writer changes the queue behind the decided transitions")
	{
		writes := func(f *ssa.Function) bool {
			w := false
			instrs(f, func(in ssa.Instruction) {
				switch x := in.(type) {
				case *ssa.Store:
					if fl := fieldOf(x.Addr); fl == fQueue || fl == fCoal {
						if fa, ok := x.Addr.(*ssa.FieldAddr); ok {
							if _, isAlloc := fa.X.(*ssa.Alloc); !isAlloc {
								w = true
							}
						}
					}
					// element store q.queue[i] = v
					if ia, ok := x.Addr.(*ssa.IndexAddr); ok && (loadOfField(ia.X, fQueue)) {
						w = true
					}
				case *ssa.MapUpdate:
					if loadOfField(x.Map, fCoal) {
						w = true
					}
				case *ssa.Call:
					if b, ok := x.Call.Value.(*ssa.Builtin); ok && b.Name() == "delete" && loadOfField(x.Call.Args[0], fCoal) {
						w = true
					}
				}
			})
			return w
		}
		fns := P.PkgFuncs("coalesce")
		callers := map[*ssa.Function][]*ssa.Function{}
		for _, f := range fns {
			if P.InTestFile(f) {
				continue
			}
			for _, g := range withAnon(f) {
				for _, ci := range callsIn(g) {
					if cal := staticCallee(ci.Common()); cal != nil {
						callers[cal] = append(callers[cal], f)
					}
				}
			}
		}
		allowed := map[*ssa.Function]bool{insert: true, NewQueue: true}
		if nx := P.Method("coalesce", "Queue", "next"); nx != nil {
			allowed[nx] = true
		}
		var ok func(f *ssa.Function, d int) bool
		ok = func(f *ssa.Function, d int) bool {
			if allowed[f] {
				return true
			}
			if d > 4 || isExportedFn(f) || len(callers[f]) == 0 {
				return false
			}
			for _, cl := range callers[f] {
				if !ok(cl, d+1) {
					return false
				}
			}
			return true
		}
		n := 0
		for _, f := range fns {
			if P.InTestFile(f) || f.Parent() != nil {
				continue
			}
			if !writes(f) {
				continue
			}
			n++
			c.Check(ok(f, 0), "C11.repr-writers", fnName(f), "writes the queue representation", P.Pos(f.Pos()), "not the constructor, insert, next or a helper reachable only from them")
		}
		c.Floor("C11.repr-writers/writers", n, 2)
	}
}

// queueNextRepr checks the representation-level dequeue discipline of coalesce.(*Queue).next
// (shared by C11 and C08: a dequeued key must be forgotten so that a later update re-queues it).
func queueNextRepr(c *Ctx, rule string) {
	P := c.P
	next := P.Method("coalesce", "Queue", "next")
	fQueue := P.Field("coalesce", "Queue", "queue")
	fCoal := P.Field("coalesce", "Queue", "coalesced")
	if next == nil || fQueue == nil || fCoal == nil {
		c.Unresolved(rule, "coalesce.(*Queue).next / Queue.queue / Queue.coalesced")
		return
	}
	// ---- representation: next, evaluated with 1 and with 2 queued items
	{
		c.Analysed(fnName(next))
		isQueueLoad := func(v ssa.Value) bool { return loadOfField(v, fQueue) }
		tail1 := func(v ssa.Value) bool {
			sl, ok := v.(*ssa.Slice)
			if !ok || sl.High != nil || sl.Low == nil {
				return false
			}
			lo, okLo := constInt(sl.Low)
			return okLo && lo == 1 && isQueueLoad(sl.X)
		}
		cls := func(e *PPA, st *State, rv RV) string {
			r := e.Resolve(st, rv)
			call, ok := r.V.(*ssa.Call)
			if !ok {
				return ""
			}
			la, ok := lenArg(call)
			if !ok {
				return ""
			}
			a := e.Resolve(st, RV{r.F, la}).V
			switch {
			case isNilConst(a):
				return "ZERO"
			case tail1(a):
				return "QLEN-1"
			case isQueueLoad(a):
				return "QLEN"
			}
			return ""
		}
		nAdv, nEmpty := 0, 0
		for _, qlen := range []int64{0, 1, 2} {
			at := &Atoms{Class: cls, Int: map[string]int64{"QLEN": qlen, "QLEN-1": qlen - 1, "ZERO": 0}}
			e := &PPA{Cond: at.Cond, TraceLookups: true, Watch: func(ev *Ev) bool {
				return ev.Label == "builtin:delete" || strings.HasPrefix(ev.Label, "store:coalesce.Queue.") || strings.HasPrefix(ev.Label, "mapupdate:") || (strings.HasPrefix(ev.Label, "lookup:") && ev.Field == fCoal)
			}}
			e.Run(next)
			c.Paths += len(e.Paths)
			c.Scen++
			for i := range e.Paths {
				p := &e.Paths[i]
				rets := p.Rets
				// (item, count, valid), or the item and its count packed in a small struct: (entry{item, count}, valid)
				if len(rets) == 2 {
					flds, ok := structRetFields(p, rets[0])
					if kc, isC := rets[0].V.(*ssa.Const); isC && kc.Value == nil {
						if _, isS := kc.Type().Underlying().(*types.Struct); isS {
							flds, ok = map[int]RV{}, true // the zero value
						}
					}
					if ok {
						var item, cnt RV
						st := rets[0].V.Type().Underlying().(*types.Struct)
						for k := 0; k < st.NumFields(); k++ {
							if _, isI := st.Field(k).Type().Underlying().(*types.Interface); isI {
								item = flds[k]
							} else {
								cnt = flds[k]
							}
						}
						if item.V == nil {
							item = RV{nil, ssa.NewConst(nil, types.NewInterfaceType(nil, nil))}
						}
						if cnt.V == nil {
							cnt = RV{nil, ssa.NewConst(constant.MakeInt64(0), types.Typ[types.Uint32])}
						}
						rets = []RV{item, cnt, rets[1]}
					}
				}
				if len(rets) != 3 {
					continue
				}
				valid := retClass(rets[2])
				if qlen == 0 {
					nEmpty++
					nw := 0
					for j := range p.Trace {
						if !strings.HasPrefix(p.Trace[j].Label, "lookup:") {
							nw++
						}
					}
					c.Check(valid == "const:false" && nw == 0 && retClass(rets[0]) == "nil", rule, fnName(next), "empty queue => (nil,0,false), nothing written", P.Pos(next.Pos()), "path: "+p.String())
					continue
				}
				nAdv++
				// item = queue[0]
				item := rets[0].V
				isHead := false
				if u, ok := item.(*ssa.UnOp); ok && u.Op == token.MUL {
					if ia, ok := u.X.(*ssa.IndexAddr); ok {
						if k, ok := constInt(ia.Index); ok && k == 0 && isQueueLoad(ia.X) {
							isHead = true
						}
					}
				}
				// count = coalesced[item], looked up before the key is forgotten
				cnt, isLk := rets[1].V.(*ssa.Lookup)
				cntOK := isLk && loadOfField(cnt.X, fCoal) && cnt.Index == item
				if isLk && !cntOK {
					// the key as resolved when the lookup ran (the item may be held in a named result)
					for j := range p.Trace {
						if ev := &p.Trace[j]; ev.In == ssa.Instruction(cnt) && len(ev.Args) >= 2 && ev.Field == fCoal {
							k := ev.Args[1].V
							if mi, ok := k.(*ssa.MakeInterface); ok {
								k = mi.X
							}
							cntOK = k == item
						}
					}
				}
				// final queue: the last store decides
				queueOK, queueWhy := false, "queue not advanced"
				// final bookkeeping: the key is forgotten, the other pending keys keep their counts
				forgot, coalWhy := false, "key not forgotten"
				for j := range p.Trace {
					ev := &p.Trace[j]
					switch {
					case ev.Label == "store:coalesce.Queue.queue":
						switch {
						case tail1(ev.Args[1].V):
							queueOK, queueWhy = true, "queue = queue[1:]"
						case isNilConst(ev.Args[1].V):
							queueOK, queueWhy = qlen == 1, "queue = nil"
						default:
							queueOK, queueWhy = false, "queue = "+Expr(ev.Args[1].V)
						}
					case ev.Label == "builtin:delete":
						if len(ev.Args) == 2 && loadOfField(ev.Args[0].V, fCoal) && ev.Args[1].V == item {
							forgot, coalWhy = true, "delete(coalesced, item)"
							if isLk && !instrDominates(cnt, ev.In) {
								cntOK = false
							}
						} else {
							forgot, coalWhy = false, "deletes another key"
						}
					case ev.Label == "store:coalesce.Queue.coalesced":
						if _, ok := ev.Args[1].V.(*ssa.MakeMap); ok {
							// a fresh map forgets every key: right only when no other item is pending
							if qlen == 1 {
								forgot, coalWhy = true, "fresh map (queue drained)"
							} else {
								forgot, coalWhy = false, "fresh map while other items are pending (their counts are lost)"
							}
							if isLk && !instrDominates(cnt, ev.In) {
								cntOK = false
							}
						} else {
							forgot, coalWhy = false, "coalesced = "+Expr(ev.Args[1].V)
						}
					case strings.HasPrefix(ev.Label, "lookup:"):
					case strings.HasPrefix(ev.Label, "mapupdate:"):
						forgot, coalWhy = false, "map written while dequeuing"
					}
				}
				ok := valid == "const:true" && isHead && cntOK && forgot && queueOK
				c.Check(ok, rule, fnName(next), fmt.Sprintf("dequeue with %d queued: head returned with its count, queue advanced by one, key forgotten", qlen), P.Pos(next.Pos()),
					fmt.Sprintf("head=%v count-lookup-first=%v %s; %s; path: %s", isHead, cntOK, coalWhy, queueWhy, p.String()))
			}
		}
		c.Floor(rule+"/next-dequeue-paths", nAdv, 1)
		c.Floor(rule+"/next-empty-paths", nEmpty, 1)
	}
}

func countReqAccesses(la *LockAudit) int {
	// accesses that became parameter requirements are neither guarded nor findings yet;
	// they are resolved by propagate() (either satisfied at call sites or reported).
	n := 0
	for _, f := range la.fns {
		root := la.roots[f]
		for pi := range la.paths[f] {
			p := &la.paths[f][pi]
			if p.End == "exit" {
				continue
			}
			la.walk(f, p, func(ev *Ev, held []heldLock) {
				base, field, write, ok := la.accessOf(ev)
				if !ok {
					return
				}
				if holds(held, base, la.guards[field], write) || fresh(base) {
					return
				}
				if paramIndex(root, base) >= 0 {
					n++
					return
				}
				n++ // reported as finding
			})
		}
	}
	return n
}

func keys(m map[string]bool) []string {
	var out []string
	for k := range m {
		out = append(out, k)
	}
	sortStrings(out)
	return out
}

// sameValue: two operands denote the same value (identical, or both loads of the same parameter cell,
// or one the interface conversion of the other).
func sameValue(a, b ssa.Value) bool {
	a, b = unwrap(a), unwrap(b)
	if a == b {
		return true
	}
	if ua, ok := a.(*ssa.UnOp); ok {
		if ub, ok := b.(*ssa.UnOp); ok {
			return ua.X == ub.X
		}
	}
	return false
}

// structRetFields: the fields of a struct value returned by value (a composite literal of the analysed
// function), as stored on the path: field index -> value.
func structRetFields(p *Path, rv RV) (map[int]RV, bool) {
	u, ok := rv.V.(*ssa.UnOp)
	if !ok || u.Op != token.MUL {
		return nil, false
	}
	al, ok := u.X.(*ssa.Alloc)
	if !ok {
		return nil, false
	}
	st, ok := deref(al.Type()).Underlying().(*types.Struct)
	if !ok {
		return nil, false
	}
	id := 0
	if rv.F != nil {
		id = rv.F.ID
	}
	key := fmt.Sprintf("%d:%p", id, al)
	out := map[int]RV{}
	for k := 0; k < st.NumFields(); k++ {
		if v, ok := p.Mem[fmt.Sprintf("%s.%d", key, k)]; ok {
			out[k] = v
		}
	}
	return out, true
}
