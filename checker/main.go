package main

import (
	"encoding/json"
	"flag"
	"fmt"
	"os"
	"path/filepath"
	"runtime/debug"
	"sort"
	"strconv"
	"strings"
	"time"

	"golang.org/x/tools/go/ssa"
)

type propDef struct {
	ID       string
	Explain  string // what is decided (necessary structural conditions)
	NotCover string // behavioural remainder, not decided
	Run      func(c *Ctx)
}

var props = map[string]*propDef{}

func register(p *propDef) { props[p.ID] = p }

func main() {
	prop := flag.String("property", "", "property id (C01..C20) or 'all'")
	tier := flag.String("tier", "quick", "quick|thorough")
	repo := flag.String("repo", "/repo", "repository root")
	verif := flag.String("verif", "", "verif directory (default: parent of the binary's directory)")
	dump := flag.String("dump", "", "debug: dump PPA paths of pkg:Func (e.g. cache:(*Target).gnmiUpdate)")
	noSelf := flag.Bool("noselftest", false, "thorough: skip variant self-validation")
	writeRef := flag.Bool("write-refsigs", false, "development: write <verif>/refsigs.json (names and signatures of the module's functions and fields on the reference tree) and exit")
	dumpExplain := flag.Bool("dump-explain", false, "print {property: {explain, not_covered}} as JSON and exit (used by tools/gen_manifest.py)")
	strictSelf := flag.Bool("selftest-strict", false, "thorough: a variant expectation that is not met makes the run exit 2 (development / regression use)")
	flag.Parse()
	if *dumpExplain {
		out := map[string]map[string]string{}
		for id, pd := range props {
			out[id] = map[string]string{"explain": pd.Explain, "not_covered": pd.NotCover}
		}
		b, _ := json.MarshalIndent(out, "", " ")
		fmt.Println(string(b))
		os.Exit(0)
	}
	if t := os.Getenv("VERIF_TIER"); t != "" && *tier == "" {
		*tier = t
	}
	seed := 0
	if s := os.Getenv("VERIF_SEED"); s != "" {
		seed, _ = strconv.Atoi(s)
	}
	if *verif == "" {
		exe, _ := os.Executable()
		*verif = filepath.Dir(filepath.Dir(exe))
	}
	start := time.Now()
	code := 2
	// a check that does not terminate is a broken check: fail (closed) instead of hanging.  The analysis of one
	// property takes seconds; the limits are far above anything observed (thorough runs the variant expectations too).
	limit := 20 * time.Minute
	if *tier == "thorough" || *prop == "all" {
		limit = 3 * time.Hour
	}
	time.AfterFunc(limit, func() {
		fmt.Printf("CHECKER-TIMEOUT: the analysis did not finish within %v (path explosion in the checker?)\n", limit)
		os.Exit(2)
	})
	func() {
		defer func() {
			if r := recover(); r != nil {
				fmt.Printf("CHECKER-PANIC: %v\n%s\n", r, debug.Stack())
				code = 2
			}
		}()
		P, err := Load(*repo, false, "")
		if err != nil {
			fmt.Printf("LOAD-FAILURE: %v\n", err)
			if *prop != "" && *prop != "all" {
				// a tree that does not type-check cannot be shown to hold the property
				fmt.Printf("VIOLATION property=%s replay=%s\n", *prop, "(load failure, see output)")
				code = 1
			}
			return
		}
		if *writeRef {
			if err := writeRefSigs(P, filepath.Join(*verif, "refsigs.json")); err != nil {
				fmt.Println(err)
				return
			}
			code = 0
			return
		}
		P.canonicalise(filepath.Join(*verif, "refsigs.json"))
		for _, n := range canonNotes {
			fmt.Println("NOTE: " + n)
		}
		if *dump == "alias" {
			debugAlias(P)
			code = 0
			return
		}
		if *dump != "" {
			dumpPaths(P, *dump)
			code = 0
			return
		}
		ids := []string{*prop}
		if *prop == "all" {
			ids = nil
			for id := range props {
				ids = append(ids, id)
			}
			sort.Strings(ids)
		}
		code = 0
		for _, id := range ids {
			pd := props[id]
			if pd == nil {
				fmt.Printf("unknown property %q\n", id)
				code = 2
				return
			}
			t0 := time.Now()
			if len(ids) == 1 {
				t0 = start
			}
			deepMode = *tier == "thorough"
			c := NewCtx(P, id, *tier)
			c.Explain = pd.Explain
			c.NotCover = pd.NotCover
			pd.Run(c)
			extra := map[string]interface{}{}
			if *tier == "thorough" && !*noSelf {
				res := selfValidate(c, *verif, *repo)
				extra["self_validation"] = res
				if res.Skipped > 0 {
					fmt.Printf("SELF-VALIDATION: %d variants no longer apply to this tree and were skipped for %s\n", res.Skipped, id)
					if *strictSelf {
						code = 2
					}
				}
				if res.Broken > 0 {
					// A mismatch means the checker regressed or the tree under analysis is no longer
					// the one the variants were written against.  It is reported and recorded in the
					// evidence; it decides the exit code only under -selftest-strict (development),
					// so that a changed tree on which the property holds never raises an alarm here.
					fmt.Printf("SELF-VALIDATION: %d variant expectations not met for %s\n", res.Broken, id)
					for _, l := range res.Lines {
						if strings.HasPrefix(l, "FAIL") {
							fmt.Println("  " + l)
						}
					}
					if *strictSelf {
						code = 2
					}
				}
			}
			rc := c.Finish(*verif, seed, t0, extra)
			if rc > code {
				code = rc
			}
		}
	}()
	os.Exit(code)
}

func dumpPaths(P *Prog, spec string) {
	var fn *ssa.Function
	for _, pk := range P.ModPkgs() {
		for _, f := range P.PkgFuncs(pk) {
			if fnName(f) == spec {
				fn = f
			}
		}
	}
	if fn == nil {
		fmt.Println("no such function; candidates:")
		for _, pk := range P.ModPkgs() {
			for _, f := range P.PkgFuncs(pk) {
				if strings.Contains(fnName(f), spec) {
					fmt.Println("  ", fnName(f))
				}
			}
		}
		return
	}
	e := &PPA{Inline: func(fr *Frame, call ssa.CallInstruction, callee *ssa.Function) bool { return callee.Parent() != nil }}
	e.Run(fn)
	ps := DistinctPaths(e.Paths)
	fmt.Printf("%s: %d paths (%d distinct), truncated %d, overflow %v\n", fnName(fn), len(e.Paths), len(ps), e.Truncated, e.Overflow)
	for i, p := range ps {
		if i > 200 {
			break
		}
		fmt.Println(" ", p.String())
	}
}
