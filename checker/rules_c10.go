package main

import (
	"fmt"
	"go/types"

	"golang.org/x/tools/go/ssa"
)

func init() {
	register(&propDef{
		ID:       "C10",
		Explain:  "Decided for ctree (structural necessary conditions): guarded-by (every read of a node's leafBranch holds that node's mu, every write its write lock; helpers' entry locksets established at every call site; objects not yet published exempt); lock coupling (the caller's node lock is held at every recursive descent call); the re-check of the child map inside the write epoch before a new child is inserted; no lock upgrade or re-entrant acquisition (directly or through a callee); every acquire released on all exits; visitors passed to Query/Walk inside the module do not call back into ctree. Round-3 additions: the children map never leaves package ctree (only (*Tree).Value - nil for a branch - and the leaf-handle accessor return a node's content), and an add tests the node and stores into it under one write lock (add-atomic table borrowed from C09).",
		NotCover: "linearizability, query stability, panic-freedom under races",
		Run:      runC10,
	})
}

func runC10(c *Ctx) {
	P := c.P
	fLB := P.Field("ctree", "Tree", "leafBranch")
	fMu := P.Field("ctree", "Tree", "mu")
	if fLB == nil || fMu == nil {
		c.Unresolved("C10.anchors", "ctree.Tree.leafBranch / ctree.Tree.mu")
		return
	}
	ctreeExposure(c, "C10.exposure")
	c.Borrow("C09", map[string]string{"C09.add-atomic": "C10.test-and-store"}, "an add tests the node and stores into it under one write lock: split into two critical sections, a concurrent add can turn the node into a branch in between and the store then destroys acknowledged children")
	c.Rule("C10.guarded", "every read of x.leafBranch holds x.mu (R or W) and every write (store, map insert/delete on the branch map) holds x.mu (W), x being the same node; requirements of unexported helpers are discharged at every call site; no exported entry point reaches guarded state unlocked")
	c.Rule("C10.no-upgrade", "no Lock() on a mutex whose read lock is held by the same activation, no acquisition of a lock the caller already holds (directly or through a callee)")
	c.Rule("C10.released", "every lock acquired in an activation is released on every path to a return")
	mv := 2
	if c.Deep {
		mv = 3
	}
	la := NewLockAudit(c, "ctree", map[*types.Var]*types.Var{fLB: fMu}, mv)
	la.Report(func(kind string) string {
		switch kind {
		case "unguarded", "entry-unlocked", "undecided":
			return "C10.guarded"
		case "upgrade", "reentrant":
			return "C10.no-upgrade"
		case "unreleased":
			return "C10.released"
		}
		return ""
	})
	c.Check(la.Accesses >= 20, "C10.guarded", "ctree", "guarded accesses analysed", "", fmt.Sprintf("%d accesses of leafBranch on paths, %d directly under the node lock", la.Accesses, la.Guarded))
	c.Floor("C10.guarded/accesses", la.Accesses, 20)

	// ---- lock coupling: the caller's node lock is held at every descent into another node
	c.Rule("C10.coupled", "at every call from a ctree method to a ctree method on a different node (descent into a child), the caller's own node lock is held (R or W); exempt: descents into nodes allocated in the same activation")
	nDesc := 0
	for _, f := range la.fns {
		if f.Signature.Recv() == nil || !isNamed(f.Signature.Recv().Type(), "ctree", "Tree") {
			continue
		}
		root := la.roots[f]
		for pi := range la.paths[f] {
			p := &la.paths[f][pi]
			la.walk(f, p, func(ev *Ev, held []heldLock) {
				ci, ok := ev.In.(*ssa.Call)
				if !ok || isLockOp(ev) {
					return
				}
				cal := staticCallee(&ci.Call)
				if cal == nil || cal.Pkg != f.Pkg || cal.Signature.Recv() == nil || !isNamed(cal.Signature.Recv().Type(), "ctree", "Tree") || len(ev.Args) == 0 {
					return
				}
				self := RV{root, param(f, 0)}
				if ev.Args[0] == self || fresh(ev.Args[0]) {
					return // same node (helper) or unpublished node
				}
				if _, isCall := ev.Args[0].V.(*ssa.Call); isCall {
					return // e.g. t.Get(path).Value(): the callee result is not a child reached under our lock
				}
				nDesc++
				ok2 := holds(held, self, fMu, false)
				if !ok2 {
					// helper running under its caller's lock: the entry requirement on the receiver
					// is discharged at every call site by C10.guarded
					for r := range la.req[f] {
						if r.param == 0 && r.field == fMu {
							ok2 = true
						}
					}
				}
				c.Check(ok2, "C10.coupled", fnName(f), "descent "+fnName(cal)+"("+Expr(ev.Args[0].V)+")", P.Pos(posOf(ev.In)), fmt.Sprintf("caller's node lock held at the call: %v", ok2))
			})
		}
	}
	c.Floor("C10.coupled/descents", nDesc, 8)

	// ---- re-check before inserting a child
	c.Rule("C10.recheck", "every insertion of a child into a published branch map is control-dependent on the nil result of a lookup of the same map and key in the same function, with no lock release in that function (so check and insert share one write epoch, established by C10.guarded at the call sites)")
	nIns := 0
	for _, f := range la.fns {
		unlocks := false
		instrs(f, func(in ssa.Instruction) {
			if ci, ok := in.(ssa.CallInstruction); ok {
				switch calleeName(ci.Common()) {
				case "(*sync.RWMutex).Unlock", "(*sync.RWMutex).RUnlock":
					if _, isDefer := in.(*ssa.Defer); !isDefer {
						unlocks = true
					}
				}
			}
		})
		instrs(f, func(in ssa.Instruction) {
			mu, ok := in.(*ssa.MapUpdate)
			if !ok {
				return
			}
			if _, isFresh := mu.Map.(*ssa.MakeMap); isFresh {
				return // branch literal of a node not yet published
			}
			if !isNamed(mu.Map.Type(), "ctree", "branch") {
				return
			}
			nIns++
			guarded := false
			for _, b := range f.Blocks {
				ifi, ok := b.Instrs[len(b.Instrs)-1].(*ssa.If)
				if !ok {
					continue
				}
				bo, ok := ifi.Cond.(*ssa.BinOp)
				if !ok || !isNilConst(bo.Y) {
					continue
				}
				lk, ok := bo.X.(*ssa.Lookup)
				if !ok || lk.X != mu.Map || Expr(lk.Index) != Expr(mu.Key) {
					continue
				}
				edge := 0
				if bo.Op.String() == "!=" {
					edge = 1
				}
				tgt := b.Succs[edge]
				if len(tgt.Preds) == 1 && (tgt == in.Block() || tgt.Dominates(in.Block())) {
					guarded = true
				}
			}
			c.Check(guarded && !unlocks, "C10.recheck", fnName(f), "insert "+Expr(mu.Map)+"["+Expr(mu.Key)+"]", P.Pos(in.Pos()), fmt.Sprintf("dominated by nil-lookup of the same map/key=%v, lock released inside the function=%v", guarded, unlocks))
		})
	}
	c.Floor("C10.recheck/insertions", nIns, 1)

	// ---- visitors do not re-enter the tree
	c.Rule("C10.order", "function literals passed inside the module as visitors/callbacks to ctree Query/Walk/WalkSorted/WalkDeleted/DeleteConditional (or to cache.Cache.Query) reach no ctree Tree/Leaf method (they run under node locks; re-entry can self-deadlock); type-level: Tree has no field leading back to an ancestor")
	nVis := 0
	walkers := map[string]bool{"(*ctree.Tree).Query": true, "(*ctree.Tree).Walk": true, "(*ctree.Tree).WalkSorted": true, "(*ctree.Tree).WalkDeleted": true,
		"(*ctree.Tree).DeleteConditional": true, "(*cache.Cache).Query": true}
	for _, pk := range P.ModPkgs() {
		for _, f := range P.PkgFuncs(pk) {
			if P.InTestFile(f) || P.IsGenerated(f) {
				continue
			}
			for _, ci := range callsIn(f) {
				if !walkers[calleeName(ci.Common())] {
					continue
				}
				for _, a := range ci.Common().Args {
					mc, ok := unwrap(a).(*ssa.MakeClosure)
					var vf *ssa.Function
					if ok {
						vf = mc.Fn.(*ssa.Function)
					} else if fn, ok := unwrap(a).(*ssa.Function); ok {
						vf = fn
					}
					if vf == nil {
						continue
					}
					nVis++
					bad := ""
					seen := map[*ssa.Function]bool{}
					var w func(g *ssa.Function)
					w = func(g *ssa.Function) {
						if g == nil || seen[g] || g.Blocks == nil {
							return
						}
						seen[g] = true
						for _, cc := range callsIn(g) {
							cal := staticCallee(cc.Common())
							if cal == nil {
								continue
							}
							if cal.Signature.Recv() != nil && (isNamed(cal.Signature.Recv().Type(), "ctree", "Tree") || isNamed(cal.Signature.Recv().Type(), "ctree", "Leaf")) {
								bad = fnName(g) + " calls " + fnName(cal)
							}
							if cal.Pkg != nil && cal.Pkg.Pkg.Path() != "" && len(cal.Pkg.Pkg.Path()) >= len(modPath) && cal.Pkg.Pkg.Path()[:len(modPath)] == modPath {
								w(cal)
							}
						}
					}
					w(vf)
					c.Check(bad == "", "C10.order", fnName(f), "visitor "+fnName(vf)+" passed to "+calleeName(ci.Common()), P.Pos(ci.Pos()), bad)
				}
			}
		}
	}
	c.Floor("C10.order/visitors", nVis, 6)
	// type-level acyclicity: the only pointer-bearing field is leafBranch
	if tn := P.Named("ctree", "Tree"); tn != nil {
		st := tn.Underlying().(*types.Struct)
		okT := st.NumFields() == 2
		c.Check(okT, "C10.order", "ctree.Tree", "fields are exactly {mu, leafBranch}", "", fmt.Sprintf("%d fields: a parent pointer or sibling link would allow upward acquisition", st.NumFields()))
	}
}
