package main

import (
	"encoding/json"
	"fmt"
	"os"
	"path/filepath"
	"sort"
	"strings"
	"time"
)

const (
	Discharged = "discharged"
	Violated   = "violated"
	Undecided  = "undecided"
)

// Oblig is one (rule, construct) obligation.
type Oblig struct {
	Rule      string `json:"rule"`
	Func      string `json:"function"`
	Construct string `json:"construct"`
	Verdict   string `json:"verdict"`
	Pos       string `json:"pos,omitempty"`
	Detail    string `json:"detail,omitempty"`
}

func (o Oblig) Key() string { return o.Rule + " | " + o.Func + " | " + o.Construct }

// Ctx collects the results of one property run.
type Ctx struct {
	P        *Prog
	Prop     string
	Tier     string
	Deep     bool // thorough tier: deeper bounds
	Obs      []Oblig
	Rules    map[string]string // rule id -> rule text
	Floors   map[string][2]int // rule -> {found, floor}
	Notes    []string
	Assume   []string
	Funcs    map[string]bool
	Sites    int
	Paths    int
	Scen     int
	Unres    []string
	NotCover string
	Explain  string
}

func NewCtx(p *Prog, prop, tier string) *Ctx {
	return &Ctx{P: p, Prop: prop, Tier: tier, Deep: tier == "thorough", Rules: map[string]string{}, Floors: map[string][2]int{}, Funcs: map[string]bool{}}
}

// Rule registers the text of a rule (printed in evidence).
func (c *Ctx) Rule(id, text string) { c.Rules[id] = text }

func (c *Ctx) add(rule, fn, construct, verdict, pos, detail string) {
	// de-duplicate by key: keep the worst verdict
	o := Oblig{Rule: rule, Func: fn, Construct: construct, Verdict: verdict, Pos: pos, Detail: detail}
	for i := range c.Obs {
		if c.Obs[i].Key() == o.Key() {
			if rank(verdict) > rank(c.Obs[i].Verdict) {
				c.Obs[i] = o
			}
			return
		}
	}
	c.Obs = append(c.Obs, o)
}

func rank(v string) int {
	switch v {
	case Discharged:
		return 0
	case Undecided:
		return 1
	}
	return 2
}

func (c *Ctx) OK(rule, fn, construct, pos, detail string) {
	c.add(rule, fn, construct, Discharged, pos, detail)
}
func (c *Ctx) Bad(rule, fn, construct, pos, detail string) {
	c.add(rule, fn, construct, Violated, pos, detail)
}
func (c *Ctx) Unknown(rule, fn, construct, pos, detail string) {
	c.add(rule, fn, construct, Undecided, pos, detail)
}

// Check records discharged when cond holds, violated otherwise.
func (c *Ctx) Check(cond bool, rule, fn, construct, pos, detail string) bool {
	if cond {
		c.OK(rule, fn, construct, pos, detail)
	} else {
		c.Bad(rule, fn, construct, pos, detail)
	}
	return cond
}

// Unresolved records an anchor that could not be resolved by type information.
func (c *Ctx) Unresolved(rule, anchor string) {
	c.Unres = append(c.Unres, rule+": "+anchor)
	c.add(rule, "-", "UNRESOLVED-ANCHOR "+anchor, Violated, "", "the anchored function/field/type no longer resolves; the rule would otherwise match nothing and pass vacuously")
}

// Floor records an instance count with its confirmed minimum.
func (c *Ctx) Floor(rule string, found, floor int) {
	c.Floors[rule] = [2]int{found, floor}
	if found < floor {
		c.add(rule, "-", fmt.Sprintf("INSTANCE-FLOOR (need >= %d)", floor), Violated, "", fmt.Sprintf("found %d rule instances, fewer than the %d confirmed by hand on the reference tree", found, floor))
	}
}

func (c *Ctx) Note(format string, a ...interface{}) {
	c.Notes = append(c.Notes, fmt.Sprintf(format, a...))
}
func (c *Ctx) Assumption(s string) { c.Assume = append(c.Assume, s) }
func (c *Ctx) Analysed(fn string)  { c.Funcs[fn] = true }

// ---------------- known findings ----------------

type Finding struct {
	Property string `json:"property"`
	Key      string `json:"key"`
	What     string `json:"what"`
	Status   string `json:"status"` // known | fixed
	Commit   string `json:"commit,omitempty"`
}

func loadFindings(path string) ([]Finding, error) {
	b, err := os.ReadFile(path)
	if err != nil {
		if os.IsNotExist(err) {
			return nil, nil
		}
		return nil, err
	}
	var fs []Finding
	if err := json.Unmarshal(b, &fs); err != nil {
		return nil, err
	}
	return fs, nil
}

// ---------------- evidence ----------------

type evidence struct {
	PropertyID  string                 `json:"property_id"`
	Tier        string                 `json:"tier"`
	Seed        int                    `json:"seed"`
	Level       string                 `json:"level"`
	Coverage    map[string]interface{} `json:"coverage"`
	Assumptions []string               `json:"assumptions"`
	WallS       float64                `json:"wall_s"`
	Violations  int                    `json:"violations"`
}

// Finish prints the verdict lines, writes evidence and returns the exit code.
func (c *Ctx) Finish(verifDir string, seed int, start time.Time, extra map[string]interface{}) int {
	findings, err := loadFindings(filepath.Join(verifDir, "known_findings.json"))
	if err != nil {
		fmt.Printf("ERROR reading known_findings.json: %v\n", err)
		return 2
	}
	known := map[string]Finding{}
	for _, f := range findings {
		if f.Property == c.Prop && f.Status == "known" {
			known[f.Key] = f
		}
	}
	sort.SliceStable(c.Obs, func(i, j int) bool { return c.Obs[i].Key() < c.Obs[j].Key() })
	var viol []Oblig
	nKnown, nDis := 0, 0
	for _, o := range c.Obs {
		switch o.Verdict {
		case Discharged:
			nDis++
		default:
			if f, ok := known[o.Key()]; ok {
				nKnown++
				fmt.Printf("KNOWN-FINDING: property=%s %s — %s\n", c.Prop, o.Key(), f.What)
			} else {
				viol = append(viol, o)
			}
		}
	}
	evDir := filepath.Join(verifDir, "evidence")
	os.MkdirAll(evDir, 0o755)
	replay := filepath.Join(evDir, c.Prop+".violations.txt")
	os.Remove(replay)
	if len(viol) > 0 {
		var sb strings.Builder
		for _, o := range viol {
			fmt.Fprintf(&sb, "%s\n  verdict: %s\n  at: %s\n  rule: %s\n  detail: %s\n\n", o.Key(), o.Verdict, o.Pos, c.Rules[o.Rule], o.Detail)
		}
		os.WriteFile(replay, []byte(sb.String()), 0o644)
	}
	// evidence
	samples := make([]interface{}, 0, len(c.Obs))
	for _, o := range c.Obs {
		samples = append(samples, o)
	}
	var fl []string
	for r, v := range c.Floors {
		fl = append(fl, fmt.Sprintf("%s: found %d, floor %d", r, v[0], v[1]))
	}
	sort.Strings(fl)
	var fns []string
	for f := range c.Funcs {
		fns = append(fns, f)
	}
	sort.Strings(fns)
	var rules []string
	for id, t := range c.Rules {
		rules = append(rules, id+": "+t)
	}
	sort.Strings(rules)
	cov := map[string]interface{}{
		"explanation":        c.Explain,
		"not_decided":        c.NotCover,
		"obligations":        len(c.Obs),
		"discharged":         nDis,
		"known_findings":     nKnown,
		"violated":           len(viol),
		"functions_analysed": fns,
		"call_sites":         c.Sites,
		"paths_explored":     c.Paths,
		"scenarios":          c.Scen,
		"instance_floors":    fl,
		"rules":              rules,
		"samples":            samples,
		"notes":              c.Notes,
		"unresolved_anchors": c.Unres,
		"checker_cmd":        fmt.Sprintf("./bin/gnmiverif -property %s -tier %s", c.Prop, c.Tier),
		"exhaustive":         false,
		"packages_loaded":    len(c.P.ModPkgs()),
	}
	for k, v := range extra {
		cov[k] = v
	}
	ev := evidence{PropertyID: c.Prop, Tier: c.Tier, Seed: seed, Level: "other", Coverage: cov,
		Assumptions: append(commonAssumptions(), c.Assume...), WallS: time.Since(start).Seconds(), Violations: len(viol)}
	b, _ := json.MarshalIndent(ev, "", " ")
	if err := os.WriteFile(filepath.Join(evDir, c.Prop+".json"), b, 0o644); err != nil {
		fmt.Printf("ERROR writing evidence: %v\n", err)
		return 2
	}
	fmt.Printf("%s tier=%s: %d obligations, %d discharged, %d known findings, %d violations; %d functions, %d paths (%.1fs)\n",
		c.Prop, c.Tier, len(c.Obs), nDis, nKnown, len(viol), len(c.Funcs), c.Paths, time.Since(start).Seconds())
	if len(viol) > 0 {
		for _, o := range viol {
			fmt.Printf("  %s: %s [%s] %s\n", o.Verdict, o.Key(), o.Pos, o.Detail)
		}
		fmt.Printf("VIOLATION property=%s replay=%s\n", c.Prop, replay)
		return 1
	}
	return 0
}

func commonAssumptions() []string {
	return []string{
		"generated protobuf getters (Get*) are nil-safe and side-effect free",
		"sync.Mutex/RWMutex/Once, channels and context behave as the Go memory model specifies",
		"third-party code (grpc, protobuf, backoff, ygot, stringset) is not analysed beyond its signatures",
		"the verdict is about the structural clauses named in coverage.explanation (necessary conditions), not the behavioural statement as a whole",
		"path enumeration unrolls each loop a bounded number of times (quick: each block at most 2 visits per activation, thorough: 3)",
	}
}

// Borrow runs the rules of another property and takes over the obligations, floors and
// rule texts of the rules whose id starts with one of the given prefixes, under this
// property's own rule id (from "C09.prune-guard" to e.g. "C03.delete-prune").  It is how a
// clause that is a necessary condition of several properties is decided by one rule
// implementation and reported by each property it matters to.
var borrowCache = map[string]*Ctx{}

var borrowing = map[string]bool{}

func (c *Ctx) Borrow(from string, rename map[string]string, why string) {
	pd := props[from]
	if pd == nil {
		c.Unresolved(c.Prop+".borrow", "property "+from)
		return
	}
	key := from + "/" + c.Tier
	child := borrowCache[key]
	if child == nil && borrowing[key] {
		c.Unresolved(c.Prop+".borrow", "cyclic borrow through "+from)
		return
	}
	if child == nil {
		borrowing[key] = true
		defer delete(borrowing, key)
		child = NewCtx(c.P, from, c.Tier)
		pd.Run(child)
		borrowCache[key] = child
	}
	match := func(rule string) (string, bool) {
		best := ""
		for p := range rename {
			if (rule == p || strings.HasPrefix(rule, p+"/")) && len(p) > len(best) {
				best = p
			}
		}
		if best == "" {
			return "", false
		}
		return rename[best] + strings.TrimPrefix(rule, best), true
	}
	n := 0
	for _, o := range child.Obs {
		if nr, ok := match(o.Rule); ok {
			c.add(nr, o.Func, o.Construct, o.Verdict, o.Pos, o.Detail)
			n++
		}
	}
	for r, t := range child.Rules {
		if nr, ok := match(r); ok {
			c.Rules[nr] = t + "  [" + why + "; decided by the rule implementation of " + r + "]"
		}
	}
	for r, f := range child.Floors {
		if nr, ok := match(r); ok {
			c.Floors[nr] = f
		}
	}
	// anchors of the lending property that no longer resolve make the borrowed clause undecidable
	// (an anchor of a rule that is not borrowed matters only when nothing of the borrowed rules was produced)
	for _, u := range child.Unres {
		rule := u
		if i := strings.Index(u, ": "); i >= 0 {
			rule = u[:i]
		}
		if _, borrowed := match(rule); borrowed || n == 0 {
			c.Unresolved(c.Prop+".borrow", from+": "+u)
		}
	}
	for f := range child.Funcs {
		c.Funcs[f] = true
	}
	c.Paths += child.Paths
	c.Scen += child.Scen
	if n == 0 {
		c.add(c.Prop+".borrow", "-", "no obligation of "+from+" matches the borrowed rules", Violated, "", "the lending rule produced nothing (renamed or removed)")
	}
}
