package main

import (
	"fmt"
	"go/token"
	"strings"

	"golang.org/x/tools/go/ssa"
)

// deletePathTable: the delete notification the cache announces for a removed leaf names that leaf.
// toDeleteNotification is replayed for every pure encoding of the stored notification's path
// (structured Elem or deprecated Element strings; prefix and/or update path carrying the
// elements; atomic or not) and for the two mixed encodings and the composition of the announced path is compared with
// prefix ++ path in the encoding that carries the elements.
func deletePathTable(c *Ctx, rule string) {
	P := c.P
	tdn := P.Func("cache", "toDeleteNotification")
	fElem := P.Field("proto/gnmi", "Path", "Elem")
	fElement := P.Field("proto/gnmi", "Path", "Element")
	fPrefix := P.Field("proto/gnmi", "Notification", "Prefix")
	fUPath := P.Field("proto/gnmi", "Update", "Path")
	if tdn == nil || fElem == nil || fElement == nil || fPrefix == nil || fUPath == nil || len(tdn.Params) < 1 {
		c.Unresolved(rule, "cache.toDeleteNotification / gnmi.Path.Elem / gnmi.Path.Element")
		return
	}
	c.Rule(rule, "toDeleteNotification, replayed for every encoding of the stored path (elements in the prefix, in the update path or in both; Elem or Element form, also prefix and update path in different forms; atomic or not): the one announced delete path is composed of the prefix's elements followed by the update path's elements in the form that carries them (mixed: the string form converted element by element; atomic: the prefix alone); no part that carries elements is dropped")
	c.Analysed(fnName(tdn))
	nP := ssa.Value(param(tdn, 0))
	// which message a value is: "prefix" (n.GetPrefix() / n.Prefix), "path" (n.Update[0].GetPath() / .Path)
	var msgOf func(e *PPA, st *State, rv RV, d int) string
	msgOf = func(e *PPA, st *State, rv RV, d int) string {
		if d > 8 {
			return ""
		}
		r := e.Resolve(st, rv)
		switch v := r.V.(type) {
		case *ssa.Call:
			switch calleeName(&v.Call) {
			case "(*proto/gnmi.Notification).GetPrefix":
				if e.Resolve(st, RV{r.F, v.Call.Args[0]}).V == nP {
					return "prefix"
				}
			case "(*proto/gnmi.Update).GetPath":
				return "path"
			}
		case *ssa.UnOp:
			if v.Op == token.MUL {
				switch fieldOf(v.X) {
				case fPrefix:
					return "prefix"
				case fUPath:
					return "path"
				}
			}
		}
		return ""
	}
	// leaf of a composition: <msg>.Elem / <msg>.Element
	leafOf := func(e *PPA, st *State, r RV) string {
		switch v := r.V.(type) {
		case *ssa.Call:
			switch calleeName(&v.Call) {
			case "(*proto/gnmi.Path).GetElem":
				if m := msgOf(e, st, RV{r.F, v.Call.Args[0]}, 0); m != "" {
					return m + ".Elem"
				}
			case "(*proto/gnmi.Path).GetElement":
				if m := msgOf(e, st, RV{r.F, v.Call.Args[0]}, 0); m != "" {
					return m + ".Element"
				}
			}
		case *ssa.UnOp:
			if v.Op == token.MUL {
				if fa, ok := v.X.(*ssa.FieldAddr); ok {
					if m := msgOf(e, st, RV{r.F, fa.X}, 0); m != "" {
						switch fieldOf(fa) {
						case fElem:
							return m + ".Elem"
						case fElement:
							return m + ".Element"
						}
					}
				}
			}
		}
		return ""
	}
	// convOf: el is a fresh PathElem whose only initialised field is Name, taken from the range element of a
	// string-form element list: "conv(<msg>.Element)"
	fName := P.Field("proto/gnmi", "PathElem", "Name")
	convOf := func(e *PPA, st *State, el RV) string {
		al, ok := e.Resolve(st, el).V.(*ssa.Alloc)
		if !ok || !isNamed(deref(al.Type()), "proto/gnmi", "PathElem") || al.Referrers() == nil {
			return ""
		}
		src := ""
		for _, r := range *al.Referrers() {
			fa, ok := r.(*ssa.FieldAddr)
			if !ok {
				continue
			}
			if fieldOf(fa) != fName || fa.Referrers() == nil {
				return "" // another field is set: not a plain conversion
			}
			for _, rr := range *fa.Referrers() {
				s, ok := rr.(*ssa.Store)
				if !ok {
					continue
				}
				u, ok := s.Val.(*ssa.UnOp)
				if !ok || u.Op != token.MUL {
					return ""
				}
				ia, ok := u.X.(*ssa.IndexAddr)
				if !ok {
					return ""
				}
				// the element of the current iteration of a range loop
				if phi, ok := ia.Index.(*ssa.BinOp); !ok || !rangeIndexOf(phi) {
					if _, isPhi := ia.Index.(*ssa.Phi); !isPhi {
						return ""
					}
				}
				if l := leafOf(e, st, e.Resolve(st, RV{el.F, ia.X})); strings.HasSuffix(l, ".Element") {
					src = l
				}
			}
		}
		if src == "" {
			return ""
		}
		return "conv(" + src + ")"
	}
	var comp func(e *PPA, st *State, rv RV, d int) []string
	comp = func(e *PPA, st *State, rv RV, d int) []string {
		if d > 12 {
			return []string{"?depth"}
		}
		r := e.Resolve(st, rv)
		if l := leafOf(e, st, r); l != "" {
			return []string{l}
		}
		switch v := r.V.(type) {
		case *ssa.Const:
			if v.Value == nil {
				return nil
			}
		case *ssa.ChangeType:
			return comp(e, st, RV{r.F, v.X}, d+1)
		case *ssa.Convert:
			return comp(e, st, RV{r.F, v.X}, d+1)
		case *ssa.Slice:
			if v.Low == nil && v.High == nil {
				return comp(e, st, RV{r.F, v.X}, d+1)
			}
		case *ssa.MakeSlice:
			if k, ok := constInt(e.Resolve(st, RV{r.F, v.Len}).V); ok && k == 0 {
				return nil
			}
		case *ssa.Call:
			if b, ok := v.Call.Value.(*ssa.Builtin); ok && b.Name() == "append" {
				// an append executed earlier on this path (loops): its composition was recorded when it ran
				if d > 0 {
					id := fmt.Sprintf("comp\x00%p/%d\x00", v, frameID(r.F))
					tr := st.Trace()
					for i := len(tr) - 1; i >= 0; i-- {
						if tr[i].Label == "fact" && strings.HasPrefix(tr[i].Note, id) {
							rest := strings.TrimPrefix(tr[i].Note, id)
							if rest == "" {
								return nil
							}
							return strings.Split(rest, "+")
						}
					}
				}
				out := comp(e, st, RV{r.F, v.Call.Args[0]}, d+1)
				if len(v.Call.Args) > 1 {
					// append(x, &pb.PathElem{Name: s[i]}) inside a range over a string-form element list s:
					// the converted form of s (one element per iteration)
					if els, ok := literalElems(v.Call.Args[1]); ok && len(els) == 1 {
						if cv := convOf(e, st, RV{r.F, els[0]}); cv != "" {
							if len(out) == 0 || out[len(out)-1] != cv {
								out = append(out, cv)
							}
							return out
						}
					}
					out = append(out, comp(e, st, RV{r.F, v.Call.Args[1]}, d+1)...)
				}
				return out
			}
			if g := staticCallee(&v.Call); g != nil && pkgPathOf(g) == "slices" {
				switch {
				case strings.HasPrefix(g.Name(), "Clone") && len(v.Call.Args) == 1:
					return comp(e, st, RV{r.F, v.Call.Args[0]}, d+1)
				case strings.HasPrefix(g.Name(), "Concat") && len(v.Call.Args) == 1:
					if els, ok := literalElems(v.Call.Args[0]); ok {
						var out []string
						for _, el := range els {
							out = append(out, comp(e, st, RV{r.F, el}, d+1)...)
						}
						return out
					}
				}
			}
		}
		return []string{"?" + Expr(r.V)}
	}
	cls := func(e *PPA, st *State, rv RV) string {
		r := e.Resolve(st, rv)
		call, ok := r.V.(*ssa.Call)
		if !ok {
			return ""
		}
		if calleeName(&call.Call) == "(*proto/gnmi.Notification).GetAtomic" {
			return "ATOMIC"
		}
		if la, ok := lenArg(call); ok {
			if l := leafOf(e, st, e.Resolve(st, RV{r.F, la})); l != "" {
				return "len(" + l + ")"
			}
		}
		return ""
	}
	type row struct {
		name           string
		atomic         bool
		pe, qe, pl, ql int64
		want           string // explicit expectation for the Elem form (mixed encodings)
	}
	rows := []row{
		{"Elem form, elements in prefix and path", false, 1, 1, 0, 0, ""},
		{"Elem form, elements in the prefix only (empty update path)", false, 1, 0, 0, 0, ""},
		{"Elem form, elements in the update path only", false, 0, 1, 0, 0, ""},
		{"Element form, elements in prefix and path", false, 0, 0, 1, 1, ""},
		{"Element form, elements in the prefix only", false, 0, 0, 1, 0, ""},
		{"Element form, elements in the update path only", false, 0, 0, 0, 1, ""},
		{"atomic, Elem form", true, 1, 1, 0, 0, ""},
		{"atomic, Element form", true, 0, 0, 1, 1, ""},
		// prefix and update path in different forms: both parts must survive, expressed in one form
		{"mixed: prefix in Elem form, update path in Element form", false, 1, 0, 0, 1, "prefix.Elem+conv(path.Element)"},
		{"mixed: prefix in Element form, update path in Elem form", false, 0, 1, 1, 0, "conv(prefix.Element)+path.Elem"},
	}
	for _, rw := range rows {
		lens := map[string]int64{"len(prefix.Elem)": rw.pe, "len(path.Elem)": rw.qe, "len(prefix.Element)": rw.pl, "len(path.Element)": rw.ql}
		at := &Atoms{Class: cls, Bool: map[string]bool{"ATOMIC": rw.atomic}, Int: lens}
		e := &PPA{Cond: at.Cond, MaxVisits: 2,
			Watch: func(ev *Ev) bool { return ev.Label == "fact" },
			Probe: func(e *PPA, st *State, fr *Frame, in ssa.Instruction) {
				if call, ok := in.(*ssa.Call); ok {
					if b, ok := call.Call.Value.(*ssa.Builtin); ok && b.Name() == "append" {
						parts := comp(e, st, RV{fr, call}, 0)
						e.emit(st, Ev{Label: "fact", In: in, F: fr, Note: fmt.Sprintf("comp\x00%p/%d\x00", call, frameID(fr)) + strings.Join(parts, "+")})
					}
					return
				}
				s, ok := in.(*ssa.Store)
				if !ok {
					return
				}
				fa, ok := s.Addr.(*ssa.FieldAddr)
				if !ok {
					return
				}
				f := fieldOf(fa)
				if f != fElem && f != fElement {
					return
				}
				parts := comp(e, st, RV{fr, s.Val}, 0)
				// components that are empty in this scenario contribute nothing
				var kept []string
				for _, p := range parts {
					inner := strings.TrimSuffix(strings.TrimPrefix(p, "conv("), ")")
					if n, known := lens["len("+inner+")"]; known && n == 0 {
						continue
					}
					kept = append(kept, p)
				}
				e.emit(st, Ev{Label: "fact", In: in, F: fr, Note: vname(f) + "=" + strings.Join(kept, "+")})
			}}
		e.Run(tdn)
		c.Paths += len(e.Paths)
		c.Scen++
		var want []string
		form := "Elem"
		if rw.pl+rw.ql > 0 {
			form = "Element"
		}
		if rw.pe+rw.pl > 0 {
			want = append(want, "prefix."+form)
		}
		if !rw.atomic && rw.qe+rw.ql > 0 {
			want = append(want, "path."+form)
		}
		if rw.want != "" {
			form = "Elem"
			want = strings.Split(rw.want, "+")
		}
		n := 0
		for i := range e.Paths {
			p := &e.Paths[i]
			if p.End != "return" {
				continue
			}
			n++
			got := map[string]string{}
			multi := false
			for j := range p.Trace {
				if p.Trace[j].Label == "fact" && !strings.HasPrefix(p.Trace[j].Note, "comp\x00") {
					kv := strings.SplitN(p.Trace[j].Note, "=", 2)
					if _, dup := got[kv[0]]; dup {
						multi = true
					}
					got[kv[0]] = kv[1]
				}
			}
			other := "Element"
			if form == "Element" {
				other = "Elem"
			}
			ok := !multi && got[form] == strings.Join(want, "+") && got[other] == ""
			c.Check(ok, rule, fnName(tdn), rw.name, P.Pos(tdn.Pos()), fmt.Sprintf("announced path: Elem=[%s] Element=[%s]; want %s=[%s]", got["Elem"], got["Element"], form, strings.Join(want, "+")))
		}
		c.Floor(rule+"/"+rw.name, n, 1)
	}
}

func frameID(f *Frame) int {
	if f == nil {
		return -1
	}
	return f.ID
}
