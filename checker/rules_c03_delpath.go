package main

import (
	"fmt"
	"go/token"
	"strings"

	"golang.org/x/tools/go/ssa"
)

// deletePathTable: the delete notification the cache announces for a removed leaf names that leaf.
// toDeleteNotification is replayed for every pure encoding of the stored notification's path
// (structured Elem or deprecated Element strings; prefix and/or update path carrying the
// elements; atomic or not) and the composition of the announced path is compared with
// prefix ++ path in the encoding that carries the elements.
func deletePathTable(c *Ctx, rule string) {
	P := c.P
	tdn := P.Func("cache", "toDeleteNotification")
	fElem := P.Field("proto/gnmi", "Path", "Elem")
	fElement := P.Field("proto/gnmi", "Path", "Element")
	fPrefix := P.Field("proto/gnmi", "Notification", "Prefix")
	fUPath := P.Field("proto/gnmi", "Update", "Path")
	if tdn == nil || fElem == nil || fElement == nil || fPrefix == nil || fUPath == nil || len(tdn.Params) < 1 {
		c.Unresolved(rule, "cache.toDeleteNotification / gnmi.Path.Elem / gnmi.Path.Element")
		return
	}
	c.Rule(rule, "toDeleteNotification, replayed for every pure encoding of the stored path (elements in the prefix, in the update path or in both; Elem or Element form; atomic or not): the one announced delete path is composed of the prefix's elements followed by the update path's elements in the form that carries them (atomic: the prefix alone); no form that carries elements is dropped")
	c.Analysed(fnName(tdn))
	nP := ssa.Value(param(tdn, 0))
	// which message a value is: "prefix" (n.GetPrefix() / n.Prefix), "path" (n.Update[0].GetPath() / .Path)
	var msgOf func(e *PPA, st *State, rv RV, d int) string
	msgOf = func(e *PPA, st *State, rv RV, d int) string {
		if d > 8 {
			return ""
		}
		r := e.Resolve(st, rv)
		switch v := r.V.(type) {
		case *ssa.Call:
			switch calleeName(&v.Call) {
			case "(*proto/gnmi.Notification).GetPrefix":
				if e.Resolve(st, RV{r.F, v.Call.Args[0]}).V == nP {
					return "prefix"
				}
			case "(*proto/gnmi.Update).GetPath":
				return "path"
			}
		case *ssa.UnOp:
			if v.Op == token.MUL {
				switch fieldOf(v.X) {
				case fPrefix:
					return "prefix"
				case fUPath:
					return "path"
				}
			}
		}
		return ""
	}
	// leaf of a composition: <msg>.Elem / <msg>.Element
	leafOf := func(e *PPA, st *State, r RV) string {
		switch v := r.V.(type) {
		case *ssa.Call:
			switch calleeName(&v.Call) {
			case "(*proto/gnmi.Path).GetElem":
				if m := msgOf(e, st, RV{r.F, v.Call.Args[0]}, 0); m != "" {
					return m + ".Elem"
				}
			case "(*proto/gnmi.Path).GetElement":
				if m := msgOf(e, st, RV{r.F, v.Call.Args[0]}, 0); m != "" {
					return m + ".Element"
				}
			}
		case *ssa.UnOp:
			if v.Op == token.MUL {
				if fa, ok := v.X.(*ssa.FieldAddr); ok {
					if m := msgOf(e, st, RV{r.F, fa.X}, 0); m != "" {
						switch fieldOf(fa) {
						case fElem:
							return m + ".Elem"
						case fElement:
							return m + ".Element"
						}
					}
				}
			}
		}
		return ""
	}
	var comp func(e *PPA, st *State, rv RV, d int) []string
	comp = func(e *PPA, st *State, rv RV, d int) []string {
		if d > 12 {
			return []string{"?depth"}
		}
		r := e.Resolve(st, rv)
		if l := leafOf(e, st, r); l != "" {
			return []string{l}
		}
		switch v := r.V.(type) {
		case *ssa.Const:
			if v.Value == nil {
				return nil
			}
		case *ssa.ChangeType:
			return comp(e, st, RV{r.F, v.X}, d+1)
		case *ssa.Convert:
			return comp(e, st, RV{r.F, v.X}, d+1)
		case *ssa.Slice:
			if v.Low == nil && v.High == nil {
				return comp(e, st, RV{r.F, v.X}, d+1)
			}
		case *ssa.MakeSlice:
			if k, ok := constInt(e.Resolve(st, RV{r.F, v.Len}).V); ok && k == 0 {
				return nil
			}
		case *ssa.Call:
			if b, ok := v.Call.Value.(*ssa.Builtin); ok && b.Name() == "append" {
				out := comp(e, st, RV{r.F, v.Call.Args[0]}, d+1)
				if len(v.Call.Args) > 1 {
					out = append(out, comp(e, st, RV{r.F, v.Call.Args[1]}, d+1)...)
				}
				return out
			}
			if g := staticCallee(&v.Call); g != nil && pkgPathOf(g) == "slices" {
				switch {
				case strings.HasPrefix(g.Name(), "Clone") && len(v.Call.Args) == 1:
					return comp(e, st, RV{r.F, v.Call.Args[0]}, d+1)
				case strings.HasPrefix(g.Name(), "Concat") && len(v.Call.Args) == 1:
					if els, ok := literalElems(v.Call.Args[0]); ok {
						var out []string
						for _, el := range els {
							out = append(out, comp(e, st, RV{r.F, el}, d+1)...)
						}
						return out
					}
				}
			}
		}
		return []string{"?" + Expr(r.V)}
	}
	cls := func(e *PPA, st *State, rv RV) string {
		r := e.Resolve(st, rv)
		call, ok := r.V.(*ssa.Call)
		if !ok {
			return ""
		}
		if calleeName(&call.Call) == "(*proto/gnmi.Notification).GetAtomic" {
			return "ATOMIC"
		}
		if la, ok := lenArg(call); ok {
			if l := leafOf(e, st, e.Resolve(st, RV{r.F, la})); l != "" {
				return "len(" + l + ")"
			}
		}
		return ""
	}
	type row struct {
		name           string
		atomic         bool
		pe, qe, pl, ql int64
	}
	rows := []row{
		{"Elem form, elements in prefix and path", false, 1, 1, 0, 0},
		{"Elem form, elements in the prefix only (empty update path)", false, 1, 0, 0, 0},
		{"Elem form, elements in the update path only", false, 0, 1, 0, 0},
		{"Element form, elements in prefix and path", false, 0, 0, 1, 1},
		{"Element form, elements in the prefix only", false, 0, 0, 1, 0},
		{"Element form, elements in the update path only", false, 0, 0, 0, 1},
		{"atomic, Elem form", true, 1, 1, 0, 0},
		{"atomic, Element form", true, 0, 0, 1, 1},
	}
	for _, rw := range rows {
		lens := map[string]int64{"len(prefix.Elem)": rw.pe, "len(path.Elem)": rw.qe, "len(prefix.Element)": rw.pl, "len(path.Element)": rw.ql}
		at := &Atoms{Class: cls, Bool: map[string]bool{"ATOMIC": rw.atomic}, Int: lens}
		e := &PPA{Cond: at.Cond, MaxVisits: 2,
			Watch: func(ev *Ev) bool { return ev.Label == "fact" },
			Probe: func(e *PPA, st *State, fr *Frame, in ssa.Instruction) {
				s, ok := in.(*ssa.Store)
				if !ok {
					return
				}
				fa, ok := s.Addr.(*ssa.FieldAddr)
				if !ok {
					return
				}
				f := fieldOf(fa)
				if f != fElem && f != fElement {
					return
				}
				parts := comp(e, st, RV{fr, s.Val}, 0)
				// components that are empty in this scenario contribute nothing
				var kept []string
				for _, p := range parts {
					if n, known := lens["len("+p+")"]; known && n == 0 {
						continue
					}
					kept = append(kept, p)
				}
				e.emit(st, Ev{Label: "fact", In: in, F: fr, Note: vname(f) + "=" + strings.Join(kept, "+")})
			}}
		e.Run(tdn)
		c.Paths += len(e.Paths)
		c.Scen++
		var want []string
		form := "Elem"
		if rw.pl+rw.ql > 0 {
			form = "Element"
		}
		if rw.pe+rw.pl > 0 {
			want = append(want, "prefix."+form)
		}
		if !rw.atomic && rw.qe+rw.ql > 0 {
			want = append(want, "path."+form)
		}
		n := 0
		for i := range e.Paths {
			p := &e.Paths[i]
			if p.End != "return" {
				continue
			}
			n++
			got := map[string]string{}
			multi := false
			for j := range p.Trace {
				if p.Trace[j].Label == "fact" {
					kv := strings.SplitN(p.Trace[j].Note, "=", 2)
					if _, dup := got[kv[0]]; dup {
						multi = true
					}
					got[kv[0]] = kv[1]
				}
			}
			other := "Element"
			if form == "Element" {
				other = "Elem"
			}
			ok := !multi && got[form] == strings.Join(want, "+") && got[other] == ""
			c.Check(ok, rule, fnName(tdn), rw.name, P.Pos(tdn.Pos()), fmt.Sprintf("announced path: Elem=[%s] Element=[%s]; want %s=[%s]", got["Elem"], got["Element"], form, strings.Join(want, "+")))
		}
		c.Floor(rule+"/"+rw.name, n, 1)
	}
}
