package main

import (
	"fmt"
	"go/token"
	"go/types"
	"strings"

	"golang.org/x/tools/go/ssa"
)

func init() {
	register(&propDef{
		ID:       "C13",
		Explain:  "Decided for manager.Manager (structural necessary conditions): session typestate of handleUpdates on every path with the loop unrolled (Reset exactly once after a failed Recv and then return of that error, with no Connect/update in between; Connect only once, after the first successful Recv and before the first update; updates only after Connect; no return without a failed Recv and a Reset); the six callbacks are invoked only from functions synchronously reachable from retryMonitor (never across a `go`), whose only entry is the `go retryMonitor` in Add; close(finished) is deferred at retryMonitor's entry with no callback after it and the loop exits only on ctx.Done; Remove = refuse unknown, else cancel -> wait finished -> forget, all under the manager lock; Add refuses duplicates before any effect and starts exactly one monitor per success with a fresh unbuffered finished channel; backoff never stops (MaxElapsedTime=0 before the loop) and the timer is re-armed after every monitor attempt; lock discipline of targets/reconnect, and nothing on the monitor goroutine takes the manager lock before finished is closed. Round-3 addition: the monitor chain does not block on a channel completed only by a goroutine that can be waiting for Manager.mu (transitive wait with Remove, which holds the lock while waiting for finished). Round-4 additions: the delay the retry timer is re-armed with is NextBackOff() of the never-ending policy itself (or of backoff.WithContext bound to the monitor's own context); the connection manager's mutex is released on every path (C16.locked, borrowed). Round-5 addition (borrowed from C16): an entry of the connection manager is cached, identified and forgotten under one key and a failed dial removes the entry and publishes the error - otherwise a failed session is handed the first error for ever instead of being retried. Round-6 addition: every string handed to a Manager callback is the managed target's own name (target.name, or a parameter every caller fills with it), never a name read out of a message. Round-7 additions: a receive watchdog of its own per stream (timer created in the activation of handleUpdates, a watcher started there, every Recv preceded by Reset on that timer); the context of a dial stays the caller's (no Background / WithoutCancel), shared with C16.",
		NotCover: "backoff timing, races between the receive-timeout watcher and a new sub-context, behaviour of grpc streams and of the connection manager (C16)",
		Run:      runC13,
	})
}

// syncReach returns the functions reachable from root through calls and defers (not `go`).
func syncReach(root *ssa.Function) map[*ssa.Function]bool {
	seen := map[*ssa.Function]bool{}
	var w func(f *ssa.Function)
	w = func(f *ssa.Function) {
		if f == nil || seen[f] || f.Blocks == nil {
			return
		}
		seen[f] = true
		instrs(f, func(in ssa.Instruction) {
			switch x := in.(type) {
			case *ssa.Call:
				if cal := staticCallee(&x.Call); cal != nil && cal.Pkg == root.Pkg {
					w(cal)
				}
				for _, g := range fnValuesForParam(f, x.Call.Value) {
					w(g)
				}
			case *ssa.Defer:
				if cal := staticCallee(&x.Call); cal != nil && cal.Pkg == root.Pkg {
					w(cal)
				}
				for _, g := range fnValuesForParam(f, x.Call.Value) {
					w(g)
				}
			}
		})
	}
	w(root)
	return seen
}

// fnValuesForParam: v is a function-typed parameter of f that f calls; the functions / closures the
// callers of f in its package pass for it (attempt func() in dial(c, attempt), filled at `go m.dial(c,
// func() {...})`): they run synchronously inside f.
func fnValuesForParam(f *ssa.Function, v ssa.Value) []*ssa.Function {
	pp, ok := v.(*ssa.Parameter)
	if !ok || f.Pkg == nil {
		return nil
	}
	if _, isSig := pp.Type().Underlying().(*types.Signature); !isSig {
		return nil
	}
	idx := -1
	for i, q := range f.Params {
		if q == pp {
			idx = i
		}
	}
	if idx < 0 {
		return nil
	}
	var out []*ssa.Function
	for _, m := range f.Pkg.Members {
		mf, ok := m.(*ssa.Function)
		if !ok {
			continue
		}
		for _, g := range withAnon(mf) {
			out = append(out, fnArgsAt(g, f, idx)...)
		}
	}
	if nt := f.Signature.Recv(); nt != nil {
		// methods are not package members: walk the methods of the named types of the package
		for _, m := range f.Pkg.Members {
			if t, ok := m.(*ssa.Type); ok {
				for _, T := range []types.Type{t.Type(), types.NewPointer(t.Type())} {
					ms := f.Prog.MethodSets.MethodSet(T)
					for i := 0; i < ms.Len(); i++ {
						if mf := f.Prog.MethodValue(ms.At(i)); mf != nil && mf.Pkg == f.Pkg {
							for _, g := range withAnon(mf) {
								out = append(out, fnArgsAt(g, f, idx)...)
							}
						}
					}
				}
			}
		}
	} else {
		for _, m := range f.Pkg.Members {
			if t, ok := m.(*ssa.Type); ok {
				for _, T := range []types.Type{t.Type(), types.NewPointer(t.Type())} {
					ms := f.Prog.MethodSets.MethodSet(T)
					for i := 0; i < ms.Len(); i++ {
						if mf := f.Prog.MethodValue(ms.At(i)); mf != nil && mf.Pkg == f.Pkg {
							for _, g := range withAnon(mf) {
								out = append(out, fnArgsAt(g, f, idx)...)
							}
						}
					}
				}
			}
		}
	}
	return out
}

func fnArgsAt(g, callee *ssa.Function, idx int) []*ssa.Function {
	var out []*ssa.Function
	for _, ci := range callsIn(g) {
		if staticCallee(ci.Common()) != callee || idx >= len(ci.Common().Args) {
			continue
		}
		switch a := unwrap(ci.Common().Args[idx]).(type) {
		case *ssa.MakeClosure:
			out = append(out, a.Fn.(*ssa.Function))
		case *ssa.Function:
			out = append(out, a)
		}
	}
	return out
}

// syncReachExcept is syncReach that does not enter functions for which skip is true.
func syncReachExcept(root *ssa.Function, skip func(*ssa.Function) bool) map[*ssa.Function]bool {
	seen := map[*ssa.Function]bool{}
	var w func(f *ssa.Function)
	w = func(f *ssa.Function) {
		if f == nil || seen[f] || f.Blocks == nil || skip(f) {
			return
		}
		seen[f] = true
		instrs(f, func(in ssa.Instruction) {
			switch x := in.(type) {
			case *ssa.Call:
				if cal := staticCallee(&x.Call); cal != nil && cal.Pkg == root.Pkg {
					w(cal)
				}
			case *ssa.Defer:
				if cal := staticCallee(&x.Call); cal != nil && cal.Pkg == root.Pkg {
					w(cal)
				}
			}
		})
	}
	w(root)
	return seen
}

func runC13(c *Ctx) {
	P := c.P
	hu := P.Method("manager", "Manager", "handleUpdates")
	hg := P.Method("manager", "Manager", "handleGNMIUpdate")
	rm := P.Method("manager", "Manager", "retryMonitor")
	mon := P.Method("manager", "Manager", "monitor")
	Add := P.Method("manager", "Manager", "Add")
	Remove := P.Method("manager", "Manager", "Remove")
	Reconnect := P.Method("manager", "Manager", "Reconnect")
	fTargets := P.Field("manager", "Manager", "targets")
	fMu := P.Field("manager", "Manager", "mu")
	fTMu := P.Field("manager", "target", "mu")
	fRecon := P.Field("manager", "target", "reconnect")
	fFinished := P.Field("manager", "target", "finished")
	fCancel := P.Field("manager", "target", "cancel")
	cbNames := []string{"connect", "reset", "sync", "update", "connectError", "monitorError"}
	cb := map[*types.Var]string{}
	for _, n := range cbNames {
		f := P.Field("manager", "Manager", n)
		if f == nil {
			c.Unresolved("C13.anchors", "manager.Manager."+n)
		} else {
			cb[f] = n
		}
	}
	for n, ok := range map[string]bool{"handleUpdates": hu != nil, "handleGNMIUpdate": hg != nil, "retryMonitor": rm != nil, "monitor": mon != nil, "Add": Add != nil, "Remove": Remove != nil, "Reconnect": Reconnect != nil,
		"Manager.targets": fTargets != nil, "Manager.mu": fMu != nil, "target.mu": fTMu != nil, "target.reconnect": fRecon != nil, "target.finished": fFinished != nil, "target.cancel": fCancel != nil} {
		if !ok {
			c.Unresolved("C13.anchors", "manager."+n)
		}
	}
	if len(c.Unres) > 0 {
		return
	}
	c.Rule("C13.session", "handleUpdates, every path (loop unrolled): a Recv error is followed by exactly one reset(name) and the return of that error with no connect/update in between; connect is called at most once, after a successful Recv and before the first handleGNMIUpdate; every handleGNMIUpdate follows connect; every returning path ends Recv(error) -> reset")
	c.Rule("C13.callback-owner", "the callback fields connect/reset/sync/update/connectError/monitorError are invoked only in functions synchronously reachable from retryMonitor (no `go` in between); those functions are called only from that chain; retryMonitor is started only by the `go` in Add; closures started with `go` inside the chain reach no callback")
	c.Rule("C13.finish", "retryMonitor defers, at entry, a closure that closes target.finished and invokes no callback afterwards; every returning path leaves the loop through the ctx.Done() arm")
	c.Rule("C13.remove", "Remove: unknown name => error with no cancel/wait/delete; otherwise under m.mu: cancel() then receive from finished then delete(targets, name), nil returned only after the receive")
	c.Rule("C13.add", "Add: duplicate => error before the map store and before any go; success => exactly one map store and one go retryMonitor under m.mu with a fresh unbuffered finished channel")
	c.Borrow("C16", map[string]string{"C16.key-agree": "C13.conn-forgotten", "C16.fail": "C13.conn-fail"}, "'failed sessions are retried with backoff for as long as the target is managed': a failed dial must be forgotten by the connection manager under the key it was cached under, or every later attempt is handed the first error without dialling again")
	ctxFlow(c, "C13.dial-ctx")
	c.Borrow("C16", map[string]string{"C16.locked": "C13.conn-locks"}, "'failed sessions are retried for as long as the target is managed, and Remove returns': every session attempt and every release goes through the connection manager's mutex - a path that returns with it held blocks all later attempts of every target, and Remove then waits for a monitor that never finishes")
	c.Rule("C13.retry-forever", "retryMonitor stores the constant 0 into the backoff's MaxElapsedTime before the loop and re-arms the timer (Timer.Reset) after every monitor attempt before selecting again")
	c.Rule("C13.locks", "Manager.targets only under Manager.mu, target.reconnect only under target.mu, all locks released on all exits, no re-entrant acquisition; no function synchronously reachable from retryMonitor acquires Manager.mu before finished is closed (Remove holds it while waiting)")

	isCB := func(ev *Ev, name string) bool {
		if !strings.HasPrefix(ev.Label, "call:dyn:") || ev.Fn.V == nil {
			return false
		}
		u, ok := ev.Fn.V.(*ssa.UnOp)
		if !ok {
			return false
		}
		n, ok := cb[fieldOf(u.X)]
		return ok && (name == "" || n == name)
	}
	isRecv := func(ev *Ev) bool {
		ci, ok := ev.In.(ssa.CallInstruction)
		return ok && ci.Common().IsInvoke() && ci.Common().Method.Name() == "Recv"
	}
	isHG := func(ev *Ev) bool { return ev.Label == "call:"+fnName(hg) }

	// ---- session typestate
	{
		c.Analysed(fnName(hu))
		at := &Atoms{
			Class: func(e *PPA, st *State, rv RV) string {
				rv = e.Resolve(st, rv)
				if u, ok := rv.V.(*ssa.UnOp); ok {
					if n, ok := cb[fieldOf(u.X)]; ok {
						return "HAS_" + n
					}
				}
				return ""
			},
			Bool: map[string]bool{"HAS_connect": true, "HAS_reset": true},
		}
		mv := 3
		if c.Deep {
			mv = 4
		}
		e := &PPA{Cond: at.Cond, MaxVisits: mv, Watch: func(ev *Ev) bool { return isCB(ev, "") || isRecv(ev) || isHG(ev) }}
		e.Run(hu)
		c.Paths += len(e.Paths)
		c.Scen++
		if e.Overflow {
			c.Unknown("C13.session", fnName(hu), "typestate", "", "path overflow")
		}
		n, nUpd := 0, 0
		for i := range e.Paths {
			p := &e.Paths[i]
			if p.End != "return" {
				continue
			}
			n++
			// last Recv
			last := -1
			for j := range p.Trace {
				if isRecv(&p.Trace[j]) {
					last = j
				}
			}
			tail := p.Trace[last+1:]
			okTail := last >= 0 && len(tail) == 1 && isCB(&tail[0], "reset")
			retErr := false
			if len(p.Rets) == 1 {
				if ex, ok := p.Rets[0].V.(*ssa.Extract); ok && ex.Index == 1 && last >= 0 && ex.Tuple == ssa.Value(p.Trace[last].In.(*ssa.Call)) {
					retErr = true
				}
			}
			// connect discipline
			nConn := p.Count(func(ev *Ev) bool { return isCB(ev, "connect") })
			ci := p.Index(0, func(ev *Ev) bool { return isCB(ev, "connect") })
			firstUpd := p.Index(0, isHG)
			firstRecv := p.Index(0, isRecv)
			okConn := nConn <= 1 && (firstUpd < 0 || (ci >= 0 && ci < firstUpd)) && (ci < 0 || ci > firstRecv)
			nResets := p.Count(func(ev *Ev) bool { return isCB(ev, "reset") })
			if firstUpd >= 0 {
				nUpd++
			}
			ok := okTail && retErr && okConn && nResets == 1
			c.Check(ok, "C13.session", fnName(hu), "session typestate on every path", P.Pos(hu.Pos()),
				fmt.Sprintf("ends Recv->reset=%v returns the Recv error=%v connect-discipline=%v resets=%d; path: %s", okTail, retErr, okConn, nResets, p.String()))
		}
		c.Floor("C13.session/returning-paths", n, 2)
		c.Floor("C13.session/paths-with-updates", nUpd, 1)
	}
	recvWatchdog(c, "C13.recv-watchdog", hu, isRecv)
	c.Rule("C13.callback-name", "every string handed to a Manager callback (connect, reset, sync, update, connectError, monitorError) is the managed target's own name: the name field of the *target the monitor chain works for, or a string parameter that every caller in package manager fills with it - not a value read out of a received message (a device that labels a notification with another target's name would make an update appear outside that target's session, or after its Remove)")
	// ---- callback owner
	{
		S := syncReach(rm)
		sites := 0
		for _, f := range P.PkgFuncs("manager") {
			if P.InTestFile(f) {
				continue
			}
			for _, u := range cbUses(f, cb) {
				if u.escapes != "" {
					c.Bad("C13.callback-owner", fnName(f), "callback m."+u.name+" leaves the monitor chain", P.Pos(u.pos), u.escapes)
					continue
				}
				sites++
				c.Sites++
				_, isGo := u.ci.(*ssa.Go)
				how := "invokes"
				if u.via != nil {
					how = "hands to " + fnName(u.via)
				}
				c.Check(S[f] && !isGo, "C13.callback-owner", fnName(f), how+" m."+u.name, P.Pos(u.ci.Pos()), fmt.Sprintf("synchronously reachable from retryMonitor=%v, via go=%v", S[f], isGo))
				// whose session it is: the name handed to the callback is the managed target's own name (the key it was
				// added under), never a name taken out of a message
				for _, a := range u.ci.Common().Args {
					if bt, ok := a.Type().Underlying().(*types.Basic); !ok || bt.Info()&types.IsString == 0 {
						continue
					}
					ok, why := ownName(P, f, a, 0)
					c.Check(ok, "C13.callback-name", fnName(f), "m."+u.name+" is told the managed target's own name", P.Pos(u.ci.Pos()), why)
				}
			}
		}
		c.Floor("C13.callback-owner/call-sites", sites, 6)
		// callers of chain functions
		for f := range S {
			if f == rm {
				continue
			}
			hasCB := false
			for g := range syncReach(f) {
				if len(cbUses(g, cb)) > 0 {
					hasCB = true
				}
			}
			if !hasCB {
				continue
			}
			for _, g := range P.PkgFuncs("manager") {
				if P.InTestFile(g) {
					continue
				}
				for _, ci := range callsIn(g) {
					if staticCallee(ci.Common()) == f {
						_, isGo := ci.(*ssa.Go)
						c.Check(S[g] && !isGo, "C13.callback-owner", fnName(g), "calls "+fnName(f)+" (reaches a callback)", P.Pos(ci.Pos()), "callback-reaching functions may only be entered from the monitor chain")
					}
				}
			}
			if addressTaken(f) && f.Parent() == nil {
				c.Bad("C13.callback-owner", fnName(f), "address of a callback-reaching function is taken", P.Pos(f.Pos()), "it could be invoked from another goroutine")
			}
		}
		// retryMonitor's starters
		n := 0
		for _, g := range P.PkgFuncs("manager") {
			if P.InTestFile(g) {
				continue
			}
			for _, ci := range callsIn(g) {
				if staticCallee(ci.Common()) == rm {
					n++
					_, isGo := ci.(*ssa.Go)
					c.Check(g == Add && isGo, "C13.callback-owner", fnName(g), "starts retryMonitor", P.Pos(ci.Pos()), "only `go retryMonitor` in Add")
				}
			}
		}
		c.Floor("C13.callback-owner/monitor-starts", n, 1)
		// goroutines started inside the chain reach no callback
		for f := range S {
			instrs(f, func(in ssa.Instruction) {
				g, ok := in.(*ssa.Go)
				if !ok {
					return
				}
				t := staticCallee(&g.Call)
				if t == nil {
					c.Unknown("C13.callback-owner", fnName(f), "go of a dynamic function", P.Pos(in.Pos()), Expr(g.Call.Value))
					return
				}
				bad := ""
				for h := range syncReach(t) {
					for _, u := range cbUses(h, cb) {
						bad = fnName(h) + " invokes m." + u.name
					}
				}
				c.Check(bad == "", "C13.callback-owner", fnName(f), "go "+fnName(t)+" reaches no callback", P.Pos(in.Pos()), bad)
			})
		}
	}
	// ---- finish
	{
		c.Analysed(fnName(rm))
		e := &PPA{
			MaxVisits: 2,
			Inline:    func(fr *Frame, call ssa.CallInstruction, callee *ssa.Function) bool { return callee.Parent() == rm },
			Watch: func(ev *Ev) bool {
				return strings.HasPrefix(ev.Label, "select:") || ev.Label == "builtin:close" || isCB(ev, "") || ev.Label == "call:"+fnName(mon) ||
					ev.Label == "call:"+fnName(Reconnect) || ev.Label == "call:(*time.Timer).Reset" || strings.HasSuffix(ev.Label, ".MaxElapsedTime")
			},
		}
		e.Run(rm)
		c.Paths += len(e.Paths)
		c.Scen++
		n := 0
		for i := range e.Paths {
			p := &e.Paths[i]
			if p.End != "return" {
				continue
			}
			n++
			cl := p.Index(0, func(ev *Ev) bool {
				return ev.Label == "builtin:close" && len(ev.Args) > 0 && loadOfField(ev.Args[0].V, fFinished)
			})
			after := false
			for j := cl + 1; j < len(p.Trace) && cl >= 0; j++ {
				if isCB(&p.Trace[j], "") || p.Trace[j].Label == "call:"+fnName(mon) {
					after = true
				}
			}
			// the last top-level select arm before the close is ctx.Done
			lastSel := -1
			for j := 0; j < len(p.Trace) && (cl < 0 || j < cl); j++ {
				if strings.HasPrefix(p.Trace[j].Label, "select:") {
					lastSel = j
				}
			}
			ctxExit := lastSel >= 0 && strings.Contains(p.Trace[lastSel].Label, ".Done()") && strings.HasPrefix(p.Trace[lastSel].Label, "select:recv:")
			// MaxElapsedTime = 0 before the first select
			me := p.Index(0, func(ev *Ev) bool { return strings.HasSuffix(ev.Label, ".MaxElapsedTime") })
			firstSel := p.Index(0, lblPrefix("select:"))
			meOK := me >= 0 && me < firstSel
			if meOK {
				k, isK := constInt(p.Trace[me].Args[1].V)
				meOK = isK && k == 0
			}
			// timer re-armed after each monitor attempt
			rearm := true
			for j := range p.Trace {
				if p.Trace[j].Label != "call:"+fnName(mon) {
					continue
				}
				r := p.Index(j+1, lbl("call:(*time.Timer).Reset"))
				s := p.Index(j+1, lblPrefix("select:"))
				if r < 0 || (s >= 0 && s < r) {
					rearm = false
				}
			}
			c.Check(cl >= 0 && !after && ctxExit, "C13.finish", fnName(rm), "exit only via ctx.Done, close(finished) deferred, silence afterwards", P.Pos(rm.Pos()),
				fmt.Sprintf("close(finished)@%d callback-after-close=%v exit-arm-is-ctx.Done=%v; path: %s", cl, after, ctxExit, p.String()))
			c.Check(meOK && rearm, "C13.retry-forever", fnName(rm), "MaxElapsedTime=0 before the loop, timer re-armed after every attempt", P.Pos(rm.Pos()),
				fmt.Sprintf("MaxElapsedTime=0 first=%v re-armed=%v; path: %s", meOK, rearm, p.String()))
			// the delay the timer is re-armed with is the next delay of that never-ending policy itself, or of a wrapper
			// that can only stop it when monitoring of the target ends (backoff.WithContext bound to retryMonitor's own ctx)
			for j := range p.Trace {
				ev := &p.Trace[j]
				if ev.Label != "call:(*time.Timer).Reset" || len(ev.Args) < 2 || !p.Has(lbl("call:"+fnName(mon))) || j < p.Index(0, lbl("call:"+fnName(mon))) {
					continue
				}
				okD, why := backoffDelayOK(ev.Args[1].V, ssa.Value(param(rm, 1)), 0)
				c.Check(okD, "C13.retry-forever", fnName(rm), "the retry delay comes from the never-ending backoff policy", P.Pos(posOf(ev.In)), why)
			}
		}
		c.Floor("C13.finish/returning-paths", n, 1)
		// the closing closure is deferred in the entry region (dominates every return)
		okDom := false
		instrs(rm, func(in ssa.Instruction) {
			d, ok := in.(*ssa.Defer)
			if !ok {
				return
			}
			cal := staticCallee(&d.Call)
			if cal == nil {
				return
			}
			closes := false
			instrs(cal, func(in2 ssa.Instruction) {
				if call, ok := in2.(*ssa.Call); ok {
					if b, ok := call.Call.Value.(*ssa.Builtin); ok && b.Name() == "close" && fieldOf(call.Call.Args[0]) == fFinished {
						closes = true
					}
				}
			})
			if !closes {
				return
			}
			okDom = true
			for _, b := range rm.Blocks {
				if b == rm.Recover {
					continue
				}
				for _, in3 := range b.Instrs {
					if _, isRet := in3.(*ssa.Return); isRet && !in.Block().Dominates(b) {
						okDom = false
					}
					if _, isSel := in3.(*ssa.Select); isSel && !in.Block().Dominates(b) {
						okDom = false
					}
				}
			}
		})
		c.Check(okDom, "C13.finish", fnName(rm), "defer of the closing closure dominates the loop and every return", P.Pos(rm.Pos()), "")
	}
	// ---- remove
	{
		c.Analysed(fnName(Remove))
		for _, found := range []bool{true, false} {
			at := &Atoms{Class: lookupFound(fTargets), Bool: map[string]bool{"FOUND": found}}
			e := &PPA{Cond: at.Cond, Watch: func(ev *Ev) bool {
				return isLockOp(ev) || strings.HasPrefix(ev.Label, "call:dyn:") || strings.HasPrefix(ev.Label, "recv:") || ev.Label == "builtin:delete"
			}}
			e.Run(Remove)
			c.Paths += len(e.Paths)
			c.Scen++
			n := 0
			for i := range e.Paths {
				p := &e.Paths[i]
				n++
				ca := p.Index(0, func(ev *Ev) bool {
					return strings.HasPrefix(ev.Label, "call:dyn:") && loadOfField(ev.Fn.V, fCancel)
				})
				rv := p.Index(0, func(ev *Ev) bool { return strings.HasPrefix(ev.Label, "recv:") && loadOfField(ev.Args[0].V, fFinished) })
				de := p.Index(0, func(ev *Ev) bool { return ev.Label == "builtin:delete" && ev.Field == fTargets })
				li := p.Index(0, func(ev *Ev) bool { return ev.Label == "call:(*sync.Mutex).Lock" && ev.Field == fMu })
				ui := p.Index(li+1, func(ev *Ev) bool { return ev.Label == "call:(*sync.Mutex).Unlock" && ev.Field == fMu })
				rc := ""
				if len(p.Rets) == 1 {
					rc = retClass(p.Rets[0])
				}
				if found {
					ok := li >= 0 && li < ca && ca < rv && rv < de && de < ui && rc == "nil"
					c.Check(ok, "C13.remove", fnName(Remove), "known target: lock, cancel, wait finished, forget, unlock", P.Pos(Remove.Pos()), fmt.Sprintf("lock@%d cancel@%d wait@%d delete@%d unlock@%d returns %s; path: %s", li, ca, rv, de, ui, rc, p.String()))
				} else {
					ok := ca < 0 && rv < 0 && de < 0 && rc != "nil" && rc != ""
					c.Check(ok, "C13.remove", fnName(Remove), "unknown target is refused without effect", P.Pos(Remove.Pos()), "returns "+rc+"; path: "+p.String())
				}
			}
			c.Floor(fmt.Sprintf("C13.remove/paths(found=%v)", found), n, 1)
		}
	}
	// ---- add
	{
		c.Analysed(fnName(Add))
		for _, found := range []bool{true, false} {
			at := &Atoms{Class: lookupFound(fTargets), Bool: map[string]bool{"FOUND": found}}
			e := &PPA{Cond: at.Cond, Watch: func(ev *Ev) bool {
				return isLockOp(ev) || strings.HasPrefix(ev.Label, "go:") || strings.HasPrefix(ev.Label, "mapupdate:") || ev.Label == "store:manager.target.finished"
			}}
			e.Run(Add)
			c.Paths += len(e.Paths)
			c.Scen++
			nOK := 0
			for i := range e.Paths {
				p := &e.Paths[i]
				rc := ""
				if len(p.Rets) == 1 {
					rc = retClass(p.Rets[0])
				}
				gos := p.Count(lblPrefix("go:"))
				mus := p.Count(func(ev *Ev) bool { return strings.HasPrefix(ev.Label, "mapupdate:") && ev.Field == fTargets })
				if found || rc != "nil" {
					c.Check(rc != "nil" && gos == 0 && mus == 0, "C13.add", fnName(Add), fmt.Sprintf("refusal has no effect (duplicate=%v)", found), P.Pos(Add.Pos()), "returns "+rc+"; path: "+p.String())
					continue
				}
				nOK++
				li := p.Index(0, func(ev *Ev) bool { return ev.Label == "call:(*sync.Mutex).Lock" && ev.Field == fMu })
				gi := p.Index(0, lblPrefix("go:"))
				mi := p.Index(0, lblPrefix("mapupdate:"))
				ui := p.Index(0, func(ev *Ev) bool { return ev.Label == "call:(*sync.Mutex).Unlock" && ev.Field == fMu })
				fi := p.Index(0, lbl("store:manager.target.finished"))
				fresh := false
				if fi >= 0 {
					if mc, ok := p.Trace[fi].Args[1].V.(*ssa.MakeChan); ok {
						if k, ok := constInt(mc.Size); ok && k == 0 {
							fresh = true
						}
					}
				}
				goRM := gi >= 0 && staticCallee(p.Trace[gi].In.(*ssa.Go).Common()) == rm
				ok := gos == 1 && mus == 1 && goRM && li >= 0 && li < mi && li < gi && gi < ui && mi < ui && fresh
				c.Check(ok, "C13.add", fnName(Add), "success: one store, one go retryMonitor, under the lock, fresh unbuffered finished", P.Pos(Add.Pos()), fmt.Sprintf("go=%d stores=%d fresh-finished=%v; path: %s", gos, mus, fresh, p.String()))
			}
			if !found {
				c.Floor("C13.add/success-paths", nOK, 1)
			}
		}
	}
	// ---- locks
	{
		la := NewLockAudit(c, "manager", map[*types.Var]*types.Var{fTargets: fMu, fRecon: fTMu}, 2)
		la.Report(func(kind string) string { return "C13.locks" })
		c.Check(la.Accesses >= 6, "C13.locks", "manager", "guarded accesses analysed", "", fmt.Sprintf("%d accesses on paths, %d directly under their mutex", la.Accesses, la.Guarded))
		// nothing on the monitor goroutine takes Manager.mu before close(finished)
		// the function deferred by retryMonitor that closes finished (a literal or a named function): what it does
		// after the close is not "before finished is closed"; the order inside it is checked below
		closesFinished := func(f *ssa.Function) ssa.Instruction {
			var at ssa.Instruction
			instrs(f, func(in ssa.Instruction) {
				if call, ok := in.(*ssa.Call); ok {
					if b, ok := call.Call.Value.(*ssa.Builtin); ok && b.Name() == "close" && fieldOf(call.Call.Args[0]) == fFinished {
						at = in
					}
				}
			})
			return at
		}
		closers := map[*ssa.Function]bool{}
		instrs(rm, func(in ssa.Instruction) {
			if d, ok := in.(*ssa.Defer); ok {
				if cal := staticCallee(&d.Call); cal != nil && closesFinished(cal) != nil {
					closers[cal] = true
				}
			}
		})
		S := syncReachExcept(rm, func(f *ssa.Function) bool { return closers[f] })
		acquiresMu := func(g *ssa.Function) bool {
			for h := range syncReach(g) {
				for a := range la.acq[h] {
					if a.field == fMu {
						return true
					}
				}
				found := false
				instrs(h, func(in ssa.Instruction) {
					if call, ok := in.(ssa.CallInstruction); ok {
						if calleeName(call.Common()) == "(*sync.Mutex).Lock" && len(call.Common().Args) > 0 && fieldOf(call.Common().Args[0]) == fMu {
							found = true
						}
					}
				})
				if found {
					return true
				}
			}
			return false
		}
		for h := range closers {
			cl := closesFinished(h)
			instrs(h, func(in ssa.Instruction) {
				call, ok := in.(ssa.CallInstruction)
				if !ok || in == cl {
					return
				}
				takes := calleeName(call.Common()) == "(*sync.Mutex).Lock" && len(call.Common().Args) > 0 && fieldOf(call.Common().Args[0]) == fMu
				if g := staticCallee(call.Common()); g != nil && g.Pkg == rm.Pkg && acquiresMu(g) {
					takes = true
				}
				if !takes {
					return
				}
				after := false
				if in.Block() == cl.Block() {
					for _, x := range in.Block().Instrs {
						if x == cl {
							after = true
						}
						if x == in {
							break
						}
					}
				} else {
					after = cl.Block().Dominates(in.Block())
				}
				c.Check(after, "C13.locks", fnName(h), "Manager.mu is taken only after close(finished) in the closing function", P.Pos(in.Pos()), "Remove holds Manager.mu while waiting for finished")
			})
		}
		for f := range S {
			for a := range la.acq[f] {
				if f == rm {
					continue // acquisitions inherited from the inlined closing closure; direct locks are checked below
				}
				if a.field == fMu {
					c.Bad("C13.locks", fnName(f), "acquires Manager.mu on the monitor goroutine", P.Pos(f.Pos()), "Remove holds Manager.mu while waiting for finished: taking it before finished is closed deadlocks")
				}
			}
			// direct lock ops on m.mu inside chain functions
			instrs(f, func(in ssa.Instruction) {
				if call, ok := in.(ssa.CallInstruction); ok {
					n := calleeName(call.Common())
					if (n == "(*sync.Mutex).Lock") && len(call.Common().Args) > 0 && fieldOf(call.Common().Args[0]) == fMu {
						c.Bad("C13.locks", fnName(f), "locks Manager.mu on the monitor goroutine", P.Pos(in.Pos()), "would deadlock with Remove")
					}
				}
			})
		}
		// ... nor waits for a goroutine that may take it: a chain function that starts a goroutine able to lock
		// Manager.mu must not block on a channel that only that goroutine completes (transitive wait: Remove holds
		// the lock waiting for finished, the chain waits for the goroutine, the goroutine waits for the lock)
		locksMu := func(g *ssa.Function) bool {
			for h := range syncReach(g) {
				found := false
				instrs(h, func(in ssa.Instruction) {
					if call, ok := in.(ssa.CallInstruction); ok {
						if calleeName(call.Common()) == "(*sync.Mutex).Lock" && len(call.Common().Args) > 0 && fieldOf(call.Common().Args[0]) == fMu {
							found = true
						}
					}
				})
				if found {
					return true
				}
			}
			return false
		}
		// channel identity across a function and its closures: the local cell / make the operand comes from
		chanRoot := func(v ssa.Value) ssa.Value {
			for i := 0; i < 6; i++ {
				switch x := v.(type) {
				case *ssa.UnOp:
					v = x.X
					continue
				case *ssa.FreeVar:
					if b := bindingOf(x); b != nil {
						v = b
						continue
					}
				case *ssa.Alloc:
					return x
				}
				break
			}
			return v
		}
		for f := range S {
			top := f
			for top.Parent() != nil {
				top = top.Parent()
			}
			instrs(f, func(in ssa.Instruction) {
				g, ok := in.(*ssa.Go)
				if !ok {
					return
				}
				t := staticCallee(&g.Call)
				if t == nil || !locksMu(t) {
					return
				}
				// channels the goroutine completes (close / send), incl. deferred
				done := map[ssa.Value]bool{}
				for _, h := range withAnon(t) {
					instrs(h, func(gi ssa.Instruction) {
						switch x := gi.(type) {
						case ssa.CallInstruction:
							if b, ok := x.Common().Value.(*ssa.Builtin); ok && b.Name() == "close" {
								done[chanRoot(x.Common().Args[0])] = true
							}
						case *ssa.Send:
							done[chanRoot(x.Chan)] = true
						}
					})
				}
				if len(done) == 0 {
					return
				}
				// blocking receives on those channels in the starting function and its other closures
				for _, h := range withAnon(top) {
					if h == t {
						continue
					}
					instrs(h, func(hi ssa.Instruction) {
						var ch ssa.Value
						switch x := hi.(type) {
						case *ssa.UnOp:
							if x.Op == token.ARROW {
								ch = x.X
							}
						case *ssa.Select:
							if x.Blocking {
								for _, s := range x.States {
									if s.Dir == types.RecvOnly && done[chanRoot(s.Chan)] {
										ch = s.Chan
									}
								}
							}
						}
						if ch != nil && done[chanRoot(ch)] {
							c.Bad("C13.locks", fnName(h), "waits for a goroutine that may lock Manager.mu", P.Pos(hi.Pos()), "the monitor chain blocks on "+Expr(ch)+", completed only by go "+fnName(t)+" which can be waiting for Manager.mu that Remove holds")
						}
					})
				}
			})
		}
		// in the closing closure Reconnect (which locks Manager.mu) comes after close(finished): covered by C13.finish ordering
		c.OK("C13.locks", fnName(rm), "no Manager.mu acquisition on the monitor chain before finished is closed", P.Pos(rm.Pos()), fmt.Sprintf("%d chain functions inspected", len(S)))
	}
}

// lookupFound classifies the comma-ok result of a lookup in the map loaded from field f as atom FOUND.
func lookupFound(f *types.Var) func(e *PPA, st *State, rv RV) string {
	return func(e *PPA, st *State, rv RV) string {
		if ex, ok := rv.V.(*ssa.Extract); ok && ex.Index == 1 {
			if lk, ok := ex.Tuple.(*ssa.Lookup); ok && lk.CommaOk && loadOfField(lk.X, f) {
				return "FOUND"
			}
		}
		return ""
	}
}

// cbUse is one use of a manager callback field inside a function: a direct
// call of the loaded field, or the loaded field handed to a same-package helper
// that calls its parameter (counted as an invocation at the hand-over site).
type cbUse struct {
	ci      ssa.CallInstruction
	name    string
	via     *ssa.Function
	escapes string
	pos     token.Pos
}

func cbUses(f *ssa.Function, cb map[*types.Var]string) []cbUse {
	var out []cbUse
	instrs(f, func(in ssa.Instruction) {
		u, ok := in.(*ssa.UnOp)
		if !ok || u.Op != token.MUL {
			return
		}
		name, ok := cb[fieldOf(u.X)]
		if !ok {
			return
		}
		if _, isFA := u.X.(*ssa.FieldAddr); !isFA {
			return
		}
		for _, r := range *u.Referrers() {
			switch x := r.(type) {
			case *ssa.BinOp, *ssa.DebugRef:
				// nil test
			case ssa.CallInstruction:
				cc := x.Common()
				if cc.Value == ssa.Value(u) {
					out = append(out, cbUse{ci: x, name: name})
					continue
				}
				callee := staticCallee(cc)
				if callee == nil || callee.Pkg != f.Pkg || len(callee.Blocks) == 0 {
					out = append(out, cbUse{name: name, escapes: "passed to " + calleeName(cc), pos: x.Pos()})
					continue
				}
				// the helper may only call or nil-test the parameter
				okHelper := true
				for i, a := range cc.Args {
					if a != ssa.Value(u) || i >= len(callee.Params) {
						continue
					}
					for _, pr := range *callee.Params[i].Referrers() {
						switch y := pr.(type) {
						case *ssa.BinOp, *ssa.DebugRef:
						case ssa.CallInstruction:
							if y.Common().Value != ssa.Value(callee.Params[i]) {
								okHelper = false
							}
							if _, isGo := y.(*ssa.Go); isGo {
								okHelper = false
							}
						default:
							okHelper = false
						}
					}
				}
				if okHelper {
					out = append(out, cbUse{ci: x, name: name, via: callee})
				} else {
					out = append(out, cbUse{name: name, escapes: "handed to " + fnName(callee) + ", which does more than call it", pos: x.Pos()})
				}
			case *ssa.Store:
				// wiring in NewManager (m.reset = cfg.Reset is a store INTO the field, not of the loaded value)
				out = append(out, cbUse{name: name, escapes: "stored into " + Expr(x.Addr), pos: x.Pos()})
			default:
				out = append(out, cbUse{name: name, escapes: fmt.Sprintf("used by %T", r), pos: r.Pos()})
			}
		}
	})
	return out
}

// backoffDelayOK: v is (derived from) NextBackOff() of an *ExponentialBackOff, or of backoff.WithContext(policy, ctx)
// with ctx the monitor's own context parameter.  Any other wrapper (another context, WithMaxRetries, ...) can
// return backoff.Stop while the target is still managed.
func backoffDelayOK(v ssa.Value, ctxParam ssa.Value, d int) (bool, string) {
	if d > 6 {
		return false, "delay expression too deep"
	}
	switch x := v.(type) {
	case *ssa.Phi:
		for _, e := range x.Edges {
			if ok, why := backoffDelayOK(e, ctxParam, d+1); !ok {
				return false, why
			}
		}
		return true, ""
	case *ssa.Convert:
		return backoffDelayOK(x.X, ctxParam, d+1)
	case *ssa.ChangeType:
		return backoffDelayOK(x.X, ctxParam, d+1)
	case *ssa.Call:
		if x.Call.IsInvoke() {
			if x.Call.Method.Name() != "NextBackOff" {
				return false, "delay from " + Expr(x)
			}
			recv := x.Call.Value
			if mi, ok := recv.(*ssa.MakeInterface); ok {
				recv = mi.X
			}
			if w, ok := recv.(*ssa.Call); ok {
				if g := staticCallee(&w.Call); g != nil && g.Name() == "WithContext" && strings.HasSuffix(pkgPathOf(g), "backoff/v4") && len(w.Call.Args) == 2 {
					if w.Call.Args[1] == ctxParam {
						return true, ""
					}
					return false, "policy wrapped by backoff.WithContext with " + Expr(w.Call.Args[1]) + ", not the monitor's own context: once that context is cancelled every delay is backoff.Stop although the target is still managed"
				}
				return false, "policy wrapped by " + Expr(w)
			}
			if strings.Contains(recv.Type().String(), "ExponentialBackOff") {
				return true, ""
			}
			return false, "NextBackOff of " + Expr(recv)
		}
		if g := staticCallee(&x.Call); g != nil && g.Name() == "NextBackOff" && strings.Contains(fnName(g), "ExponentialBackOff") {
			return true, ""
		}
		return false, "delay from " + Expr(x)
	}
	return false, "delay is " + Expr(v) + ", not the next delay of the backoff policy"
}

// ownName: v is the name of the target a monitor chain function works for - target.name, or a string
// parameter that all callers in the package fill with such a value.
func ownName(P *Prog, f *ssa.Function, v ssa.Value, d int) (bool, string) {
	if d > 3 {
		return false, "too deep"
	}
	v = unwrap(v)
	switch x := v.(type) {
	case *ssa.UnOp:
		if x.Op == token.MUL {
			if fa, ok := x.X.(*ssa.FieldAddr); ok && vname(fieldOf(fa)) == "name" && isNamed(deref(fa.X.Type()), "manager", "target") {
				return true, "target.name"
			}
			// a parameter or local captured in a cell
			if al, ok := x.X.(*ssa.Alloc); ok {
				if sv := singleStore(al); sv != nil {
					return ownName(P, f, sv, d+1)
				}
			}
			if fv, ok := x.X.(*ssa.FreeVar); ok {
				if b := bindingOf(fv); b != nil {
					if al, ok := b.(*ssa.Alloc); ok {
						if sv := singleStore(al); sv != nil {
							return ownName(P, f.Parent(), sv, d+1)
						}
					}
				}
			}
		}
	case *ssa.FreeVar:
		if b := bindingOf(x); b != nil {
			return ownName(P, f.Parent(), b, d+1)
		}
	case *ssa.Phi:
		for _, e := range x.Edges {
			if ok, why := ownName(P, f, e, d+1); !ok {
				return false, why
			}
		}
		return len(x.Edges) > 0, "every incoming value"
	case *ssa.Parameter:
		g := x.Parent()
		idx := -1
		for i, p := range g.Params {
			if p == x {
				idx = i
			}
		}
		if idx < 0 {
			return false, "parameter not found"
		}
		if isExportedFn(g) {
			return true, "name parameter of the exported " + fnName(g) + " (the key the caller manages the target under)"
		}
		n := 0
		for _, h := range P.PkgFuncs("manager") {
			if P.InTestFile(h) {
				continue
			}
			for _, hh := range withAnon(h) {
				for _, ci := range callsIn(hh) {
					if staticCallee(ci.Common()) != g || idx >= len(ci.Common().Args) {
						continue
					}
					n++
					if ok, why := ownName(P, hh, ci.Common().Args[idx], d+1); !ok {
						return false, "caller " + fnName(hh) + " passes " + why
					}
				}
			}
		}
		if n == 0 {
			return false, "parameter " + x.Name() + " of " + fnName(g) + " has no caller in the package"
		}
		return true, "parameter " + x.Name() + ", filled with the target's name by every caller"
	}
	return false, Expr(v)
}
