package main

import (
	"sort"
	"strings"

	"golang.org/x/tools/go/ssa"
)

// indexSeqs computes, for a []string value that is used as a match/cache index,
// the set of possible part sequences it is composed of (bounded; φ = union,
// append = concatenation).  Parts:
//
//	T:true / T:false / T:?   result of path.ToStrings(_, flag)
//	origin                   a path's GetOrigin()
//	param:<name>             a parameter of the enclosing function (judged at its callers)
//	?<expr>                  anything else
//
// Captured variables are followed into the enclosing function's bindings.
func indexSeqs(v ssa.Value) [][]string {
	seqs := idxSeq(v, map[ssa.Value]bool{}, 0, nil)
	// dedupe
	seen := map[string]bool{}
	var out [][]string
	for _, s := range seqs {
		k := strings.Join(s, " ")
		if !seen[k] {
			seen[k] = true
			out = append(out, s)
		}
	}
	sort.Slice(out, func(i, j int) bool { return strings.Join(out[i], " ") < strings.Join(out[j], " ") })
	return out
}

type idxEnv struct {
	m  map[*ssa.Parameter]ssa.Value
	up *idxEnv
}

func idxSeq(v ssa.Value, seen map[ssa.Value]bool, d int, env *idxEnv) [][]string {
	if d > 40 {
		return [][]string{{"?depth"}}
	}
	switch x := v.(type) {
	case *ssa.Const:
		if x.Value == nil {
			return [][]string{{}}
		}
	case *ssa.Phi:
		if seen[v] {
			return nil // loop-carried repetition: the other edges describe one iteration
		}
		seen[v] = true
		defer delete(seen, v)
		var out [][]string
		for _, e := range x.Edges {
			out = append(out, idxSeq(e, seen, d+1, env)...)
		}
		return out
	case *ssa.ChangeType:
		return idxSeq(x.X, seen, d+1, env)
	case *ssa.Convert:
		return idxSeq(x.X, seen, d+1, env)
	case *ssa.Call:
		if c, ok := isAppend(x); ok {
			a := idxSeq(c.Call.Args[0], seen, d+1, env)
			if len(c.Call.Args) < 2 {
				return a
			}
			b := idxSeq(c.Call.Args[1], seen, d+1, env)
			var out [][]string
			for _, s := range a {
				for _, t := range b {
					if len(out) > 64 {
						return append(out, []string{"?too-many"})
					}
					out = append(out, append(append([]string{}, s...), t...))
				}
			}
			return out
		}
		// a same-package helper that builds the index: its results with the arguments substituted
		if g := staticCallee(&x.Call); g != nil && len(g.Blocks) > 0 && g.Pkg == x.Parent().Pkg && !seen[x] && calleeName(&x.Call) != "path.ToStrings" {
			seen[x] = true
			defer delete(seen, x)
			m := map[*ssa.Parameter]ssa.Value{}
			for i, a := range x.Call.Args {
				if i < len(g.Params) {
					m[g.Params[i]] = a
				}
			}
			var out [][]string
			nret := 0
			instrs(g, func(in ssa.Instruction) {
				if ret, ok := in.(*ssa.Return); ok && len(ret.Results) == 1 {
					nret++
					out = append(out, idxSeq(ret.Results[0], seen, d+1, &idxEnv{m: m, up: env})...)
				}
			})
			if nret > 0 {
				return out
			}
		}
		switch calleeName(&x.Call) {
		case "path.ToStrings":
			if b, ok := constBool(x.Call.Args[1]); ok {
				if b {
					return [][]string{{"T:true"}}
				}
				return [][]string{{"T:false"}}
			}
			return [][]string{{"T:?"}}
		case "(*proto/gnmi.Path).GetOrigin":
			return [][]string{{"origin"}}
		}
	case *ssa.Slice:
		// varargs literal: the stored elements in index order
		if al, ok := x.X.(*ssa.Alloc); ok {
			type el struct {
				i int64
				v ssa.Value
			}
			var els []el
			for _, r := range *al.Referrers() {
				if ia, ok := r.(*ssa.IndexAddr); ok {
					idx, okc := constInt(ia.Index)
					for _, rr := range *ia.Referrers() {
						if st, ok := rr.(*ssa.Store); ok {
							if !okc {
								return [][]string{{"?" + Expr(v)}}
							}
							els = append(els, el{idx, st.Val})
						}
					}
				}
			}
			sort.Slice(els, func(i, j int) bool { return els[i].i < els[j].i })
			out := [][]string{{}}
			for _, e := range els {
				var nxt [][]string
				for _, s := range out {
					for _, t := range idxSeq(e.v, seen, d+1, env) {
						nxt = append(nxt, append(append([]string{}, s...), t...))
					}
				}
				out = nxt
			}
			return out
		}
		return idxSeq(x.X, seen, d+1, env)
	case *ssa.Parameter:
		// parameter of a helper entered through a call: the argument in the caller's context
		if env != nil {
			if a, ok := env.m[x]; ok {
				return idxSeq(a, seen, d+1, env.up)
			}
		}
		return [][]string{{"param:" + x.Name()}}
	case *ssa.UnOp:
		// an element of a local collection of index slices (queries = append(queries, q) ... queries[i]):
		// any of the values appended to it
		if ia, ok := x.X.(*ssa.IndexAddr); ok {
			if els, ok := appendedElems(ia.X, map[ssa.Value]bool{}, 0); ok && len(els) > 0 {
				var out [][]string
				for _, el := range els {
					out = append(out, idxSeq(el, seen, d+1, env)...)
				}
				return out
			}
		}
		// load of a local or captured cell: union of what is stored into it
		cell := x.X
		if fv, ok := cell.(*ssa.FreeVar); ok {
			if b := bindingOf(fv); b != nil {
				cell = b
			}
		}
		if al, ok := cell.(*ssa.Alloc); ok {
			if seen[al] {
				return nil
			}
			seen[al] = true
			defer delete(seen, al)
			var out [][]string
			for _, fn := range withAnon(al.Parent()) {
				instrs(fn, func(in ssa.Instruction) {
					st, ok := in.(*ssa.Store)
					if !ok {
						return
					}
					addr := st.Addr
					if fv, ok := addr.(*ssa.FreeVar); ok {
						if b := bindingOf(fv); b != nil {
							addr = b
						}
					}
					if addr == ssa.Value(al) {
						out = append(out, idxSeq(st.Val, seen, d+1, env)...)
					}
				})
			}
			if len(out) > 0 {
				return out
			}
		}
	case *ssa.FreeVar:
		if b := bindingOf(x); b != nil {
			return idxSeq(b, seen, d+1, env)
		}
	}
	return [][]string{{"?" + Expr(v)}}
}

// bindingOf returns the value bound to a free variable where its closure is created.
func bindingOf(fv *ssa.FreeVar) ssa.Value {
	fn := fv.Parent()
	par := fn.Parent()
	if par == nil {
		return nil
	}
	idx := -1
	for i, f := range fn.FreeVars {
		if f == fv {
			idx = i
		}
	}
	if idx < 0 {
		return nil
	}
	var out ssa.Value
	instrs(par, func(in ssa.Instruction) {
		if mc, ok := in.(*ssa.MakeClosure); ok && mc.Fn == ssa.Value(fn) && idx < len(mc.Bindings) {
			out = mc.Bindings[idx]
		}
	})
	if f2, ok := out.(*ssa.FreeVar); ok {
		if b := bindingOf(f2); b != nil {
			return b
		}
	}
	return out
}

func seqsString(s [][]string) string {
	var parts []string
	for _, x := range s {
		parts = append(parts, "["+strings.Join(x, " ")+"]")
	}
	return strings.Join(parts, " | ")
}

// appendedElems: the element values appended (one literal element at a time) to a local slice that starts
// empty; ok=false when the slice has any other source.
func appendedElems(v ssa.Value, seen map[ssa.Value]bool, d int) ([]ssa.Value, bool) {
	if d > 12 {
		return nil, false
	}
	if seen[v] {
		return nil, true
	}
	seen[v] = true
	switch x := v.(type) {
	case *ssa.Const:
		return nil, x.Value == nil
	case *ssa.Phi:
		var out []ssa.Value
		for _, e := range x.Edges {
			els, ok := appendedElems(e, seen, d+1)
			if !ok {
				return nil, false
			}
			out = append(out, els...)
		}
		return out, true
	case *ssa.MakeSlice:
		if k, ok := constInt(x.Len); ok && k == 0 {
			return nil, true
		}
	case *ssa.ChangeType:
		return appendedElems(x.X, seen, d+1)
	case *ssa.Call:
		if b, ok := x.Call.Value.(*ssa.Builtin); ok && b.Name() == "append" && len(x.Call.Args) == 2 {
			base, ok := appendedElems(x.Call.Args[0], seen, d+1)
			if !ok {
				return nil, false
			}
			els, ok := literalElems(x.Call.Args[1])
			if !ok {
				return nil, false
			}
			return append(base, els...), true
		}
	}
	return nil, false
}
