package main

// selfResult summarises the checker self-validation of the thorough tier.
type selfResult struct {
	Variants int      `json:"variants"`
	Caught   int      `json:"breaking_caught"`
	Silent   int      `json:"equivalent_silent"`
	Broken   int      `json:"expectations_not_met"`
	Lines    []string `json:"lines"`
}

func selfValidate(c *Ctx, verifDir, repo string) selfResult { return selfResult{} }
