package main

import (
	"encoding/json"
	"fmt"
	"os"
	"os/exec"
	"path/filepath"
	"sort"
	"strings"
	"sync"
)

// Self-validation of the checker (thorough tier): every variant listed in
// /verif/variants/EXPECT.json for the property is applied to a scratch copy of
// the repository, analysed by a separate process of this binary and compared
// with the expectation: a breaking variant must be reported (VIOLATION), an
// equivalent (behaviour-preserving) variant must stay silent.  Nothing of gnmi
// is executed: the variants are analysed, not run.

type selfResult struct {
	Skipped  int      `json:"stale_variants_skipped"`
	Variants int      `json:"variants"`
	Caught   int      `json:"breaking_caught"`
	Silent   int      `json:"equivalent_silent"`
	Broken   int      `json:"expectations_not_met"`
	Lines    []string `json:"lines"`
}

type expectEntry struct {
	Patch    string `json:"patch"`    // relative to /verif
	Property string `json:"property"` // property whose check is run
	Expect   string `json:"expect"`   // violation | silent
	Rule     string `json:"rule,omitempty"`
	Note     string `json:"note,omitempty"`
}

func selfValidate(c *Ctx, verifDir, repo string) selfResult {
	res := selfResult{}
	b, err := os.ReadFile(filepath.Join(verifDir, "variants", "EXPECT.json"))
	if err != nil {
		res.Lines = append(res.Lines, "no variants/EXPECT.json: "+err.Error())
		return res
	}
	var all []expectEntry
	if err := json.Unmarshal(b, &all); err != nil {
		res.Broken++
		res.Lines = append(res.Lines, "EXPECT.json: "+err.Error())
		return res
	}
	var mine []expectEntry
	for _, e := range all {
		if e.Property == c.Prop {
			mine = append(mine, e)
		}
	}
	exe, _ := os.Executable()
	type out struct {
		e    expectEntry
		line string
		ok   bool
		skip bool
	}
	results := make([]out, len(mine))
	sem := make(chan struct{}, 6)
	var wg sync.WaitGroup
	for i, e := range mine {
		wg.Add(1)
		go func(i int, e expectEntry) {
			defer wg.Done()
			sem <- struct{}{}
			defer func() { <-sem }()
			results[i] = out{e: e}
			dir, err := os.MkdirTemp("", "gnmiverif.self.")
			if err != nil {
				results[i].line = e.Patch + ": " + err.Error()
				return
			}
			defer os.RemoveAll(dir)
			if o, err := exec.Command("rsync", "-a", "--exclude", ".git", repo+"/", dir+"/").CombinedOutput(); err != nil {
				results[i].line = e.Patch + ": copy failed: " + string(o)
				return
			}
			patch := filepath.Join(verifDir, e.Patch)
			apply := func(p string) error {
				cmd := exec.Command("patch", "-p1", "-s", "-i", p)
				cmd.Dir = dir
				_, err := cmd.CombinedOutput()
				return err
			}
			dry := exec.Command("patch", "-p1", "-s", "--dry-run", "-i", patch)
			dry.Dir = dir
			if _, err := dry.CombinedOutput(); err != nil {
				rb := filepath.Join(filepath.Dir(patch), "patch.rebased.diff")
				if _, e2 := os.Stat(rb); e2 == nil {
					patch = rb
				}
			}
			if err := apply(patch); err != nil {
				results[i].line = e.Patch + ": does not apply to the current tree (stale variant, skipped)"
				results[i].skip = true
				return
			}
			vo := filepath.Join(dir, ".verif-out")
			os.MkdirAll(vo, 0o755)
			for _, aux := range []string{"known_findings.json", "refsigs.json"} {
				if kf, err := os.ReadFile(filepath.Join(verifDir, aux)); err == nil {
					os.WriteFile(filepath.Join(vo, aux), kf, 0o644)
				}
			}
			cmd := exec.Command(exe, "-repo", dir, "-verif", vo, "-property", e.Property, "-tier", "quick")
			o, _ := cmd.CombinedOutput()
			txt := string(o)
			viol := strings.Contains(txt, "VIOLATION property="+e.Property)
			ruleOK := e.Rule == "" || strings.Contains(txt, e.Rule+" |")
			switch e.Expect {
			case "violation":
				results[i].ok = viol && ruleOK
			case "silent":
				results[i].ok = !viol && cmd.ProcessState != nil && cmd.ProcessState.ExitCode() == 0
			}
			verdict := "silent"
			if viol {
				verdict = "reported"
			}
			results[i].line = fmt.Sprintf("%s: expected %s, checker %s", e.Patch, e.Expect, verdict)
			if !results[i].ok {
				// keep the first violation line for diagnosis
				for _, l := range strings.Split(txt, "\n") {
					if strings.Contains(l, "violated:") || strings.Contains(l, "undecided:") || strings.Contains(l, "LOAD-FAILURE") || strings.Contains(l, "PANIC") {
						if len(l) > 300 {
							l = l[:300]
						}
						results[i].line += " — " + strings.TrimSpace(l)
						break
					}
				}
			}
		}(i, e)
	}
	wg.Wait()
	sort.Slice(results, func(i, j int) bool { return results[i].e.Patch < results[j].e.Patch })
	for _, r := range results {
		if r.skip {
			res.Skipped++
			res.Lines = append(res.Lines, "skip "+r.line)
			continue
		}
		res.Variants++
		mark := "ok  "
		if !r.ok {
			res.Broken++
			mark = "FAIL"
		} else if r.e.Expect == "violation" {
			res.Caught++
		} else {
			res.Silent++
		}
		res.Lines = append(res.Lines, mark+" "+r.line)
	}
	return res
}
