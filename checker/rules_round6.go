package main

// Rules added for the sixth round of seeded changes (shared helpers kept in one place).

import (
	"fmt"
	"go/token"
	"go/types"
	"strings"

	"golang.org/x/tools/go/ssa"
)

// singleRegistry (C14): a target is known to the cache exactly as long as it is in Cache.targets - the
// map Remove deletes from under Cache.mu.  A second place from which a *Target can be reached (a
// "last looked up" memo, a per-name index) has to be invalidated by every Remove / Add as well, and
// nothing checks that: the struct may hold targets in that one map only.
func singleRegistry(c *Ctx, rule string) {
	P := c.P
	c.Rule(rule, "type-level: the only field of cache.Cache through whose type a cache.Target can be reached is the registry map Cache.targets (the one Remove deletes from and Add stores into); any other holder of targets - a memo of the last lookup, a secondary index - outlives Remove")
	cn := P.Named("cache", "Cache")
	tn := P.Named("cache", "Target")
	if cn == nil || tn == nil {
		c.Unresolved(rule, "cache.Cache / cache.Target")
		return
	}
	stt, ok := cn.Underlying().(*types.Struct)
	if !ok {
		c.Unresolved(rule, "cache.Cache is not a struct")
		return
	}
	var reaches func(t types.Type, d int) bool
	reaches = func(t types.Type, d int) bool {
		if d > 6 {
			return false
		}
		if types.Identical(t, tn) {
			return true
		}
		switch x := t.(type) {
		case *types.Pointer:
			return reaches(x.Elem(), d+1)
		case *types.Slice:
			return reaches(x.Elem(), d+1)
		case *types.Array:
			return reaches(x.Elem(), d+1)
		case *types.Map:
			return reaches(x.Key(), d+1) || reaches(x.Elem(), d+1)
		case *types.Chan:
			return reaches(x.Elem(), d+1)
		case *types.Named:
			if ta := x.TypeArgs(); ta != nil {
				for i := 0; i < ta.Len(); i++ {
					if reaches(ta.At(i), d+1) {
						return true
					}
				}
			}
			if x.Obj().Pkg() != nil && strings.HasPrefix(x.Obj().Pkg().Path(), modPath) {
				if st, ok := x.Underlying().(*types.Struct); ok && !types.Identical(x, cn) {
					for i := 0; i < st.NumFields(); i++ {
						if reaches(st.Field(i).Type(), d+1) {
							return true
						}
					}
				}
			}
		}
		return false
	}
	holders := 0
	for i := 0; i < stt.NumFields(); i++ {
		f := stt.Field(i)
		if !reaches(f.Type(), 0) {
			continue
		}
		holders++
		_, isMap := f.Type().Underlying().(*types.Map)
		c.Check(vname(f) == "targets" && isMap, rule, "cache.Cache", "field "+f.Name()+" can hold a target", P.Pos(f.Pos()), "type "+types.TypeString(f.Type(), shortQ))
	}
	c.Floor(rule+"/holders", holders, 1)
}

// scanComplete (C17): the loops of the diff classify every request and every target of the two
// configurations - none of them is left early.
func scanComplete(c *Ctx, rule string, hd *ssa.Function) {
	P := c.P
	c.Rule(rule, "handleDiffs (and the unexported helpers of package target it calls): every loop that ranges over the requests or targets of a configuration is left only through its header - no break, no return from inside the loop: a scan that stops at the first request (or target) that needs no action leaves the ones behind it in map order unexamined")
	seen := map[*ssa.Function]bool{hd: true}
	work := []*ssa.Function{hd}
	n := 0
	for len(work) > 0 {
		f := work[0]
		work = work[1:]
		for _, g := range withAnon(f) {
			for _, ci := range callsIn(g) {
				cal := staticCallee(ci.Common())
				if cal != nil && cal.Pkg == hd.Pkg && len(cal.Blocks) > 0 && !seen[cal] && !isExportedFn(cal) {
					seen[cal] = true
					work = append(work, cal)
				}
			}
		}
		for _, b := range f.Blocks {
			for _, in := range b.Instrs {
				nx, ok := in.(*ssa.Next)
				if !ok {
					continue
				}
				rg, ok := nx.Iter.(*ssa.Range)
				if !ok {
					continue
				}
				mt, ok := rg.X.Type().Underlying().(*types.Map)
				if !ok {
					continue
				}
				el := types.TypeString(mt.Elem(), shortQ)
				if !strings.Contains(el, "Target") && !strings.Contains(el, "SubscribeRequest") {
					continue
				}
				n++
				h := nx.Block()
				body := loopBlocks(h)
				bad := ""
				for bb := range body {
					if bb == h {
						continue
					}
					for _, s := range bb.Succs {
						if !body[s] && !panicOnly(s) {
							bad = fmt.Sprintf("block %d leaves the loop for block %d (%s)", bb.Index, s.Index, P.Pos(posOf(s.Instrs[0])))
						}
					}
					if _, isRet := bb.Instrs[len(bb.Instrs)-1].(*ssa.Return); isRet {
						bad = fmt.Sprintf("return inside the loop (block %d)", bb.Index)
					}
				}
				c.Check(bad == "", rule, fnName(f), "loop over "+Expr(rg.X)+" examines every entry", P.Pos(in.Pos()), bad)
			}
		}
	}
	c.Floor(rule+"/loops", n, 3)
}

// nextAtomic (C20): UpdateQueue.Next reads the head, advances it and re-files it inside one critical
// section; Add files a value inside one critical section.
func nextAtomic(c *Ctx, rule string) {
	P := c.P
	c.Rule(rule, "testing/fake/queue.(*UpdateQueue).Next and Add: the queue mutex is taken once and not released before the function returns (one critical section from reading the head to re-filing the advanced value): the generator is shared between the sender and whoever adds values (the client adds the sync marker), and a head read in one critical section and popped in the next pops whatever is first by then")
	fMu := P.Field("testing/fake/queue", "UpdateQueue", "mu")
	if fMu == nil {
		c.Unresolved(rule, "queue.UpdateQueue.mu")
		return
	}
	n := 0
	for _, name := range []string{"Next", "Add"} {
		f := P.Method("testing/fake/queue", "UpdateQueue", name)
		if f == nil {
			c.Unresolved(rule, "queue.(*UpdateQueue)."+name)
			continue
		}
		c.Analysed(fnName(f))
		e := &PPA{MaxVisits: 2, Watch: func(ev *Ev) bool { return isLockOp(ev) && ev.Field == fMu }}
		e.Run(f)
		c.Paths += len(e.Paths)
		for i := range e.Paths {
			p := &e.Paths[i]
			if p.End != "return" {
				continue
			}
			n++
			locks, unlocks, lastUnlock := 0, 0, -1
			for j := range p.Trace {
				if lockOps[p.Trace[j].Label][1] == '+' {
					locks++
				} else {
					unlocks++
					lastUnlock = j
				}
			}
			c.Check(locks == 1 && unlocks == 1 && lastUnlock == len(p.Trace)-1, rule, fnName(f), "one critical section, released only on return", P.Pos(f.Pos()), fmt.Sprintf("%d lock / %d unlock operations; path: %s", locks, unlocks, p.String()))
		}
	}
	c.Floor(rule+"/paths", n, 2)
	// the bucket list and the pending delay are touched only under the queue mutex (construction in New excepted:
	// the object is not yet shared)
	fQ, fDur := P.Field("testing/fake/queue", "UpdateQueue", "q"), P.Field("testing/fake/queue", "UpdateQueue", "duration")
	if fQ == nil || fDur == nil {
		c.Unresolved(rule, "queue.UpdateQueue.q / duration")
		return
	}
	la := NewLockAudit(c, "testing/fake/queue", map[*types.Var]*types.Var{fQ: fMu, fDur: fMu}, 2)
	la.Report(func(kind string) string { return rule })
	c.Check(la.Accesses >= 10, rule, "testing/fake/queue", "guarded accesses analysed", "", fmt.Sprintf("%d accesses of UpdateQueue.q / duration, %d directly under UpdateQueue.mu", la.Accesses, la.Guarded))
}

// configIntact (C20): what the fake target's sender writes into a response before sending it (the
// subscriber's target in the prefix) lands in a message of its own: the configured responses of a fixed
// generator are played again for the next subscriber.
func configIntact(c *Ctx, rule string) {
	P := c.P
	c.Rule(rule, "testing/fake/gnmi.(*Client).processQueue: every store into a gNMI message is made through a response that is a proto.Clone of the configured one or was built afresh (by a function every result of which is a new composite literal whose message-typed fields are new literals too) - never through the configured response or a part shared with it")
	f := P.Method("testing/fake/gnmi", "Client", "processQueue")
	if f == nil {
		c.Unresolved(rule, "testing/fake/gnmi.(*Client).processQueue")
		return
	}
	c.Analysed(fnName(f))
	isMsg := func(t types.Type) bool {
		n, ok := deref(t).(*types.Named)
		return ok && n.Obj().Pkg() != nil && strings.HasSuffix(n.Obj().Pkg().Path(), "proto/gnmi")
	}
	var deepFreshFn func(g *ssa.Function, d int) (bool, string)
	var freshVal func(v ssa.Value, d int) (bool, string)
	freshVal = func(v ssa.Value, d int) (bool, string) {
		if d > 8 {
			return false, "too deep"
		}
		v = unwrap(v)
		switch x := v.(type) {
		case *ssa.Const:
			return true, ""
		case *ssa.Alloc:
			// a composite literal: its message-typed pointer fields must be fresh as well
			if x.Referrers() == nil {
				return true, ""
			}
			for _, r := range *x.Referrers() {
				fa, ok := r.(*ssa.FieldAddr)
				if !ok || fa.Referrers() == nil {
					continue
				}
				for _, rr := range *fa.Referrers() {
					st, ok := rr.(*ssa.Store)
					if !ok || st.Addr != ssa.Value(fa) {
						continue
					}
					if _, isPtr := st.Val.Type().Underlying().(*types.Pointer); !isPtr && !types.IsInterface(st.Val.Type()) {
						continue
					}
					if !isMsg(st.Val.Type()) && !types.IsInterface(st.Val.Type()) {
						continue
					}
					if ok, why := freshVal(st.Val, d+1); !ok {
						return false, "field " + fieldName(fa.X.Type(), fa.Field) + " <- " + why
					}
				}
			}
			return true, ""
		case *ssa.MakeInterface:
			return freshVal(x.X, d+1)
		case *ssa.TypeAssert:
			return freshVal(x.X, d+1)
		case *ssa.Extract:
			return freshVal(x.Tuple, d+1)
		case *ssa.Phi:
			for _, e := range x.Edges {
				if ok, why := freshVal(e, d+1); !ok {
					return false, why
				}
			}
			return true, ""
		case *ssa.Call:
			if calleeName(&x.Call) == "google.golang.org/protobuf/proto.Clone" {
				return true, ""
			}
			if g := staticCallee(&x.Call); g != nil && len(g.Blocks) > 0 && strings.HasPrefix(pkgPathOf(g), modPath) {
				return deepFreshFn(g, d+1)
			}
			return false, "result of " + calleeName(&x.Call)
		}
		return false, Expr(v)
	}
	memo := map[*ssa.Function]bool{}
	deepFreshFn = func(g *ssa.Function, d int) (bool, string) {
		if v, ok := memo[g]; ok {
			return v, fnName(g) + " does not return a fresh message"
		}
		memo[g] = true // recursion: assume
		res, why := true, ""
		instrs(g, func(in ssa.Instruction) {
			ret, ok := in.(*ssa.Return)
			if !ok {
				return
			}
			for _, r := range ret.Results {
				if !isMsg(r.Type()) {
					continue
				}
				if ok, w := freshVal(r, d+1); !ok {
					res, why = false, fnName(g)+" returns "+w
				}
			}
		})
		memo[g] = res
		return res, why
	}
	// root of the object a store goes into
	var roots func(v ssa.Value, d int, out *[]ssa.Value)
	roots = func(v ssa.Value, d int, out *[]ssa.Value) {
		if d > 12 {
			*out = append(*out, v)
			return
		}
		switch x := v.(type) {
		case *ssa.FieldAddr:
			roots(x.X, d+1, out)
		case *ssa.UnOp:
			if x.Op == token.MUL {
				if fa, ok := x.X.(*ssa.FieldAddr); ok {
					roots(fa.X, d+1, out) // a pointer loaded from a field: part of that object
					return
				}
			}
			*out = append(*out, v)
		case *ssa.Call:
			if g := staticCallee(&x.Call); g != nil && isProtoGetter(g) && len(x.Call.Args) == 1 {
				roots(x.Call.Args[0], d+1, out)
				return
			}
			*out = append(*out, v)
		case *ssa.TypeAssert:
			if _, isCall := unwrap(x.X).(*ssa.Call); isCall {
				*out = append(*out, v)
				return
			}
			roots(x.X, d+1, out)
		case *ssa.Extract:
			*out = append(*out, v)
		case *ssa.Phi:
			for _, e := range x.Edges {
				roots(e, d+1, out)
			}
		default:
			*out = append(*out, v)
		}
	}
	// the sender and the unexported helpers of the package it hands the response to (the stamping split off
	// into its own function): a helper's message parameter is judged by what its callers in this set pass
	unit := []*ssa.Function{f}
	inUnit := map[*ssa.Function]bool{f: true}
	for i := 0; i < len(unit); i++ {
		for _, g := range withAnon(unit[i]) {
			for _, ci := range callsIn(g) {
				cal := staticCallee(ci.Common())
				if cal != nil && cal.Pkg == f.Pkg && len(cal.Blocks) > 0 && !inUnit[cal] && !isExportedFn(cal) {
					takesMsg := false
					for _, p := range cal.Params {
						if isMsg(p.Type()) {
							takesMsg = true
						}
					}
					if takesMsg {
						inUnit[cal] = true
						unit = append(unit, cal)
					}
				}
			}
		}
	}
	var freshRoot func(r ssa.Value, d int) (bool, string)
	freshRoot = func(r ssa.Value, d int) (bool, string) {
		if pp, ok := r.(*ssa.Parameter); ok && d < 4 && inUnit[pp.Parent()] && pp.Parent() != f {
			idx := -1
			for i, q := range pp.Parent().Params {
				if q == pp {
					idx = i
				}
			}
			sites := 0
			for _, h := range unit {
				for _, g := range withAnon(h) {
					for _, ci := range callsIn(g) {
						if staticCallee(ci.Common()) != pp.Parent() || idx < 0 || idx >= len(ci.Common().Args) {
							continue
						}
						sites++
						var rs []ssa.Value
						roots(ci.Common().Args[idx], 0, &rs)
						for _, rr := range rs {
							if ok, w := freshRoot(rr, d+1); !ok {
								return false, "caller " + fnName(g) + " passes " + w
							}
						}
					}
				}
			}
			if sites > 0 {
				return true, ""
			}
		}
		return freshVal(r, 0)
	}
	n := 0
	for _, h := range unit {
		for _, g := range withAnon(h) {
			instrs(g, func(in ssa.Instruction) {
				st, ok := in.(*ssa.Store)
				if !ok {
					return
				}
				fa, ok := st.Addr.(*ssa.FieldAddr)
				if !ok || !isMsg(fa.X.Type()) {
					return
				}
				// building a new literal is not a store into an existing message
				if _, isAlloc := fa.X.(*ssa.Alloc); isAlloc {
					return
				}
				n++
				var rs []ssa.Value
				roots(fa.X, 0, &rs)
				okAll, why := len(rs) > 0, ""
				for _, r := range rs {
					if ok, w := freshRoot(r, 0); !ok {
						okAll, why = false, w
					}
				}
				c.Check(okAll, rule, fnName(g), "store into "+qualField(fa)+" goes into a message of the sender's own", P.Pos(st.Pos()), why)
			})
		}
	}
	c.Floor(rule+"/stores", n, 2)
}
