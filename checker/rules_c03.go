package main

import (
	"fmt"
	"go/token"
	"go/types"
	"strings"

	"golang.org/x/tools/go/ssa"
)

func init() {
	register(&propDef{
		ID:       "C03",
		Explain:  "Decided (structural necessary conditions of replay equivalence): every accepted tree write in Target.GnmiUpdate is announced to the feed callback with the leaf it produced before the next write / exit, and every leaf returned by gnmiRemove is announced from an unconditional loop body; gnmiUpdate withholds a result (nil leaf, nil error) iff the leaf exists, the update is not atomic, value.Equal says unchanged and emulation is on — and still moves the stored value; a returned leaf is the GetLeaf result of the written path, after the write; the caller's notification is written only by the nil/restore pair of the multi arm and the restore runs on every exit; no retained append on a foreign or forked base in cache/subscribe/match/path/client-gnmi/ctree (slice aliasing); multi notifications process all updates before any delete, each on a proto.Clone; value.Equal is sound arm by arm; Reset/Remove announce their deletes. Also decided: completeness of the combined-notification arm (both loops left only through their headers; the delete loop is on every path from the update loop to a return); Reset announces exactly the root it deleted, with path [*] (compared on every explored path, helpers inlined). Round-3 additions: the (updates, deletes) dispatch table; the tree-delete clauses a conditional delete relies on to unlink exactly what it announces (C09 select / prune-guard / conditional, borrowed). Round-4 addition: the delete path announced for a removed leaf is prefix ++ update path in the encoding that carries the elements, replayed for every pure encoding (Elem/Element, elements in prefix/path/both, atomic or not). Round-5 addition: Cache.Reset runs Target.Reset under Cache.mu, so a Remove cannot put its whole-target delete in the middle of the announcements of a reset. Round-7 addition: a path of gnmiUpdate that wrote the tree returns a nil error (an error makes the caller skip the announcement of a value that is already stored).",
		NotCover: "replay equivalence over histories as such; that delete notifications carry the right path beyond the aliasing rule and the composition table of toDeleteNotification (path elements with keys are taken as opaque units); atomic containers 'never partially visible' beyond one write + one announcement",
		Run:      runC03,
	})
}

func runC03(c *Ctx) {
	P := c.P
	a := resolveCache(c, "C03.anchors")
	if !a.ok {
		return
	}
	GU := a.GnmiUpdate
	gu := a.gnmiUpdate
	gr := a.gnmiRemove
	c.Analysed(fnName(GU))
	c.Analysed(fnName(gu))
	c.Rule("C03.announce", "Target.GnmiUpdate: after every gnmiUpdate call that returned (leaf != nil, err == nil) the next feed-relevant event on every path is a call of the client field with exactly that leaf; the leaves returned by every gnmiRemove call are ranged and passed to the client from a loop body without conditions")
	c.Rule("C03.withhold", "gnmiUpdate (leaf exists, newer timestamp, accepted): returns (nil, nil) iff !atomic && value.Equal && eventDriven, and that path still contains Leaf.Update(n); all other accepted paths return the looked-up leaf")
	c.Rule("C03.write-then-return", "a path of gnmiUpdate returning a non-nil leaf contains Leaf.Update or Tree.Add earlier on the path, and the returned leaf is a GetLeaf result for the same path value as the write; a path that wrote the tree returns a nil error (an error makes the caller skip the announcement of a value that is already stored), the failure of the Add itself excepted")
	c.Rule("C03.input-intact", "in package cache the only stores through a *pb.Notification/Path/Update that the function does not own are `n.Update = nil; n.Delete = nil` in the multi arm of Target.GnmiUpdate, and on every path that executes them the last stores to those fields restore the values read before")
	c.Rule("C03.alias", "no append whose result is retained has a foreign base (a slice read out of an object the function does not own) or a forked base (a slice with possible spare capacity appended to more than once); packages cache, path, ctree, value (subscribe/match are audited under C06, client/gnmi under C19)")
	c.Rule("C03.multi", "multi arm of Target.GnmiUpdate: every gnmiUpdate call precedes every gnmiRemove call on every path, and each operates on a proto.Clone of the notification")

	clientCall := func(ev *Ev) bool {
		return strings.HasPrefix(ev.Label, "call:dyn:") && loadOfField(ev.Fn.V, a.fClient)
	}
	isGU := func(ev *Ev) bool { return ev.Label == "call:"+fnName(gu) }
	isGR := func(ev *Ev) bool { return ev.Label == "call:"+fnName(gr) }

	// ---- announce
	{
		cls := func(e *PPA, st *State, rv RV) string {
			rv = e.Resolve(st, rv)
			if ex, ok := rv.V.(*ssa.Extract); ok {
				if call, ok := ex.Tuple.(*ssa.Call); ok && staticCallee(&call.Call) == gu {
					if ex.Index == 0 {
						return "LEAF"
					}
					return "GUERR"
				}
			}
			return ""
		}
		at := &Atoms{Class: cls, Bool: map[string]bool{"LEAF": true, "GUERR": false}}
		mv := 3
		e := &PPA{Cond: at.Cond, MaxVisits: mv, Inline: func(fr *Frame, call ssa.CallInstruction, callee *ssa.Function) bool { return callee.Parent() == GU },
			Watch: func(ev *Ev) bool { return clientCall(ev) || isGU(ev) || isGR(ev) }}
		e.Run(GU)
		c.Paths += len(e.Paths)
		c.Scen++
		if e.Overflow {
			c.Unknown("C03.announce", fnName(GU), "paths", "", "overflow")
		}
		sites := map[ssa.Instruction]bool{}
		for i := range e.Paths {
			p := &e.Paths[i]
			for j := range p.Trace {
				ev := &p.Trace[j]
				if !isGU(ev) {
					continue
				}
				sites[ev.In] = true
				ok := j+1 < len(p.Trace) && clientCall(&p.Trace[j+1]) && len(p.Trace[j+1].Args) == 1
				if ok {
					ex, isEx := p.Trace[j+1].Args[0].V.(*ssa.Extract)
					ok = isEx && ex.Index == 0 && ex.Tuple == ssa.Value(ev.In.(*ssa.Call))
				}
				c.Check(ok, "C03.announce", fnName(GU), "accepted write announced: "+Expr(ev.In.(*ssa.Call)), P.Pos(ev.In.Pos()), "path: "+p.String())
			}
		}
		c.Floor("C03.announce/gnmiUpdate-sites", len(sites), 3)
		// gnmiRemove results: unconditional loop body
		nR := 0
		selfAnnounce := gr.Signature.Results().Len() == 0
		if selfAnnounce {
			// gnmiRemove hands the removed leaves to the client itself: replayed with one removed leaf, every path
			// that walks the tree calls the client exactly once, with an element of the collected leaves
			c.Analysed(fnName(gr))
			isLeaves := func(v ssa.Value) bool {
				u, ok := v.(*ssa.UnOp)
				if !ok || u.Op != token.MUL {
					return false
				}
				al, ok := u.X.(*ssa.Alloc)
				if !ok {
					return false
				}
				sl, ok := deref(al.Type()).Underlying().(*types.Slice)
				return ok && isNamed(sl.Elem(), "ctree", "Leaf")
			}
			e := &PPA{MaxVisits: 3,
				IntHook: func(e *PPA, st *State, rv RV) (int64, bool) {
					if call, ok := rv.V.(*ssa.Call); ok {
						if la, ok := lenArg(call); ok && isLeaves(e.Resolve(st, RV{rv.F, la}).V) {
							return 1, true
						}
					}
					return 0, false
				},
				Watch: func(ev *Ev) bool { return clientCall(ev) || ev.Label == "call:(*ctree.Tree).WalkDeleted" }}
			e.Run(gr)
			c.Paths += len(e.Paths)
			n := 0
			for i := range e.Paths {
				p := &e.Paths[i]
				if p.End != "return" || !p.Has(lbl("call:(*ctree.Tree).WalkDeleted")) {
					continue
				}
				n++
				k := p.Count(clientCall)
				okArg := false
				if ci := p.Index(0, clientCall); ci >= 0 && len(p.Trace[ci].Args) == 1 {
					if u, ok := p.Trace[ci].Args[0].V.(*ssa.UnOp); ok {
						if ia, ok := u.X.(*ssa.IndexAddr); ok && isLeaves(ia.X) {
							okArg = true
						}
					}
				}
				c.Check(k == 1 && okArg, "C03.announce", fnName(gr), "removed leaves announced by gnmiRemove itself (one removed leaf => one client call with it)", P.Pos(gr.Pos()), fmt.Sprintf("%d client calls, argument is an element of the collected leaves=%v; path: %s", k, okArg, p.String()))
			}
			c.Floor("C03.announce/gnmiRemove-self", n, 1)
		}
		var unitCalls []ssa.CallInstruction
		for _, uf := range unitFns(P, GU, gu, gr) {
			unitCalls = append(unitCalls, callsIn(uf)...)
		}
		for _, ci := range unitCalls {
			if staticCallee(ci.Common()) != gr {
				continue
			}
			// a site inside a helper counts once for every place the helper is used (one shared
			// "apply this delete and announce what it removed" function called from both arms)
			uses := 0
			if host := ci.Parent(); host != GU && host.Parent() == nil {
				for _, cc := range unitCalls {
					if staticCallee(cc.Common()) == host {
						uses++
					}
				}
			}
			if uses < 1 {
				uses = 1
			}
			nR += uses
			if selfAnnounce {
				continue
			}
			call := ci.(*ssa.Call)
			ok := false
			detail := "result not ranged into the client"
			for _, cc := range unitCalls {
				com := cc.Common()
				if com.IsInvoke() || staticCallee(com) != nil || !loadOfField(com.Value, a.fClient) || len(com.Args) != 1 {
					continue
				}
				// argument = element of this call's result
				u, isU := com.Args[0].(*ssa.UnOp)
				if !isU {
					continue
				}
				ia, isIA := u.X.(*ssa.IndexAddr)
				if !isIA || ia.X != ssa.Value(call) {
					continue
				}
				// loop body: the block's single predecessor is the loop header and it jumps back to it
				b := cc.Block()
				if len(b.Preds) == 1 && len(b.Succs) == 1 && b.Succs[0] == b.Preds[0] {
					ok = true
					detail = "loop body is a single unconditional block calling the client with every element"
				} else {
					detail = "the client call is conditional inside the loop"
				}
			}
			c.Check(ok, "C03.announce", fnName(GU), "removed leaves announced: "+Expr(call), P.Pos(call.Pos()), detail)
		}
		c.Floor("C03.announce/gnmiRemove-sites", nR, 2)
	}
	// ---- withhold + write-then-return
	{
		fn := fnName(gu)
		pos := P.Pos(gu.Pos())
		nParam := ssa.Value(param(gu, 1))
		for _, atc := range []bool{false, true} {
			for _, veq := range []bool{false, true} {
				for _, ed := range []bool{false, true} {
					sc := scenario{
						name: fmt.Sprintf("accepted update of an existing leaf: atomic=%v value-equal=%v emulation=%v", atc, veq, ed),
						b:    map[string]bool{"EXISTS": true, "OKTYPE": true, "META": false, "AT": atc, "VEQ": veq, "ED": ed},
						i:    map[string]int64{"THR": 0},
						r:    map[[2]string]int{{"NEW", "OLD"}: 1},
					}
					e := runGnmiUpdate(c, a, sc, 2)
					want := !atc && veq && ed
					n := 0
					for i := range e.Paths {
						p := &e.Paths[i]
						if p.End != "return" || !p.Has(lbl("call:(*ctree.Tree).GetLeaf")) || len(p.Rets) != 2 {
							continue
						}
						n++
						r0, r1 := retClass(p.Rets[0]), retClass(p.Rets[1])
						ui := p.Index(0, isLeafUpdate)
						upd := ui >= 0 && p.Trace[ui].Args[1].V == nParam
						var ok bool
						if want {
							ok = r0 == "nil" && r1 == "nil" && upd
						} else {
							ok = r0 == "call:(*ctree.Tree).GetLeaf" && r1 == "nil" && upd
						}
						c.Check(ok, "C03.withhold", fn, sc.name, pos, fmt.Sprintf("withheld expected=%v; returns (%s, %s), Leaf.Update(n)=%v", want, r0, r1, upd))
					}
					if n == 0 {
						c.Unknown("C03.withhold", fn, sc.name, pos, "no path")
					}
				}
			}
		}
		// write-then-return over all scenarios (no atoms fixed)
		e := runGnmiUpdate(c, a, scenario{name: "any"}, 2)
		n := 0
		for i := range e.Paths {
			p := &e.Paths[i]
			if p.End != "return" || len(p.Rets) != 2 || retClass(p.Rets[0]) == "nil" {
				continue
			}
			n++
			call, isCall := p.Rets[0].V.(*ssa.Call)
			okLeaf := isCall && calleeName(&call.Call) == "(*ctree.Tree).GetLeaf"
			wi := p.Index(0, isTreeWrite)
			okWrite := wi >= 0
			samePath := false
			if okLeaf && okWrite {
				w := &p.Trace[wi]
				if isTreeAdd(w) {
					// compare the path operands as resolved on this path (the path may be computed by a helper)
					samePath = len(w.Args) >= 2 && w.Args[1].V == call.Call.Args[1]
					for j := range p.Trace {
						if p.Trace[j].In == ssa.Instruction(call) && len(p.Trace[j].Args) >= 2 && len(w.Args) >= 2 {
							samePath = samePath || p.Trace[j].Args[1] == w.Args[1]
						}
					}
				} else {
					// Leaf.Update on the very leaf that is returned
					samePath = w.Args[0].V == ssa.Value(call)
				}
			}
			c.Check(okLeaf && okWrite && samePath, "C03.write-then-return", fn, "returned leaf is the written leaf", pos, fmt.Sprintf("leaf from GetLeaf=%v, write before return=%v, same path/leaf=%v; path: %s", okLeaf, okWrite, samePath, p.String()))
		}
		c.Floor("C03.write-then-return/paths", n, 2)
		// ... and a path that wrote the tree does not report failure: the caller announces nothing for an error,
		// so the stored value would never reach the feed
		nw := 0
		for i := range e.Paths {
			p := &e.Paths[i]
			if p.End != "return" || len(p.Rets) != 2 {
				continue
			}
			wi := p.Index(0, isTreeWrite)
			if wi < 0 {
				continue
			}
			nw++
			ok := retClass(p.Rets[1]) == "nil"
			if !ok && isTreeAdd(&p.Trace[wi]) {
				// the failure of the Add itself: nothing was stored
				if v, isV := p.Trace[wi].In.(ssa.Value); isV && p.Rets[1].V == v {
					ok = true
				}
			}
			c.Check(ok, "C03.write-then-return", fn, "no error is returned once the tree was written", pos, fmt.Sprintf("returns error %s after %s; path: %s", retClass(p.Rets[1]), p.Trace[wi].Label, p.String()))
		}
		c.Floor("C03.write-then-return/writing-paths", nw, 2)
	}
	// ---- input intact
	{
		fUpd := P.Field("proto/gnmi", "Notification", "Update")
		fDel := P.Field("proto/gnmi", "Notification", "Delete")
		nStores := 0
		for _, f := range P.PkgFuncs("cache") {
			if P.InTestFile(f) {
				continue
			}
			instrs(f, func(in ssa.Instruction) {
				st, ok := in.(*ssa.Store)
				if !ok {
					return
				}
				root, through := addrRoot(st.Addr)
				if !through {
					return
				}
				foreign := false
				switch r := root.(type) {
				case *ssa.Parameter:
					foreign = isPBType(r.Type())
				case *ssa.FreeVar:
					foreign = isPBType(deref(r.Type())) || isPBType(r.Type())
				case *ssa.Call:
					// reading a stored notification out of the tree and writing into it
					n := calleeName(&r.Call)
					foreign = n == "(*ctree.Leaf).Value" || n == "(*ctree.Tree).GetLeafValue" || (isProtoGetterCall(r) && true)
				}
				if !foreign {
					return
				}
				nStores++
				fl := fieldOf(st.Addr)
				allowed := onlyFrom(P, f, GU, 0) && (fl == fUpd || fl == fDel)
				c.Check(allowed, "C03.input-intact", fnName(f), "store through caller-owned message: "+Expr(st.Addr), P.Pos(in.Pos()), "only the nil/restore pair of the multi arm may write the caller's notification")
			})
		}
		c.Floor("C03.input-intact/stores", nStores, 4)
		// restore on every path
		e := &PPA{MaxVisits: 2, Inline: func(fr *Frame, call ssa.CallInstruction, callee *ssa.Function) bool { return callee.Parent() == GU },
			Watch: func(ev *Ev) bool {
				return ev.Label == "store:gnmi.Notification.Update" || ev.Label == "store:gnmi.Notification.Delete"
			}}
		e.Run(GU)
		c.Paths += len(e.Paths)
		nP := 0
		for i := range e.Paths {
			p := &e.Paths[i]
			if len(p.Trace) == 0 {
				continue
			}
			// only stores whose base is the parameter n
			var lastU, lastD *Ev
			nil1 := false
			for j := range p.Trace {
				ev := &p.Trace[j]
				if ev.Base.V != ssa.Value(param(GU, 1)) {
					continue
				}
				if isNilConst(ev.Args[1].V) {
					nil1 = true
				}
				if ev.Label == "store:gnmi.Notification.Update" {
					lastU = ev
				} else {
					lastD = ev
				}
			}
			if !nil1 {
				continue
			}
			nP++
			okU := lastU != nil && isCallNamed(lastU.Args[1].V, "(*proto/gnmi.Notification).GetUpdate") || lastU != nil && loadOfField(lastU.Args[1].V, fUpd)
			okD := lastD != nil && isCallNamed(lastD.Args[1].V, "(*proto/gnmi.Notification).GetDelete") || lastD != nil && loadOfField(lastD.Args[1].V, fDel)
			c.Check(okU && okD && p.End == "return", "C03.input-intact", fnName(GU), "caller's Update/Delete restored on every exit", P.Pos(GU.Pos()), fmt.Sprintf("final Update=%s final Delete=%s; path: %s", evVal(lastU), evVal(lastD), p.String()))
		}
		c.Floor("C03.input-intact/multi-paths", nP, 1)
	}
	// ---- alias
	aliasRule(c, "C03.alias", []string{"cache", "path", "ctree", "value"})
	resetExcl(c, "C03.reset-excl")
	// ---- multi
	{
		e := &PPA{MaxVisits: 3, Watch: func(ev *Ev) bool { return isGU(ev) || isGR(ev) }}
		e.Run(GU)
		c.Paths += len(e.Paths)
		nM := 0
		for i := range e.Paths {
			p := &e.Paths[i]
			if p.Count(isGU)+p.Count(isGR) < 2 {
				continue
			}
			nM++
			lastU, firstR := -1, -1
			clone := true
			for j := range p.Trace {
				ev := &p.Trace[j]
				if isGU(ev) {
					lastU = j
				}
				if isGR(ev) && firstR < 0 {
					firstR = j
				}
				arg := ev.Args[1].V
				if ta, ok := arg.(*ssa.TypeAssert); ok {
					arg = ta.X
				}
				if !isCallNamed(arg, "google.golang.org/protobuf/proto.Clone") {
					clone = false
				}
			}
			ok := (firstR < 0 || lastU < firstR) && clone
			c.Check(ok, "C03.multi", fnName(GU), "updates before deletes, each on a clone", P.Pos(GU.Pos()), fmt.Sprintf("last update@%d first delete@%d all-on-clones=%v", lastU, firstR, clone))
		}
		c.Floor("C03.multi/paths", nM, 2)
	}
	multiComplete(c, a, "C03.multi-complete")
	c.Borrow("C09", map[string]string{"C09.prune-guard": "C03.delete-prune", "C09.select": "C03.delete-select", "C09.conditional": "C03.delete-conditional"}, "a conditional delete must unlink exactly the leaves it hands to the callback that announces them; a subtree pruned while it still holds leaves disappears from queries without a feed entry")
	gnmiDispatch(c, a, "C03.dispatch")
	equalArms(c, "C03.equal-sound", false)
	deletePathTable(c, "C03.delete-path")
	resetRemoveAnnounce(c, "C03.reset-announce")
}

func evVal(ev *Ev) string {
	if ev == nil {
		return "<none>"
	}
	return Expr(ev.Args[1].V)
}

func isProtoGetterCall(c *ssa.Call) bool {
	f := staticCallee(&c.Call)
	return f != nil && isProtoGetter(f)
}

func isPBType(t interface{ String() string }) bool {
	return strings.Contains(t.String(), modPath+"/proto/gnmi.")
}

// addrRoot follows an address through field/index/getter chains to the object it lies in.
// through reports whether at least one indirection through a pointer was made.
func addrRoot(addr ssa.Value) (ssa.Value, bool) {
	v := addr
	through := false
	for i := 0; i < 16; i++ {
		switch x := v.(type) {
		case *ssa.FieldAddr:
			v = x.X
			through = true
		case *ssa.IndexAddr:
			v = x.X
		case *ssa.UnOp:
			if x.Op != token.MUL {
				return v, through
			}
			// load of a pointer stored in a local cell
			if al, ok := x.X.(*ssa.Alloc); ok {
				if s := singleStore(al); s != nil {
					v = s
					continue
				}
				return al, false
			}
			v = x.X
		case *ssa.Call:
			if isProtoGetterCall(x) && len(x.Call.Args) > 0 {
				v = x.Call.Args[0]
				through = true
				continue
			}
			return v, through
		case *ssa.TypeAssert:
			v = x.X
		case *ssa.Extract:
			v = x.Tuple
		default:
			return v, through
		}
	}
	return v, through
}

func aliasRule(c *Ctx, rule string, pkgs []string) {
	P := c.P
	au := NewAliasAudit(P)
	fs := au.Audit(pkgs)
	for _, f := range fs {
		c.Bad(rule, fnName(f.Fn), f.Shape+" base: "+Expr(f.Call), P.Pos(f.Call.Pos()), f.Detail)
	}
	for k := range au.Assume {
		c.Assumption(k)
	}
	c.Check(len(au.Owned) > 0, rule, strings.Join(pkgs, ","), "positive examples: retained appends on owned bases are recognised", "", fmt.Sprintf("%d owned retained appends", len(au.Owned)))
	c.OK(rule, strings.Join(pkgs, ","), "appends audited", "", fmt.Sprintf("%d append sites, %d with retained results, %d findings", au.Appends, au.Retained, len(fs)))
	c.Floor(rule+"/appends", au.Appends, 5)
	c.Sites += au.Appends
}

// resetRemoveAnnounce: Target.Reset and Cache.Remove announce what they delete (shared by C03 and C14).
func resetRemoveAnnounce(c *Ctx, rule string) {
	P := c.P
	reset := P.Method("cache", "Target", "Reset")
	remove := P.Method("cache", "Cache", "Remove")
	fClient := P.Field("cache", "Target", "client")
	fCClient := P.Field("cache", "Cache", "client")
	fTargets := P.Field("cache", "Cache", "targets")
	fCMu := P.Field("cache", "Cache", "mu")
	if reset == nil || remove == nil || fClient == nil || fCClient == nil || fTargets == nil || fCMu == nil {
		c.Unresolved(rule, "cache.(*Target).Reset / (*Cache).Remove / client fields")
		return
	}
	c.Rule(rule, "Target.Reset: resetTimestamp, meta.Clear and updateMeta precede the loop; for every child root other than metadata.Root the loop calls Tree.Delete([root]) and the client with DetachedLeaf(deleteNoti(name, root, [*])) built from the same root; the only skipped root is the metadata root. Cache.Remove: under c.mu (W), delete(targets, target) and a client call with deleteNoti(target, \"\", [*]) on every path")
	c.Analysed(fnName(reset))
	c.Analysed(fnName(remove))
	metaRoot := ""
	if sp := P.pkg("metadata"); sp != nil {
		if nc, ok := sp.Members["Root"].(*ssa.NamedConst); ok {
			metaRoot, _ = constString(nc.Value)
		}
	}
	isDelete := func(ev *Ev) bool { return ev.Label == "call:(*ctree.Tree).Delete" }
	isClient := func(ev *Ev) bool { return strings.HasPrefix(ev.Label, "call:dyn:") && loadOfField(ev.Fn.V, fClient) }
	rootsChecked := 0
	for _, isMeta := range []bool{false, true} {
		e := &PPA{MaxVisits: 3, TraceBranches: false,
			Cond: func(e *PPA, st *State, rv RV) (bool, bool) {
				if b, ok := rv.V.(*ssa.BinOp); ok && (b.Op == token.EQL || b.Op == token.NEQ) {
					for _, pr := range [][2]ssa.Value{{b.X, b.Y}, {b.Y, b.X}} {
						if s, ok := constString(pr[1]); ok && s == metaRoot {
							return isMeta == (b.Op == token.EQL), true
						}
					}
				}
				return false, false
			},
			Watch: func(ev *Ev) bool {
				return isDelete(ev) || isClient(ev) || ev.Label == "call:(*cache.Target).resetTimestamp" || ev.Label == "call:(*metadata.Metadata).Clear" ||
					ev.Label == "call:(*cache.Target).updateMeta" || ev.Label == "call:cache.deleteNoti" || ev.Label == "call:(*ctree.Tree).Children" || ev.Label == "call:ctree.DetachedLeaf" || ev.Label == "builtin:delete"
			}}
		e.Run(reset)
		c.Paths += len(e.Paths)
		c.Scen++
		n := 0
		for i := range e.Paths {
			p := &e.Paths[i]
			if p.End != "return" {
				continue
			}
			n++
			ch := p.Index(0, lbl("call:(*ctree.Tree).Children"))
			pre := p.Index(0, lbl("call:(*cache.Target).resetTimestamp")) >= 0 && p.Index(0, lbl("call:(*metadata.Metadata).Clear")) >= 0 && p.Index(0, lbl("call:(*cache.Target).updateMeta")) >= 0 &&
				p.Index(0, lbl("call:(*cache.Target).updateMeta")) < ch
			nDel, nCl := p.Count(isDelete), p.Count(isClient)
			ok := pre
			detail := ""
			rootDetail := ""
			// the metadata root taken out of the enumerated copy before the loop (delete(roots, metadata.Root)):
			// the loop never meets it, the "root is the metadata root" replay is the other one
			metaRemoved := p.Has(func(ev *Ev) bool {
				if ev.Label != "builtin:delete" || len(ev.Args) < 2 {
					return false
				}
				s, okc := constString(ev.Args[1].V)
				return okc && s == metaRoot && isCallNamed(ev.Args[0].V, "(*ctree.Tree).Children")
			})
			if isMeta && !metaRemoved {
				ok = ok && nDel == 0 && nCl == 0
				detail = "metadata root is skipped"
			} else {
				ok = ok && nDel == nCl
				// each client call announces the root that was deleted just before
				for j := range p.Trace {
					if !isClient(&p.Trace[j]) {
						continue
					}
					// preceding deleteNoti call's root argument == preceding Delete's path element
					dn := -1
					dl := -1
					for k := j - 1; k >= 0; k-- {
						if dn < 0 && p.Trace[k].Label == "call:cache.deleteNoti" {
							dn = k
						}
						if dl < 0 && isDelete(&p.Trace[k]) {
							dl = k
						}
					}
					if dn < 0 || dl < 0 || dl > dn {
						ok = false
						continue
					}
					root := p.Trace[dn].Args[1]
					// deleted path is a one-element literal holding the same root
					els := p.Trace[dl].Elems[1]
					rootsChecked++
					if len(els) != 1 || !(els[0] == root || sameElemLoad(els[0].V, root.V)) {
						ok = false
						rootDetail = fmt.Sprintf("; Delete(%s) announced as deleteNoti(…, %s, …)", Expr(p.Trace[dl].Args[1].V), Expr(root.V))
					}
					// the announced paths are the literal ["*"]
					if pe := p.Trace[dn].Elems[2]; len(pe) != 1 || func() bool { s, okc := constString(pe[0].V); return !okc || s != "*" }() {
						ok = false
						rootDetail += "; announced path is not [*]"
					}
				}
				detail = fmt.Sprintf("deletes=%d announcements=%d%s", nDel, nCl, rootDetail)
			}
			c.Check(ok, rule, fnName(reset), fmt.Sprintf("every non-meta root deleted and announced (root is metadata=%v)", isMeta), P.Pos(reset.Pos()), detail+"; path: "+p.String())
		}
		c.Floor(fmt.Sprintf("%s/reset-paths(meta=%v)", rule, isMeta), n, 1)
	}
	c.Check(rootsChecked > 0, rule, fnName(reset), "the announced root is the deleted root", P.Pos(reset.Pos()), fmt.Sprintf("%d announcement(s) on the explored paths compared with the preceding Delete", rootsChecked))
	// Cache.Remove
	{
		e := &PPA{Watch: func(ev *Ev) bool {
			return isLockOp(ev) || ev.Label == "builtin:delete" || ev.Label == "call:cache.deleteNoti" || (strings.HasPrefix(ev.Label, "call:dyn:") && loadOfField(ev.Fn.V, fCClient))
		}}
		e.Run(remove)
		c.Paths += len(e.Paths)
		n := 0
		for i := range e.Paths {
			p := &e.Paths[i]
			n++
			li := p.Index(0, func(ev *Ev) bool { return ev.Label == "call:(*sync.RWMutex).Lock" && ev.Field == fCMu })
			ui := p.Index(li+1, func(ev *Ev) bool { return ev.Label == "call:(*sync.RWMutex).Unlock" && ev.Field == fCMu })
			de := p.Index(0, func(ev *Ev) bool { return ev.Label == "builtin:delete" && ev.Field == fTargets })
			cl := p.Index(0, func(ev *Ev) bool { return strings.HasPrefix(ev.Label, "call:dyn:") })
			dn := p.Index(0, lbl("call:cache.deleteNoti"))
			okArgs := false
			if dn >= 0 {
				ev := &p.Trace[dn]
				s, isS := constString(ev.Args[1].V)
				okArgs = ev.Args[0].V == ssa.Value(param(remove, 1)) && isS && s == ""
			}
			ok := li >= 0 && li < de && de < cl && cl < ui && okArgs && de >= 0
			c.Check(ok, rule, fnName(remove), "Remove forgets the target, then announces the whole-target delete, under the write lock", P.Pos(remove.Pos()), fmt.Sprintf("lock@%d delete@%d announce@%d unlock@%d args-ok=%v; path: %s", li, de, cl, ui, okArgs, p.String()))
		}
		c.Floor(rule+"/remove-paths", n, 1)
	}
}

// multiComplete: in the arm of Target.GnmiUpdate that splits a combined
// notification, every update and every delete is applied whatever happened to
// the others (shared by C02 and C03).  Control-flow rule:
//   - the loop that calls gnmiUpdate and the loop that calls gnmiRemove are
//     left only through their headers (no return/break out of a body);
//   - every path from the update loop to a return passes the header of the
//     delete loop (must-pass-through).
func multiComplete(c *Ctx, a *cacheAnchors, rule string) {
	P := c.P
	c.Rule(rule, "combined notifications: the function that loops over gnmiUpdate and gnmiRemove leaves either loop only through its header, and every path from the update loop to a return passes the header of the delete loop (a rejected update neither stops the remaining updates nor skips the deletes)")
	// the function holding both loops: GnmiUpdate or a same-package helper it delegates to
	var cands []*ssa.Function
	seen := map[*ssa.Function]bool{a.GnmiUpdate: true}
	work := []*ssa.Function{a.GnmiUpdate}
	for len(work) > 0 {
		f := work[0]
		work = work[1:]
		cands = append(cands, f)
		for _, g := range withAnon(f) {
			for _, ci := range callsIn(g) {
				cal := staticCallee(ci.Common())
				if cal != nil && cal.Pkg == a.GnmiUpdate.Pkg && len(cal.Blocks) > 0 && !seen[cal] && cal != a.gnmiUpdate && cal != a.gnmiRemove {
					seen[cal] = true
					work = append(work, cal)
				}
			}
		}
	}
	// a same-package helper that applies one update / one delete (calls gnmiUpdate / gnmiRemove itself)
	// stands for that call in the loop of its caller
	wraps := func(g, target *ssa.Function) bool {
		if g == nil || g == target || g.Pkg != a.GnmiUpdate.Pkg || len(g.Blocks) == 0 {
			return g == target
		}
		for _, h := range withAnon(g) {
			for _, ci := range callsIn(h) {
				if staticCallee(ci.Common()) == target {
					return true
				}
			}
		}
		return false
	}
	found := 0
	for _, f := range cands {
		var hu, hd *ssa.BasicBlock
		for _, ci := range callsIn(f) {
			cal := staticCallee(ci.Common())
			if cal == nil || cal == f {
				continue
			}
			if wraps(cal, a.gnmiUpdate) {
				if h := loopHeaderOf(ci.Block()); h != nil {
					hu = h
				}
			}
			if wraps(cal, a.gnmiRemove) {
				if h := loopHeaderOf(ci.Block()); h != nil {
					hd = h
				}
			}
		}
		if hu == nil && hd == nil {
			continue
		}
		if hu == nil || hd == nil {
			c.Unknown(rule, fnName(f), "update loop and delete loop of the combined arm", P.Pos(f.Pos()), "only one of the two loops is in this function")
			continue
		}
		found++
		c.Analysed(fnName(f))
		for _, l := range []struct {
			name string
			h    *ssa.BasicBlock
		}{{"update loop", hu}, {"delete loop", hd}} {
			body := loopBlocks(l.h)
			bad := ""
			for b := range body {
				if b == l.h {
					continue
				}
				for _, s := range b.Succs {
					if !body[s] && !panicOnly(s) {
						bad = fmt.Sprintf("block %d (%s) leaves the loop to block %d (%s)", b.Index, b.Comment, s.Index, s.Comment)
					}
				}
			}
			c.Check(bad == "", rule, fnName(f), l.name+" is left only through its header", P.Pos(firstPos(l.h)), bad)
		}
		// must-pass-through: from the update loop header, with the delete loop header removed, no return is reachable
		reach := map[*ssa.BasicBlock]bool{}
		var dfs func(b *ssa.BasicBlock)
		dfs = func(b *ssa.BasicBlock) {
			if reach[b] || b == hd {
				return
			}
			reach[b] = true
			for _, s := range b.Succs {
				dfs(s)
			}
		}
		dfs(hu)
		bad := ""
		for b := range reach {
			if len(b.Instrs) == 0 {
				continue
			}
			if _, ok := b.Instrs[len(b.Instrs)-1].(*ssa.Return); ok {
				bad = fmt.Sprintf("the return at %s is reachable from the update loop without entering the delete loop", P.Pos(b.Instrs[len(b.Instrs)-1].Pos()))
			}
		}
		c.Check(bad == "", rule, fnName(f), "every path from the update loop to a return passes the delete loop", P.Pos(firstPos(hu)), bad)
	}
	c.Floor(rule+"/functions-with-both-loops", found, 1)
}

// loopHeaderOf returns the header of the innermost loop containing b (the
// closest dominator of b that b can reach again), or nil.
func loopHeaderOf(b *ssa.BasicBlock) *ssa.BasicBlock {
	r := reachableFrom(b)
	for h := b; h != nil; h = h.Idom() {
		if h == b {
			// b is its own header only if it reaches itself
			self := false
			for _, s := range b.Succs {
				if s == b || reachableFrom(s)[b] {
					self = true
				}
			}
			if self && len(b.Preds) > 1 {
				// a loop header has an entry edge and a back edge; b could also be a body block: prefer a real header below
				if _, isIf := b.Instrs[len(b.Instrs)-1].(*ssa.If); isIf && b.Dominates(b.Succs[0]) {
					back := false
					for _, p := range b.Preds {
						if b.Dominates(p) {
							back = true
						}
					}
					if back {
						return b
					}
				}
			}
			continue
		}
		if !r[h] {
			continue
		}
		back := false
		for _, p := range h.Preds {
			if h.Dominates(p) && (p == b || reachableFrom(b)[p]) {
				back = true
			}
		}
		if back {
			return h
		}
	}
	return nil
}

// loopBlocks: the natural loop of header h (blocks dominated by h that reach a back edge of h).
func loopBlocks(h *ssa.BasicBlock) map[*ssa.BasicBlock]bool {
	body := map[*ssa.BasicBlock]bool{h: true}
	var work []*ssa.BasicBlock
	for _, p := range h.Preds {
		if h.Dominates(p) && !body[p] {
			body[p] = true
			work = append(work, p)
		}
	}
	for len(work) > 0 {
		b := work[0]
		work = work[1:]
		for _, p := range b.Preds {
			if !body[p] && h.Dominates(p) {
				body[p] = true
				work = append(work, p)
			}
		}
	}
	return body
}

func panicOnly(b *ssa.BasicBlock) bool {
	if len(b.Instrs) == 0 {
		return false
	}
	_, ok := b.Instrs[len(b.Instrs)-1].(*ssa.Panic)
	return ok
}

func firstPos(b *ssa.BasicBlock) token.Pos {
	for _, in := range b.Instrs {
		if in.Pos().IsValid() {
			return in.Pos()
		}
	}
	return b.Parent().Pos()
}

// gnmiDispatch: Target.GnmiUpdate hands every update and every delete of a notification to
// gnmiUpdate / gnmiRemove, whatever the mix (shared by C01, C02, C03).  Decision table over
// (number of updates, number of deletes) in {0,1,2}x{0,1,2} for non-atomic notifications, with the
// range loops folded by their known lengths: on every returning path the number of gnmiUpdate
// calls equals the number of updates and the number of gnmiRemove calls the number of deletes.
func gnmiDispatch(c *Ctx, a *cacheAnchors, rule string) {
	P := c.P
	GU := a.GnmiUpdate
	c.Rule(rule, "Target.GnmiUpdate, non-atomic notification with u updates and d deletes, (u,d) in {0,1,2}x{0,1,2}: every returning path calls gnmiUpdate exactly u times and gnmiRemove exactly d times (range loops folded by the known lengths); atomic with u >= 1 updates and no delete: exactly one gnmiUpdate call with the caller's notification")
	nP := ssa.Value(param(GU, 1))
	fUpd := P.Field("proto/gnmi", "Notification", "Update")
	fDel := P.Field("proto/gnmi", "Notification", "Delete")
	fAt := P.Field("proto/gnmi", "Notification", "Atomic")
	if fUpd == nil || fDel == nil || fAt == nil {
		c.Unresolved(rule, "proto/gnmi.Notification.Update / Delete / Atomic")
		return
	}
	isGU := lbl("call:" + fnName(a.gnmiUpdate))
	isGR := lbl("call:" + fnName(a.gnmiRemove))
	cls := func(e *PPA, st *State, rv RV) string {
		r := e.Resolve(st, rv)
		switch v := r.V.(type) {
		case *ssa.Call:
			if la, ok := lenArg(v); ok {
				x := e.Resolve(st, RV{r.F, la})
				switch {
				case isCallNamed(x.V, "(*proto/gnmi.Notification).GetUpdate") && e.Resolve(st, RV{x.F, x.V.(*ssa.Call).Call.Args[0]}).V == nP:
					return "NU"
				case isCallNamed(x.V, "(*proto/gnmi.Notification).GetDelete") && e.Resolve(st, RV{x.F, x.V.(*ssa.Call).Call.Args[0]}).V == nP:
					return "ND"
				case loadOfField(x.V, fUpd):
					return "NU"
				case loadOfField(x.V, fDel):
					return "ND"
				}
			}
			if isCallNamed(v, "(*proto/gnmi.Notification).GetAtomic") {
				return "AT"
			}
		case *ssa.UnOp:
			if loadOfField(v, fAt) {
				return "AT"
			}
		}
		return ""
	}
	c.Analysed(fnName(GU))
	for _, atomic := range []bool{false, true} {
		for nu := int64(0); nu <= 2; nu++ {
			for nd := int64(0); nd <= 2; nd++ {
				if atomic && (nd > 0 || nu == 0) {
					continue
				}
				at := &Atoms{Class: cls, Bool: map[string]bool{"AT": atomic}, Int: map[string]int64{"NU": nu, "ND": nd}}
				e := &PPA{Cond: at.Cond, MaxVisits: 4, Watch: func(ev *Ev) bool { return isGU(ev) || isGR(ev) }}
				e.deepApplied = true // the loops are folded exactly; deeper unrolling adds nothing
				e.Run(GU)
				c.Paths += len(e.Paths)
				c.Scen++
				n := 0
				for i := range e.Paths {
					p := &e.Paths[i]
					if p.End != "return" {
						continue
					}
					n++
					gu, gr := int64(p.Count(isGU)), int64(p.Count(isGR))
					wantU := nu
					if atomic {
						wantU = 1
					}
					ok := gu == wantU && gr == nd
					if ok && atomic {
						gi := p.Index(0, isGU)
						ok = p.Trace[gi].Args[1].V == nP
					}
					c.Check(ok, rule, fnName(GU), fmt.Sprintf("atomic=%v, %d updates, %d deletes", atomic, nu, nd), P.Pos(GU.Pos()), fmt.Sprintf("%d gnmiUpdate and %d gnmiRemove calls; path: %s", gu, gr, p.String()))
				}
				c.Floor(fmt.Sprintf("%s/paths(atomic=%v,u=%d,d=%d)", rule, atomic, nu, nd), n, 1)
				if e.Truncated > 0 && n == 0 {
					c.Unknown(rule, fnName(GU), fmt.Sprintf("atomic=%v, %d updates, %d deletes", atomic, nu, nd), P.Pos(GU.Pos()), "all paths truncated")
				}
			}
		}
	}
}

// onlyFrom: f is root, a closure of root, or an unexported same-package helper that is called
// only from such functions (so that root's path analysis, which enters helpers, covers it).
func onlyFrom(P *Prog, f, root *ssa.Function, d int) bool {
	top := f
	for top.Parent() != nil {
		top = top.Parent()
	}
	if top == root {
		return true
	}
	if d > 3 || isExportedFn(top) || top.Pkg != root.Pkg {
		return false
	}
	n := 0
	ok := true
	for _, g := range P.PkgFuncs(strings.TrimPrefix(pkgPathOf(root), modPath+"/")) {
		if P.InTestFile(g) {
			continue
		}
		for _, ci := range callsIn(g) {
			if staticCallee(ci.Common()) == top || boundTarget(ci.Common()) == top {
				n++
				if !onlyFrom(P, g, root, d+1) {
					ok = false
				}
			}
		}
	}
	return ok && n > 0
}

// boundTarget: the method behind a bound-method closure used as a call operand (defer x.m(a)).
func boundTarget(c *ssa.CallCommon) *ssa.Function {
	mc, ok := c.Value.(*ssa.MakeClosure)
	if !ok {
		return nil
	}
	w := mc.Fn.(*ssa.Function)
	if !strings.HasSuffix(w.Name(), "$bound") {
		return nil
	}
	for _, ci := range callsIn(w) {
		if g := staticCallee(ci.Common()); g != nil {
			return g
		}
	}
	return nil
}

// sameElemLoad: two loads of the same slice element in one iteration (s[i] written twice; go/ssa does no CSE).
func sameElemLoad(a, b ssa.Value) bool {
	ua, ok := a.(*ssa.UnOp)
	ub, ok2 := b.(*ssa.UnOp)
	if !ok || !ok2 {
		return false
	}
	ia, ok := ua.X.(*ssa.IndexAddr)
	ib, ok2 := ub.X.(*ssa.IndexAddr)
	return ok && ok2 && ia.X == ib.X && ia.Index == ib.Index && ia.Block() == ib.Block()
}

// unitFns: root together with the unexported same-package functions that only root (transitively) calls -
// the pieces a maintainer may split a long function into.  The named anchors are never part of the unit.
func unitFns(P *Prog, root *ssa.Function, anchors ...*ssa.Function) []*ssa.Function {
	out := []*ssa.Function{root}
	seen := map[*ssa.Function]bool{root: true}
	for _, a := range anchors {
		seen[a] = true
	}
	for i := 0; i < len(out); i++ {
		for _, ci := range callsIn(out[i]) {
			g := staticCallee(ci.Common())
			if g == nil || seen[g] || g.Blocks == nil || g.Pkg != root.Pkg || g.Parent() != nil || isExportedFn(g) {
				continue
			}
			if !onlyFrom(P, g, root, 0) {
				continue
			}
			seen[g] = true
			out = append(out, g)
		}
	}
	return out
}
