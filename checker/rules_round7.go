// Rules added after the seventh round of seeded changes.
package main

import (
	"fmt"
	"go/token"
	"go/types"

	"golang.org/x/tools/go/ssa"
)

// bucketsDisjoint (C20): the per-timestamp buckets of UpdateQueue.q never share a backing array.  addValue
// appends to a bucket in place; a bucket that was cut out of a longer slice with a two-index slice
// expression (vals[i:j]) keeps spare capacity that reaches into the next bucket's elements, and the
// append overwrites them.
func bucketsDisjoint(c *Ctx, rule string) {
	P := c.P
	c.Rule(rule, "package testing/fake/queue: every slice that is stored as an element of a slice of buckets (the element type of UpdateQueue.q) is a fresh slice (literal, make), an existing bucket, the tail x[k:] of one, a three-index slice, or an append onto one of these - never a two-index sub-slice x[i:j] of a longer slice, whose spare capacity is the following elements of x (addValue appends to buckets in place)")
	fq := P.Field("testing/fake/queue", "UpdateQueue", "q")
	if fq == nil {
		c.Unresolved(rule, "queue.UpdateQueue.q")
		return
	}
	qs, ok := fq.Type().Underlying().(*types.Slice)
	if !ok {
		c.Unresolved(rule, "queue.UpdateQueue.q is a slice of buckets")
		return
	}
	bucket := qs.Elem()
	isBucketElemAddr := func(v ssa.Value) bool {
		ia, ok := v.(*ssa.IndexAddr)
		if !ok {
			return false
		}
		switch t := deref(ia.X.Type()).Underlying().(type) {
		case *types.Slice:
			return types.Identical(t.Elem(), bucket)
		case *types.Array:
			return types.Identical(t.Elem(), bucket)
		}
		if t, ok := ia.X.Type().Underlying().(*types.Slice); ok {
			return types.Identical(t.Elem(), bucket)
		}
		return false
	}
	var classify func(v ssa.Value, d int, seen map[ssa.Value]bool) string
	classify = func(v ssa.Value, d int, seen map[ssa.Value]bool) string {
		if d > 12 || seen[v] {
			return ""
		}
		seen[v] = true
		switch x := v.(type) {
		case *ssa.Const:
			return ""
		case *ssa.MakeSlice:
			return ""
		case *ssa.ChangeType:
			return classify(x.X, d+1, seen)
		case *ssa.Slice:
			if _, isArr := deref(x.X.Type()).Underlying().(*types.Array); isArr {
				if _, isAlloc := x.X.(*ssa.Alloc); isAlloc {
					return "" // a slice literal
				}
			}
			if x.Max != nil || x.High == nil {
				return classify(x.X, d+1, seen)
			}
			return "the two-index sub-slice " + Expr(x) + " keeps the capacity of the slice it was cut from"
		case *ssa.UnOp:
			if x.Op == token.MUL {
				if isBucketElemAddr(x.X) {
					return "" // an existing bucket
				}
				if al, ok := x.X.(*ssa.Alloc); ok {
					why := ""
					for _, ref := range *al.Referrers() {
						if st, ok := ref.(*ssa.Store); ok && st.Addr == ssa.Value(al) {
							if w := classify(st.Val, d+1, seen); w != "" {
								why = w
							}
						}
					}
					return why
				}
			}
			return "undecided origin " + Expr(v)
		case *ssa.Phi:
			for _, e := range x.Edges {
				if w := classify(e, d+1, seen); w != "" {
					return w
				}
			}
			return ""
		case *ssa.Call:
			if ac, ok := isAppend(x); ok {
				return classify(ac.Call.Args[0], d+1, seen)
			}
			return "undecided origin " + Expr(v)
		case *ssa.Alloc:
			return ""
		}
		return "undecided origin " + Expr(v)
	}
	n := 0
	for _, f := range P.PkgFuncs("testing/fake/queue") {
		if P.InTestFile(f) {
			continue
		}
		for _, g := range withAnon(f) {
			instrs(g, func(in ssa.Instruction) {
				st, ok := in.(*ssa.Store)
				if !ok || !types.Identical(st.Val.Type(), bucket) || !isBucketElemAddr(st.Addr) {
					return
				}
				n++
				why := classify(st.Val, 0, map[ssa.Value]bool{})
				c.Check(why == "", rule, fnName(g), "bucket stored: "+Expr(st.Val), P.Pos(st.Pos()), why)
			})
		}
	}
	c.Floor(rule+"/bucket-stores", n, 3)
	c.Note("%s: %d stores of a bucket into a slice of buckets analysed", rule, n)
	_ = fmt.Sprint
}

// staticClosure: f, its anonymous functions, and everything of the same package they call statically.
func staticClosure(f *ssa.Function) []*ssa.Function {
	seen := map[*ssa.Function]bool{}
	var out []*ssa.Function
	var add func(g *ssa.Function)
	add = func(g *ssa.Function) {
		if g == nil || seen[g] || len(g.Blocks) == 0 || g.Pkg != f.Pkg && g.Parent() == nil {
			return
		}
		seen[g] = true
		out = append(out, g)
		for _, a := range g.AnonFuncs {
			add(a)
		}
		for _, ci := range callsIn(g) {
			if cal := staticCallee(ci.Common()); cal != nil && cal.Pkg == f.Pkg {
				add(cal)
			}
		}
	}
	add(f)
	return out
}

// removeKeepsLatest (C02): a delete never moves the latest accepted update timestamp - the reference the
// future-timestamp test of later updates is measured against.
func removeKeepsLatest(c *Ctx, rule string) {
	P := c.P
	c.Rule(rule, "cache.(*Target).gnmiRemove and everything of package cache it calls: no store to Target.ts (the latest accepted update timestamp); the timestamp of a delete is not validated against the clock, and a delete that advanced the reference would make a later far-future update pass the distance test")
	gr := P.Method("cache", "Target", "gnmiRemove")
	fTs := P.Field("cache", "Target", "ts")
	if gr == nil || fTs == nil {
		c.Unresolved(rule, "cache.(*Target).gnmiRemove / Target.ts")
		return
	}
	writers := 0
	for _, f := range P.PkgFuncs("cache") {
		if P.InTestFile(f) {
			continue
		}
		for _, g := range withAnon(f) {
			instrs(g, func(in ssa.Instruction) {
				if st, ok := in.(*ssa.Store); ok && fieldOf(st.Addr) == fTs {
					writers++
				}
			})
		}
	}
	c.Floor(rule+"/ts-writers", writers, 1)
	fns := staticClosure(gr)
	for _, g := range fns {
		c.Analysed(fnName(g))
		instrs(g, func(in ssa.Instruction) {
			if st, ok := in.(*ssa.Store); ok && fieldOf(st.Addr) == fTs {
				c.Check(false, rule, fnName(gr), "delete leaves the latest update timestamp alone", P.Pos(st.Pos()), "reaches a store to Target.ts in "+fnName(g))
			}
		})
	}
	c.Check(true, rule, fnName(gr), "delete leaves the latest update timestamp alone (closure analysed)", P.Pos(gr.Pos()), fmt.Sprintf("%d functions", len(fns)))
}

// optionsKept (C07): what the Option functions configured - the ACL among it - is what the server runs with.
func optionsKept(c *Ctx, rule string) {
	P := c.P
	c.Rule(rule, "subscribe.NewServer: the options object the Option functions are applied to is the one the server keeps - it is Server.o itself (options applied in place) or the variable Server.o is stored from - and on no path is an options object overwritten as a whole, or an acl field written, after an Option has been applied (a later reset to defaults silently drops WithACL); outside NewServer and its helpers the acl field of options is written only by the function WithACL returns")
	ns := P.Func("subscribe", "NewServer")
	fACL := P.Field("subscribe", "options", "acl")
	fO := P.Field("subscribe", "Server", "o")
	wa := P.Func("subscribe", "WithACL")
	if ns == nil || fACL == nil || fO == nil || wa == nil {
		c.Unresolved(rule, "subscribe.NewServer / WithACL / options.acl / Server.o")
		return
	}
	optT := fO.Type()
	c.Analysed(fnName(ns))
	isOptsAddr := func(v ssa.Value) bool {
		pt, ok := v.Type().Underlying().(*types.Pointer)
		return ok && types.Identical(pt.Elem(), optT)
	}
	applyArg := func(ev *Ev) (RV, bool) {
		if !hasPrefix(ev.Label, "call:dyn") {
			return RV{}, false
		}
		for _, a := range ev.Args {
			if a.V != nil && isOptsAddr(a.V) {
				return a, true
			}
		}
		return RV{}, false
	}
	isApplyEv := func(ev *Ev) bool { _, ok := applyArg(ev); return ok }
	e := &PPA{MaxVisits: 3,
		// helpers that apply the options (and constructors of the options value) are entered
		Inline: func(fr *Frame, call ssa.CallInstruction, callee *ssa.Function) bool {
			if pkgPathOf(callee) != pkgPathOf(ns) || len(callee.Blocks) == 0 || callee.Parent() != nil || isExportedFn(callee) {
				return false
			}
			for x := fr; x != nil; x = x.Parent {
				if x.Fn == callee {
					return false
				}
			}
			return true
		},
		Probe: func(e *PPA, st *State, fr *Frame, in ssa.Instruction) {
			s, ok := in.(*ssa.Store)
			if !ok {
				return
			}
			a := e.resolveAddr(st, RV{fr, s.Addr})
			switch {
			case fieldOf(a.V) == fACL:
				e.emit(st, Ev{Label: "fact", In: in, F: fr, Note: "acl-write"})
			case a.V != nil && isOptsAddr(a.V):
				// a whole options value stored: into Server.o (from which object?) or over a variable
				val := e.Resolve(st, RV{fr, s.Val})
				var src RV
				if u, ok := val.V.(*ssa.UnOp); ok && u.Op == token.MUL {
					src = e.resolveAddr(st, RV{val.F, u.X})
				}
				note := "overwrite"
				if fieldOf(a.V) == fO {
					note = "server-o"
				}
				e.emit(st, Ev{Label: "fact", In: in, F: fr, Note: note, Args: []RV{a, src}})
			}
		},
		Watch: func(ev *Ev) bool { return ev.Label == "fact" || isApplyEv(ev) }}
	e.Run(ns)
	c.Paths += len(e.Paths)
	if e.Overflow {
		c.Unknown(rule, fnName(ns), "paths", "", "path overflow")
	}
	applied, kept := 0, 0
	bad := map[token.Pos]bool{}
	fail := func(pos token.Pos, why string) {
		if !bad[pos] {
			bad[pos] = true
			c.Check(false, rule, fnName(ns), "configured options survive", P.Pos(pos), why)
		}
	}
	for i := range e.Paths {
		p := &e.Paths[i]
		if p.End != "return" {
			continue
		}
		first := p.Index(0, isApplyEv)
		if first < 0 {
			continue
		}
		applied++
		target, _ := applyArg(&p.Trace[first])
		ok := fieldOf(target.V) == fO // applied in place on the server's own options
		for j := range p.Trace {
			ev := &p.Trace[j]
			if a, isA := applyArg(ev); isA && a.V != target.V {
				fail(posOf(ev.In), "Options are applied to more than one options object")
			}
			if ev.Label != "fact" {
				continue
			}
			switch ev.Note {
			case "overwrite", "acl-write":
				if j > first {
					fail(posOf(ev.In), "an options object is written ("+ev.Note+") after an Option was applied")
				}
			case "server-o":
				if j > first && len(ev.Args) == 2 && ev.Args[1].V == target.V {
					ok = true
				} else if j > first {
					fail(posOf(ev.In), "Server.o is stored from something other than the options object the Options were applied to")
				}
			}
		}
		if ok {
			kept++
		} else {
			fail(ns.Pos(), "the options object the Options were applied to does not become Server.o")
		}
	}
	c.Check(applied > 0 && kept == applied, rule, fnName(ns), "configured options survive (paths applying an Option analysed)", P.Pos(ns.Pos()), fmt.Sprintf("%d paths apply an Option, on %d of them the object becomes Server.o", applied, kept))
	// writers of options.acl
	unit := map[*ssa.Function]bool{}
	for _, g := range staticClosure(ns) {
		unit[g] = true
	}
	nw := 0
	for _, f := range P.PkgFuncs("subscribe") {
		if P.InTestFile(f) {
			continue
		}
		for _, g := range withAnon(f) {
			instrs(g, func(in ssa.Instruction) {
				if st, ok := in.(*ssa.Store); ok && fieldOf(st.Addr) == fACL {
					nw++
					okW := g.Parent() == wa || g == wa || unit[g]
					c.Check(okW, rule, fnName(g), "options.acl written only by WithACL", P.Pos(st.Pos()), "")
				}
			})
		}
	}
	c.Floor(rule+"/acl-writers", nw, 1)
}

// isApply: a dynamic call that is handed the address of an options variable (opt(&o)).
func isApply(ev *Ev) bool {
	if !hasPrefix(ev.Label, "call:dyn") {
		return false
	}
	for _, a := range ev.Args {
		if al, ok := a.V.(*ssa.Alloc); ok {
			if nt, ok := deref(al.Type()).(*types.Named); ok && nt.Obj().Name() == "options" {
				return true
			}
		}
	}
	return false
}

func hasPrefix(s, p string) bool { return len(s) >= len(p) && s[:len(p)] == p }

// recvWatchdog (C13): every stream has a receive watchdog of its own.
func recvWatchdog(c *Ctx, rule string, hu *ssa.Function, isRecv func(*Ev) bool) {
	P := c.P
	c.Rule(rule, "manager.handleUpdates with a receive timeout configured, every path (loop unrolled): before the first Recv a timer is created in this activation (time.NewTimer, or time.AfterFunc with a callback that calls Manager.Reconnect) and, for NewTimer, a goroutine is started in this activation whose body waits on a Timer's channel and calls Manager.Reconnect; every Recv is preceded, since the previous Recv, by Reset on that very timer.  A watcher that belongs to anything longer-lived than the stream (the target, the manager) is used up by the first expiry, and every later silent stream is never ended - no Reset, no retry")
	fRT := P.Field("manager", "target", "receiveTimeout")
	rc := P.Method("manager", "Manager", "Reconnect")
	if fRT == nil || rc == nil || hu == nil {
		c.Unresolved(rule, "manager.target.receiveTimeout / (*Manager).Reconnect / handleUpdates")
		return
	}
	isMk := func(ev *Ev) bool { return ev.Label == "call:time.NewTimer" || ev.Label == "call:time.AfterFunc" }
	isTimerOp := func(ev *Ev) bool {
		return ev.Label == "call:(*time.Timer).Reset" || ev.Label == "call:(*time.Timer).Stop"
	}
	isGo := func(ev *Ev) bool { return hasPrefix(ev.Label, "go:") }
	callsReconnect := func(f *ssa.Function) bool {
		found := false
		for _, g := range withAnon(f) {
			for _, ci := range callsIn(g) {
				if staticCallee(ci.Common()) == rc {
					found = true
				}
			}
		}
		return found
	}
	waitsOnTimer := func(f *ssa.Function) bool {
		found := false
		isC := func(v ssa.Value) bool {
			u, ok := v.(*ssa.UnOp)
			if !ok || u.Op != token.MUL {
				return false
			}
			fa, ok := u.X.(*ssa.FieldAddr)
			return ok && isNamed(deref(fa.X.Type()), "time", "Timer") && fieldName(fa.X.Type(), fa.Field) == "C"
		}
		for _, g := range withAnon(f) {
			instrs(g, func(in ssa.Instruction) {
				switch x := in.(type) {
				case *ssa.UnOp:
					if x.Op == token.ARROW && isC(x.X) {
						found = true
					}
				case *ssa.Select:
					for _, s := range x.States {
						if s.Dir == types.RecvOnly && isC(s.Chan) {
							found = true
						}
					}
				}
			})
		}
		return found
	}
	fnOf := func(ev *Ev) *ssa.Function {
		ci, ok := ev.In.(ssa.CallInstruction)
		if !ok {
			return nil
		}
		return staticCallee(ci.Common())
	}
	cond := func(e *PPA, st *State, rv RV) (bool, bool) {
		b, ok := rv.V.(*ssa.BinOp)
		if !ok {
			return false, false
		}
		x, y := e.Resolve(st, RV{rv.F, b.X}), e.Resolve(st, RV{rv.F, b.Y})
		// the configured timeout is positive
		isRT := func(r RV) bool {
			if loadOfField(r.V, fRT) {
				return true
			}
			if call, ok := r.V.(*ssa.Call); ok && len(call.Call.Args) == 1 && hasPrefix(calleeName(&call.Call), "(time.Duration).") {
				return loadOfField(e.Resolve(st, RV{r.F, call.Call.Args[0]}).V, fRT)
			}
			return false
		}
		if k, ok := constInt(y.V); ok && k == 0 && isRT(x) {
			switch b.Op {
			case token.GTR, token.NEQ:
				return true, true
			case token.LEQ, token.EQL, token.LSS:
				return false, true
			case token.GEQ:
				return true, true
			}
		}
		if k, ok := constInt(x.V); ok && k == 0 && isRT(y) {
			switch b.Op {
			case token.LSS, token.NEQ, token.LEQ:
				return true, true
			case token.GEQ, token.EQL, token.GTR:
				return false, true
			}
		}
		// a timer that was just made is not nil
		if b.Op == token.EQL || b.Op == token.NEQ {
			for _, pr := range [][2]RV{{x, y}, {y, x}} {
				if isNilConst(pr[1].V) {
					if call, ok := pr[0].V.(*ssa.Call); ok {
						if n := calleeName(&call.Call); n == "time.NewTimer" || n == "time.AfterFunc" {
							return b.Op == token.NEQ, true
						}
					}
				}
			}
		}
		return false, false
	}
	e := &PPA{Cond: cond, MaxVisits: 3, Watch: func(ev *Ev) bool { return isRecv(ev) || isMk(ev) || isTimerOp(ev) || isGo(ev) },
		// constructors of a watchdog object are entered as well (the timer is made inside)
		Inline: func(fr *Frame, call ssa.CallInstruction, callee *ssa.Function) bool {
			if pkgPathOf(callee) != pkgPathOf(hu) || len(callee.Blocks) == 0 || callee.Parent() != nil || isExportedFn(callee) {
				return false
			}
			if _, isGo := call.(*ssa.Go); isGo {
				return false
			}
			for x := fr; x != nil; x = x.Parent {
				if x.Fn == callee {
					return false
				}
			}
			return true
		}}
	e.Run(hu)
	c.Paths += len(e.Paths)
	c.Scen++
	if e.Overflow {
		c.Unknown(rule, fnName(hu), "paths", "", "path overflow")
	}
	n := 0
	seen := map[string]bool{}
	fail := func(what string) {
		if !seen[what] {
			seen[what] = true
			c.Check(false, rule, fnName(hu), "per-stream receive watchdog", P.Pos(hu.Pos()), what)
		}
	}
	for i := range e.Paths {
		p := &e.Paths[i]
		first := p.Index(0, isRecv)
		if first < 0 {
			continue
		}
		n++
		mk := p.Index(0, isMk)
		if mk < 0 || mk > first {
			fail("a path reaches Recv without a timer created in this activation: " + p.String())
			continue
		}
		T, _ := p.Trace[mk].In.(ssa.Value)
		if p.Trace[mk].Label == "call:time.AfterFunc" {
			okCB := false
			if len(p.Trace[mk].Args) == 2 {
				switch f := p.Trace[mk].Args[1].V.(type) {
				case *ssa.MakeClosure:
					okCB = callsReconnect(f.Fn.(*ssa.Function))
				case *ssa.Function:
					okCB = callsReconnect(f)
				}
			}
			if !okCB {
				fail("the AfterFunc callback does not call Manager.Reconnect")
			}
		} else {
			okGo := false
			for j := mk + 1; j < first; j++ {
				if isGo(&p.Trace[j]) {
					if f := fnOf(&p.Trace[j]); f != nil && waitsOnTimer(f) && callsReconnect(f) {
						okGo = true
					}
				}
			}
			if !okGo {
				fail("no goroutine that waits on the timer and calls Manager.Reconnect is started between the timer's creation and the first Recv")
			}
		}
		// every Recv: re-armed since the previous one, on this timer
		lastOp := -1
		for j := range p.Trace {
			ev := &p.Trace[j]
			switch {
			case isTimerOp(ev):
				lastOp = j
			case isRecv(ev):
				ok := lastOp >= 0 && p.Trace[lastOp].Label == "call:(*time.Timer).Reset" && len(p.Trace[lastOp].Args) > 0 && p.Trace[lastOp].Args[0].V == T
				if !ok {
					fail("a Recv is not preceded by Reset on the timer created for this stream")
				}
				lastOp = -1
			}
		}
	}
	c.Check(len(seen) == 0, rule, fnName(hu), "per-stream receive watchdog (all receiving paths)", P.Pos(hu.Pos()), fmt.Sprintf("%d paths", n))
	c.Floor(rule+"/receiving-paths", n, 2)
}

// ctxFlow (C16 / C13): the context of a connection attempt stays the caller's.
func ctxFlow(c *Ctx, rule string) {
	P := c.P
	c.Rule(rule, "package connection: every context handed on by a function that has a context parameter - to the `go dial(...)` of Connection, to a connection.Dial function value, to grpc.DialContext - is that parameter or derived from it by context.WithTimeout / WithDeadline / WithCancel / WithValue (which keep the parent's cancellation and deadline); never context.Background / TODO / WithoutCancel.  An attempt that no longer ends with its caller's context never fails when the peer does not answer: no error, no retry with backoff, and whoever waits for it (Remove, holding the manager's lock) waits for ever")
	isCtx := func(t types.Type) bool {
		nt, ok := t.(*types.Named)
		return ok && nt.Obj().Pkg() != nil && nt.Obj().Pkg().Path() == "context" && nt.Obj().Name() == "Context"
	}
	var derived func(v ssa.Value, params map[ssa.Value]bool, d int) (bool, string)
	// captured: what the enclosing function bound to the free variable (a cell of its own, holding its context
	// parameter or a derivation of it)
	captured := func(fv *ssa.FreeVar, d int) (bool, string) {
		fn := fv.Parent()
		par := fn.Parent()
		if par == nil {
			return false, "free variable " + fv.Name()
		}
		idx := -1
		for i, x := range fn.FreeVars {
			if x == fv {
				idx = i
			}
		}
		pparams := map[ssa.Value]bool{}
		for _, pp := range par.Params {
			if isCtx(pp.Type()) {
				pparams[pp] = true
			}
		}
		found := false
		okAll, why := true, ""
		instrs(par, func(in ssa.Instruction) {
			mc, ok := in.(*ssa.MakeClosure)
			if !ok || mc.Fn != ssa.Value(fn) || idx < 0 || idx >= len(mc.Bindings) {
				return
			}
			found = true
			b := mc.Bindings[idx]
			if al, ok := b.(*ssa.Alloc); ok {
				for _, r := range *al.Referrers() {
					if st, ok := r.(*ssa.Store); ok && st.Addr == ssa.Value(al) {
						if ok2, w := derived(st.Val, pparams, d+1); !ok2 {
							okAll, why = false, w
						}
					}
				}
				return
			}
			if ok2, w := derived(b, pparams, d+1); !ok2 {
				okAll, why = false, w
			}
		})
		if !found {
			return false, "free variable " + fv.Name() + " (binding not found)"
		}
		return okAll, why
	}
	derived = func(v ssa.Value, params map[ssa.Value]bool, d int) (bool, string) {
		if d > 8 {
			return false, "too deep"
		}
		v = unwrap(v)
		if params[v] {
			return true, ""
		}
		switch x := v.(type) {
		case *ssa.Extract:
			return derived(x.Tuple, params, d+1)
		case *ssa.Call:
			g := staticCallee(&x.Call)
			if g != nil && pkgPathOf(g) == "context" {
				switch g.Name() {
				case "WithTimeout", "WithDeadline", "WithCancel", "WithValue", "WithCancelCause", "WithTimeoutCause", "WithDeadlineCause":
					return derived(x.Call.Args[0], params, d+1)
				}
				return false, "context." + g.Name()
			}
			return false, "result of " + calleeName(&x.Call)
		case *ssa.Phi:
			for _, e := range x.Edges {
				if ok, why := derived(e, params, d+1); !ok {
					return false, why
				}
			}
			return true, ""
		case *ssa.UnOp:
			if x.Op == token.MUL {
				if al, ok := x.X.(*ssa.Alloc); ok {
					for _, r := range *al.Referrers() {
						if st, ok := r.(*ssa.Store); ok && st.Addr == ssa.Value(al) {
							if ok, why := derived(st.Val, params, d+1); !ok {
								return false, why
							}
						}
					}
					return true, ""
				}
				// a context variable of the enclosing function captured by reference: judged there by its stores
				if fv, ok := x.X.(*ssa.FreeVar); ok {
					return captured(fv, d+1)
				}
			}
		case *ssa.FreeVar:
			// a closure: the captured context of the enclosing function
			return true, ""
		}
		return false, Expr(v)
	}
	n := 0
	for _, f := range P.PkgFuncs("connection") {
		if P.InTestFile(f) {
			continue
		}
		for _, g := range withAnon(f) {
			params := map[ssa.Value]bool{}
			for _, pp := range g.Params {
				if isCtx(pp.Type()) {
					params[pp] = true
				}
			}
			if len(params) == 0 && g.Parent() == nil {
				continue
			}
			instrs(g, func(in ssa.Instruction) {
				ci, ok := in.(ssa.CallInstruction)
				if !ok {
					return
				}
				cal := staticCallee(ci.Common())
				if cal != nil && pkgPathOf(cal) == "context" {
					return // the derivations themselves are judged where their result is used
				}
				for _, a := range ci.Common().Args {
					if !isCtx(a.Type()) {
						continue
					}
					n++
					ok, why := derived(a, params, 0)
					c.Check(ok, rule, fnName(g), "context handed to "+calleeName(ci.Common())+" is the caller's", P.Pos(ci.Pos()), why)
				}
			})
		}
	}
	c.Floor(rule+"/context-arguments", n, 2)
}

// oneClientPerSubscriber (C06 / C08): all paths of one subscription register the same match client.
func oneClientPerSubscriber(c *Ctx, rule string) {
	P := c.P
	c.Rule(rule, "subscribe.addSubscription: the client handed to every Match.AddQuery call is one value for the whole subscription - a parameter or a value made outside the loop over the subscribed paths, never an object allocated per path.  The fan-out offers a change once per *client* (its `updated` set is keyed by client identity): with one client per path a leaf under two of the subscriber's paths is inserted twice, and its first delivery already carries a duplicate count")
	as := P.Func("subscribe", "addSubscription")
	aq := P.Method("match", "Match", "AddQuery")
	if as == nil || aq == nil {
		c.Unresolved(rule, "subscribe.addSubscription / match.(*Match).AddQuery")
		return
	}
	c.Analysed(fnName(as))
	inLoop := func(b *ssa.BasicBlock) bool {
		for _, s := range b.Succs {
			if reachableFrom(s)[b] {
				return true
			}
		}
		return false
	}
	n := 0
	for _, g := range withAnon(as) {
		for _, ci := range callsIn(g) {
			if staticCallee(ci.Common()) != aq || len(ci.Common().Args) < 3 {
				continue
			}
			n++
			v := unwrap(ci.Common().Args[2])
			for {
				if mi, ok := v.(*ssa.MakeInterface); ok {
					v = unwrap(mi.X)
					continue
				}
				break
			}
			ok, why := false, ""
			switch x := v.(type) {
			case *ssa.Parameter, *ssa.FreeVar:
				ok = true
			case ssa.Instruction:
				if blk := x.Block(); blk != nil && !inLoop(blk) {
					ok = true
				} else {
					why = "the client " + Expr(v) + " is made inside the loop over the subscribed paths"
				}
			default:
				why = "undecided client value " + Expr(v)
			}
			c.Check(ok, rule, fnName(as), "one client for all paths of the subscription", P.Pos(ci.Pos()), why)
		}
	}
	c.Floor(rule+"/AddQuery-sites", n, 1)
}
