package main

import (
	"go/token"
	"go/types"
	"strings"

	"golang.org/x/tools/go/ssa"
)

// Atoms folds branch conditions over rule-named atoms: boolean atoms with a
// fixed truth value, integer atoms with a fixed value (compared against
// constants), and pairs of atoms with a fixed order relation.
type Atoms struct {
	// Class names a (resolved) value as an atom, or returns "".
	Class func(e *PPA, st *State, rv RV) string
	Bool  map[string]bool
	Int   map[string]int64
	Rel   map[[2]string]int // Rel[{a,b}] = sign(a-b)
	// Unfolded collects atom comparisons that had no scenario value (diagnostics).
	Unfolded map[string]bool
}

func (a *Atoms) rel(x, y string) (int, bool) {
	if r, ok := a.Rel[[2]string{x, y}]; ok {
		return r, true
	}
	if r, ok := a.Rel[[2]string{y, x}]; ok {
		return -r, true
	}
	if ix, ok := a.Int[x]; ok {
		if iy, ok := a.Int[y]; ok {
			switch {
			case ix < iy:
				return -1, true
			case ix > iy:
				return 1, true
			}
			return 0, true
		}
	}
	return 0, false
}

func (a *Atoms) boolOf(name string) (bool, bool) {
	neg := false
	for len(name) > 0 && name[0] == '!' {
		neg = !neg
		name = name[1:]
	}
	v, ok := a.Bool[name]
	if !ok {
		return false, false
	}
	return v != neg, true
}

func (a *Atoms) note(s string) {
	if a.Unfolded == nil {
		a.Unfolded = map[string]bool{}
	}
	a.Unfolded[s] = true
}

// Cond implements PPA.Cond.
func (a *Atoms) Cond(e *PPA, st *State, rv RV) (bool, bool) {
	if name := a.Class(e, st, rv); name != "" {
		if v, ok := a.boolOf(name); ok {
			return v, true
		}
	}
	switch v := rv.V.(type) {
	case *ssa.Extract:
		// `for k := range m` with len(m) an integer atom: the j-th `next` succeeds iff j <= len(m)
		if nx, ok := v.Tuple.(*ssa.Next); ok && v.Index == 0 && rv.F != nil {
			if rg, ok := nx.Iter.(*ssa.Range); ok {
				if _, isMap := rg.X.Type().Underlying().(*types.Map); isMap {
					if name := a.Class(e, st, e.Resolve(st, RV{rv.F, rg.X})); name != "" {
						if n, ok := a.Int["len("+name+")"]; ok {
							k := st.visits[[2]int{rv.F.ID, nx.Block().Index}]
							return int64(k) <= n, true
						}
					}
				}
			}
		}
	case *ssa.BinOp:
		switch v.Op {
		case token.EQL, token.NEQ, token.LSS, token.LEQ, token.GTR, token.GEQ:
		default:
			return false, false
		}
		// cmp.Compare(x, y) OP constant, x and y atoms with a known order
		for _, pr := range [][2]ssa.Value{{v.X, v.Y}, {v.Y, v.X}} {
			call, ok := e.Resolve(st, RV{rv.F, pr[0]}).V.(*ssa.Call)
			if !ok {
				continue
			}
			if g := staticCallee(&call.Call); g == nil || pkgPathOf(g) != "cmp" || !strings.HasPrefix(g.Name(), "Compare") || len(call.Call.Args) != 2 {
				continue
			}
			k, okc := constInt(pr[1])
			if !okc {
				continue
			}
			cx := a.Class(e, st, e.Resolve(st, RV{rv.F, call.Call.Args[0]}))
			cy := a.Class(e, st, e.Resolve(st, RV{rv.F, call.Call.Args[1]}))
			if cx == "" || cy == "" {
				continue
			}
			if rel, ok := a.rel(cx, cy); ok {
				if pr[0] == v.X {
					return cmpInt(v.Op, int64(rel), k)
				}
				return cmpInt(v.Op, k, int64(rel))
			}
		}
		// `for … range s` with a known len(s): the k-th evaluation of the loop test
		// (rangeindex+1 < len(s)) is true iff k <= len(s)
		if v.Op == token.LSS {
			if inc, ok := v.X.(*ssa.BinOp); ok && inc.Op == token.ADD {
				if phi, ok := inc.X.(*ssa.Phi); ok && phi.Comment == "rangeindex" && phi.Block() == v.Block() {
					if one, ok := constInt(inc.Y); ok && one == 1 {
						if n, ok := a.intOf(e, st, RV{rv.F, v.Y}, 0); ok && rv.F != nil {
							k := st.visits[[2]int{rv.F.ID, v.Block().Index}]
							return int64(k) <= n, true
						}
					}
				}
			}
		}
		x := e.Resolve(st, RV{rv.F, v.X})
		y := e.Resolve(st, RV{rv.F, v.Y})
		cx, cy := a.Class(e, st, x), a.Class(e, st, y)
		// nil tests of atoms whose boolean value means "non-nil"
		if v.Op == token.EQL || v.Op == token.NEQ {
			other := ""
			if isNilConst(y.V) {
				other = cx
			} else if isNilConst(x.V) {
				other = cy
			}
			if other != "" {
				if nn, ok := a.boolOf(other); ok {
					return nn == (v.Op == token.NEQ), true
				}
			}
		}
		if cx != "" && cy != "" {
			if r, ok := a.rel(cx, cy); ok {
				return cmpRel(v.Op, r)
			}
			a.note(cx + " ? " + cy)
			return false, false
		}
		if cx != "" {
			if iv, ok := a.Int[cx]; ok {
				if c, ok := constInt(y.V); ok {
					return cmpInt(v.Op, iv, c)
				}
			}
		}
		if cy != "" {
			if iv, ok := a.Int[cy]; ok {
				if c, ok := constInt(x.V); ok {
					return cmpInt(v.Op, c, iv)
				}
			}
		}
		// sums / differences of integer atoms and constants
		if ix, ok := a.intOf(e, st, x, 0); ok {
			if iy, ok := a.intOf(e, st, y, 0); ok {
				return cmpInt(v.Op, ix, iy)
			}
		}
	case *ssa.Call:
		// time.Time ordering methods on classified operands
		name := calleeName(&v.Call)
		var op token.Token
		switch name {
		case "(time.Time).Before":
			op = token.LSS
		case "(time.Time).After":
			op = token.GTR
		case "(time.Time).Equal":
			op = token.EQL
		default:
			return false, false
		}
		x := e.Resolve(st, RV{rv.F, v.Call.Args[0]})
		y := e.Resolve(st, RV{rv.F, v.Call.Args[1]})
		cx, cy := a.Class(e, st, x), a.Class(e, st, y)
		if cx != "" && cy != "" {
			if r, ok := a.rel(cx, cy); ok {
				return cmpRel(op, r)
			}
			a.note(cx + " ? " + cy)
		}
	}
	return false, false
}

// intOf evaluates an integer expression over integer atoms and constants (+, -).
func (a *Atoms) intOf(e *PPA, st *State, rv RV, d int) (int64, bool) {
	if d > 6 {
		return 0, false
	}
	r := e.Resolve(st, rv)
	if c, ok := constInt(r.V); ok {
		return c, true
	}
	if name := a.Class(e, st, r); name != "" {
		if iv, ok := a.Int[name]; ok {
			return iv, true
		}
	}
	// cmp.Compare(x, y) of two atoms with a known order
	if call, ok := r.V.(*ssa.Call); ok {
		if g := staticCallee(&call.Call); g != nil && pkgPathOf(g) == "cmp" && strings.HasPrefix(g.Name(), "Compare") && len(call.Call.Args) == 2 {
			cx := a.Class(e, st, e.Resolve(st, RV{r.F, call.Call.Args[0]}))
			cy := a.Class(e, st, e.Resolve(st, RV{r.F, call.Call.Args[1]}))
			if cx != "" && cy != "" {
				if rel, ok := a.rel(cx, cy); ok {
					return int64(rel), true
				}
			}
		}
	}
	if b, ok := r.V.(*ssa.BinOp); ok && (b.Op == token.ADD || b.Op == token.SUB) {
		if _, isPhi := b.X.(*ssa.Phi); isPhi {
			return 0, false // loop counters are not atoms
		}
		x, okx := a.intOf(e, st, RV{r.F, b.X}, d+1)
		y, oky := a.intOf(e, st, RV{r.F, b.Y}, d+1)
		if okx && oky {
			if b.Op == token.ADD {
				return x + y, true
			}
			return x - y, true
		}
	}
	return 0, false
}

// rootOf strips field/index/type-assert/extract/call-receiver wrappers to find where a value comes from.
func rootOf(e *PPA, st *State, rv RV) RV {
	for i := 0; i < 32; i++ {
		rv = e.Resolve(st, rv)
		switch v := rv.V.(type) {
		case *ssa.TypeAssert:
			rv = RV{rv.F, v.X}
		case *ssa.Extract:
			rv = RV{rv.F, v.Tuple}
		case *ssa.FieldAddr:
			rv = RV{rv.F, v.X}
		case *ssa.Field:
			rv = RV{rv.F, v.X}
		case *ssa.IndexAddr:
			rv = RV{rv.F, v.X}
		case *ssa.Index:
			rv = RV{rv.F, v.X}
		case *ssa.UnOp:
			if v.Op != token.MUL {
				return rv
			}
			rv = RV{rv.F, v.X}
		case *ssa.Convert:
			rv = RV{rv.F, v.X}
		default:
			return rv
		}
	}
	return rv
}
