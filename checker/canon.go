package main

import (
	"encoding/json"
	"fmt"
	"go/types"
	"os"
	"sort"
	"strings"

	"golang.org/x/tools/go/ssa"
)

// Rename canonicalisation.
//
// The rules name their anchors (functions, methods, struct fields of the module) by the
// names they have on the reference tree.  /verif/refsigs.json is a snapshot of those names
// with their signatures / types.  When a reference name is missing from the tree under
// analysis and exactly one *new* function of the same package and receiver has the
// identical signature (resp. exactly one new field of the same struct has the identical
// type), the new one is taken to be the renamed anchor: lookups by the reference name find
// it, and every name the analysis prints or compares (fnName, calleeName, event labels, field
// names) is the reference name.  A pure rename of an unexported helper or field therefore
// changes no verdict.  Anything ambiguous stays unresolved (UNRESOLVED-ANCHOR as before).

type refSigs struct {
	Funcs  map[string]string `json:"funcs"`  // "(*cache.Target).gnmiUpdate" -> signature
	Fields map[string]string `json:"fields"` // "ctree.Tree.leafBranch" -> type
	// Params: reference parameter list (incl. receiver) of every function: [name, type] pairs
	Params map[string][][2]string `json:"params"`
	// Structs: the ordered field list of every hand-written struct type, and Shapes: its shape with the
	// type's own name replaced by $SELF (used to recognise a renamed type)
	Structs map[string][][2]string `json:"structs"`
	Shapes  map[string]string      `json:"shapes"`
}

var refParams map[string][][2]string

var (
	canonType  = map[*types.TypeName]string{} // renamed type -> reference type name
	typeRepl   [][2]string                    // textual replacements current -> reference ("pkg/path.Cur", "pkg/path.Ref") and short forms
	canonFn    = map[*ssa.Function]string{}   // renamed function -> reference name
	canonByRef = map[string]*ssa.Function{}   // reference name -> renamed function
	canonField = map[*types.Var]string{}      // renamed field -> reference field name
	canonNotes []string
)

// normType rewrites the names of renamed types to their reference names inside a type / function string.
func normType(s string) string {
	for _, pr := range typeRepl {
		s = replaceWord(s, pr[0], pr[1])
	}
	return s
}

// replaceWord replaces old by new where old is not followed by an identifier character.
func replaceWord(s, old, new string) string {
	if old == "" || !strings.Contains(s, old) {
		return s
	}
	var b strings.Builder
	for {
		i := strings.Index(s, old)
		if i < 0 {
			b.WriteString(s)
			break
		}
		j := i + len(old)
		b.WriteString(s[:i])
		if j < len(s) && (s[j] == '_' || (s[j] >= '0' && s[j] <= '9') || (s[j] >= 'a' && s[j] <= 'z') || (s[j] >= 'A' && s[j] <= 'Z')) {
			b.WriteString(old)
		} else {
			b.WriteString(new)
		}
		s = s[j:]
	}
	return b.String()
}

func fullQ(p *types.Package) string { return p.Path() }

func sigString(f *ssa.Function) string {
	return normType(types.TypeString(f.Signature, fullQ))
}

func rawFnName(fn *ssa.Function) string {
	return normType(strings.ReplaceAll(fn.String(), modPath+"/", ""))
}

// owner: "(*cache.Target)" for methods, "cache" for functions.
func ownerOf(name string) string {
	if i := strings.LastIndex(name, "."); i >= 0 {
		return name[:i]
	}
	return ""
}

func (p *Prog) snapshotSigs() refSigs {
	rs := refSigs{Funcs: map[string]string{}, Fields: map[string]string{}, Params: map[string][][2]string{}, Structs: map[string][][2]string{}, Shapes: map[string]string{}}
	for _, mp := range p.ModPkgs() {
		rel := strings.TrimPrefix(mp, modPath+"/")
		for _, f := range p.PkgFuncs(rel) {
			if f.Parent() != nil || p.InTestFile(f) || p.IsGenerated(f) {
				continue
			}
			rs.Funcs[rawFnName(f)] = sigString(f)
			var ps [][2]string
			for _, pr := range f.Params {
				ps = append(ps, [2]string{pr.Name(), normType(types.TypeString(pr.Type(), fullQ))})
			}
			rs.Params[rawFnName(f)] = ps
		}
		sp := p.SSAPkg[mp]
		for _, m := range sp.Members {
			t, ok := m.(*ssa.Type)
			if !ok {
				continue
			}
			st, ok := t.Type().Underlying().(*types.Struct)
			if !ok {
				continue
			}
			pos := p.Fset.Position(t.Pos()).Filename
			if strings.HasSuffix(pos, ".pb.go") || strings.HasSuffix(pos, "_test.go") {
				continue
			}
			tn := t.Name()
			if ref, ok := canonType[t.Object().(*types.TypeName)]; ok {
				tn = ref
			}
			self := mp + "." + t.Name()
			var shape []string
			for i := 0; i < st.NumFields(); i++ {
				fl := st.Field(i)
				raw := types.TypeString(fl.Type(), fullQ)
				ft := normType(raw)
				rs.Fields[rel+"."+tn+"."+fl.Name()] = ft
				rs.Structs[rel+"."+tn] = append(rs.Structs[rel+"."+tn], [2]string{fl.Name(), ft})
				shape = append(shape, replaceWord(raw, self, "$SELF"))
			}
			rs.Shapes[rel+"."+tn] = strings.Join(shape, ";")
		}
	}
	return rs
}

func writeRefSigs(p *Prog, path string) error {
	rs := p.snapshotSigs()
	b, _ := json.MarshalIndent(rs, "", " ")
	return os.WriteFile(path, b, 0o644)
}

// canonicalise matches the tree under analysis against the reference snapshot.
func (p *Prog) canonicalise(path string) {
	b, err := os.ReadFile(path)
	if err != nil {
		canonNotes = append(canonNotes, "no reference signature snapshot ("+err.Error()+"): renamed anchors are not followed")
		return
	}
	var ref refSigs
	if err := json.Unmarshal(b, &ref); err != nil {
		canonNotes = append(canonNotes, "refsigs.json unreadable: "+err.Error())
		return
	}
	refParams = ref.Params
	// ---- renamed struct types: a missing type and the only new type of the package with the same shape
	{
		pre := p.snapshotSigs()
		byPkgMissing := map[string][]string{}
		byPkgNew := map[string][]string{}
		for n := range ref.Shapes {
			if _, ok := pre.Shapes[n]; !ok {
				byPkgMissing[ownerOf(n)] = append(byPkgMissing[ownerOf(n)], n)
			}
		}
		for n := range pre.Shapes {
			if _, ok := ref.Shapes[n]; !ok {
				byPkgNew[ownerOf(n)] = append(byPkgNew[ownerOf(n)], n)
			}
		}
		for pk, miss := range byPkgMissing {
			sort.Strings(miss)
			for _, m := range miss {
				var cands []string
				for _, n := range byPkgNew[pk] {
					// same number of fields with the same types; field names may have changed as well
					if shapeTypes(ref.Shapes[m]) == shapeTypes(pre.Shapes[n]) {
						cands = append(cands, n)
					}
				}
				if len(cands) != 1 {
					continue
				}
				curName := cands[0][len(pk)+1:]
				refName := m[len(pk)+1:]
				if sp := p.pkg(pk); sp != nil {
					if tt, ok := sp.Members[curName].(*ssa.Type); ok {
						canonType[tt.Object().(*types.TypeName)] = refName
						full := modPath + "/" + pk
						typeRepl = append(typeRepl, [2]string{full + "." + curName, full + "." + refName})
						typeRepl = append(typeRepl, [2]string{pk + "." + curName, pk + "." + refName})
						short := pk
						if i := strings.LastIndex(pk, "/"); i >= 0 {
							short = pk[i+1:]
						}
						if short != pk {
							typeRepl = append(typeRepl, [2]string{short + "." + curName, short + "." + refName})
						}
						canonNotes = append(canonNotes, fmt.Sprintf("type %s is taken to be renamed to %s (only new struct type of the package with the same field types)", m, cands[0]))
					}
				}
			}
		}
	}
	cur := p.snapshotSigs()
	// ---- functions
	curFns := map[string]*ssa.Function{}
	for _, mp := range p.ModPkgs() {
		for _, f := range p.PkgFuncs(strings.TrimPrefix(mp, modPath+"/")) {
			if f.Parent() == nil {
				curFns[rawFnName(f)] = f
			}
		}
	}
	var missing, fresh []string
	for n := range ref.Funcs {
		if _, ok := cur.Funcs[n]; !ok {
			missing = append(missing, n)
		}
	}
	for n := range cur.Funcs {
		if _, ok := ref.Funcs[n]; !ok {
			fresh = append(fresh, n)
		}
	}
	sort.Strings(missing)
	sort.Strings(fresh)
	cands := map[string][]string{} // missing -> fresh candidates
	claimed := map[string][]string{}
	for _, m := range missing {
		for _, n := range fresh {
			if ownerOf(m) == ownerOf(n) && ref.Funcs[m] == cur.Funcs[n] {
				cands[m] = append(cands[m], n)
				claimed[n] = append(claimed[n], m)
			}
		}
	}
	for _, m := range missing {
		if len(cands[m]) == 1 && len(claimed[cands[m][0]]) == 1 {
			f := curFns[cands[m][0]]
			if f != nil {
				canonFn[f] = m
				canonByRef[m] = f
				canonNotes = append(canonNotes, fmt.Sprintf("anchor %s is taken to be renamed to %s (only new function of the same receiver with the identical signature)", m, cands[m][0]))
			}
		}
	}
	// ---- second pass: the receiver moved (method of A taking B -> method of B taking A, method <-> function)
	// or the parameters were reordered together with a rename: the same package, the same multiset of
	// parameter types (receiver included) and the same results, unique both ways
	{
		pkgOf := func(n string) string {
			o := ownerOf(n)
			o = strings.TrimPrefix(strings.TrimPrefix(o, "("), "*")
			o = strings.TrimSuffix(o, ")")
			if strings.HasPrefix(n, "(") {
				if i := strings.LastIndex(o, "."); i >= 0 {
					return o[:i]
				}
			}
			return o
		}
		results := func(sig string) string {
			d := 0
			for i := 0; i < len(sig); i++ {
				switch sig[i] {
				case '(':
					d++
				case ')':
					d--
					if d == 0 {
						return strings.TrimSpace(sig[i+1:])
					}
				}
			}
			return ""
		}
		key := func(n string, ps [][2]string, sig string) string {
			var ts []string
			for _, p := range ps {
				ts = append(ts, p[1])
			}
			sort.Strings(ts)
			return pkgOf(n) + "|" + strings.Join(ts, ",") + "|" + results(sig)
		}
		mk, fk := map[string][]string{}, map[string][]string{}
		for _, m := range missing {
			if canonByRef[m] == nil && len(ref.Params[m]) > 0 {
				k := key(m, ref.Params[m], ref.Funcs[m])
				mk[k] = append(mk[k], m)
			}
		}
		for _, n := range fresh {
			if f := curFns[n]; f != nil && len(cur.Params[n]) > 0 {
				if _, taken := canonFn[f]; !taken {
					k := key(n, cur.Params[n], cur.Funcs[n])
					fk[k] = append(fk[k], n)
				}
			}
		}
		for k, ms := range mk {
			if len(ms) == 1 && len(fk[k]) == 1 {
				f := curFns[fk[k][0]]
				canonFn[f] = ms[0]
				canonByRef[ms[0]] = f
				canonNotes = append(canonNotes, fmt.Sprintf("anchor %s is taken to be %s (only new function of the package with the same parameter types, receiver included, and results)", ms[0], fk[k][0]))
			}
		}
	}
	// ---- fields: a struct whose field types are unchanged in order pairs renamed fields by position;
	// otherwise a missing field is the only new field of the struct with the identical type
	for sname, rfs := range ref.Structs {
		cfs, ok := cur.Structs[sname]
		if !ok {
			continue
		}
		own := sname
		i := strings.LastIndex(own, ".")
		if i < 0 {
			continue
		}
		pk, tn := own[:i], own[i+1:]
		bind := func(refField, curField string) {
			if refField == curField {
				return
			}
			if v := p.fieldRaw(pk, tn, curField); v != nil {
				canonField[v] = refField
				canonNotes = append(canonNotes, fmt.Sprintf("field %s.%s is taken to be renamed to %s", sname, refField, curField))
			}
		}
		sameTypes := len(rfs) == len(cfs)
		if sameTypes {
			for k := range rfs {
				if rfs[k][1] != cfs[k][1] {
					sameTypes = false
				}
			}
		}
		if sameTypes {
			names := map[string]bool{}
			for _, f := range cfs {
				names[f[0]] = true
			}
			for k := range rfs {
				if !names[rfs[k][0]] { // the reference name is gone: the field at its position carries it now
					bind(rfs[k][0], cfs[k][0])
				}
			}
			continue
		}
		refNames, curNames := map[string]string{}, map[string]string{}
		for _, f := range rfs {
			refNames[f[0]] = f[1]
		}
		for _, f := range cfs {
			curNames[f[0]] = f[1]
		}
		for rn, rt := range refNames {
			if _, ok := curNames[rn]; ok {
				continue
			}
			var cands []string
			for cn, ct := range curNames {
				if _, isRef := refNames[cn]; !isRef && ct == rt {
					cands = append(cands, cn)
				}
			}
			if len(cands) == 1 {
				bind(rn, cands[0])
			}
		}
		// ---- fields regrouped into a new value-typed helper struct of the same package
		// (`cur batch` holding what used to be direct fields): a reference field that is still
		// missing is the field of the helper with the same name and type, or - names apart - the only
		// unclaimed field of the helper with the identical type
		var still [][2]string
		for _, f := range rfs {
			if _, ok := curNames[f[0]]; ok {
				continue
			}
			bound := false
			for v, r := range canonField {
				if r == f[0] && p.fieldRaw(pk, tn, v.Name()) == v {
					bound = true
				}
			}
			if !bound {
				still = append(still, f)
			}
		}
		if len(still) == 0 {
			continue
		}
		for _, cf := range cfs {
			if _, isRef := refNames[cf[0]]; isRef {
				continue
			}
			gv := p.fieldRaw(pk, tn, cf[0])
			if gv == nil || gv.Embedded() {
				continue
			}
			gn, ok := gv.Type().(*types.Named)
			if !ok || gn.Obj().Pkg() != gv.Pkg() {
				continue
			}
			gst, ok := gn.Underlying().(*types.Struct)
			if !ok {
				continue
			}
			if _, old := ref.Structs[pk+"."+gn.Obj().Name()]; old {
				continue
			}
			claimed := map[*types.Var]bool{}
			ftype := func(v *types.Var) string { return normType(types.TypeString(v.Type(), fullQ)) }
			var rest [][2]string
			for _, f := range still {
				hit := false
				for i := 0; i < gst.NumFields(); i++ {
					if v := gst.Field(i); v.Name() == f[0] && ftype(v) == f[1] {
						claimed[v] = true
						regroup(p, v, gv, pk, tn, f[0])
						hit = true
					}
				}
				if !hit {
					rest = append(rest, f)
				}
			}
			still = nil
			for _, f := range rest {
				var cands []*types.Var
				for i := 0; i < gst.NumFields(); i++ {
					if v := gst.Field(i); !claimed[v] && ftype(v) == f[1] {
						cands = append(cands, v)
					}
				}
				same := 0
				for _, g := range rest {
					if g[1] == f[1] {
						same++
					}
				}
				if len(cands) == 1 && same == 1 {
					claimed[cands[0]] = true
					regroup(p, cands[0], gv, pk, tn, f[0])
				} else {
					still = append(still, f)
				}
			}
		}
	}
}

// regrouped: a field that moved from a reference struct into a value-typed helper struct held by it ->
// the reference owner; groupField: the fields holding such helpers (their address stands for the owner).
var (
	regrouped  = map[*types.Var]*types.Named{}
	groupField = map[*types.Var]bool{}
)

func regroup(p *Prog, v, holder *types.Var, pk, tn, refField string) {
	n := p.Named(pk, tn)
	if n == nil {
		return
	}
	owner := normType(types.TypeString(n, shortQ))
	if v.Name() != refField {
		canonField[v] = refField
	}
	regrouped[v] = n
	groupField[holder] = true
	promotedOwner[v] = owner
	canonNotes = append(canonNotes, fmt.Sprintf("field %s.%s is taken to have moved into the helper struct held by field %s (now %s)", owner, refField, holder.Name(), v.Name()))
}

// shapeTypes: the field types of a shape (they are joined by ';'); names are not part of a shape.
func shapeTypes(s string) string { return s }

// vname: the reference name of a struct field (its own name unless it was renamed).
func vname(v *types.Var) string {
	if v == nil {
		return ""
	}
	if n, ok := canonField[v]; ok {
		return n
	}
	return v.Name()
}

// fbase: the reference base name of a function (method name without receiver).
func fbase(f *ssa.Function) string {
	if f == nil {
		return ""
	}
	if n, ok := canonFn[f]; ok {
		if i := strings.LastIndex(n, "."); i >= 0 {
			return n[i+1:]
		}
		return n
	}
	return f.Name()
}

// param returns the parameter of fn that corresponds to parameter i of the reference tree (receiver = 0):
// the parameter still at position i if its name or type is the reference one; otherwise the parameter
// carrying the reference name; otherwise the only parameter of the reference type.  A reordered
// parameter list of an unexported helper therefore changes no verdict.
func param(fn *ssa.Function, i int) *ssa.Parameter {
	if fn == nil || i >= len(fn.Params) && refParams == nil {
		return nil
	}
	ref := refParams[fnName(fn)]
	if i >= len(ref) {
		if i < len(fn.Params) {
			return fn.Params[i]
		}
		return nil
	}
	tstr := func(p *ssa.Parameter) string {
		return types.TypeString(p.Type(), func(pk *types.Package) string { return pk.Path() })
	}
	want := ref[i]
	if i < len(fn.Params) && (fn.Params[i].Name() == want[0] || tstr(fn.Params[i]) == want[1]) {
		// unchanged position unless another parameter is the better match by name AND this one's name moved away
		if fn.Params[i].Name() == want[0] {
			return fn.Params[i]
		}
		byName := -1
		for j, p := range fn.Params {
			if p.Name() == want[0] && tstr(p) == want[1] {
				byName = j
			}
		}
		if byName < 0 {
			return fn.Params[i]
		}
		return fn.Params[byName]
	}
	for _, p := range fn.Params {
		if p.Name() == want[0] && tstr(p) == want[1] {
			return p
		}
	}
	var only *ssa.Parameter
	n := 0
	for _, p := range fn.Params {
		if tstr(p) == want[1] {
			only = p
			n++
		}
	}
	if n == 1 {
		return only
	}
	if i < len(fn.Params) {
		return fn.Params[i]
	}
	return nil
}

// refPerm: perm[i] = current position of the parameter that is parameter i on the reference tree, or
// nil when the order is unchanged / unknown.  Call events are recorded in reference order.
var refPermMemo = map[*ssa.Function][]int{}

func refPerm(fn *ssa.Function) []int {
	if fn == nil || refParams == nil {
		return nil
	}
	if p, ok := refPermMemo[fn]; ok {
		return p
	}
	var perm []int
	ref := refParams[fnName(fn)]
	if len(ref) == len(fn.Params) && len(ref) > 1 {
		perm = make([]int, len(ref))
		used := map[int]bool{}
		ident := true
		for i := range ref {
			pr := param(fn, i)
			idx := -1
			for j, q := range fn.Params {
				if q == pr {
					idx = j
				}
			}
			if idx < 0 || used[idx] {
				perm = nil
				break
			}
			used[idx] = true
			perm[i] = idx
			if idx != i {
				ident = false
			}
		}
		if ident {
			perm = nil
		}
	}
	refPermMemo[fn] = perm
	return perm
}

// refArgs: the operands of a static call in reference parameter order.
func refArgs(c *ssa.CallCommon) []ssa.Value {
	args := c.Args
	if c.IsInvoke() {
		return args
	}
	if perm := refPerm(staticCallee(c)); perm != nil && len(perm) == len(args) {
		re := make([]ssa.Value, len(args))
		for i := range perm {
			re[i] = args[perm[i]]
		}
		return re
	}
	return args
}
