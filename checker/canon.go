package main

import (
	"encoding/json"
	"fmt"
	"go/types"
	"os"
	"sort"
	"strings"

	"golang.org/x/tools/go/ssa"
)

// Rename canonicalisation.
//
// The rules name their anchors (functions, methods, struct fields of the module) by the
// names they have on the reference tree.  /verif/refsigs.json is a snapshot of those names
// with their signatures / types.  When a reference name is missing from the tree under
// analysis and exactly one *new* function of the same package and receiver has the
// identical signature (resp. exactly one new field of the same struct has the identical
// type), the new one is taken to be the renamed anchor: lookups by the reference name find
// it, and every name the analysis prints or compares (fnName, calleeName, event labels, field
// names) is the reference name.  A pure rename of an unexported helper or field therefore
// changes no verdict.  Anything ambiguous stays unresolved (UNRESOLVED-ANCHOR as before).

type refSigs struct {
	Funcs  map[string]string `json:"funcs"`  // "(*cache.Target).gnmiUpdate" -> signature
	Fields map[string]string `json:"fields"` // "ctree.Tree.leafBranch" -> type
	// Params: reference parameter list (incl. receiver) of every function: [name, type] pairs
	Params map[string][][2]string `json:"params"`
}

var refParams map[string][][2]string

var (
	canonFn    = map[*ssa.Function]string{} // renamed function -> reference name
	canonByRef = map[string]*ssa.Function{} // reference name -> renamed function
	canonField = map[*types.Var]string{}    // renamed field -> reference field name
	canonNotes []string
)

func sigString(f *ssa.Function) string {
	return types.TypeString(f.Signature, func(p *types.Package) string { return p.Path() })
}

func rawFnName(fn *ssa.Function) string {
	return strings.ReplaceAll(fn.String(), modPath+"/", "")
}

// owner: "(*cache.Target)" for methods, "cache" for functions.
func ownerOf(name string) string {
	if i := strings.LastIndex(name, "."); i >= 0 {
		return name[:i]
	}
	return ""
}

func (p *Prog) snapshotSigs() refSigs {
	rs := refSigs{Funcs: map[string]string{}, Fields: map[string]string{}, Params: map[string][][2]string{}}
	for _, mp := range p.ModPkgs() {
		rel := strings.TrimPrefix(mp, modPath+"/")
		for _, f := range p.PkgFuncs(rel) {
			if f.Parent() != nil || p.InTestFile(f) || p.IsGenerated(f) {
				continue
			}
			rs.Funcs[rawFnName(f)] = sigString(f)
			var ps [][2]string
			for _, pr := range f.Params {
				ps = append(ps, [2]string{pr.Name(), types.TypeString(pr.Type(), func(p *types.Package) string { return p.Path() })})
			}
			rs.Params[rawFnName(f)] = ps
		}
		sp := p.SSAPkg[mp]
		for _, m := range sp.Members {
			t, ok := m.(*ssa.Type)
			if !ok {
				continue
			}
			st, ok := t.Type().Underlying().(*types.Struct)
			if !ok {
				continue
			}
			pos := p.Fset.Position(t.Pos()).Filename
			if strings.HasSuffix(pos, ".pb.go") || strings.HasSuffix(pos, "_test.go") {
				continue
			}
			for i := 0; i < st.NumFields(); i++ {
				fl := st.Field(i)
				rs.Fields[rel+"."+t.Name()+"."+fl.Name()] = types.TypeString(fl.Type(), func(p *types.Package) string { return p.Path() })
			}
		}
	}
	return rs
}

func writeRefSigs(p *Prog, path string) error {
	rs := p.snapshotSigs()
	b, _ := json.MarshalIndent(rs, "", " ")
	return os.WriteFile(path, b, 0o644)
}

// canonicalise matches the tree under analysis against the reference snapshot.
func (p *Prog) canonicalise(path string) {
	b, err := os.ReadFile(path)
	if err != nil {
		canonNotes = append(canonNotes, "no reference signature snapshot ("+err.Error()+"): renamed anchors are not followed")
		return
	}
	var ref refSigs
	if err := json.Unmarshal(b, &ref); err != nil {
		canonNotes = append(canonNotes, "refsigs.json unreadable: "+err.Error())
		return
	}
	refParams = ref.Params
	cur := p.snapshotSigs()
	// ---- functions
	curFns := map[string]*ssa.Function{}
	for _, mp := range p.ModPkgs() {
		for _, f := range p.PkgFuncs(strings.TrimPrefix(mp, modPath+"/")) {
			if f.Parent() == nil {
				curFns[rawFnName(f)] = f
			}
		}
	}
	var missing, fresh []string
	for n := range ref.Funcs {
		if _, ok := cur.Funcs[n]; !ok {
			missing = append(missing, n)
		}
	}
	for n := range cur.Funcs {
		if _, ok := ref.Funcs[n]; !ok {
			fresh = append(fresh, n)
		}
	}
	sort.Strings(missing)
	sort.Strings(fresh)
	cands := map[string][]string{} // missing -> fresh candidates
	claimed := map[string][]string{}
	for _, m := range missing {
		for _, n := range fresh {
			if ownerOf(m) == ownerOf(n) && ref.Funcs[m] == cur.Funcs[n] {
				cands[m] = append(cands[m], n)
				claimed[n] = append(claimed[n], m)
			}
		}
	}
	for _, m := range missing {
		if len(cands[m]) == 1 && len(claimed[cands[m][0]]) == 1 {
			f := curFns[cands[m][0]]
			if f != nil {
				canonFn[f] = m
				canonByRef[m] = f
				canonNotes = append(canonNotes, fmt.Sprintf("anchor %s is taken to be renamed to %s (only new function of the same receiver with the identical signature)", m, cands[m][0]))
			}
		}
	}
	// ---- fields
	byStruct := map[string][]string{}
	for n := range cur.Fields {
		if _, ok := ref.Fields[n]; !ok {
			byStruct[ownerOf(n)] = append(byStruct[ownerOf(n)], n)
		}
	}
	var missF []string
	for n := range ref.Fields {
		if _, ok := cur.Fields[n]; !ok {
			missF = append(missF, n)
		}
	}
	sort.Strings(missF)
	fc := map[string][]string{}
	fclaimed := map[string][]string{}
	for _, m := range missF {
		for _, n := range byStruct[ownerOf(m)] {
			if ref.Fields[m] == cur.Fields[n] {
				fc[m] = append(fc[m], n)
				fclaimed[n] = append(fclaimed[n], m)
			}
		}
	}
	for _, m := range missF {
		if len(fc[m]) != 1 || len(fclaimed[fc[m][0]]) != 1 {
			continue
		}
		n := fc[m][0]
		// "pkg/path.Type.field"
		own := ownerOf(n)
		i := strings.LastIndex(own, ".")
		if i < 0 {
			continue
		}
		if v := p.fieldRaw(own[:i], own[i+1:], n[len(own)+1:]); v != nil {
			canonField[v] = m[len(ownerOf(m))+1:]
			canonNotes = append(canonNotes, fmt.Sprintf("field %s is taken to be renamed to %s (only new field of the struct with the identical type)", m, n))
		}
	}
}

// vname: the reference name of a struct field (its own name unless it was renamed).
func vname(v *types.Var) string {
	if v == nil {
		return ""
	}
	if n, ok := canonField[v]; ok {
		return n
	}
	return v.Name()
}

// fbase: the reference base name of a function (method name without receiver).
func fbase(f *ssa.Function) string {
	if f == nil {
		return ""
	}
	if n, ok := canonFn[f]; ok {
		if i := strings.LastIndex(n, "."); i >= 0 {
			return n[i+1:]
		}
		return n
	}
	return f.Name()
}

// param returns the parameter of fn that corresponds to parameter i of the reference tree (receiver = 0):
// the parameter still at position i if its name or type is the reference one; otherwise the parameter
// carrying the reference name; otherwise the only parameter of the reference type.  A reordered
// parameter list of an unexported helper therefore changes no verdict.
func param(fn *ssa.Function, i int) *ssa.Parameter {
	if fn == nil || i >= len(fn.Params) && refParams == nil {
		return nil
	}
	ref := refParams[fnName(fn)]
	if i >= len(ref) {
		if i < len(fn.Params) {
			return fn.Params[i]
		}
		return nil
	}
	tstr := func(p *ssa.Parameter) string {
		return types.TypeString(p.Type(), func(pk *types.Package) string { return pk.Path() })
	}
	want := ref[i]
	if i < len(fn.Params) && (fn.Params[i].Name() == want[0] || tstr(fn.Params[i]) == want[1]) {
		// unchanged position unless another parameter is the better match by name AND this one's name moved away
		if fn.Params[i].Name() == want[0] {
			return fn.Params[i]
		}
		byName := -1
		for j, p := range fn.Params {
			if p.Name() == want[0] && tstr(p) == want[1] {
				byName = j
			}
		}
		if byName < 0 {
			return fn.Params[i]
		}
		return fn.Params[byName]
	}
	for _, p := range fn.Params {
		if p.Name() == want[0] && tstr(p) == want[1] {
			return p
		}
	}
	var only *ssa.Parameter
	n := 0
	for _, p := range fn.Params {
		if tstr(p) == want[1] {
			only = p
			n++
		}
	}
	if n == 1 {
		return only
	}
	if i < len(fn.Params) {
		return fn.Params[i]
	}
	return nil
}

// refPerm: perm[i] = current position of the parameter that is parameter i on the reference tree, or
// nil when the order is unchanged / unknown.  Call events are recorded in reference order.
var refPermMemo = map[*ssa.Function][]int{}

func refPerm(fn *ssa.Function) []int {
	if fn == nil || refParams == nil {
		return nil
	}
	if p, ok := refPermMemo[fn]; ok {
		return p
	}
	var perm []int
	ref := refParams[fnName(fn)]
	if len(ref) == len(fn.Params) && len(ref) > 1 {
		perm = make([]int, len(ref))
		used := map[int]bool{}
		ident := true
		for i := range ref {
			pr := param(fn, i)
			idx := -1
			for j, q := range fn.Params {
				if q == pr {
					idx = j
				}
			}
			if idx < 0 || used[idx] {
				perm = nil
				break
			}
			used[idx] = true
			perm[i] = idx
			if idx != i {
				ident = false
			}
		}
		if ident {
			perm = nil
		}
	}
	refPermMemo[fn] = perm
	return perm
}

// refArgs: the operands of a static call in reference parameter order.
func refArgs(c *ssa.CallCommon) []ssa.Value {
	args := c.Args
	if c.IsInvoke() {
		return args
	}
	if perm := refPerm(staticCallee(c)); perm != nil && len(perm) == len(args) {
		re := make([]ssa.Value, len(args))
		for i := range perm {
			re[i] = args[perm[i]]
		}
		return re
	}
	return args
}
