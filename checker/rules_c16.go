package main

import (
	"fmt"
	"go/token"
	"go/types"
	"strings"

	"golang.org/x/tools/go/ssa"
)

func init() {
	register(&propDef{
		ID:       "C16",
		Explain:  "Decided for connection.Manager (structural necessary conditions): conns and ref are accessed only under Manager.mu; c/err are written only in dial before the deferred close(ready) and read in Connection only after a receive from ready; Connection joins-or-creates inside one critical section (lookup, create+store+exactly one `go dial` on the not-found edge only, ref++ on both edges, all before the wait), every path that counted a reference waits for ready or undoes the count, a cancelled context returns before touching the map; dial's failure path removes the entry and publishes the error under the lock, the success path does not remove; a failed request returns an empty release function; the release function is once-guarded per holder, decrements ref by 1 under the lock and removes iff the counter test is true at 0 and false at 1; ClientConn.Close is called only from remove, remove only from dial and the release body, and remove forgets the entry on every path on which it closes; in manager.monitor the release function is deferred on every path after a successful dial, before subscribe. Round-4 addition: every call of a Dial function value is made by dial or synchronously below it, never on a goroutine dial does not wait for. Round-5 additions: a connection the dialer produced is published or closed on every path (never dropped by a later decision to fail the attempt); every holder in the module releases or hands on the release function of each successful request before asking again; lookup key = store key = entry id = what dial is started with for its own remove; remove may leave the map untouched only on the path on which the lookup reported no such entry. Round-7 addition: every context handed on inside package connection is the function's own context parameter or derived from it by WithTimeout/Deadline/Cancel/Value.",
		NotCover: "use-after-close by holders outside the module; behaviour of grpc.ClientConn itself; fairness of the mutex",
		Run:      runC16,
	})
}

var releaseBodyFn *ssa.Function

func runC16(c *Ctx) {
	releaseBodyFn = nil
	P := c.P
	Conn := P.Method("connection", "Manager", "Connection")
	dial := P.Method("connection", "Manager", "dial")
	remove := P.Method("connection", "Manager", "remove")
	done := P.Method("connection", "connection", "done")
	fConns := P.Field("connection", "Manager", "conns")
	fMu := P.Field("connection", "Manager", "mu")
	fRef := P.Field("connection", "connection", "ref")
	fC := P.Field("connection", "connection", "c")
	fErr := P.Field("connection", "connection", "err")
	fReady := P.Field("connection", "connection", "ready")
	for n, ok := range map[string]bool{"(*Manager).Connection": Conn != nil, "(*Manager).dial": dial != nil, "(*Manager).remove": remove != nil, "(*connection).done": done != nil,
		"Manager.conns": fConns != nil, "Manager.mu": fMu != nil, "connection.ref": fRef != nil, "connection.c": fC != nil, "connection.err": fErr != nil, "connection.ready": fReady != nil} {
		if !ok {
			c.Unresolved("C16.anchors", "connection."+n)
		}
	}
	if len(c.Unres) > 0 {
		return
	}
	c.Rule("C16.locked", "Manager.conns and connection.ref are read/written only with Manager.mu held (callers of remove included); locks are released on all exits; no re-entrant acquisition")
	c.Rule("C16.ready-hb", "connection.c / connection.err are written only in dial, where close(c.ready) is deferred (runs last); every read in Connection is preceded on its path by a receive from c.ready; the only other reader is remove, which is reachable only from dial and from the release function handed out after ready")
	c.Rule("C16.join", "Connection: cancelled ctx => return before any lock/map access; otherwise within one critical section: lookup, on not-found create+store+exactly one go dial, on found neither; ref++ on both, before Unlock; every path that incremented ref receives from c.ready (or decrements again under the lock) before returning")
	c.Rule("C16.fail", "dial: a path that calls remove does so under m.mu together with a store of a non-nil c.err and never stores c.c; a path without remove stores c.c and not c.err. Connection: c.err != nil => returns (nil, empty function literal, c.err); success => returns (c.c, c.done(m), nil)")
	c.Rule("C16.release", "done allocates a fresh sync.Once per call and the returned function only calls once.Do(body); body: under m.mu, ref = ref-1, remove(c.id) iff the test on ref is true at 0 and false at 1")
	c.Rule("C16.close-owner", "(*grpc.ClientConn).Close is called only in Manager.remove; remove is called only from dial and the release body; every path of remove deletes the map entry and closes at most once")
	c.Rule("C16.mgr-pairing", "manager.monitor: after createConn succeeds the release function it returned runs after subscribe on every returning path (deferred, or called explicitly once subscribe is back); on failure it returns without subscribing")
	ctxFlow(c, "C16.dial-ctx")

	// ---- locked
	la := NewLockAudit(c, "connection", map[*types.Var]*types.Var{fConns: fMu, fRef: fMu}, 2, fRef)
	la.Report(func(kind string) string { return "C16.locked" })
	c.Check(la.Accesses >= 6, "C16.locked", "connection", "guarded accesses analysed", "", fmt.Sprintf("%d accesses on paths, %d directly under the mutex, the rest discharged at call sites", la.Accesses, la.Guarded))

	isReadyRecv := func(ev *Ev) bool {
		return (strings.HasPrefix(ev.Label, "recv:") || strings.HasPrefix(ev.Label, "select:recv:")) && len(ev.Args) > 0 && (ev.Field == fReady || loadOfField(ev.Args[0].V, fReady))
	}
	isRefStore := func(ev *Ev, delta int64) bool {
		if ev.Label != "store:connection.connection.ref" {
			return false
		}
		b, ok := ev.Args[1].V.(*ssa.BinOp)
		if !ok {
			return false
		}
		k, isK := constInt(b.Y)
		if !isK || !loadOfField(b.X, fRef) {
			return false
		}
		return (b.Op == token.ADD && k == delta) || (b.Op == token.SUB && k == -delta)
	}
	lock := func(ev *Ev) bool { return ev.Label == "call:(*sync.Mutex).Lock" && ev.Field == fMu }
	unlock := func(ev *Ev) bool { return ev.Label == "call:(*sync.Mutex).Unlock" && ev.Field == fMu }

	// ---- ready happens-before
	{
		for _, f := range P.PkgFuncs("connection") {
			if P.InTestFile(f) {
				continue
			}
			instrs(f, func(in ssa.Instruction) {
				if st, ok := in.(*ssa.Store); ok {
					if fl := fieldOf(st.Addr); fl == fC || fl == fErr {
						// composite literal initialisation of a fresh object is not a publication
						if fa, ok := st.Addr.(*ssa.FieldAddr); ok {
							if _, isAlloc := fa.X.(*ssa.Alloc); isAlloc {
								return
							}
						}
						c.Check(onlyFrom(P, f, dial, 0), "C16.ready-hb", fnName(f), "write of connection."+fl.Name(), P.Pos(in.Pos()), "dial result fields may only be written by dial (or a helper only dial calls)")
					}
				}
			})
		}
		// close(ready) runs exactly once on every returning path of dial, after every write of c.c / c.err
		// (deferred at entry, or written out before each return)
		{
			e := &PPA{Watch: func(ev *Ev) bool {
				return ev.Label == "builtin:close" || ev.Label == "store:connection.connection.c" || ev.Label == "store:connection.connection.err"
			}}
			e.Run(dial)
			c.Paths += len(e.Paths)
			okClose, n := true, 0
			why := ""
			for i := range e.Paths {
				p := &e.Paths[i]
				if p.End != "return" {
					continue
				}
				n++
				isCl := func(ev *Ev) bool {
					return ev.Label == "builtin:close" && len(ev.Args) > 0 && (loadOfField(ev.Args[0].V, fReady) || fieldOf(ev.In.(ssa.CallInstruction).Common().Args[0]) == fReady)
				}
				k := p.Count(isCl)
				ci := p.Index(0, isCl)
				if k != 1 || ci != len(p.Trace)-1 {
					okClose = false
					why = fmt.Sprintf("%d close(ready) on the path, at position %d of %d; path: %s", k, ci, len(p.Trace), p.String())
				}
			}
			c.Check(okClose && n > 0, "C16.ready-hb", fnName(dial), "defer close(c.ready) at entry", P.Pos(dial.Pos()), "ready is signalled exactly once, after every write of c.c / c.err, on every return of dial; "+why)
		}
		// reads in Connection after ready
		e := &PPA{TraceLoads: true, Watch: func(ev *Ev) bool {
			return isReadyRecv(ev) || (strings.HasPrefix(ev.Label, "load:") && (ev.Field == fC || ev.Field == fErr))
		}}
		e.Run(Conn)
		c.Paths += len(e.Paths)
		n := 0
		for i := range e.Paths {
			p := &e.Paths[i]
			rr := p.Index(0, isReadyRecv)
			for j := range p.Trace {
				if strings.HasPrefix(p.Trace[j].Label, "load:") {
					n++
					c.Check(rr >= 0 && rr < j, "C16.ready-hb", fnName(Conn), "read of "+p.Trace[j].Label[5:]+" after <-c.ready", P.Pos(posOf(p.Trace[j].In)), "path: "+p.String())
				}
			}
		}
		c.Floor("C16.ready-hb/reads", n, 2)
		// other readers
		for _, f := range P.PkgFuncs("connection") {
			// helpers called only from Connection are entered by its path analysis above; helpers of dial write, not publish
			if P.InTestFile(f) || f == Conn || f == dial || onlyFrom(P, f, Conn, 0) || onlyFrom(P, f, dial, 0) {
				continue
			}
			instrs(f, func(in ssa.Instruction) {
				if u, ok := in.(*ssa.UnOp); ok && u.Op == token.MUL {
					if fl := fieldOf(u.X); fl == fC || fl == fErr {
						c.Check(f == remove, "C16.ready-hb", fnName(f), "read of connection."+fl.Name(), P.Pos(in.Pos()), "only remove (reached after ready) may read dial results outside Connection")
					}
				}
			})
		}
	}
	// ---- join
	{
		c.Analysed(fnName(Conn))
		for _, found := range []bool{true, false} {
			at := &Atoms{
				Class: func(e *PPA, st *State, rv RV) string {
					if ex, ok := rv.V.(*ssa.Extract); ok && ex.Index == 1 {
						if lk, ok := ex.Tuple.(*ssa.Lookup); ok && lk.CommaOk && loadOfField(lk.X, fConns) {
							return "FOUND"
						}
					}
					return ""
				},
				Bool: map[string]bool{"FOUND": found},
			}
			e := &PPA{Cond: at.Cond, Watch: func(ev *Ev) bool {
				return lock(ev) || unlock(ev) || strings.HasPrefix(ev.Label, "mapupdate:") || strings.HasPrefix(ev.Label, "go:") || strings.HasPrefix(ev.Label, "store:connection.connection.ref") ||
					isReadyRecv(ev) || strings.HasPrefix(ev.Label, "select:") || ev.Label == "builtin:delete"
			}}
			e.Run(Conn)
			c.Paths += len(e.Paths)
			c.Scen++
			nJoin := 0
			for i := range e.Paths {
				p := &e.Paths[i]
				li := p.Index(0, lock)
				if li < 0 {
					// cancelled context: nothing touched
					ok := len(p.Rets) == 3 && retClass(p.Rets[0]) == "nil" && !p.Has(lblPrefix("mapupdate:")) && !p.Has(lblPrefix("go:")) && !p.Has(lblPrefix("store:"))
					c.Check(ok, "C16.join", fnName(Conn), "cancelled context returns before touching the map", P.Pos(Conn.Pos()), "path: "+p.String())
					continue
				}
				nJoin++
				ui := p.Index(li, unlock)
				inc := p.Index(0, func(ev *Ev) bool { return isRefStore(ev, 1) })
				mu := p.Index(0, lblPrefix("mapupdate:"))
				gos := p.Count(lblPrefix("go:"))
				gi := p.Index(0, lblPrefix("go:"))
				rr := p.Index(0, isReadyRecv)
				dec := p.Index(inc+1, func(ev *Ev) bool { return isRefStore(ev, -1) })
				within := func(i int) bool { return i > li && i < ui }
				ok := ui > li && within(inc) && p.Count(func(ev *Ev) bool { return isRefStore(ev, 1) }) == 1
				if found {
					ok = ok && mu < 0 && gos == 0
				} else {
					goDial := gi >= 0 && staticCallee(p.Trace[gi].In.(*ssa.Go).Common()) == dial
					ok = ok && within(mu) && gos == 1 && within(gi) && goDial
				}
				waited := rr > ui || dec > inc
				c.Check(ok && waited, "C16.join", fnName(Conn), fmt.Sprintf("join-or-create in one critical section (entry found=%v)", found), P.Pos(Conn.Pos()),
					fmt.Sprintf("lock@%d unlock@%d ref++@%d store@%d go-dial=%d waits-for-ready-or-undoes=%v; path: %s", li, ui, inc, mu, gos, waited, p.String()))
			}
			c.Floor(fmt.Sprintf("C16.join/paths(found=%v)", found), nJoin, 1)
		}
	}
	// ---- the dialer is run by dial itself: one dial per entry, and dial outlives no attempt it started
	c.Rule("C16.dial-owned", "every call of a connection.Dial function value in package connection is made by dial or a function it calls synchronously (never on a goroutine dial does not wait for): the entry's single dial is in flight exactly while dial runs, and a connection it obtains is either published in c.c or never existed")
	{
		reach := syncReach(dial)
		n := 0
		for _, f := range P.PkgFuncs("connection") {
			if P.InTestFile(f) {
				continue
			}
			instrs(f, func(in ssa.Instruction) {
				ci, ok := in.(ssa.CallInstruction)
				if !ok || ci.Common().IsInvoke() || staticCallee(ci.Common()) != nil {
					return
				}
				if !isNamed(ci.Common().Value.Type(), "connection", "Dial") {
					return
				}
				n++
				_, isGo := in.(*ssa.Go)
				c.Check(reach[f] && !isGo, "C16.dial-owned", fnName(f), "dialer invoked synchronously by dial", P.Pos(in.Pos()), "a dial that runs on its own goroutine can still be in flight (or succeed, unowned) after the entry was forgotten")
			})
		}
		c.Floor("C16.dial-owned/dialer-calls", n, 1)
	}
	// ---- fail
	{
		c.Analysed(fnName(dial))
		e := &PPA{Watch: func(ev *Ev) bool {
			return lock(ev) || unlock(ev) || ev.Label == "call:"+fnName(remove) || ev.Label == "store:connection.connection.c" || ev.Label == "store:connection.connection.err" || ev.Label == "builtin:close"
		}}
		e.Run(dial)
		c.Paths += len(e.Paths)
		nFail, nOK := 0, 0
		for i := range e.Paths {
			p := &e.Paths[i]
			ri := p.Index(0, lbl("call:"+fnName(remove)))
			sc := p.Index(0, lbl("store:connection.connection.c"))
			se := p.Index(0, lbl("store:connection.connection.err"))
			cl := p.Index(0, lbl("builtin:close"))
			last := cl == len(p.Trace)-1 && cl >= 0 // deferred, or written out before each return: it runs last
			if ri >= 0 {
				nFail++
				li := p.Index(0, lock)
				ui := p.Index(li+1, unlock)
				nonNil := se >= 0 && !isNilConst(p.Trace[se].Args[1].V)
				ok := li >= 0 && li < ri && ri < ui && li < se && se < ui && sc < 0 && nonNil && last
				c.Check(ok, "C16.fail", fnName(dial), "failed dial: remove + publish error under the lock, then ready", P.Pos(dial.Pos()), "path: "+p.String())
			} else {
				nOK++
				ok := sc >= 0 && se < 0 && last
				c.Check(ok, "C16.fail", fnName(dial), "successful dial: store c.c, no remove, then ready", P.Pos(dial.Pos()), "path: "+p.String())
			}
		}
		c.Floor("C16.fail/dial-failure-paths", nFail, 1)
		c.Floor("C16.fail/dial-success-paths", nOK, 1)
		// ---- a connection the dialer produced is never dropped
		c.Rule("C16.dial-result", "dial, in the scenario 'the dialer returned no error': on every path the connection it returned is published in c.c or closed - it is never dropped on the floor by a later decision (cancelled context, ...) to treat the attempt as failed, which would leave an open connection that no holder can release")
		{
			isDialCall := func(v ssa.Value) *ssa.Call {
				call, ok := v.(*ssa.Call)
				if ok && !call.Call.IsInvoke() && staticCallee(&call.Call) == nil && isNamed(call.Call.Value.Type(), "connection", "Dial") {
					return call
				}
				return nil
			}
			e := &PPA{Watch: func(ev *Ev) bool {
				return ev.Label == "store:connection.connection.c" || strings.HasPrefix(ev.Label, "call:dyn:") || ev.Label == "call:(*google.golang.org/grpc.ClientConn).Close"
			}, Cond: func(e *PPA, st *State, rv RV) (bool, bool) {
				r := e.Resolve(st, rv)
				b, ok := r.V.(*ssa.BinOp)
				if !ok || (b.Op != token.EQL && b.Op != token.NEQ) {
					return false, false
				}
				for _, pr := range [][2]ssa.Value{{b.X, b.Y}, {b.Y, b.X}} {
					if !isNilConst(pr[1]) {
						continue
					}
					x := e.Resolve(st, RV{r.F, pr[0]})
					if ex, ok := x.V.(*ssa.Extract); ok && ex.Index == 1 && isDialCall(ex.Tuple) != nil {
						return b.Op == token.EQL, true // the dialer's error is nil
					}
				}
				return false, false
			}}
			// dial(c, attempt func() ...) with the attempt handed over at the `go` site: analysed as called there
			var allPaths []Path
			hasFnParam := false
			for _, pp := range dial.Params {
				if _, isSig := pp.Type().Underlying().(*types.Signature); isSig {
					hasFnParam = true
				}
			}
			if hasFnParam {
				for _, f := range P.PkgFuncs("connection") {
					if P.InTestFile(f) {
						continue
					}
					for _, ci := range callsIn(f) {
						if staticCallee(ci.Common()) == dial {
							e.RunAt(dial, ci)
							allPaths = append(allPaths, e.Paths...)
						}
					}
				}
			} else {
				e.Run(dial)
				allPaths = e.Paths
			}
			c.Paths += len(allPaths)
			c.Scen++
			n := 0
			for i := range allPaths {
				p := &allPaths[i]
				di := -1
				for j := range p.Trace {
					if ci, ok := p.Trace[j].In.(*ssa.Call); ok && isDialCall(ci) != nil {
						di = j
					}
				}
				if di < 0 {
					continue // no dialer of that name: nothing was dialled
				}
				n++
				dc := p.Trace[di].In.(*ssa.Call)
				kept := false
				for j := di + 1; j < len(p.Trace); j++ {
					ev := &p.Trace[j]
					if ev.Label == "store:connection.connection.c" && len(ev.Args) >= 2 {
						if ex, ok := ev.Args[1].V.(*ssa.Extract); ok && ex.Index == 0 && ex.Tuple == ssa.Value(dc) {
							kept = true
						}
					}
					if ev.Label == "call:(*google.golang.org/grpc.ClientConn).Close" && len(ev.Args) >= 1 {
						if ex, ok := ev.Args[0].V.(*ssa.Extract); ok && ex.Index == 0 && ex.Tuple == ssa.Value(dc) {
							kept = true
						}
					}
				}
				c.Check(kept, "C16.dial-result", fnName(dial), "dialer succeeded: its connection is published or closed", P.Pos(dc.Pos()), "path: "+p.String())
			}
			c.Floor("C16.dial-result/paths", n, 1)
		}
		// Connection's return values
		for _, hasErr := range []bool{true, false} {
			at := &Atoms{
				Class: func(e *PPA, st *State, rv RV) string {
					rv = e.Resolve(st, rv)
					if loadOfField(rv.V, fErr) {
						return "CERR"
					}
					return ""
				},
				Bool: map[string]bool{"CERR": hasErr},
			}
			e := &PPA{Cond: at.Cond, Watch: func(ev *Ev) bool {
				return isReadyRecv(ev) || ev.Label == "call:"+fnName(done) || ev.Label == "call:"+fnName(remove) || strings.HasPrefix(ev.Label, "call:dyn:") || ev.Label == "store:connection.connection.ref"
			}}
			e.Run(Conn)
			c.Paths += len(e.Paths)
			c.Scen++
			n := 0
			for i := range e.Paths {
				p := &e.Paths[i]
				if !p.Has(isReadyRecv) || len(p.Rets) != 3 {
					continue
				}
				n++
				r0, r1, r2 := retClass(p.Rets[0]), retClass(p.Rets[1]), retClass(p.Rets[2])
				if hasErr {
					empty := false
					switch f := p.Rets[1].V.(type) {
					case *ssa.Function:
						empty = emptyBody(f)
					case *ssa.MakeClosure:
						empty = emptyBody(f.Fn.(*ssa.Function))
					}
					ok := r0 == "nil" && empty && loadOfField(p.Rets[2].V, fErr)
					c.Check(ok, "C16.fail", fnName(Conn), "failed request: (nil, no-op release, c.err)", P.Pos(Conn.Pos()), fmt.Sprintf("returns (%s, %s, %s), release body empty=%v", r0, r1, r2, empty))
					// dial's failure arm has already forgotten the entry: a waiter that "gives back" its usage
					// (done / remove / ref) on this path would act, by address, on whatever entry exists by then
					ri := p.Index(0, isReadyRecv)
					after := false
					for j := ri + 1; j < len(p.Trace); j++ {
						if p.Trace[j].Label == "call:"+fnName(done) || p.Trace[j].Label == "call:"+fnName(remove) || strings.HasPrefix(p.Trace[j].Label, "call:dyn:") || p.Trace[j].Label == "store:connection.connection.ref" {
							after = true
						}
					}
					c.Check(!after, "C16.fail", fnName(Conn), "failed request: nothing is released or un-counted after the wait", P.Pos(Conn.Pos()), "path: "+p.String())
				} else {
					ok := loadOfField(p.Rets[0].V, fC) && r1 == "call:"+fnName(done) && r2 == "nil"
					c.Check(ok, "C16.fail", fnName(Conn), "successful request: (c.c, c.done(m), nil)", P.Pos(Conn.Pos()), fmt.Sprintf("returns (%s, %s, %s)", r0, r1, r2))
				}
			}
			c.Floor(fmt.Sprintf("C16.fail/Connection-returns(err=%v)", hasErr), n, 1)
		}
	}
	// ---- release
	{
		c.Analysed(fnName(done))
		// once is a fresh allocation in done, the returned closure only calls once.Do(fn)
		var onceAlloc *ssa.Alloc
		instrs(done, func(in ssa.Instruction) {
			if a, ok := in.(*ssa.Alloc); ok && isNamedStd(deref(a.Type()), "sync", "Once") {
				onceAlloc = a
			}
		})
		var body, outer *ssa.Function
		okOuter := false
		var retClosure *ssa.MakeClosure
		instrs(done, func(in ssa.Instruction) {
			if r, ok := in.(*ssa.Return); ok && len(r.Results) == 1 {
				if mc, ok := r.Results[0].(*ssa.MakeClosure); ok {
					retClosure = mc
				}
			}
		})
		// the function a func-typed value stands for: a literal, or the method behind a bound method value
		target := func(v ssa.Value) *ssa.Function {
			if al, ok := v.(*ssa.Alloc); ok {
				if s := singleStore(al); s != nil {
					v = s
				}
			}
			mc, ok := v.(*ssa.MakeClosure)
			if !ok {
				return nil
			}
			fn := mc.Fn.(*ssa.Function)
			if strings.HasSuffix(fn.Name(), "$bound") {
				for _, ci := range callsIn(fn) {
					if m := staticCallee(ci.Common()); m != nil && len(m.Blocks) > 0 {
						return m
					}
				}
			}
			return fn
		}
		if retClosure != nil {
			outer = target(retClosure)
			if outer != nil && outer != retClosure.Fn.(*ssa.Function) {
				// bound method value (&holder{…}).release: the holder is a fresh object of this call of done and
				// the method only calls h.once.Do(h.body)
				_, fresh := retClosure.Bindings[0].(*ssa.Alloc)
				calls := callsIn(outer)
				if fresh && len(calls) == 1 && calleeName(calls[0].Common()) == "(*sync.Once).Do" {
					rcv := calls[0].Common().Args[0]
					if fa, ok := rcv.(*ssa.FieldAddr); ok && fa.X == ssa.Value(outer.Params[0]) && isNamedStd(deref(fa.Type()), "sync", "Once") {
						onceAlloc = retClosure.Bindings[0].(*ssa.Alloc)
						if mc, ok := calls[0].Common().Args[1].(*ssa.MakeClosure); ok {
							body = target(mc)
						}
						okOuter = body != nil
					}
				}
			} else if outer != nil && onceAlloc != nil {
				calls := callsIn(outer)
				if len(calls) == 1 && calleeName(calls[0].Common()) == "(*sync.Once).Do" {
					// receiver is the captured once, argument the captured body
					rcv := calls[0].Common().Args[0]
					arg := calls[0].Common().Args[1]
					rIdx, aIdx := freeVarIndex(outer, rcv), freeVarIndex(outer, arg)
					if rIdx >= 0 && retClosure.Bindings[rIdx] == ssa.Value(onceAlloc) && aIdx >= 0 {
						body = target(retClosure.Bindings[aIdx])
						okOuter = body != nil
					}
				}
			}
		}
		// ... or the library form of the same thing: done returns sync.OnceFunc(body) - every call of OnceFunc makes
		// its own once state, and the function it returns runs body at most once
		if !okOuter {
			nRet, nOnceFunc := 0, 0
			instrs(done, func(in ssa.Instruction) {
				r, ok := in.(*ssa.Return)
				if !ok || len(r.Results) != 1 {
					return
				}
				nRet++
				if call, ok := r.Results[0].(*ssa.Call); ok && calleeName(&call.Call) == "sync.OnceFunc" && len(call.Call.Args) == 1 {
					if b := target(call.Call.Args[0]); b != nil {
						body = b
						nOnceFunc++
					}
				}
			})
			okOuter = nRet > 0 && nRet == nOnceFunc && body != nil
		}
		c.Check(okOuter, "C16.release", fnName(done), "per-holder sync.Once guards the release body", P.Pos(done.Pos()), fmt.Sprintf("once allocated in done=%v, returned function is once.Do(body)=%v", onceAlloc != nil, okOuter))
		releaseBodyFn = body
		if body != nil {
			c.Analysed(fnName(body))
			for _, ref := range []int64{0, 1} {
				at := &Atoms{
					Class: func(e *PPA, st *State, rv RV) string {
						rv = e.Resolve(st, rv)
						if loadOfField(rv.V, fRef) {
							return "REF"
						}
						// the decremented value itself
						if b, ok := rv.V.(*ssa.BinOp); ok && (b.Op == token.SUB || b.Op == token.ADD) && loadOfField(b.X, fRef) {
							return "REF"
						}
						return ""
					},
					Int: map[string]int64{"REF": ref},
				}
				e := &PPA{Cond: func(e *PPA, st *State, rv RV) (bool, bool) {
					// `c == nil` guard: the connection exists
					if b, ok := rv.V.(*ssa.BinOp); ok && (b.Op == token.EQL || b.Op == token.NEQ) && isNilConst(b.Y) {
						if isNamed(b.X.Type(), "connection", "connection") {
							return b.Op == token.NEQ, true
						}
					}
					return at.Cond(e, st, rv)
				}, Watch: func(ev *Ev) bool {
					return lock(ev) || unlock(ev) || ev.Label == "call:"+fnName(remove) || strings.HasPrefix(ev.Label, "store:connection.connection.ref") ||
						strings.Contains(ev.Label, "ClientConn).Close") || ev.Label == "builtin:delete"
				}}
				e.Run(body)
				c.Paths += len(e.Paths)
				c.Scen++
				n := 0
				for i := range e.Paths {
					p := &e.Paths[i]
					n++
					li := p.Index(0, lock)
					dec := p.Index(0, func(ev *Ev) bool { return isRefStore(ev, -1) })
					ri := p.Index(0, lbl("call:"+fnName(remove)))
					// the unlock that ends the critical section containing the decrement
					ui := p.Index(dec+1, unlock)
					ok := li >= 0 && dec > li && ui > dec && p.Count(func(ev *Ev) bool { return strings.HasPrefix(ev.Label, "store:connection.connection.ref") }) == 1
					if ref == 0 {
						ok = ok && ri > dec && ri < ui
					} else {
						ok = ok && ri < 0 && !p.Has(lblContains("ClientConn).Close")) && !p.Has(lbl("builtin:delete"))
					}
					c.Check(ok, "C16.release", fnName(body), fmt.Sprintf("ref after decrement = %d", ref), P.Pos(body.Pos()),
						fmt.Sprintf("lock@%d ref--@%d remove@%d unlock@%d; path: %s", li, dec, ri, ui, p.String()))
				}
				c.Floor(fmt.Sprintf("C16.release/body-paths(ref=%d)", ref), n, 1)
			}
		}
	}
	// ---- close owner
	{
		nClose := 0
		for _, f := range P.PkgFuncs("connection") {
			if P.InTestFile(f) {
				continue
			}
			for _, ci := range callsIn(f) {
				name := calleeName(ci.Common())
				if name == "(*google.golang.org/grpc.ClientConn).Close" {
					nClose++
					c.Check(f == remove, "C16.close-owner", fnName(f), "ClientConn.Close call", P.Pos(ci.Pos()), "connections may only be closed by Manager.remove")
				}
				if staticCallee(ci.Common()) == remove {
					okCaller := onlyFrom(P, f, dial, 0) || (f.Parent() == done) || (releaseBodyFn != nil && f == releaseBodyFn)
					c.Check(okCaller, "C16.close-owner", fnName(f), "caller of remove", P.Pos(ci.Pos()), "remove may only be reached from dial (failure) and the release body (last holder)")
				}
			}
		}
		c.Floor("C16.close-owner/close-sites", nClose, 1)
		e := &PPA{TraceBranches: true, Watch: func(ev *Ev) bool {
			return ev.Label == "builtin:delete" || strings.Contains(ev.Label, "ClientConn).Close") || ev.Label == "if"
		}}
		e.Run(remove)
		c.Analysed(fnName(remove))
		c.Paths += len(e.Paths)
		for i := range e.Paths {
			p := &e.Paths[i]
			d := p.Index(0, lbl("builtin:delete"))
			okDel := d >= 0 && len(p.Trace[d].Args) == 2 && loadOfField(p.Trace[d].Args[0].V, fConns)
			nc := p.Count(lblContains("ClientConn).Close"))
			// a path on which the lookup reported "no such entry" has nothing to forget (and must close nothing)
			absent := false
			for j := range p.Trace {
				ev := &p.Trace[j]
				if ev.Label != "if" || len(ev.Args) == 0 {
					continue
				}
				if ex, ok := ev.Args[0].V.(*ssa.Extract); ok && ex.Index == 1 {
					if lk, ok := ex.Tuple.(*ssa.Lookup); ok && loadOfField(lk.X, fConns) && !ev.Taken {
						absent = true
					}
				}
			}
			if absent && nc == 0 {
				okDel = true
			}
			c.Check(okDel && nc <= 1, "C16.close-owner", fnName(remove), "forgets the entry on every path, closes at most once", P.Pos(remove.Pos()), fmt.Sprintf("delete(conns,…)=%v closes=%d; path: %s", okDel, nc, p.String()))
		}
	}
	// ---- manager pairing
	{
		mon := P.Method("manager", "Manager", "monitor")
		cc := P.Method("manager", "Manager", "createConn")
		sub := P.Method("manager", "Manager", "subscribe")
		if mon == nil || cc == nil || sub == nil {
			c.Unresolved("C16.mgr-pairing", "manager.(*Manager).monitor/createConn/subscribe")
			return
		}
		c.Analysed(fnName(mon))
		for _, fail := range []bool{false, true} {
			at := &Atoms{
				Class: func(e *PPA, st *State, rv RV) string {
					rv = e.Resolve(st, rv)
					if ex, ok := rv.V.(*ssa.Extract); ok && types.Identical(ex.Type(), types.Universe.Lookup("error").Type()) {
						if call, ok := ex.Tuple.(*ssa.Call); ok && staticCallee(&call.Call) == cc {
							return "CERR"
						}
					}
					return ""
				},
				Bool: map[string]bool{"CERR": fail},
			}
			e := &PPA{Cond: at.Cond, Watch: func(ev *Ev) bool {
				return ev.Label == "call:"+fnName(cc) || ev.Label == "call:"+fnName(sub) || (strings.HasPrefix(ev.Label, "call:dyn") && ev.Fn.V != nil)
			}}
			e.Run(mon)
			c.Paths += len(e.Paths)
			c.Scen++
			n := 0
			for i := range e.Paths {
				p := &e.Paths[i]
				ci := p.Index(0, lbl("call:"+fnName(cc)))
				if ci < 0 {
					continue
				}
				n++
				si := p.Index(0, lbl("call:"+fnName(sub)))
				rel := p.Index(0, func(ev *Ev) bool {
					ex, ok := ev.Fn.V.(*ssa.Extract)
					return ok && ex.Index == 1 && ex.Tuple == ssa.Value(p.Trace[ci].In.(*ssa.Call))
				})
				if fail {
					c.Check(si < 0, "C16.mgr-pairing", fnName(mon), "dial failed: no subscribe", P.Pos(mon.Pos()), "path: "+p.String())
				} else {
					c.Check(si > ci && rel > si, "C16.mgr-pairing", fnName(mon), "dial succeeded: release deferred, runs after subscribe", P.Pos(mon.Pos()), fmt.Sprintf("createConn@%d subscribe@%d deferred release@%d; path: %s", ci, si, rel, p.String()))
				}
			}
			c.Floor(fmt.Sprintf("C16.mgr-pairing/paths(fail=%v)", fail), n, 1)
		}
	}
	holderPairing(c, "C16.holder-pairing")
	// ---- one key per entry
	c.Rule("C16.key-agree", "an entry is cached, identified and forgotten under one key: on every path of Connection that creates an entry (helpers entered) the key of the lookup, the key of the store into Manager.conns, the value stored into the new entry's id and the operand that `go dial` hands over for dial's own remove(...) are the same value; dial (helpers entered) removes under that parameter or under the entry's id; every other remove(...) is given an entry's id (an entry removed under another key stays cached: a failed dial is then handed to every later requester, a released connection is never closed)")
	{
		fID := P.Field("connection", "connection", "id")
		if fID == nil || Conn == nil || dial == nil || remove == nil {
			c.Unresolved("C16.key-agree", "connection.connection.id / Connection / dial / remove")
			return
		}
		inPkg := func(fr *Frame, call ssa.CallInstruction, callee *ssa.Function) bool {
			return pkgPathOf(callee) == pkgPathOf(Conn) && callee != remove && callee != dial && callee != Conn
		}
		// which operand of dial is the remove key
		keyParam := -1 // reference index among dial's parameters (receiver = 0)
		{
			e := &PPA{Inline: inPkg, Watch: func(ev *Ev) bool { return ev.Label == "call:"+fnName(remove) }}
			e.Run(dial)
			c.Paths += len(e.Paths)
			n := 0
			for i := range e.Paths {
				p := &e.Paths[i]
				for j := range p.Trace {
					ev := &p.Trace[j]
					if len(ev.Args) < 2 {
						continue
					}
					n++
					key := ev.Args[1]
					okKey, why := false, "key is "+Expr(key.V)
					if u, isU := key.V.(*ssa.UnOp); isU && u.Op == token.MUL && fieldOf(u.X) == fID {
						okKey, why = true, "the entry's own id"
					}
					if pp, isP := key.V.(*ssa.Parameter); isP && pp.Parent() == dial {
						for k := 0; k < len(dial.Params); k++ {
							if param(dial, k) == pp {
								keyParam = k
								okKey, why = true, "dial's parameter "+pp.Name()
							}
						}
					}
					c.Check(okKey, "C16.key-agree", fnName(dial), "dial removes under its key parameter or the entry's id", P.Pos(posOf(ev.In)), why)
				}
			}
			c.Floor("C16.key-agree/dial-remove", n, 1)
		}
		// Connection: lookup key = store key = id = what dial is started with
		{
			e := &PPA{Inline: inPkg, TraceLookups: true, Watch: func(ev *Ev) bool {
				return (strings.HasPrefix(ev.Label, "lookup:") && ev.Field == fConns) || (strings.HasPrefix(ev.Label, "mapupdate:") && ev.Field == fConns) ||
					ev.Label == "store:connection.connection.id" || ev.Label == "go:"+fnName(dial)
			}}
			e.Run(Conn)
			c.Paths += len(e.Paths)
			n := 0
			for i := range e.Paths {
				p := &e.Paths[i]
				si := p.Index(0, func(ev *Ev) bool { return strings.HasPrefix(ev.Label, "mapupdate:") })
				if si < 0 || len(p.Trace[si].Args) < 2 {
					continue
				}
				n++
				key := p.Trace[si].Args[1]
				li := p.Index(0, func(ev *Ev) bool { return strings.HasPrefix(ev.Label, "lookup:") })
				okL := li >= 0 && li < si && len(p.Trace[li].Args) >= 2 && p.Trace[li].Args[1] == key
				c.Check(okL, "C16.key-agree", fnName(Conn), "lookup and store use the same key", P.Pos(Conn.Pos()), "path: "+p.String())
				ii := p.Index(0, lbl("store:connection.connection.id"))
				okI := ii >= 0 && len(p.Trace[ii].Args) >= 2 && p.Trace[ii].Args[1] == key
				c.Check(okI, "C16.key-agree", fnName(Conn), "the new entry's id is the key it is stored under", P.Pos(Conn.Pos()), "path: "+p.String())
				gi := p.Index(0, lbl("go:"+fnName(dial)))
				okG := gi >= 0
				if okG && keyParam >= 0 {
					okG = keyParam < len(p.Trace[gi].Args) && p.Trace[gi].Args[keyParam] == key
				}
				c.Check(okG, "C16.key-agree", fnName(Conn), "dial is started with the key the entry is stored under", P.Pos(Conn.Pos()), fmt.Sprintf("remove key of dial = reference parameter %d; path: %s", keyParam, p.String()))
			}
			c.Floor("C16.key-agree/create-paths", n, 1)
		}
		// every other remove(...): the entry's id
		for _, f := range P.PkgFuncs("connection") {
			if P.InTestFile(f) || onlyFrom(P, f, dial, 0) || f == dial {
				continue
			}
			for _, g := range withAnon(f) {
				if onlyFrom(P, g, dial, 0) {
					continue
				}
				for _, ci := range callsIn(g) {
					if staticCallee(ci.Common()) != remove {
						continue
					}
					args := refArgs(ci.Common())
					if len(args) < 2 {
						continue
					}
					key := unwrap(args[1])
					u, isU := key.(*ssa.UnOp)
					c.Check(isU && u.Op == token.MUL && fieldOf(u.X) == fID, "C16.key-agree", fnName(g), "a release removes under the entry's id", P.Pos(ci.Pos()), "key is "+Expr(key))
				}
			}
		}
	}
}

// holderPairing: every holder inside the module (non-test functions outside package connection that
// ask a connection manager for a connection) accounts for each reference it was given: in the
// scenario 'the request succeeded', the release function of that request is returned to the caller,
// called or deferred before the holder asks again or returns.  A reference that is overwritten by the
// next request keeps the shared connection open for ever ("when the last holder releases it, it is
// closed" never happens) and hands the stale connection to every later requester.
func holderPairing(c *Ctx, rule string) {
	P := c.P
	c.Rule(rule, "every non-test function of the module outside package connection that requests a connection (ConnectionManager.Connection / (*connection.Manager).Connection), replayed with every request succeeding and up to three requests in a loop: the release function of each request is returned, called or deferred before the next request and before the function returns - no reference is dropped by asking again")
	isConn := func(ci ssa.CallInstruction) bool {
		cc := ci.Common()
		if cc.IsInvoke() {
			return cc.Method.Name() == "Connection" && cc.Signature().Results().Len() == 3
		}
		return calleeName(cc) == "(*connection.Manager).Connection"
	}
	holders := 0
	for _, pk := range P.ModPkgs() {
		if pk == "connection" || strings.HasSuffix(pk, "/connection") {
			continue
		}
		for _, top := range P.PkgFuncs(pk) {
			if P.InTestFile(top) || P.IsGenerated(top) || top.Parent() != nil {
				continue
			}
			has := false
			for _, ci := range callsIn(top) {
				if isConn(ci) {
					has = true
				}
			}
			if !has {
				continue
			}
			holders++
			c.Analysed(fnName(top))
			isReq := func(ev *Ev) bool {
				ci, ok := ev.In.(ssa.CallInstruction)
				return ok && strings.HasPrefix(ev.Label, "call:") && isConn(ci)
			}
			e := &PPA{MaxVisits: 3, Watch: func(ev *Ev) bool {
				return isReq(ev) || strings.HasPrefix(ev.Label, "call:dyn:") || (ev.Deferred && ev.Fn.V != nil)
			}, Cond: func(e *PPA, st *State, rv RV) (bool, bool) {
				r := e.Resolve(st, rv)
				b, ok := r.V.(*ssa.BinOp)
				if !ok || (b.Op != token.EQL && b.Op != token.NEQ) {
					return false, false
				}
				for _, pr := range [][2]ssa.Value{{b.X, b.Y}, {b.Y, b.X}} {
					if !isNilConst(pr[1]) {
						continue
					}
					x := e.Resolve(st, RV{r.F, pr[0]})
					if ex, ok := x.V.(*ssa.Extract); ok && ex.Index == 2 {
						if call, ok := ex.Tuple.(*ssa.Call); ok && isConn(call) {
							return b.Op == token.EQL, true // the request succeeded
						}
					}
				}
				return false, false
			}}
			e.Run(top)
			c.Paths += len(e.Paths)
			c.Scen++
			n := 0
			for i := range e.Paths {
				p := &e.Paths[i]
				if p.End != "return" {
					continue
				}
				for j := range p.Trace {
					if !isReq(&p.Trace[j]) {
						continue
					}
					n++
					call, _ := p.Trace[j].In.(*ssa.Call)
					isDone := func(v ssa.Value) bool {
						ex, ok := v.(*ssa.Extract)
						return ok && ex.Index == 1 && call != nil && ex.Tuple == ssa.Value(call)
					}
					accounted := false
					for k := j + 1; k < len(p.Trace) && !isReq(&p.Trace[k]); k++ {
						if p.Trace[k].Fn.V != nil && isDone(p.Trace[k].Fn.V) {
							accounted = true // called or deferred
						}
					}
					// handed to the caller: only the last request's release can be what is returned
					last := true
					for k := j + 1; k < len(p.Trace); k++ {
						if isReq(&p.Trace[k]) {
							last = false
						}
					}
					if last {
						for _, r := range p.Rets {
							if isDone(r.V) {
								accounted = true
							}
						}
					}
					c.Check(accounted, rule, fnName(top), "the reference of a successful request is released or handed on before the next request / return", P.Pos(posOf(p.Trace[j].In)), "path: "+p.String())
				}
			}
			c.Floor(rule+"/"+fnName(top), n, 1)
		}
	}
	c.Floor(rule+"/holders", holders, 1)
}

func emptyBody(f *ssa.Function) bool {
	n := 0
	instrs(f, func(in ssa.Instruction) {
		switch in.(type) {
		case *ssa.Return, *ssa.DebugRef:
		default:
			n++
		}
	})
	return n == 0 && len(f.Blocks) == 1
}

func freeVarIndex(fn *ssa.Function, v ssa.Value) int {
	// v is a free variable or a load of one
	if u, ok := v.(*ssa.UnOp); ok && u.Op == token.MUL {
		v = u.X
	}
	for i, fv := range fn.FreeVars {
		if ssa.Value(fv) == v {
			return i
		}
	}
	return -1
}

func isNamedStd(t types.Type, pkg, name string) bool {
	n, ok := t.(*types.Named)
	return ok && n.Obj().Name() == name && n.Obj().Pkg() != nil && n.Obj().Pkg().Path() == pkg
}
