package main

// E4 — predicated path analysis.
//
// Exhaustive enumeration of the CFG paths of a function (with bounded loop
// unrolling and rule-selected inlining of closures / same-package callees)
// over a finite abstract domain: branch conditions are folded when they are
// constants, negations, φ-nodes (resolved by the path), loads of local cells
// (store-to-load forwarding), select-arm tests, or conditions the rule names
// as atoms with a truth value fixed by the scenario; every other condition
// forks both ways.  Nothing is executed and no solver is involved.

import (
	"fmt"
	"go/constant"
	"go/token"
	"go/types"
	"os"
	"strings"

	"golang.org/x/tools/go/ssa"
)

type Frame struct {
	ID     int
	Fn     *ssa.Function
	Parent *Frame
	ArgRV  []RV // resolved arguments (in caller context)
	Bind   []RV // resolved free-variable bindings
	Call   ssa.Instruction
}

// RV is an SSA value in the context of an activation.
type RV struct {
	F *Frame
	V ssa.Value
}

func (r RV) String() string { return Expr(r.V) }

// Ev is one recorded event of a path.
type Ev struct {
	Label    string
	In       ssa.Instruction
	F        *Frame
	Args     []RV // resolved operands (call: args incl. receiver; store: addr,val; send: chan,val)
	Deferred bool
	Blocking bool // select / channel op
	Fn       RV   // resolved callee value of a dynamic call
	Taken    bool // branch events: the edge taken
	Folded   bool // branch events: the condition was decided by what the path already knows
	Base     RV   // field load/store events: the (resolved) struct pointer
	Field    *types.Var
	Note     string       // free-form payload (facts emitted by probes)
	Ver      int          // lock operations: which execution of the loop body defined the locked object (0 outside loops)
	Elems    map[int][]RV // call events: resolved elements of arguments that are slice literals ([]T{a, b})
}

type Path struct {
	Trace []Ev
	End   string // return | panic | exit
	Rets  []RV
	RetB  []int         // boolean results folded at return time: 1 true, 0 false, -1 unknown / not bool
	Mem   map[string]RV // final cell contents
}

type State struct {
	mem     map[string]RV
	bind    map[RV][]RV
	sel     map[RV]int
	phi     map[RV]RV
	visits  map[[2]int]int
	defers  map[*Frame][]*ssa.Defer
	dargs   map[*Frame][][]RV // operands of each pending defer, resolved when the defer statement ran
	trace   []Ev
	decided map[RV]bool
	canon   map[string]RV // canonical load of a cell with unknown content
	nilOf   map[RV]bool   // values whose nil test was decided at a branch on this path: true = nil
	lens    map[RV]int64  // length of the slice an append produced when it last ran on this path
	elems   map[RV][]RV   // elements of a slice built on this path by appending literal elements onto a nil / empty / known slice
	loaded  map[RV]RV     // content of a local cell as of the last execution of a load instruction (a later store to the cell does not change what was loaded)
}

func newState() *State {
	return &State{elems: map[RV][]RV{}, loaded: map[RV]RV{}, lens: map[RV]int64{}, nilOf: map[RV]bool{}, canon: map[string]RV{}, mem: map[string]RV{}, bind: map[RV][]RV{}, sel: map[RV]int{}, phi: map[RV]RV{}, visits: map[[2]int]int{}, dargs: map[*Frame][][]RV{},
		defers: map[*Frame][]*ssa.Defer{}, decided: map[RV]bool{}}
}

func (s *State) clone() *State {
	n := newState()
	for k, v := range s.mem {
		n.mem[k] = v
	}
	for k, v := range s.nilOf {
		n.nilOf[k] = v
	}
	for k, v := range s.lens {
		n.lens[k] = v
	}
	for k, v := range s.loaded {
		n.loaded[k] = v
	}
	for k, v := range s.elems {
		n.elems[k] = v
	}
	for k, v := range s.bind {
		n.bind[k] = v
	}
	for k, v := range s.sel {
		n.sel[k] = v
	}
	for k, v := range s.phi {
		n.phi[k] = v
	}
	for k, v := range s.visits {
		n.visits[k] = v
	}
	for k, v := range s.defers {
		n.defers[k] = append([]*ssa.Defer(nil), v...)
	}
	for k, v := range s.dargs {
		n.dargs[k] = append([][]RV(nil), v...)
	}
	for k, v := range s.decided {
		n.decided[k] = v
	}
	for k, v := range s.canon {
		n.canon[k] = v
	}
	n.trace = append([]Ev(nil), s.trace...)
	return n
}

type PPA struct {
	// Cond lets the rule fold a (resolved) boolean value; known=false leaves it to the engine.
	Cond func(e *PPA, st *State, rv RV) (val, known bool)
	// Watch selects the events kept in traces (nil keeps all).
	Watch func(ev *Ev) bool
	// Inline selects calls whose callee is entered (closures invoked or deferred, same-package helpers).
	Inline func(fr *Frame, call ssa.CallInstruction, callee *ssa.Function) bool
	// NoFork: conditions that the rule declares irrelevant are taken both ways by default;
	MaxVisits int
	MaxPaths  int
	MaxDepth  int
	// TraceBranches records every conditional branch taken as an event
	// "if" with Args[0] = the (resolved) condition and Taken = edge.
	TraceBranches bool
	// TraceLoads records loads of struct fields as events "load:pkg.Type.field".
	TraceLoads bool
	// TraceLookups records map lookups as events "lookup:<map>" with Args = {map, key} resolved on
	// the path, Base/Field = the struct field the map was loaded from, and Note = "elem:<k>" when the
	// key is element k (a constant on this path) of a slice, whose resolved value is Args[2].
	TraceLookups bool
	// NoAuto disables the default inlining of unexported same-package helpers and of
	// function literals invoked where they are defined.  By default such a callee is
	// entered unless the rule watches the call itself (Watch accepts its call event),
	// lists it in Opaque, or it is recursive — so extracting or inlining a helper
	// does not change what a rule sees.
	// HeapForward also forwards a store to a field of an object reached through a parameter
	// of the analysed function (x.f = v ... x.f) to later loads on the path, as long as no call,
	// go, channel operation or deferred call intervenes.
	foldDepth int
	resDepth  int
	// IntHook lets a rule give an integer value to a (resolved) value, e.g. len(x) = 2 in this scenario;
	// it takes part in the constant folding of counters and comparisons.
	IntHook     func(e *PPA, st *State, rv RV) (int64, bool)
	preArgs     []RV // operands captured at defer time for the deferred call being entered
	HeapForward bool
	NoAuto      bool
	Opaque      map[*ssa.Function]bool
	// Probe is called for every instruction about to be executed on a path.
	Probe func(e *PPA, st *State, fr *Frame, in ssa.Instruction)

	deepApplied bool
	Paths       []Path
	Truncated   int // paths abandoned at the loop bound
	Overflow    bool
	nframes     int
	root        *Frame
}

// Run enumerates the paths of fn.
func (e *PPA) Run(fn *ssa.Function) {
	e.defaults()
	e.Paths = nil
	e.Overflow = false
	e.Truncated = 0
	e.root = e.newFrame(fn, nil, nil, nil, nil)
	st := newState()
	if len(fn.Blocks) == 0 {
		return
	}
	e.enter(e.root, nil, fn.Blocks[0], st, nil)
}

// RunAt enumerates the paths of fn as called at site: its parameters resolve to the operands of the
// call in the calling function (function values handed over there can be entered).
func (e *PPA) RunAt(fn *ssa.Function, site ssa.CallInstruction) {
	e.defaults()
	e.Paths = nil
	e.Overflow = false
	e.Truncated = 0
	outer := e.newFrame(site.Parent(), nil, nil, nil, nil)
	var args []RV
	for _, a := range site.Common().Args {
		args = append(args, RV{outer, a})
	}
	e.root = e.newFrame(fn, nil, args, nil, nil)
	if len(fn.Blocks) == 0 {
		return
	}
	e.enter(e.root, nil, fn.Blocks[0], newState(), nil)
}

// RunClosure enumerates the paths of the function literal created by mc; its
// free variables resolve to the binding values in the enclosing function.
func (e *PPA) RunClosure(mc *ssa.MakeClosure) { e.RunClosureVia(mc, nil) }

// closureArg finds the function literal behind a func-typed argument: the
// literal itself, or the literal returned by a same-package constructor
// (cond := storedBefore(ts)), in which case via is the constructor call.
func closureArg(v ssa.Value) (mc *ssa.MakeClosure, via *ssa.Call) {
	v = unwrap(v)
	if m, ok := v.(*ssa.MakeClosure); ok {
		return m, nil
	}
	call, ok := v.(*ssa.Call)
	if !ok {
		return nil, nil
	}
	g := staticCallee(&call.Call)
	if g == nil || len(g.Blocks) == 0 || g.Pkg != call.Parent().Pkg {
		return nil, nil
	}
	var found *ssa.MakeClosure
	n := 0
	instrs(g, func(in ssa.Instruction) {
		if ret, ok := in.(*ssa.Return); ok && len(ret.Results) == 1 {
			n++
			if m, ok := unwrap(ret.Results[0]).(*ssa.MakeClosure); ok {
				found = m
			}
		}
	})
	if n != 1 || found == nil {
		return nil, nil
	}
	return found, call
}

// RunClosureVia analyses the closure created by mc; when the closure is
// returned by a constructor called at via, the constructor's parameters are
// bound to the arguments of that call.
func (e *PPA) RunClosureVia(mc *ssa.MakeClosure, via *ssa.Call) {
	fn := mc.Fn.(*ssa.Function)
	e.defaults()
	e.Paths = nil
	e.Overflow = false
	e.Truncated = 0
	var outer *Frame
	if via != nil {
		caller := e.newFrame(via.Parent(), nil, nil, nil, nil)
		var args []RV
		for _, a := range via.Call.Args {
			args = append(args, RV{caller, a})
		}
		outer = e.newFrame(mc.Parent(), caller, args, nil, via)
	} else {
		outer = e.newFrame(mc.Parent(), nil, nil, nil, nil)
	}
	var bind []RV
	for _, b := range mc.Bindings {
		bind = append(bind, RV{outer, b})
	}
	e.root = e.newFrame(fn, nil, nil, bind, nil)
	if len(fn.Blocks) == 0 {
		return
	}
	st := newState()
	// captured variables assigned exactly once in the enclosing function are
	// known inside the closure
	for _, b := range mc.Bindings {
		if a, ok := b.(*ssa.Alloc); ok {
			if v := singleStore(a); v != nil {
				if key, ok := e.cellKey(st, RV{outer, a}); ok {
					st.mem[key] = RV{outer, v}
				}
			}
		}
	}
	e.enter(e.root, nil, fn.Blocks[0], st, nil)
}

// singleStore returns the only value ever stored into the local cell a
// (looking through closures that capture it), or nil.
func singleStore(a *ssa.Alloc) ssa.Value {
	var val ssa.Value
	n := 0
	var visit func(addr ssa.Value, depth int) bool
	visit = func(addr ssa.Value, depth int) bool {
		if depth > 4 || addr.Referrers() == nil {
			return false
		}
		for _, r := range *addr.Referrers() {
			switch x := r.(type) {
			case *ssa.Store:
				if x.Addr == addr {
					n++
					val = x.Val
				} else {
					return false // address escapes
				}
			case *ssa.UnOp, *ssa.DebugRef:
			case *ssa.MakeClosure:
				fn := x.Fn.(*ssa.Function)
				for i, b := range x.Bindings {
					if b == addr && i < len(fn.FreeVars) {
						if !visit(fn.FreeVars[i], depth+1) {
							return false
						}
					}
				}
			default:
				return false
			}
		}
		return true
	}
	if !visit(a, 0) || n != 1 {
		return nil
	}
	return val
}

// deepMode (thorough tier) unrolls every loop one more time.
var deepMode bool

func (e *PPA) defaults() {
	if e.MaxVisits == 0 {
		e.MaxVisits = 2
	}
	if deepMode && !e.deepApplied {
		e.MaxVisits++
		e.deepApplied = true
	}
	if e.MaxPaths == 0 {
		e.MaxPaths = 300000
	}
	if e.MaxDepth == 0 {
		e.MaxDepth = 4
	}
}

func (e *PPA) newFrame(fn *ssa.Function, parent *Frame, args, bind []RV, call ssa.Instruction) *Frame {
	e.nframes++
	return &Frame{ID: e.nframes, Fn: fn, Parent: parent, ArgRV: args, Bind: bind, Call: call}
}

func (f *Frame) depth() int {
	d := 0
	for p := f.Parent; p != nil; p = p.Parent {
		d++
	}
	return d
}

type cont func(st *State, rets []RV)

// fieldOfStructVal: field i of a struct value that is the load of a local cell whose fields are known.
func (e *PPA) fieldOfStructVal(st *State, sv RV, i int) (RV, bool) {
	u, ok := sv.V.(*ssa.UnOp)
	if !ok || u.Op != token.MUL {
		return RV{}, false
	}
	key, ok := e.cellKey(st, RV{sv.F, u.X})
	if !ok {
		return RV{}, false
	}
	val, ok := st.mem[fmt.Sprintf("%s.%d", key, i)]
	return val, ok
}

// frameResolve follows parameters and free variables of inlined activations to the
// caller's values (no memory, usable after the path has ended).
func frameResolve(rv RV) RV {
	for i := 0; i < 32; i++ {
		switch v := rv.V.(type) {
		case *ssa.Parameter:
			if rv.F == nil || rv.F.ArgRV == nil {
				return rv
			}
			idx := -1
			for j, p := range rv.F.Fn.Params {
				if p == v {
					idx = j
				}
			}
			if idx < 0 || idx >= len(rv.F.ArgRV) {
				return rv
			}
			rv = rv.F.ArgRV[idx]
		case *ssa.FreeVar:
			if rv.F == nil || rv.F.Bind == nil {
				return rv
			}
			idx := -1
			for j, p := range rv.F.Fn.FreeVars {
				if p == v {
					idx = j
				}
			}
			if idx < 0 || idx >= len(rv.F.Bind) {
				return rv
			}
			rv = rv.F.Bind[idx]
		default:
			return rv
		}
	}
	return rv
}

// Resolve follows parameters, free variables, φ-nodes, inlined call results
// and loads of tracked cells to the defining value.
func (e *PPA) Resolve(st *State, rv RV) RV {
	// recursion (tuples, struct fields, arithmetic) is bounded: a cyclic binding must never exhaust the stack
	if e.resDepth > 100 {
		return rv
	}
	e.resDepth++
	defer func() { e.resDepth-- }()
	for i := 0; i < 64; i++ {
		switch v := rv.V.(type) {
		case *ssa.Parameter:
			if rv.F == nil || rv.F.ArgRV == nil {
				return rv
			}
			idx := -1
			for j, p := range rv.F.Fn.Params {
				if p == v {
					idx = j
				}
			}
			if idx < 0 || idx >= len(rv.F.ArgRV) {
				return rv
			}
			rv = rv.F.ArgRV[idx]
		case *ssa.FreeVar:
			if rv.F == nil || rv.F.Bind == nil {
				return rv
			}
			idx := -1
			for j, p := range rv.F.Fn.FreeVars {
				if p == v {
					idx = j
				}
			}
			if idx < 0 || idx >= len(rv.F.Bind) {
				return rv
			}
			rv = rv.F.Bind[idx]
		case *ssa.Phi:
			if r, ok := st.phi[rv]; ok {
				rv = r
			} else {
				return rv
			}
		case *ssa.Extract:
			t := e.Resolve(st, RV{rv.F, v.Tuple})
			if rs, ok := st.bind[t]; ok && v.Index < len(rs) {
				rv = rs[v.Index]
			} else {
				return rv
			}
		case *ssa.Call:
			if rs, ok := st.bind[rv]; ok && len(rs) == 1 {
				rv = rs[0]
			} else {
				return rv
			}
		case *ssa.UnOp:
			if v.Op != token.MUL {
				return rv
			}
			if lv, ok := st.loaded[rv]; ok {
				rv = lv
				continue
			}
			// s[k] of a slice whose elements were collected on this path, k a constant or a folded counter
			if ia, isIA := v.X.(*ssa.IndexAddr); isIA && len(st.elems) > 0 && e.resDepth < 24 {
				if _, isSlice := ia.X.Type().Underlying().(*types.Slice); isSlice {
					sx := e.Resolve(st, RV{rv.F, ia.X})
					if els, ok := st.elems[sx]; ok {
						if k, ok := e.intVal(st, e.Resolve(st, RV{rv.F, ia.Index}), 0); ok && k >= 0 && int(k) < len(els) {
							rv = els[k]
							continue
						}
					}
				}
			}
			if key, ok := e.cellKey(st, RV{rv.F, v.X}); ok {
				if val, ok := st.mem[key]; ok {
					rv = val
					continue
				}
				// x.f where x was assigned as a whole struct value whose fields are known
				if fa, isFA := e.resolveAddr(st, RV{rv.F, v.X}).V.(*ssa.FieldAddr); isFA {
					ra := e.resolveAddr(st, RV{rv.F, v.X})
					if pk, ok := e.cellKey(st, RV{ra.F, fa.X}); ok {
						if sv, ok := st.mem[pk]; ok {
							if fv, ok := e.fieldOfStructVal(st, sv, fa.Field); ok {
								rv = fv
								continue
							}
						}
					}
				}
				// unknown content: all loads of the cell between two stores are the same value
				if cv, ok := st.canon[key]; ok {
					return cv
				}
				// a local variable that is not captured by any closure and has not been assigned on this
				// path still holds its zero value (named results left at their zero values by a bare return)
				if al, isAl := e.resolveAddr(st, RV{rv.F, v.X}).V.(*ssa.Alloc); isAl && !capturedByClosure(al) {
					if z := zeroConst(deref(al.Type())); z != nil {
						return RV{rv.F, z}
					}
				}
				st.canon[key] = rv
				return rv
			}
			// x.f with f never written after construction: every load through the same x is the same value
			if fa, isFA := v.X.(*ssa.FieldAddr); isFA && finalField(fieldOf(fa), rv.F) {
				base := e.Resolve(st, RV{rv.F, fa.X})
				key := fmt.Sprintf("final:%p:%p.%d", base.F, base.V, fa.Field)
				if cv, ok := st.canon[key]; ok {
					return cv
				}
				st.canon[key] = rv
			}
			return rv
		case *ssa.Field:
			// field of a struct value loaded from a local cell whose fields were stored individually
			base := e.Resolve(st, RV{rv.F, v.X})
			u, ok := base.V.(*ssa.UnOp)
			if !ok || u.Op != token.MUL {
				return rv
			}
			key, ok := e.cellKey(st, RV{base.F, u.X})
			if !ok {
				return rv
			}
			val, ok := st.mem[fmt.Sprintf("%s.%d", key, v.Field)]
			if !ok {
				return rv
			}
			rv = val
		case *ssa.Index:
			// element of an array value loaded from a local array whose elements were stored individually
			// (range over an array literal), the index a constant or a folded loop counter
			if _, isArr := v.X.Type().Underlying().(*types.Array); !isArr {
				return rv
			}
			base := e.Resolve(st, RV{rv.F, v.X})
			u, ok := base.V.(*ssa.UnOp)
			if !ok || u.Op != token.MUL {
				return rv
			}
			key, ok := e.cellKey(st, RV{base.F, u.X})
			if !ok {
				return rv
			}
			k, ok := constInt(v.Index)
			if !ok {
				if e.resDepth > 24 {
					return rv
				}
				k, ok = e.intVal(st, e.Resolve(st, RV{rv.F, v.Index}), 0)
			}
			if !ok {
				return rv
			}
			val, ok := st.mem[fmt.Sprintf("%s[%d]", key, k)]
			if !ok {
				return rv
			}
			rv = val
		case *ssa.BinOp:
			// integer arithmetic on constants (loop counters resolved through φ by the path)
			if v.Op != token.ADD && v.Op != token.SUB && v.Op != token.QUO && v.Op != token.MUL {
				return rv
			}
			// a counter whose start is not a constant resolves, through its φ, to this very operation: bounded
			if e.foldDepth > 6 {
				return rv
			}
			e.foldDepth++
			x := e.Resolve(st, RV{rv.F, v.X})
			y := e.Resolve(st, RV{rv.F, v.Y})
			e.foldDepth--
			cx, okx := e.intVal(st, x, 0)
			cy, oky := e.intVal(st, y, 0)
			if !okx || !oky {
				return rv
			}
			var res int64
			switch v.Op {
			case token.ADD:
				res = cx + cy
			case token.SUB:
				res = cx - cy
			case token.MUL:
				res = cx * cy
			case token.QUO:
				if cy == 0 {
					return rv
				}
				res = cx / cy
			}
			return RV{rv.F, ssa.NewConst(constant.MakeInt64(res), v.Type())}
		case *ssa.ChangeType:
			rv = RV{rv.F, v.X}
		case *ssa.MakeInterface:
			rv = RV{rv.F, v.X}
		case *ssa.ChangeInterface:
			rv = RV{rv.F, v.X}
		default:
			return rv
		}
	}
	return rv
}

// cellKey names a local memory cell (an Alloc, or a field / constant index of one).
func (e *PPA) cellKey(st *State, addr RV) (string, bool) {
	a := addr
	// resolve parameters / free vars / loads to reach the Alloc
	a = e.resolveAddr(st, a)
	switch v := a.V.(type) {
	case *ssa.Alloc:
		id := 0
		if a.F != nil {
			id = a.F.ID
		}
		return fmt.Sprintf("%d:%p", id, v), true
	case *ssa.FreeVar:
		// an unbound captured variable (closure analysed on its own)
		id := 0
		if a.F != nil {
			id = a.F.ID
		}
		return fmt.Sprintf("%d:fv%p", id, v), true
	case *ssa.FieldAddr:
		if k, ok := e.cellKey(st, RV{a.F, v.X}); ok {
			return fmt.Sprintf("%s.%d", k, v.Field), true
		}
		if e.HeapForward {
			if b := e.Resolve(st, RV{a.F, v.X}); b.F == e.root {
				if pr, ok := b.V.(*ssa.Parameter); ok {
					return fmt.Sprintf("heap:%p.%d", pr, v.Field), true
				}
			}
		}
	case *ssa.IndexAddr:
		c, ok := constInt(v.Index)
		if !ok {
			// an index that is a folded loop counter on this path
			c, ok = e.intVal(st, e.Resolve(st, RV{a.F, v.Index}), 0)
		}
		if ok {
			if k, ok := e.cellKey(st, RV{a.F, v.X}); ok {
				return fmt.Sprintf("%s[%d]", k, c), true
			}
		}
	}
	return "", false
}

func (e *PPA) resolveAddr(st *State, a RV) RV {
	for i := 0; i < 16; i++ {
		switch a.V.(type) {
		case *ssa.Parameter, *ssa.FreeVar, *ssa.Phi, *ssa.UnOp, *ssa.ChangeType:
			r := e.Resolve(st, a)
			if r == a {
				return a
			}
			a = r
		default:
			return a
		}
	}
	return a
}

// Trace returns the events recorded so far on the current path (for probes).
func (st *State) Trace() []Ev { return st.trace }

func (e *PPA) emit(st *State, ev Ev) {
	if e.Watch == nil || e.Watch(&ev) {
		st.trace = append(st.trace, ev)
	}
}

func (e *PPA) finish(st *State, end string, rets []RV) {
	if len(e.Paths) >= e.MaxPaths {
		e.Overflow = true
		return
	}
	var retb []int
	for _, r := range rets {
		b := -1
		if bt, ok := r.V.Type().Underlying().(*types.Basic); ok && bt.Kind() == types.Bool {
			if v, known := e.evalCond(st, r); known {
				b = 0
				if v {
					b = 1
				}
			}
		}
		retb = append(retb, b)
	}
	mem := map[string]RV{}
	for k, v := range st.mem {
		mem[k] = v
	}
	e.Paths = append(e.Paths, Path{Trace: append([]Ev(nil), st.trace...), End: end, Rets: rets, RetB: retb, Mem: mem})
}

// enter moves control into block b of frame fr coming from block from.
func (e *PPA) enter(fr *Frame, from, b *ssa.BasicBlock, st *State, k cont) {
	if e.Overflow {
		return
	}
	key := [2]int{fr.ID, b.Index}
	st.visits[key]++
	if st.visits[key] > e.MaxVisits {
		e.Truncated++
		return
	}
	if st.visits[key] > 1 {
		for _, in := range b.Instrs {
			if v, ok := in.(ssa.Value); ok {
				delete(st.decided, RV{fr, v})
				delete(st.nilOf, RV{fr, v})
			}
		}
	}
	// φ-nodes are evaluated simultaneously on entry
	if from != nil {
		idx := -1
		for i, p := range b.Preds {
			if p == from {
				idx = i
			}
		}
		var upd []struct{ k, v RV }
		for _, in := range b.Instrs {
			phi, ok := in.(*ssa.Phi)
			if !ok {
				break
			}
			if idx >= 0 && idx < len(phi.Edges) {
				upd = append(upd, struct{ k, v RV }{RV{fr, phi}, e.Resolve(st, RV{fr, phi.Edges[idx]})})
			}
		}
		for _, u := range upd {
			st.phi[u.k] = u.v
		}
	}
	e.exec(fr, b, 0, st, k)
}

var noReturnCallees = map[string]bool{
	"os.Exit":                      true,
	"github.com/golang/glog.Fatal": true, "github.com/golang/glog.Fatalf": true, "github.com/golang/glog.Fatalln": true,
	"github.com/golang/glog.Exit": true, "github.com/golang/glog.Exitf": true, "github.com/golang/glog.Exitln": true,
	"log.Fatal": true, "log.Fatalf": true, "log.Fatalln": true,
}

func (e *PPA) exec(fr *Frame, b *ssa.BasicBlock, i int, st *State, k cont) {
	for ; i < len(b.Instrs); i++ {
		if e.Overflow {
			return
		}
		if e.Probe != nil {
			e.Probe(e, st, fr, b.Instrs[i])
		}
		if e.HeapForward {
			clobber := false
			switch x := b.Instrs[i].(type) {
			case *ssa.Call, *ssa.Go, *ssa.Send, *ssa.Select, *ssa.RunDefers:
				clobber = true
			case *ssa.UnOp:
				clobber = x.Op == token.ARROW
			}
			if clobber {
				for mk := range st.mem {
					if strings.HasPrefix(mk, "heap:") {
						delete(st.mem, mk)
					}
				}
			}
		}
		switch in := b.Instrs[i].(type) {
		case *ssa.Phi:
			// handled in enter
		case *ssa.Store:
			addr := RV{fr, in.Addr}
			val := e.Resolve(st, RV{fr, in.Val})
			if key, ok := e.cellKey(st, addr); ok {
				st.mem[key] = val
				delete(st.canon, key)
			}
			lbl := "store:" + Expr(in.Addr)
			ev := Ev{In: in, F: fr, Args: []RV{e.Resolve(st, addr), val}}
			if fa, ok := in.Addr.(*ssa.FieldAddr); ok {
				lbl = "store:" + qualField(in.Addr)
				ev.Base = e.baseObj(st, RV{fr, fa.X})
				ev.Field = fieldOf(fa)
			}
			if ia, ok := in.Addr.(*ssa.IndexAddr); ok {
				// s[k] = v with k known on this path
				if k, okc := e.intVal(st, e.Resolve(st, RV{fr, ia.Index}), 0); okc {
					ev.Note = fmt.Sprintf("idx:%d", k)
				}
			}
			ev.Label = lbl
			e.emit(st, ev)
		case *ssa.MapUpdate:
			ev := Ev{Label: "mapupdate:" + Expr(in.Map), In: in, F: fr, Args: []RV{e.Resolve(st, RV{fr, in.Map}), e.Resolve(st, RV{fr, in.Key}), e.Resolve(st, RV{fr, in.Value})}}
			ev.Base, ev.Field = loadedField(e, st, RV{fr, in.Map})
			if u, ok := in.Key.(*ssa.UnOp); ok && u.Op == token.MUL {
				if ia, ok := u.X.(*ssa.IndexAddr); ok {
					if k, okc := constInt(e.Resolve(st, RV{fr, ia.Index}).V); okc {
						ev.Note = fmt.Sprintf("elem:%d", k)
						ev.Args = append(ev.Args, e.Resolve(st, RV{fr, ia.X}))
					}
				}
			}
			e.emit(st, ev)
		case *ssa.Send:
			e.emit(st, Ev{Label: "send:" + Expr(in.Chan), In: in, F: fr, Blocking: true, Field: fieldOf(in.Chan), Args: []RV{e.Resolve(st, RV{fr, in.Chan}), e.Resolve(st, RV{fr, in.X})}})
		case *ssa.UnOp:
			if in.Op == token.MUL {
				// the value a load of a local cell yields is fixed when the load runs
				delete(st.loaded, RV{fr, in})
				if key, ok := e.cellKey(st, RV{fr, in.X}); ok {
					if val, ok := st.mem[key]; ok {
						st.loaded[RV{fr, in}] = val
					}
				}
			}
			if in.Op == token.ARROW {
				e.emit(st, Ev{Label: "recv:" + Expr(in.X), In: in, F: fr, Blocking: true, Field: fieldOf(in.X), Args: []RV{e.Resolve(st, RV{fr, in.X})}})
			}
			if in.Op == token.MUL && e.TraceLoads {
				if fa, ok := in.X.(*ssa.FieldAddr); ok {
					e.emit(st, Ev{Label: "load:" + qualField(fa), In: in, F: fr, Base: e.baseObj(st, RV{fr, fa.X}), Field: fieldOf(fa)})
				}
			}
		case *ssa.Lookup:
			if e.TraceLookups {
				if _, isMap := in.X.Type().Underlying().(*types.Map); isMap {
					ev := Ev{Label: "lookup:" + Expr(in.X), In: in, F: fr, Args: []RV{e.Resolve(st, RV{fr, in.X}), e.Resolve(st, RV{fr, in.Index})}}
					ev.Base, ev.Field = loadedField(e, st, RV{fr, in.X})
					if u, ok := in.Index.(*ssa.UnOp); ok && u.Op == token.MUL {
						if ia, ok := u.X.(*ssa.IndexAddr); ok {
							if k, okc := constInt(e.Resolve(st, RV{fr, ia.Index}).V); okc {
								ev.Note = fmt.Sprintf("elem:%d", k)
								ev.Args = append(ev.Args, e.Resolve(st, RV{fr, ia.X}))
							}
						}
					}
					// range element: for _, name := range s { m[name] }  (name = s[rangeindex])
					e.emit(st, ev)
				}
			}
		case *ssa.Field:
			if e.TraceLoads {
				e.emit(st, Ev{Label: "load:" + normType(types.TypeString(in.X.Type(), shortQ)) + "." + fieldName(in.X.Type(), in.Field), In: in, F: fr, Base: e.Resolve(st, RV{fr, in.X}), Field: fieldVar(in.X.Type(), in.Field)})
			}
		case *ssa.Select:
			n := len(in.States)
			lo := 0
			if !in.Blocking {
				lo = -1
			}
			for idx := lo; idx < n; idx++ {
				s2 := st.clone()
				s2.sel[RV{fr, in}] = idx
				if idx < 0 {
					e.emit(s2, Ev{Label: "select:default", In: in, F: fr})
				} else {
					sst := in.States[idx]
					dir := "recv"
					if sst.Dir == types.SendOnly {
						dir = "send"
					}
					ev := Ev{Label: "select:" + dir + ":" + Expr(sst.Chan), In: in, F: fr, Blocking: in.Blocking, Field: fieldOf(sst.Chan), Args: []RV{e.Resolve(st, RV{fr, sst.Chan})}}
					if sst.Send != nil {
						ev.Args = append(ev.Args, e.Resolve(st, RV{fr, sst.Send}))
					}
					e.emit(s2, ev)
				}
				e.exec(fr, b, i+1, s2, k)
			}
			return
		case *ssa.Go:
			e.emit(st, e.callEv(st, fr, in, "go:"))
		case *ssa.Defer:
			st.defers[fr] = append(st.defers[fr], in)
			// the operands of a deferred call are evaluated when the defer statement runs
			var da []RV
			if in.Call.IsInvoke() {
				da = append(da, e.Resolve(st, RV{fr, in.Call.Value}))
			}
			for _, a := range in.Call.Args {
				da = append(da, e.Resolve(st, RV{fr, a}))
			}
			// receiver given as the address of a field (defer x.mu.Unlock()): remember which x (extra last element)
			if len(da) > 0 {
				if fa, ok := da[0].V.(*ssa.FieldAddr); ok {
					da = append(da, e.baseObj(st, RV{da[0].F, fa.X}))
				}
			}
			st.dargs[fr] = append(st.dargs[fr], da)
		case *ssa.RunDefers:
			ds := st.defers[fr]
			das := st.dargs[fr]
			st.defers[fr] = nil
			st.dargs[fr] = nil
			e.runDefers(fr, ds, das, st, func(st *State, _ []RV) { e.exec(fr, b, i+1, st, k) })
			return
		case *ssa.Call:
			if _, ok := in.Call.Value.(*ssa.Builtin); ok {
				name := in.Call.Value.(*ssa.Builtin).Name()
				if name == "append" && len(in.Call.Args) == 2 {
					// the length of the result as of this execution (a loop re-runs the same instruction:
					// its operand then resolves to the previous execution's result)
					self := RV{fr, in}
					base, okb := e.sliceLen(st, e.Resolve(st, RV{fr, in.Call.Args[0]}), 0)
					var n int64
					okn := false
					if k, ok := literalLen(in.Call.Args[1]); ok {
						n, okn = k, true
					} else if isNilConst(in.Call.Args[1]) {
						n, okn = 0, true
					} else if k, ok := e.sliceLen(st, e.Resolve(st, RV{fr, in.Call.Args[1]}), 0); ok {
						n, okn = k, true
					}
					if okb && okn {
						st.lens[self] = base + n
					} else {
						delete(st.lens, self)
					}
					// ... and its elements, when the base's are known and literal elements are appended
					// (children collected into a slice by one function and processed by another)
					bv := e.Resolve(st, RV{fr, in.Call.Args[0]})
					var bels []RV
					okEls := false
					if els, ok := st.elems[bv]; ok {
						bels, okEls = els, true // (in a loop the base is the previous execution of this very append)
					} else if bl, ok := e.sliceLen(st, bv, 0); ok && bl == 0 {
						okEls = true
					}
					delete(st.elems, self)
					if okEls {
						if lits, ok := e.sliceLitElems(st, RV{fr, in.Call.Args[1]}); ok {
							st.elems[self] = append(append([]RV(nil), bels...), lits...)
						} else if isNilConst(in.Call.Args[1]) {
							st.elems[self] = append([]RV(nil), bels...)
						}
					}
				}
				if name == "close" || name == "delete" || name == "append" || name == "panic" || name == "copy" {
					ev := e.callEv(st, fr, in, "")
					if name == "delete" {
						ev.Base, ev.Field = loadedField(e, st, RV{fr, in.Call.Args[0]})
					}
					e.emit(st, ev)
				}
				continue
			}
			// maps.DeleteFunc(m, pred) by its documented contract: pred is called for the entries of m, an entry
			// for which it reports true is deleted.  Replayed with 0, 1 and (when the loop bound allows) 2 entries;
			// the key and value of an entry are the closure's own (symbolic) parameters.
			if e.mapsDeleteFunc(fr, b, i, in, st, k) {
				return
			}
			callee := e.calleeOf(st, fr, &in.Call)
			if debugCalls && !in.Call.IsInvoke() && staticCallee(&in.Call) == nil {
				r := e.Resolve(st, RV{fr, in.Call.Value})
				fmt.Fprintf(os.Stderr, "DYN %s -> %T %s callee=%v\n", Expr(in.Call.Value), r.V, Expr(r.V), callee != nil)
			}
			if callee != nil && len(callee.Blocks) > 0 && fr.depth() < e.MaxDepth && ((e.Inline != nil && e.Inline(fr, in, callee)) || e.auto(st, fr, in, callee)) {
				e.inlineCall(fr, in, &in.Call, callee, st, func(st *State, rets []RV) {
					st.bind[RV{fr, in}] = rets
					e.exec(fr, b, i+1, st, k)
				})
				return
			}
			ev := e.callEv(st, fr, in, "call:")
			e.emit(st, ev)
			if noReturnCallees[strings.TrimPrefix(ev.Label, "call:")] {
				e.finish(st, "exit", nil)
				return
			}
			// cells whose address is handed to an opaque callee (directly or
			// through a closure that captured them) are forgotten
			for _, a := range in.Call.Args {
				e.forget(st, RV{fr, a})
				if mc, ok := e.Resolve(st, RV{fr, a}).V.(*ssa.MakeClosure); ok {
					for _, bnd := range mc.Bindings {
						e.forget(st, RV{fr, bnd})
					}
				}
			}
		case *ssa.If:
			c := RV{fr, in.Cond}
			val, known := e.evalCond(st, c)
			tb, fb := b.Succs[0], b.Succs[1]
			rc := e.Resolve(st, c)
			if known {
				if e.TraceBranches {
					e.emit(st, Ev{Label: "if", In: in, F: fr, Args: []RV{rc}, Taken: val, Folded: true})
				}
				if val {
					e.enter(fr, b, tb, st, k)
				} else {
					e.enter(fr, b, fb, st, k)
				}
				return
			}
			s2 := st.clone()
			st.decided[rc] = true
			st.decided[c] = true
			// remember the outcome of a nil test for later tests of the same value (through other instructions)
			if bo, ok := rc.V.(*ssa.BinOp); ok && (bo.Op == token.EQL || bo.Op == token.NEQ) {
				x, y := e.Resolve(st, RV{rc.F, bo.X}), e.Resolve(st, RV{rc.F, bo.Y})
				var other RV
				has := false
				if isNilConst(y.V) {
					other, has = x, true
				} else if isNilConst(x.V) {
					other, has = y, true
				}
				if has && stableValue(other.V) {
					st.nilOf[other] = bo.Op == token.EQL
					s2.nilOf[other] = bo.Op != token.EQL
				}
			}
			if e.TraceBranches {
				e.emit(st, Ev{Label: "if", In: in, F: fr, Args: []RV{rc}, Taken: true})
				e.emit(s2, Ev{Label: "if", In: in, F: fr, Args: []RV{rc}, Taken: false})
			}
			e.enter(fr, b, tb, st, k)
			s2.decided[rc] = false
			s2.decided[c] = false
			e.enter(fr, b, fb, s2, k)
			return
		case *ssa.Jump:
			e.enter(fr, b, b.Succs[0], st, k)
			return
		case *ssa.Return:
			var rets []RV
			for _, r := range in.Results {
				rets = append(rets, e.Resolve(st, RV{fr, r}))
			}
			if k == nil {
				e.finish(st, "return", rets)
			} else {
				k(st, rets)
			}
			return
		case *ssa.Panic:
			e.emit(st, Ev{Label: "panic", In: in, F: fr})
			e.finish(st, "panic", nil)
			return
		}
	}
}

// neverAuto: same-package callees that rules identify as atoms by name/identity without watching them.
var neverAuto = map[string]bool{
	"(*coalesce.Queue).next": true, "(*coalesce.Queue).insert": true, "cache.joinPrefixAndPath": true, "cache.metaNoti": true, "cache.metaNotiBool": true,
	"cache.metaNotiInt": true, "cache.metaNotiStr": true, "cache.deleteNoti": true, "cache.toDeleteNotification": true, "path.sortedVals": true,
	"metadata.validInt": true, "metadata.validBool": true, "metadata.validStr": true, "value.decimalToFloat": true,
	"(*cache.Target).gnmiUpdate": true, "(*cache.Target).gnmiRemove": true, "(*cache.Target).checkTimestamp": true,
	"(*manager.Manager).handleGNMIUpdate": true, "(*manager.Manager).monitor": true, "(*manager.Manager).subscribe": true, "(*manager.Manager).handleUpdates": true, "(*manager.Manager).createConn": true,
	"(*connection.Manager).remove": true, "(*connection.Manager).dial": true, "(*connection.connection).done": true,
	"(*target.Config).checkRevision": true, "(*target.Config).handleDiffs": true,
	"(*subscribe.Server).processSubscription": true, "(*subscribe.Server).sendSubscribeResponse": true, "(*subscribe.Server).sendStreamingResults": true, "subscribe.addSubscription": true, "subscribe.isTargetDelete": true,
	"(*ctree.Tree).internalDelete": true, "(*ctree.Tree).slowAdd": true, "(*ctree.Tree).isBranch": true,
	"(*client.ReconnectClient).initDone": true, "(*client.BaseClient).run": true, "client.getFirst": true,
	"(*testing/fake/queue.value).nextValue": true, "(*testing/fake/queue.value).updateTimestamp": true, "(*testing/fake/queue.UpdateQueue).addValue": true, "testing/fake/queue.newValue": true,
	"(*match.branch).update": true, "(*match.branch).addQuery": true, "(*match.branch).removeQuery": true,
	"(*cmd/gnmi_collector.collector).add": true, "(*cmd/gnmi_collector.collector).start": true, "main.protoRequestFromFlags": true, "cmd/gnmi_cli.protoRequestFromFlags": true,
}

// auto: default inlining policy (see NoAuto).
func (e *PPA) auto(st *State, fr *Frame, in ssa.CallInstruction, callee *ssa.Function) bool {
	if e.NoAuto || e.Opaque[callee] || neverAuto[fnName(callee)] {
		return false
	}
	// a bound method value / thunk is a synthetic forwarder: entering it shows the call it stands for, whatever
	// package declares the method
	synthetic := strings.HasSuffix(callee.Name(), "$bound") || strings.HasSuffix(callee.Name(), "$thunk")
	if rp := pkgPathOf(e.root.Fn); rp != "" && pkgPathOf(callee) != rp && !synthetic {
		return false
	}
	local := callee.Parent() != nil
	if !local {
		n := callee.Name()
		if strings.HasSuffix(n, "$bound") || strings.HasSuffix(n, "$thunk") {
			local = true
		} else if n == "" || (n[0] >= 'A' && n[0] <= 'Z') {
			return false // exported: part of the package's vocabulary, rules name these calls
		}
	}
	// not recursive
	for f := fr; f != nil; f = f.Parent {
		if f.Fn == callee {
			return false
		}
	}
	if len(callee.Blocks) > 120 {
		return false
	}
	// constructors stay symbolic: the objects they return keep one identity and
	// their fields are not forwarded into the caller's view
	ctor := false
	instrs(callee, func(in2 ssa.Instruction) {
		if r, ok := in2.(*ssa.Return); ok {
			for _, v := range r.Results {
				if _, isAlloc := v.(*ssa.Alloc); isAlloc {
					ctor = true
				}
			}
		}
	})
	if ctor {
		return false
	}
	// the rule watches the call itself
	if e.Watch != nil {
		watched := false
		func() {
			defer func() {
				if recover() != nil {
					watched = true
				}
			}()
			ev := e.callEv(st, fr, in, "call:")
			watched = e.Watch(&ev)
		}()
		if watched {
			return false
		}
	}
	return true
}

func (e *PPA) forget(st *State, a RV) {
	if key, ok := e.cellKey(st, a); ok {
		for mk := range st.mem {
			if mk == key || strings.HasPrefix(mk, key+".") || strings.HasPrefix(mk, key+"[") {
				delete(st.mem, mk)
			}
		}
		for mk := range st.canon {
			if mk == key || strings.HasPrefix(mk, key+".") || strings.HasPrefix(mk, key+"[") {
				delete(st.canon, mk)
			}
		}
	}
}

func (e *PPA) runDefers(fr *Frame, ds []*ssa.Defer, das [][]RV, st *State, k cont) {
	if len(ds) == 0 {
		k(st, nil)
		return
	}
	d := ds[len(ds)-1]
	rest := ds[:len(ds)-1]
	var da []RV
	var restA [][]RV
	if len(das) == len(ds) {
		da = das[len(das)-1]
		restA = das[:len(das)-1]
	}
	callee := e.calleeOf(st, fr, &d.Call)
	if callee != nil && len(callee.Blocks) > 0 && fr.depth() < e.MaxDepth && ((e.Inline != nil && e.Inline(fr, d, callee)) || e.auto(st, fr, d, callee)) {
		e.preArgs = da
		e.inlineCall(fr, d, &d.Call, callee, st, func(st *State, _ []RV) { e.runDefers(fr, rest, restA, st, k) })
		return
	}
	prefix := "call:"
	if _, isB := d.Call.Value.(*ssa.Builtin); isB {
		prefix = ""
	}
	ev := e.callEv(st, fr, d, prefix)
	if !d.Call.IsInvoke() {
		if perm := refPerm(staticCallee(&d.Call)); perm != nil && len(da) >= len(perm) {
			re := append([]RV(nil), da...)
			for i := range perm {
				re[i] = da[perm[i]]
			}
			da = re
		}
	}
	if da != nil && len(da) >= len(ev.Args) {
		copy(ev.Args, da[:len(ev.Args)])
		if len(da) == len(ev.Args)+1 && len(ev.Args) > 0 {
			if fa, ok := ev.Args[0].V.(*ssa.FieldAddr); ok {
				ev.Base = da[len(da)-1]
				ev.Field = fieldOf(fa)
			}
		}
	}
	ev.Deferred = true
	e.emit(st, ev)
	e.runDefers(fr, rest, restA, st, k)
}

// calleeOf resolves the callee, following local cells / free variables to a closure.
func (e *PPA) calleeOf(st *State, fr *Frame, c *ssa.CallCommon) *ssa.Function {
	if c.IsInvoke() {
		return nil
	}
	if f := staticCallee(c); f != nil {
		return f
	}
	r := e.Resolve(st, RV{fr, c.Value})
	switch v := r.V.(type) {
	case *ssa.Function:
		return v
	case *ssa.MakeClosure:
		return v.Fn.(*ssa.Function)
	}
	return nil
}

func (e *PPA) inlineCall(fr *Frame, in ssa.Instruction, c *ssa.CallCommon, callee *ssa.Function, st *State, k cont) {
	var args []RV
	for _, a := range c.Args {
		args = append(args, e.Resolve(st, RV{fr, a}))
	}
	// a deferred call runs with the operands captured when it was deferred
	if pa := e.preArgs; pa != nil {
		e.preArgs = nil
		if len(pa) >= len(args) {
			args = pa[:len(args)]
		}
	}
	var bind []RV
	r := e.Resolve(st, RV{fr, c.Value})
	if mc, ok := r.V.(*ssa.MakeClosure); ok {
		for _, bnd := range mc.Bindings {
			bind = append(bind, e.Resolve(st, RV{r.F, bnd}))
		}
	}
	nf := e.newFrame(callee, fr, args, bind, in)
	e.enter(nf, nil, callee.Blocks[0], st, k)
}

func (e *PPA) callEv(st *State, fr *Frame, in ssa.CallInstruction, prefix string) Ev {
	c := in.Common()
	name := calleeName(c)
	if strings.HasPrefix(name, "dyn:") {
		if f := e.calleeOf(st, fr, c); f != nil {
			name = fnName(f)
		}
	}
	ev := Ev{Label: prefix + name, In: in, F: fr}
	if !c.IsInvoke() && staticCallee(c) == nil {
		ev.Fn = e.Resolve(st, RV{fr, c.Value})
	}
	if c.IsInvoke() {
		ev.Args = append(ev.Args, e.Resolve(st, RV{fr, c.Value}))
	}
	for _, a := range c.Args {
		ev.Args = append(ev.Args, e.Resolve(st, RV{fr, a}))
	}
	// a callee whose parameters were reordered relative to the reference tree: operands in reference order
	if !c.IsInvoke() {
		if perm := refPerm(staticCallee(c)); perm != nil && len(perm) == len(ev.Args) {
			re := make([]RV, len(ev.Args))
			for i := range perm {
				re[i] = ev.Args[perm[i]]
			}
			ev.Args = re
		}
	}
	for i, a := range ev.Args {
		if els, ok := e.sliceLitElems(st, a); ok {
			if ev.Elems == nil {
				ev.Elems = map[int][]RV{}
			}
			// elements as they resolve on this path (a parameter of an inlined helper is the caller's operand)
			for k := range els {
				els[k] = e.Resolve(st, els[k])
			}
			ev.Elems[i] = els
		}
	}
	// receiver given as the address of a struct field (x.mu.Lock()): remember the struct
	if len(ev.Args) > 0 {
		if fa, ok := ev.Args[0].V.(*ssa.FieldAddr); ok {
			ev.Base = e.baseObj(st, RV{ev.Args[0].F, fa.X})
			ev.Field = fieldOf(fa)
			// an object computed inside a loop is a different object on every iteration
			if di, ok := ev.Base.V.(ssa.Instruction); ok && ev.Base.F != nil && di.Block() != nil {
				ev.Ver = st.visits[[2]int{ev.Base.F.ID, di.Block().Index}]
			}
		}
	}
	return ev
}

// sliceLitElems resolves the elements of a slice literal []T{a, b, …} (lowered
// as a Slice of a fresh array with constant-index stores).
func (e *PPA) sliceLitElems(st *State, rv RV) ([]RV, bool) {
	sl, ok := rv.V.(*ssa.Slice)
	if !ok || sl.Low != nil || sl.High != nil {
		return nil, false
	}
	al, ok := sl.X.(*ssa.Alloc)
	if !ok {
		return nil, false
	}
	at, ok := deref(al.Type()).Underlying().(*types.Array)
	if !ok || at.Len() > 16 {
		return nil, false
	}
	out := make([]RV, at.Len())
	n := 0
	for _, r := range *al.Referrers() {
		ia, ok := r.(*ssa.IndexAddr)
		if !ok {
			continue
		}
		idx, okc := constInt(ia.Index)
		if !okc || idx < 0 || idx >= at.Len() {
			return nil, false
		}
		for _, rr := range *ia.Referrers() {
			if s, ok := rr.(*ssa.Store); ok && s.Addr == ssa.Value(ia) {
				out[idx] = e.Resolve(st, RV{rv.F, s.Val})
				n++
			}
		}
	}
	if int64(n) != at.Len() {
		return nil, false
	}
	return out, true
}

// intVal: an integer known on the current path: a constant, or len(s) of a slice whose construction
// the path has seen (nil, make with a constant length, append of literal elements onto such a slice).
func (e *PPA) intVal(st *State, rv RV, d int) (int64, bool) {
	if d > 8 {
		return 0, false
	}
	if c, ok := constInt(rv.V); ok {
		if _, isConst := rv.V.(*ssa.Const); isConst {
			return c, true
		}
	}
	// a value the rule's scenario fixes (e.g. the length of a queue)
	if e.IntHook != nil {
		if k, ok := e.IntHook(e, st, rv); ok {
			return k, true
		}
	}
	call, ok := rv.V.(*ssa.Call)
	if !ok {
		return 0, false
	}
	la, ok := lenArg(call)
	if !ok {
		return 0, false
	}
	return e.sliceLen(st, e.Resolve(st, RV{rv.F, la}), d+1)
}

func (e *PPA) sliceLen(st *State, s RV, d int) (int64, bool) {
	if d > 12 {
		return 0, false
	}
	if n, ok := st.lens[s]; ok {
		return n, true
	}
	switch v := s.V.(type) {
	case *ssa.Const:
		if v.Value == nil {
			return 0, true
		}
	case *ssa.MakeSlice:
		if k, ok := constInt(e.Resolve(st, RV{s.F, v.Len}).V); ok {
			return k, true
		}
	case *ssa.Call:
		if ac, ok := isAppend(v); ok && len(ac.Call.Args) == 2 {
			base, okb := e.sliceLen(st, e.Resolve(st, RV{s.F, ac.Call.Args[0]}), d+1)
			if !okb {
				return 0, false
			}
			if n, ok := literalLen(ac.Call.Args[1]); ok {
				return base + n, true
			}
			if isNilConst(ac.Call.Args[1]) {
				return base, true
			}
		}
	}
	return 0, false
}

// evalCond folds a boolean value on the current path.
func (e *PPA) evalCond(st *State, c RV) (val, known bool) {
	if v, ok := st.decided[c]; ok {
		return v, true
	}
	rv := e.Resolve(st, c)
	if v, ok := st.decided[rv]; ok {
		return v, true
	}
	switch v := rv.V.(type) {
	case *ssa.Const:
		if b, ok := constBool(v); ok {
			return b, true
		}
	case *ssa.UnOp:
		if v.Op == token.NOT {
			x, ok := e.evalCond(st, RV{rv.F, v.X})
			if ok {
				return !x, true
			}
			return false, false
		}
	case *ssa.BinOp:
		if r, ok := e.foldBin(st, rv.F, v); ok {
			return r, true
		}
	}
	if e.Cond != nil {
		if val, known := e.Cond(e, st, rv); known {
			return val, true
		}
	}
	return false, false
}

func (e *PPA) foldBin(st *State, fr *Frame, b *ssa.BinOp) (bool, bool) {
	x := e.Resolve(st, RV{fr, b.X})
	y := e.Resolve(st, RV{fr, b.Y})
	// select index test
	if ex, ok := x.V.(*ssa.Extract); ok && ex.Index == 0 {
		if sel, ok := ex.Tuple.(*ssa.Select); ok {
			if idx, ok := st.sel[RV{x.F, sel}]; ok {
				if c, ok := constInt(y.V); ok {
					return cmpInt(b.Op, int64(idx), c)
				}
			}
		}
	}
	// two integer constants (incl. the length of a slice built on this path)
	if cx, ok := e.intVal(st, x, 0); ok {
		if cy, ok := e.intVal(st, y, 0); ok {
			return cmpInt(b.Op, cx, cy)
		}
	}
	if bx, ok := constBool(x.V); ok {
		if by, ok := constBool(y.V); ok {
			switch b.Op {
			case token.EQL:
				return bx == by, true
			case token.NEQ:
				return bx != by, true
			}
		}
	}
	// nil tests of values known to be non-nil / nil
	if b.Op == token.EQL || b.Op == token.NEQ {
		var other RV
		hasNil := false
		if isNilConst(y.V) {
			other, hasNil = x, true
		} else if isNilConst(x.V) {
			other, hasNil = y, true
		}
		if hasNil {
			if isNilConst(other.V) {
				return b.Op == token.EQL, true
			}
			if knownNonNil(other.V) {
				return b.Op == token.NEQ, true
			}
			if isNil, ok := st.nilOf[other]; ok {
				return isNil == (b.Op == token.EQL), true
			}
		}
	}
	return false, false
}

// stableValue: an SSA register whose value cannot change between two tests on one path (not a load).
func stableValue(v ssa.Value) bool {
	switch x := v.(type) {
	case *ssa.Extract, *ssa.Call, *ssa.Parameter, *ssa.TypeAssert, *ssa.Lookup, *ssa.Phi, *ssa.FreeVar:
		return true
	case *ssa.UnOp:
		return x.Op != token.MUL
	}
	return false
}

func knownNonNil(v ssa.Value) bool {
	switch x := v.(type) {
	case *ssa.Alloc, *ssa.MakeClosure, *ssa.Function, *ssa.MakeMap, *ssa.MakeSlice, *ssa.MakeChan, *ssa.Global, *ssa.FieldAddr, *ssa.IndexAddr:
		return true
	case *ssa.MakeInterface:
		return true
	case *ssa.Call:
		switch calleeName(&x.Call) {
		case "errors.New", "fmt.Errorf", "google.golang.org/grpc/status.Error", "google.golang.org/grpc/status.Errorf":
			return true
		}
	case *ssa.UnOp:
		// a package-level sentinel error: written once, by the package initialiser, with a fresh error
		if g, ok := x.X.(*ssa.Global); ok && x.Op == token.MUL {
			return sentinelGlobal(g)
		}
	}
	return false
}

var sentinelMemo = map[*ssa.Global]bool{}

// sentinelGlobal: a package-level variable of the module that is stored exactly once in the whole module - in
// its package's init, with errors.New / fmt.Errorf - and whose address is taken nowhere else.
func sentinelGlobal(g *ssa.Global) bool {
	if v, ok := sentinelMemo[g]; ok {
		return v
	}
	sentinelMemo[g] = false
	if g.Pkg == nil || g.Pkg.Pkg == nil || !strings.HasPrefix(g.Pkg.Pkg.Path(), modPath) {
		return false
	}
	stores, okInit, escapes := 0, false, false
	var fns []*ssa.Function
	if globalProg != nil {
		for f := range globalProg.AllFuncs() {
			if f.Pkg == g.Pkg || (f.Pkg != nil && strings.HasPrefix(pkgPathOf(f), modPath)) {
				fns = append(fns, f)
			}
		}
	} else {
		for _, m := range g.Pkg.Members {
			if f, ok := m.(*ssa.Function); ok {
				fns = append(fns, withAnon(f)...)
			}
		}
	}
	for _, f := range fns {
		for _, fn := range []*ssa.Function{f} {
			instrs(fn, func(in ssa.Instruction) {
				for _, op := range in.Operands(nil) {
					if *op != ssa.Value(g) {
						continue
					}
					switch x := in.(type) {
					case *ssa.Store:
						if x.Addr == ssa.Value(g) {
							stores++
							if fn.Name() == "init" && knownNonNil(x.Val) {
								okInit = true
							}
						} else {
							escapes = true
						}
					case *ssa.UnOp:
					default:
						escapes = true
					}
				}
			})
		}
	}
	res := stores == 1 && okInit && !escapes
	sentinelMemo[g] = res
	return res
}

func cmpInt(op token.Token, a, b int64) (bool, bool) {
	switch op {
	case token.EQL:
		return a == b, true
	case token.NEQ:
		return a != b, true
	case token.LSS:
		return a < b, true
	case token.LEQ:
		return a <= b, true
	case token.GTR:
		return a > b, true
	case token.GEQ:
		return a >= b, true
	}
	return false, false
}

// cmpRel evaluates "x op y" given the relation rel of x to y (-1: x<y, 0: x=y, 1: x>y).
func cmpRel(op token.Token, rel int) (bool, bool) { return cmpInt(op, int64(rel), 0) }

// qualField prints "pkg.Type.field" for a field address.
func qualField(addr ssa.Value) string {
	fa, ok := addr.(*ssa.FieldAddr)
	if !ok {
		return Expr(addr)
	}
	t := deref(fa.X.Type())
	if own, ok := promotedOwner[fieldVar(fa.X.Type(), fa.Field)]; ok {
		// a field that moved into an embedded struct keeps the name it had as a direct field
		return own + "." + fieldName(fa.X.Type(), fa.Field)
	}
	return normType(types.TypeString(t, shortQ)) + "." + fieldName(fa.X.Type(), fa.Field)
}

// baseObj resolves the struct a field belongs to; the address of an embedded struct (x.inner, reached
// implicitly through promotion) stands for the outer object, so x.mu and x.inner.mu name one object.
func (e *PPA) baseObj(st *State, rv RV) RV {
	r := e.Resolve(st, rv)
	for i := 0; i < 4; i++ {
		fa, ok := r.V.(*ssa.FieldAddr)
		if !ok {
			break
		}
		if v := fieldVar(fa.X.Type(), fa.Field); v == nil || !(v.Embedded() || groupField[v]) {
			break
		}
		r = e.Resolve(st, RV{r.F, fa.X})
	}
	return r
}

// promotedOwner: fields resolved through an embedded struct -> the reference owner type ("client.ReconnectClient").
var promotedOwner = map[*types.Var]string{}

// ---------------- trace helpers ----------------

func (p *Path) Labels() []string {
	var out []string
	for _, ev := range p.Trace {
		l := ev.Label
		if ev.Deferred {
			l += "[deferred]"
		}
		out = append(out, l)
	}
	return out
}

func (p *Path) String() string {
	return strings.Join(p.Labels(), " ; ") + " => " + p.End + retString(p.Rets)
}

func retString(rs []RV) string {
	if len(rs) == 0 {
		return ""
	}
	var parts []string
	for _, r := range rs {
		parts = append(parts, retClass(r))
	}
	return "(" + strings.Join(parts, ", ") + ")"
}

// Index returns the index of the first event matching pred at or after from, or -1.
func (p *Path) Index(from int, pred func(*Ev) bool) int {
	for i := from; i < len(p.Trace); i++ {
		if pred(&p.Trace[i]) {
			return i
		}
	}
	return -1
}

func (p *Path) Count(pred func(*Ev) bool) int {
	n := 0
	for i := range p.Trace {
		if pred(&p.Trace[i]) {
			n++
		}
	}
	return n
}

func (p *Path) Has(pred func(*Ev) bool) bool { return p.Index(0, pred) >= 0 }

func lbl(s string) func(*Ev) bool { return func(e *Ev) bool { return e.Label == s } }
func lblPrefix(s string) func(*Ev) bool {
	return func(e *Ev) bool { return strings.HasPrefix(e.Label, s) }
}
func lblContains(s string) func(*Ev) bool {
	return func(e *Ev) bool { return strings.Contains(e.Label, s) }
}

// retClass classifies a (resolved) returned value.
func retClass(r RV) string {
	v := r.V
	for {
		switch x := v.(type) {
		case *ssa.MakeInterface:
			v = x.X
			continue
		case *ssa.ChangeType:
			v = x.X
			continue
		case *ssa.ChangeInterface:
			v = x.X
			continue
		}
		break
	}
	switch x := v.(type) {
	case *ssa.Const:
		if x.Value == nil {
			return "nil"
		}
		return "const:" + x.Value.ExactString()
	case *ssa.UnOp:
		if x.Op == token.MUL {
			if g, ok := x.X.(*ssa.Global); ok {
				return "global:" + g.Name()
			}
		}
	case *ssa.Call:
		name := calleeName(&x.Call)
		if strings.HasSuffix(name, "grpc/status.Errorf") || strings.HasSuffix(name, "grpc/status.Error") {
			if len(x.Call.Args) > 0 {
				if c, ok := constInt(x.Call.Args[0]); ok {
					return fmt.Sprintf("status:%d", c)
				}
			}
		}
		return "call:" + name
	case *ssa.Function:
		return "func:" + fnName(x)
	case *ssa.MakeClosure:
		return "closure:" + fnName(x.Fn.(*ssa.Function))
	}
	return "val:" + Expr(v)
}

// DistinctPaths de-duplicates paths by their printed form.
func DistinctPaths(ps []Path) []Path {
	seen := map[string]bool{}
	var out []Path
	for _, p := range ps {
		s := p.String()
		if !seen[s] {
			seen[s] = true
			out = append(out, p)
		}
	}
	return out
}

// Trace0F: the frame of the analysed function (frame of the first event, or nil).
func (p *Path) Trace0F() *Frame {
	for i := range p.Trace {
		f := p.Trace[i].F
		for f != nil && f.Parent != nil {
			f = f.Parent
		}
		if f != nil {
			return f
		}
	}
	return nil
}

// finalField: no function of the field's package stores into the field except while initialising a
// freshly allocated object (composite literal / new in the same function).  Loads of such a field
// through the same object always yield the same value.
var finalFieldMemo = map[*types.Var]bool{}

func finalField(fld *types.Var, fr *Frame) bool {
	if fld == nil || fld.Pkg() == nil || fr == nil || fr.Fn == nil || fld.Exported() {
		return false
	}
	if v, ok := finalFieldMemo[fld]; ok {
		return v
	}
	res := true
	prog := fr.Fn.Prog
	pkg := prog.ImportedPackage(fld.Pkg().Path())
	if pkg == nil || !strings.HasPrefix(fld.Pkg().Path(), modPath) {
		finalFieldMemo[fld] = false
		return false
	}
	any := &ssa.Function{}
	_ = any
	var root *ssa.Function
	for _, m := range pkg.Members {
		if f, ok := m.(*ssa.Function); ok {
			root = f
			break
		}
	}
	if root == nil {
		finalFieldMemo[fld] = false
		return false
	}
	for fn := range allFnsOfPkg(root) {
		instrs(fn, func(in ssa.Instruction) {
			st, ok := in.(*ssa.Store)
			if !ok || fieldOf(st.Addr) != fld {
				return
			}
			fa, ok := st.Addr.(*ssa.FieldAddr)
			if !ok {
				res = false
				return
			}
			if _, fresh := fa.X.(*ssa.Alloc); !fresh {
				res = false
			}
		})
	}
	finalFieldMemo[fld] = res
	return res
}

func capturedByClosure(al *ssa.Alloc) bool {
	if al.Referrers() == nil {
		return true
	}
	for _, r := range *al.Referrers() {
		switch x := r.(type) {
		case *ssa.MakeClosure:
			return true
		case *ssa.Store:
			if x.Val == ssa.Value(al) {
				return true // address stored somewhere
			}
		case ssa.CallInstruction:
			return true // address passed to a call
		case *ssa.FieldAddr, *ssa.IndexAddr:
			// composite cells are tracked field by field
			return true
		}
	}
	return false
}

// zeroConst: the zero value of a basic, pointer, interface, slice, map, chan or func type as a constant.
func zeroConst(t types.Type) *ssa.Const {
	switch u := t.Underlying().(type) {
	case *types.Basic:
		switch {
		case u.Info()&types.IsBoolean != 0:
			return ssa.NewConst(constant.MakeBool(false), t)
		case u.Info()&types.IsInteger != 0:
			return ssa.NewConst(constant.MakeInt64(0), t)
		case u.Info()&types.IsString != 0:
			return ssa.NewConst(constant.MakeString(""), t)
		case u.Info()&types.IsFloat != 0:
			return ssa.NewConst(constant.MakeFloat64(0), t)
		}
	case *types.Pointer, *types.Interface, *types.Slice, *types.Map, *types.Chan, *types.Signature:
		return ssa.NewConst(nil, t)
	}
	return nil
}

var debugCalls = os.Getenv("VERIF_DEBUG_CALLS") != ""

// mapsDeleteFunc models a call of maps.DeleteFunc whose predicate is a closure of the module (see exec).
func (e *PPA) mapsDeleteFunc(fr *Frame, b *ssa.BasicBlock, i int, in *ssa.Call, st *State, k cont) bool {
	g := staticCallee(&in.Call)
	if g == nil || pkgPathOf(g) != "maps" || !strings.HasPrefix(g.Name(), "DeleteFunc") || len(in.Call.Args) != 2 {
		return false
	}
	pv := e.Resolve(st, RV{fr, in.Call.Args[1]})
	mc, ok := pv.V.(*ssa.MakeClosure)
	if !ok {
		return false
	}
	pred, ok := mc.Fn.(*ssa.Function)
	if !ok || len(pred.Blocks) == 0 || len(pred.Params) != 2 || fr.depth() >= e.MaxDepth {
		return false
	}
	var bind []RV
	for _, bnd := range mc.Bindings {
		bind = append(bind, e.Resolve(st, RV{pv.F, bnd}))
	}
	m := e.Resolve(st, RV{fr, in.Call.Args[0]})
	maxIter := 1
	if e.MaxVisits >= 2 {
		maxIter = 2
	}
	var run func(st *State, done, total int)
	run = func(st *State, done, total int) {
		if done == total {
			e.exec(fr, b, i+1, st, k)
			return
		}
		nf := e.newFrame(pred, fr, nil, bind, in) // parameters stay symbolic: the entry's key and value
		e.enter(nf, nil, pred.Blocks[0], st, func(st *State, rets []RV) {
			del, known := false, false
			if len(rets) == 1 {
				del, known = e.evalCond(st, rets[0])
			}
			emit := func(st *State) {
				ev := Ev{Label: "builtin:delete", In: in, F: fr, Args: []RV{m, {nf, pred.Params[0]}}}
				ev.Base, ev.Field = loadedField(e, st, RV{fr, in.Call.Args[0]})
				e.emit(st, ev)
			}
			switch {
			case known && del:
				emit(st)
				run(st, done+1, total)
			case known:
				run(st, done+1, total)
			default:
				s2 := st.clone()
				emit(st)
				run(st, done+1, total)
				run(s2, done+1, total)
			}
		})
	}
	for total := 0; total <= maxIter; total++ {
		run(st.clone(), 0, total)
	}
	return true
}
