package main

import (
	"fmt"
	"go/token"
	"go/types"
	"sort"
	"strings"

	"golang.org/x/tools/go/ssa"
)

func init() {
	register(&propDef{
		ID:       "C15",
		Explain:  "Decided (structural necessary conditions): every outcome of gnmiUpdate bumps exactly its own category counter on every path (stale, future, suppressed; accepted => none in the callee and exactly one UpdateCount in the caller before the feed call; empty notifications => EmptyCount only); LeafCount+1 only together with AddCount+1 after a successful Tree.Add of a non-metadata leaf, LeafCount-d only together with DelCount+d with d the number of removed leaves — and under the same non-metadata restriction as the increment; checkTimestamp only moves the latest timestamp forward and is called at exit exactly when some update of the notification was accepted; all places that decide 'is this a metadata path' use element 0 of the joined index path; every Target field written after construction is accessed under one lock; Latency/window/Metadata state only under their mutex; window.slide tests every slot against the cutoff (can drop more than one per call). Round-3 addition: the amount subtracted from LeafCount is a per-leaf counter incremented only for non-metadata leaves in every scenario (a glob at the top of a delete path spans both subtrees). Round-4 additions: the (updates, deletes) dispatch table of Target.GnmiUpdate (every submitted update reaches the function that counts it); no store through a notification read out of the tree (stored messages are shared with readers holding only the node's read lock). Round-5 addition - the latency bookkeeping as decision tables: Compute keeps the batch extrema by comparison only (all 18 orderings), counts by one and accumulates sample/scale; update seals the accumulators into one slot before clearing all four, hands it to every window and exports with its own time; window.add / slide accumulate and retire total and count of the same slots and drop exactly the retired ones; exported max/min are selected among the slots' own fields, the average is total/count times the scale New gave to both sides. Round-6 addition: the amount of the UpdateCount add is 1 for a single-update notification and len(updates) of the caller's notification in the atomic arm (the atomic flag replayed with both values).",
		NotCover: "the numerical claims as such (leaf count equals stored leaves over every history; min <= exported <= max up to precision as an inequality over all sample sequences, integer truncation and overflow of the running totals, which slots a given clock reading ages out) - they quantify over runtime values; what is decided for the latency part is the bookkeeping each of them rests on, step by step",
		Run:      runC15,
	})
}

func metaConst(p *Prog, name string) string {
	sp := p.pkg("metadata")
	if sp == nil {
		return ""
	}
	nc, ok := sp.Members[name].(*ssa.NamedConst)
	if !ok {
		return ""
	}
	s, _ := constString(nc.Value)
	return s
}

// addIntEvents renders the counter updates of a path as "key:+delta" strings.
func addIntEvents(p *Path, names map[string]string) []string {
	var out []string
	for i := range p.Trace {
		ev := &p.Trace[i]
		if ev.Label != "call:(*metadata.Metadata).AddInt" || len(ev.Args) < 3 {
			continue
		}
		key, _ := constString(ev.Args[1].V)
		if n, ok := names[key]; ok {
			key = n
		}
		d := Expr(ev.Args[2].V)
		out = append(out, key+":"+d)
	}
	return out
}

func runC15(c *Ctx) {
	P := c.P
	a := resolveCache(c, "C15.anchors")
	if !a.ok {
		return
	}
	names := map[string]string{}
	for _, n := range []string{"StaleCount", "FutureCount", "SuppressedCount", "UpdateCount", "EmptyCount", "LeafCount", "AddCount", "DelCount"} {
		v := metaConst(P, n)
		if v == "" {
			c.Unresolved("C15.anchors", "metadata."+n)
		}
		names[v] = n
	}
	checkTS := P.Method("cache", "Target", "checkTimestamp")
	fTsmu := P.Field("cache", "Target", "tsmu")
	if checkTS == nil || fTsmu == nil {
		c.Unresolved("C15.anchors", "cache.(*Target).checkTimestamp / Target.tsmu")
	}
	if len(c.Unres) > 0 {
		return
	}
	gu, GU, gr := a.gnmiUpdate, a.GnmiUpdate, a.gnmiRemove
	c.Rule("C15.one-category", "gnmiUpdate: ErrStale path => exactly {StaleCount:+1}; ErrFuture => {FutureCount:+1}; (nil,nil) => {SuppressedCount:+1}; (leaf,nil) => no category counter (only Leaf/AddCount for a new non-meta leaf); other error => none. GnmiUpdate: each accepted gnmiUpdate with a leaf is followed by exactly one UpdateCount add before the feed call; the empty arms bump EmptyCount only")
	c.Rule("C15.leafcount", "LeafCount:+1 occurs only with AddCount:+1, after Tree.Add, for non-meta paths; in gnmiRemove LeafCount:-d occurs only with DelCount:+d, d derived from the removed leaves, and never for a metadata path (same restriction as the increment)")
	c.Rule("C15.latest", "checkTimestamp stores Target.ts only when the new time is After the stored one; Target.GnmiUpdate calls checkTimestamp at exit iff some gnmiUpdate call of this notification returned a nil error (whenever the exit hook is installed)")
	c.Rule("C15.meta-agree", "every comparison with metadata.Root in package cache tests element 0 of the joined index path (joinPrefixAndPath) or a top-level child name of the target tree")
	c.Rule("C15.sync-free", "every field of cache.Target that is stored outside construction (Cache.Add) is read and written under one common lock on every path (the update stream and the periodic UpdateMetadata/UpdateSize goroutines both reach these accesses); exempt with reason: client (set by SetClient before updates, order checked by C01.wire)")
	c.Rule("C15.lat-locked", "latency.Latency fields and all window/slot state only under Latency.mu; metadata.Metadata value maps only under Metadata.mu; no re-entrant acquisition, all locks released")
	c.Rule("C15.slide-all", "window.slide evaluates the aged-out test inside a loop over the slots and can retire more than one slot per call (two aged slots => two subtractions)")

	// every submitted update reaches the function that counts it: the (u,d) dispatch table
	gnmiDispatch(c, a, "C15.dispatch")
	storedImmutable(c, "C15.stored-immutable")
	fn := fnName(gu)
	pos := P.Pos(gu.Pos())
	cat := func(evs []string) []string {
		var out []string
		for _, e := range evs {
			if strings.HasPrefix(e, "LeafCount") || strings.HasPrefix(e, "AddCount") {
				continue
			}
			out = append(out, e)
		}
		return out
	}
	// ---- one-category in gnmiUpdate (all paths, both meta / non-meta)
	for _, meta := range []bool{false, true} {
		sc := scenario{name: fmt.Sprintf("meta=%v", meta), b: map[string]bool{"META": meta, "OKTYPE": true}}
		e := runGnmiUpdate(c, a, sc, 2)
		n := 0
		for i := range e.Paths {
			p := &e.Paths[i]
			if p.End != "return" || len(p.Rets) != 2 {
				continue
			}
			n++
			r0, r1 := retClass(p.Rets[0]), retClass(p.Rets[1])
			evs := addIntEvents(p, names)
			cats := cat(evs)
			want := ""
			switch {
			case r1 == "global:ErrStale":
				want = "StaleCount:1"
			case r1 == "global:ErrFuture":
				want = "FutureCount:1"
			case r1 == "nil" && r0 == "nil":
				want = "SuppressedCount:1"
			}
			got := strings.Join(cats, ",")
			c.Check(got == want, "C15.one-category", fn, fmt.Sprintf("outcome (%s, %s), %s", r0, r1, sc.name), pos, fmt.Sprintf("category counters {%s}, want {%s}; path: %s", got, want, p.String()))
			// leaf count
			lc := 0
			ac := 0
			for _, e2 := range evs {
				if e2 == "LeafCount:1" {
					lc++
				}
				if e2 == "AddCount:1" {
					ac++
				}
			}
			added := p.Has(isTreeAdd) && r1 == "nil"
			okLC := lc == ac && lc <= 1 && (lc == 0 || (added && !meta)) && (!added || meta || lc == 1)
			c.Check(okLC, "C15.leafcount", fn, fmt.Sprintf("LeafCount/AddCount pairing, %s", sc.name), pos, fmt.Sprintf("LeafCount+1 x%d AddCount+1 x%d new-leaf-added=%v; path: %s", lc, ac, added, p.String()))
		}
		c.Floor("C15.one-category/gnmiUpdate-paths("+sc.name+")", n, 10)
	}
	// ---- caller side
	{
		c.Analysed(fnName(GU))
		clientCall := func(ev *Ev) bool { return strings.HasPrefix(ev.Label, "call:dyn:") && loadOfField(ev.Fn.V, a.fClient) }
		isGU := func(ev *Ev) bool { return ev.Label == "call:"+fnName(gu) }
		isGR := func(ev *Ev) bool { return ev.Label == "call:"+fnName(gr) }
		isAdd := func(ev *Ev) bool { return ev.Label == "call:(*metadata.Metadata).AddInt" }
		isCT := func(ev *Ev) bool { return ev.Label == "call:"+fnName(checkTS) }
		nAcc, nHook := 0, 0
		// the notification's atomic flag is one fact however often and wherever it is tested (field or getter,
		// dispatch or helper): both values are replayed
		isMeta := P.Func("cache", "isMetaNotification")
		for _, scn := range [][2]bool{{false, false}, {true, false}, {false, true}, {true, true}} {
			atomicArm, metaNoti := scn[0], scn[1]
			e := &PPA{MaxVisits: 3, TraceBranches: true,
				Inline: func(fr *Frame, call ssa.CallInstruction, callee *ssa.Function) bool { return callee.Parent() == GU },
				Cond: func(e *PPA, st *State, rv RV) (bool, bool) {
					r := e.Resolve(st, rv)
					var recv RV
					switch v := r.V.(type) {
					case *ssa.UnOp:
						if !loadOfField(v, a.fAtomic) {
							return false, false
						}
						recv = RV{r.F, v.X.(*ssa.FieldAddr).X}
					case *ssa.Call:
						// "is this a metadata notification" is one fact of the scenario, too
						if isMeta != nil && staticCallee(&v.Call) == isMeta {
							return metaNoti, true
						}
						if calleeName(&v.Call) != "(*proto/gnmi.Notification).GetAtomic" {
							return false, false
						}
						recv = RV{r.F, v.Call.Args[0]}
					default:
						return false, false
					}
					if e.Resolve(st, recv).V == ssa.Value(param(GU, 1)) {
						return atomicArm, true
					}
					return false, false
				},
				Watch: func(ev *Ev) bool {
					return clientCall(ev) || isGU(ev) || isGR(ev) || isAdd(ev) || isCT(ev) || ev.Label == "if" || (isMeta != nil && ev.Label == "call:"+fnName(isMeta))
				}}
			if isMeta != nil {
				e.Opaque = map[*ssa.Function]bool{isMeta: true}
			}
			e.Run(GU)
			c.Paths += len(e.Paths)
			c.Scen++
			if e.Overflow {
				c.Unknown("C15.one-category", fnName(GU), "paths", "", "overflow")
			}
			for i := range e.Paths {
				p := &e.Paths[i]
				if p.End != "return" {
					continue
				}
				// strip branch events for the counter/feed pattern
				var seq []*Ev
				accepted := false
				hook := false
				for j := range p.Trace {
					ev := &p.Trace[j]
					if ev.Label == "if" {
						if b, ok := ev.Args[0].V.(*ssa.BinOp); ok && isNilConst(b.Y) {
							if ex, ok := b.X.(*ssa.Extract); ok && ex.Index == 1 {
								if call, ok := ex.Tuple.(*ssa.Call); ok && staticCallee(&call.Call) == gu {
									errNonNil := ev.Taken == (b.Op == token.NEQ)
									if !errNonNil {
										accepted = true
									}
								}
							}
						}
						// a decision taken inside the exit hook: the function GnmiUpdate defers (a literal or a method)
						if ev.F != nil && ev.F.Fn.Parent() == GU {
							hook = true
						}
						if ev.F != nil && ev.F.Call != nil {
							if d, isDefer := ev.F.Call.(*ssa.Defer); isDefer && d.Parent() == GU {
								hook = true
							}
						}
						continue
					}
					if isMeta != nil && ev.Label == "call:"+fnName(isMeta) {
						continue
					}
					seq = append(seq, ev)
				}
				for j, ev := range seq {
					if !clientCall(ev) {
						continue
					}
					// a feed call for an updated leaf is immediately preceded by one UpdateCount add
					if ex, ok := ev.Args[0].V.(*ssa.Extract); ok {
						if call, ok := ex.Tuple.(*ssa.Call); ok && staticCallee(&call.Call) == gu {
							okU := j > 0 && isAdd(seq[j-1]) && j > 1 && isGU(seq[j-2])
							if okU {
								k, _ := constString(seq[j-1].Args[1].V)
								okU = names[k] == "UpdateCount"
							}
							c.Check(okU, "C15.one-category", fnName(GU), "accepted update: one UpdateCount add between gnmiUpdate and the feed call", P.Pos(posOf(ev.In)), "path: "+p.String())
							// the amount: every update the accepted notification carries is counted - one for a single-update
							// notification (a clone made per update, or the arm the dispatch reserves for exactly one update),
							// the number of its updates when the caller's whole notification was stored as one unit (atomic)
							if okU && len(seq[j-1].Args) >= 3 && len(seq[j-2].Args) >= 2 {
								nParam := ssa.Value(param(GU, 1))
								whole := frameResolve(seq[j-2].Args[1]).V == nParam
								// the notification parameter lives in a cell when a deferred closure captures it
								isN := func(f *Frame, v ssa.Value) bool {
									r := frameResolve(RV{f, v})
									if u, ok := r.V.(*ssa.UnOp); ok && u.Op == token.MUL {
										if al, ok := u.X.(*ssa.Alloc); ok {
											if sv := singleStore(al); sv != nil {
												r = frameResolve(RV{r.F, sv})
											}
										}
									}
									return r.V == nParam
								}
								amt := frameResolve(seq[j-1].Args[2]).V
								one, isOne := constInt(amt)
								isLen := false
								x := amt
								for k := 0; k < 4; k++ {
									if cvt, ok := x.(*ssa.Convert); ok {
										x = cvt.X
									}
								}
								if lc, ok := x.(*ssa.Call); ok {
									if la, ok := lenArg(lc); ok {
										la = unwrap(la)
										if gc, ok := la.(*ssa.Call); ok && calleeName(&gc.Call) == "(*proto/gnmi.Notification).GetUpdate" && isN(seq[j-1].Args[2].F, gc.Call.Args[0]) {
											isLen = true
										}
										if u, ok := la.(*ssa.UnOp); ok && u.Op == token.MUL {
											if fa, ok := u.X.(*ssa.FieldAddr); ok && vname(fieldOf(fa)) == "Update" && isN(seq[j-1].Args[2].F, fa.X) {
												isLen = true
											}
										}
									}
								}
								okAmt := (isOne && one == 1 && !(whole && atomicArm)) || (isLen && whole)
								c.Check(okAmt, "C15.one-category", fnName(GU), "accepted update: UpdateCount grows by the number of updates the stored notification carries", P.Pos(posOf(seq[j-1].In)), fmt.Sprintf("amount %s; whole notification=%v atomic arm=%v; path: %s", Expr(amt), whole, atomicArm, pathNoIf(p)))
							}
						}
					}
				}
				// empty arms
				if len(seq) > 0 && !p.Has(isGU) && !p.Has(isGR) {
					evs := addIntEvents(p, names)
					c.Check(len(evs) == 1 && evs[0] == "EmptyCount:1", "C15.one-category", fnName(GU), "empty notification counts as empty only", P.Pos(GU.Pos()), strings.Join(evs, ","))
				}
				// latest timestamp: recorded at exit exactly when an update of a non-metadata notification was accepted
				// (by a deferred hook or by explicit flow); never for a metadata notification
				_ = hook
				if metaNoti {
					c.Check(!p.Has(isCT), "C15.latest", fnName(GU), "a metadata notification never moves the latest timestamp", P.Pos(GU.Pos()), "path: "+pathNoIf(p))
				}
				// (the "has updates && not metadata" decision short-circuits: the metadata test was evaluated only on
				// paths on which the notification was found to carry updates - other paths that go on to apply updates
				// are not feasible)
				tracked := isMeta != nil && p.Has(lbl("call:"+fnName(isMeta)))
				if !metaNoti && tracked {
					nHook++
					has := p.Has(isCT)
					if accepted {
						nAcc++
					}
					c.Check(has == accepted, "C15.latest", fnName(GU), "checkTimestamp at exit iff an update was accepted", P.Pos(GU.Pos()), fmt.Sprintf("accepted=%v checkTimestamp called=%v; path: %s", accepted, has, pathNoIf(p)))
				}
			}
		}
		c.Floor("C15.latest/hooked-paths", nHook, 4)
		c.Floor("C15.latest/accepted-paths", nAcc, 2)
	}
	// ---- checkTimestamp monotone
	{
		c.Analysed(fnName(checkTS))
		cls := func(e *PPA, st *State, rv RV) string {
			rv = e.Resolve(st, rv)
			if p, ok := rv.V.(*ssa.Parameter); ok && p.Parent() == checkTS && len(checkTS.Params) == 2 && p == param(checkTS, 1) {
				return "NEWTS"
			}
			if loadOfField(rv.V, a.fTs) {
				return "CURTS"
			}
			return ""
		}
		for _, rel := range []int{-1, 0, 1} {
			at := &Atoms{Class: cls, Rel: map[[2]string]int{{"NEWTS", "CURTS"}: rel}}
			e := &PPA{Cond: at.Cond, Watch: func(ev *Ev) bool { return ev.Label == "store:cache.Target.ts" }}
			e.Run(checkTS)
			c.Paths += len(e.Paths)
			c.Scen++
			for i := range e.Paths {
				p := &e.Paths[i]
				st := len(p.Trace) == 1
				ok := st == (rel > 0) && len(e.Paths) == 1
				if st {
					ok = ok && p.Trace[0].Args[1].V == ssa.Value(param(checkTS, 1))
				}
				c.Check(ok, "C15.latest", fnName(checkTS), fmt.Sprintf("new timestamp %+d vs stored", rel), P.Pos(checkTS.Pos()), fmt.Sprintf("stores=%v paths=%d", st, len(e.Paths)))
			}
		}
	}
	// ---- leafcount in gnmiRemove
	{
		c.Analysed(fnName(gr))
		for _, meta := range []bool{false, true} {
			at := &Atoms{Class: a.class(gr), Bool: map[string]bool{"META": meta}}
			e := &PPA{Cond: at.Cond, Watch: func(ev *Ev) bool {
				return ev.Label == "call:(*metadata.Metadata).AddInt" || ev.Label == "call:(*ctree.Tree).WalkDeleted" || ev.Label == "call:(*metadata.Metadata).ResetEntry"
			}}
			e.Run(gr)
			c.Paths += len(e.Paths)
			c.Scen++
			n := 0
			for i := range e.Paths {
				p := &e.Paths[i]
				if p.End != "return" {
					continue
				}
				n++
				evs := addIntEvents(p, names)
				var lc, dc string
				for _, e2 := range evs {
					if strings.HasPrefix(e2, "LeafCount:") {
						lc = strings.TrimPrefix(e2, "LeafCount:")
					}
					if strings.HasPrefix(e2, "DelCount:") {
						dc = strings.TrimPrefix(e2, "DelCount:")
					}
				}
				paired := (lc == "") == (dc == "") && (lc == "" || lc == "-"+dc || lc == "-("+dc+")" || strings.TrimPrefix(lc, "-") == dc)
				c.Check(paired, "C15.leafcount", fnName(gr), fmt.Sprintf("LeafCount-d paired with DelCount+d, meta=%v", meta), P.Pos(gr.Pos()), fmt.Sprintf("LeafCount %s DelCount %s", lc, dc))
				{
					perLeaf := false
					for j := range p.Trace {
						ev := &p.Trace[j]
						if ev.Label == "call:(*metadata.Metadata).AddInt" && len(ev.Args) == 3 {
							if k, _ := constString(ev.Args[1].V); names[k] == "LeafCount" {
								perLeaf = nonMetaCounter(ev.Args[2].V, a.metaRoot)
							}
						}
					}
					// whatever the delete path starts with (a glob at the top spans both subtrees), the amount is
					// decided leaf by leaf
					c.Check(lc == "" || perLeaf, "C15.leafcount", fnName(gr), fmt.Sprintf("metadata leaves are not subtracted from LeafCount (they were never added to it), delete path under the metadata root=%v", meta), P.Pos(gr.Pos()),
						fmt.Sprintf("LeafCount %s on a metadata delete; delta is a per-leaf counter incremented only for non-metadata leaves=%v; path: %s", lc, perLeaf, p.String()))
				}
			}
			c.Floor(fmt.Sprintf("C15.leafcount/gnmiRemove-paths(meta=%v)", meta), n, 1)
		}
	}
	// ---- meta-agree
	{
		nCmp := 0
		for _, f := range P.PkgFuncs("cache") {
			if P.InTestFile(f) {
				continue
			}
			instrs(f, func(in ssa.Instruction) {
				// the metadata root taken out of a copy of the tree's top-level children (delete(roots, metadata.Root))
				// is the same test in another form
				if call, isCall := in.(*ssa.Call); isCall {
					if bi, isB := call.Call.Value.(*ssa.Builtin); isB && bi.Name() == "delete" && len(call.Call.Args) == 2 {
						if s, okc := constString(call.Call.Args[1]); okc && s == a.metaRoot {
							nCmp++
							c.Check(isCallNamed(unwrap(call.Call.Args[0]), "(*ctree.Tree).Children"), "C15.meta-agree", fnName(f), "metadata root removed from "+Expr(call.Call.Args[0]), P.Pos(in.Pos()), "must be the top-level children of the target tree")
						}
					}
				}
				b, ok := in.(*ssa.BinOp)
				if !ok || (b.Op != token.EQL && b.Op != token.NEQ) {
					return
				}
				for _, pr := range [][2]ssa.Value{{b.X, b.Y}, {b.Y, b.X}} {
					s, ok := constString(pr[1])
					if !ok || s != a.metaRoot {
						continue
					}
					nCmp++
					o := pr[0]
					okSrc := false
					how := Expr(o)
					if idx, ok := elemIndex(o); ok && idx == 0 {
						r := o
						for i := 0; i < 6; i++ {
							switch x := r.(type) {
							case *ssa.UnOp:
								r = x.X
								continue
							case *ssa.IndexAddr:
								r = x.X
								continue
							}
							break
						}
						if isCallNamed(r, "cache.joinPrefixAndPath") {
							okSrc = true
						}
						// a same-package helper every return of which is the joined index path
						if call, isCall := r.(*ssa.Call); isCall && !okSrc {
							if g := staticCallee(&call.Call); g != nil && g.Pkg == f.Pkg && len(g.Blocks) > 0 {
								all, nret := true, 0
								instrs(g, func(gi ssa.Instruction) {
									if ret, isRet := gi.(*ssa.Return); isRet && len(ret.Results) == 1 {
										nret++
										ok1 := false
										for _, sv := range append(storedValues(ret.Results[0]), ret.Results[0]) {
											if isCallNamed(sv, "cache.joinPrefixAndPath") {
												ok1 = true
											}
										}
										if !ok1 {
											all = false
										}
									}
								})
								okSrc = all && nret > 0
							}
						}
					}
					// Reset: a child name of the target's tree (top-level index element)
					if ex, ok := o.(*ssa.Extract); ok {
						if nx, ok := ex.Tuple.(*ssa.Next); ok {
							if rg, ok := nx.Iter.(*ssa.Range); ok && isCallNamed(rg.X, "(*ctree.Tree).Children") {
								okSrc = true
							}
						}
					}
					c.Check(okSrc, "C15.meta-agree", fnName(f), "metadata test on "+how, P.Pos(in.Pos()), "must be element 0 of the joined index path (prefix+path), as gnmiUpdate/gnmiRemove/Reset do")
				}
			})
		}
		c.Floor("C15.meta-agree/comparisons", nCmp, 4)
	}
	// ---- sync-free
	{
		tn := P.Named("cache", "Target")
		st := tn.Underlying().(*types.Struct)
		add := P.Method("cache", "Cache", "Add")
		written := map[*types.Var][]string{}
		for _, f := range P.PkgFuncs("cache") {
			if P.InTestFile(f) || f == add {
				continue
			}
			instrs(f, func(in ssa.Instruction) {
				if s, ok := in.(*ssa.Store); ok {
					if fa, ok := s.Addr.(*ssa.FieldAddr); ok && isNamed(fa.X.Type(), "cache", "Target") {
						if _, isAlloc := fa.X.(*ssa.Alloc); isAlloc {
							return
						}
						fv := fieldOf(fa)
						written[fv] = append(written[fv], fnName(f)+" "+P.Pos(in.Pos()))
					}
				}
			})
		}
		guards := map[*types.Var]*types.Var{}
		var names2 []string
		for i := 0; i < st.NumFields(); i++ {
			fv := st.Field(i)
			if len(written[fv]) == 0 {
				continue
			}
			names2 = append(names2, vname(fv))
			switch vname(fv) {
			case "client":
				c.OK("C15.sync-free", "cache.Target", "field client: set by SetClient before updates (contract, order checked by C01.wire)", "", strings.Join(written[fv], "; "))
			case "tsmu":
			default:
				// the lock that protects it: the mutex that is held at its writes; by convention ts -> tsmu, everything else must name one
				guards[fv] = fTsmu
			}
		}
		sort.Strings(names2)
		c.Note("Target fields stored after construction: %s", strings.Join(names2, ", "))
		la := NewLockAuditLocal(c, "cache", guards, 2)
		la.Report(func(kind string) string {
			switch kind {
			case "unguarded", "entry-unlocked", "undecided":
				return "C15.sync-free"
			}
			return "C15.lat-locked"
		})
		c.Floor("C15.sync-free/guarded-fields", len(guards), 1)
		c.Check(la.Accesses > 0, "C15.sync-free", "cache", "accesses of post-construction Target fields analysed", "", fmt.Sprintf("%d accesses, %d under tsmu", la.Accesses, la.Guarded))
	}
	// ---- latency / metadata locks
	{
		fLMu := P.Field("latency", "Latency", "mu")
		g := map[*types.Var]*types.Var{}
		var foreign []*types.Var
		for _, n := range []string{"start", "totalDiff", "count", "min", "max", "windows"} {
			if f := P.Field("latency", "Latency", n); f != nil {
				g[f] = fLMu
			} else {
				c.Unresolved("C15.lat-locked", "latency.Latency."+n)
			}
		}
		for _, n := range []string{"total", "count", "slots", "covered"} {
			if f := P.Field("latency", "window", n); f != nil {
				g[f] = fLMu
				foreign = append(foreign, f)
			} else {
				c.Unresolved("C15.lat-locked", "latency.window."+n)
			}
		}
		if fLMu != nil {
			la := NewLockAudit(c, "latency", g, 2, foreign...)
			la.Report(func(kind string) string { return "C15.lat-locked" })
			c.Check(la.Accesses >= 20, "C15.lat-locked", "latency", "guarded accesses analysed", "", fmt.Sprintf("%d accesses, %d directly under Latency.mu, rest discharged at call sites", la.Accesses, la.Guarded))
		}
		fMMu := P.Field("metadata", "Metadata", "mu")
		gm := map[*types.Var]*types.Var{}
		for _, n := range []string{"valuesInt", "valuesBool", "valuesStr"} {
			if f := P.Field("metadata", "Metadata", n); f != nil {
				gm[f] = fMMu
			} else {
				c.Unresolved("C15.lat-locked", "metadata.Metadata."+n)
			}
		}
		if fMMu != nil {
			la := NewLockAudit(c, "metadata", gm, 2)
			la.Report(func(kind string) string { return "C15.lat-locked" })
			c.Check(la.Accesses >= 8, "C15.lat-locked", "metadata", "guarded accesses analysed", "", fmt.Sprintf("%d accesses, %d under Metadata.mu", la.Accesses, la.Guarded))
		}
	}
	// ---- latency bookkeeping tables (rules_c15_latency.go)
	runLatencyStats(c)
	runMetaOps(c)
	// ---- slide
	{
		slide := P.Method("latency", "window", "slide")
		if slide == nil {
			c.Unresolved("C15.slide-all", "latency.(*window).slide")
			return
		}
		c.Analysed(fnName(slide))
		inLoop := false
		instrs(slide, func(in ssa.Instruction) {
			if call, ok := in.(*ssa.Call); ok && calleeName(&call.Call) == "(time.Time).After" {
				if inLoopWithout(in.Block(), nil) {
					inLoop = true
				}
			}
		})
		c.Check(inLoop, "C15.slide-all", fnName(slide), "aged-out test is evaluated in a loop over the slots", P.Pos(slide.Pos()), "")
		e := &PPA{MaxVisits: 4, Cond: func(e *PPA, st *State, rv RV) (bool, bool) {
			if call, ok := rv.V.(*ssa.Call); ok && calleeName(&call.Call) == "(time.Time).After" {
				return false, true // every examined slot has aged out
			}
			return false, false
		}, Watch: func(ev *Ev) bool { return ev.Label == "store:latency.window.count" }}
		e.Run(slide)
		c.Paths += len(e.Paths)
		max := 0
		for i := range e.Paths {
			if n := len(e.Paths[i].Trace); n > max {
				max = n
			}
		}
		c.Check(max >= 2, "C15.slide-all", fnName(slide), "two aged-out slots are both retired in one call", P.Pos(slide.Pos()), fmt.Sprintf("max subtractions on a path with every slot aged: %d", max))
	}
}

// nonMetaCounter: delta is (the negation of) a local counter whose only increments happen in a
// callback under a guard that tests the removed leaf against the metadata root.
func nonMetaCounter(delta ssa.Value, metaRoot string) bool {
	v := delta
	if u, ok := v.(*ssa.UnOp); ok && u.Op == token.SUB {
		v = u.X
	}
	u, ok := v.(*ssa.UnOp)
	if !ok || u.Op != token.MUL {
		return false
	}
	// the counter kept in a field of a small collector object (r.deleted): every store to that field
	// in the package, other than a zero initialisation, must sit under a metadata test
	if fa, isFA := u.X.(*ssa.FieldAddr); isFA {
		fld := fieldOf(fa)
		if fld == nil || fld.Pkg() == nil {
			return false
		}
		n, all := 0, true
		for fn := range allFnsOfPkg(fa.Parent()) {
			instrs(fn, func(in ssa.Instruction) {
				st, ok := in.(*ssa.Store)
				if !ok || fieldOf(st.Addr) != fld {
					return
				}
				if k, isK := constInt(st.Val); isK && k == 0 {
					return
				}
				n++
				if !guardedByMetaTest(st, metaRoot) {
					all = false
				}
			})
		}
		return n > 0 && all
	}
	cell, ok := u.X.(*ssa.Alloc)
	if !ok {
		return false
	}
	incs, okAll := 0, true
	var visit func(addr ssa.Value, fn *ssa.Function)
	visit = func(addr ssa.Value, fn *ssa.Function) {
		for _, r := range *addr.Referrers() {
			switch x := r.(type) {
			case *ssa.Store:
				if x.Addr != addr {
					continue
				}
				if k, isK := constInt(x.Val); isK && k == 0 {
					continue // initialisation
				}
				incs++
				if !guardedByMetaTest(x, metaRoot) {
					okAll = false
				}
			case *ssa.MakeClosure:
				cf := x.Fn.(*ssa.Function)
				for i, b := range x.Bindings {
					if b == addr && i < len(cf.FreeVars) {
						visit(cf.FreeVars[i], cf)
					}
				}
			}
		}
	}
	visit(cell, cell.Parent())
	return incs > 0 && okAll
}

// guardedByMetaTest: the instruction is dominated by a branch on a metadata-root test
// (a comparison with metadata.Root, or a call of a same-package predicate that makes one).
func guardedByMetaTest(in ssa.Instruction, metaRoot string) bool {
	isMetaCmp := func(v ssa.Value) bool {
		if n, ok := v.(*ssa.UnOp); ok && n.Op == token.NOT {
			v = n.X
		}
		switch x := v.(type) {
		case *ssa.BinOp:
			for _, o := range []ssa.Value{x.X, x.Y} {
				if s, ok := constString(o); ok && s == metaRoot {
					return true
				}
			}
		case *ssa.Call:
			if f := staticCallee(&x.Call); f != nil && f.Pkg == in.Parent().Pkg {
				found := false
				instrs(f, func(i2 ssa.Instruction) {
					if b, ok := i2.(*ssa.BinOp); ok {
						for _, o := range []ssa.Value{b.X, b.Y} {
							if s, ok := constString(o); ok && s == metaRoot {
								found = true
							}
						}
					}
				})
				return found
			}
		}
		return false
	}
	for _, b := range in.Parent().Blocks {
		ifi, ok := b.Instrs[len(b.Instrs)-1].(*ssa.If)
		if !ok || !isMetaCmp(ifi.Cond) {
			continue
		}
		for _, s := range b.Succs {
			if len(s.Preds) == 1 && (s == in.Block() || s.Dominates(in.Block())) {
				return true
			}
		}
	}
	return false
}

func pathNoIf(p *Path) string {
	var l []string
	for _, ev := range p.Trace {
		if ev.Label != "if" {
			l = append(l, ev.Label)
		}
	}
	return strings.Join(l, " ; ")
}

// allFnsOfPkg: the source functions (incl. closures) of the package f belongs to.
func allFnsOfPkg(f *ssa.Function) map[*ssa.Function]bool {
	out := map[*ssa.Function]bool{}
	top := f
	for top.Parent() != nil {
		top = top.Parent()
	}
	if top.Pkg == nil {
		return out
	}
	var add func(g *ssa.Function)
	add = func(g *ssa.Function) {
		if out[g] || len(g.Blocks) == 0 {
			return
		}
		out[g] = true
		for _, a := range g.AnonFuncs {
			add(a)
		}
	}
	for _, m := range top.Pkg.Members {
		switch x := m.(type) {
		case *ssa.Function:
			add(x)
		case *ssa.Type:
			for _, T := range []types.Type{x.Type(), types.NewPointer(x.Type())} {
				ms := top.Prog.MethodSets.MethodSet(T)
				for i := 0; i < ms.Len(); i++ {
					if g := top.Prog.MethodValue(ms.At(i)); g != nil && g.Pkg == top.Pkg {
						add(g)
					}
				}
			}
		}
	}
	return out
}

// storedImmutable: a notification stored in the tree is read by queries, the size refresh and senders
// under the node's read lock only; it is replaced as a whole (Leaf.Update / Tree.Add), never written in place.
func storedImmutable(c *Ctx, rule string) {
	P := c.P
	c.Rule(rule, "packages cache and subscribe: no store through a message read out of the tree (root of the address is a (*ctree.Leaf).Value / (*ctree.Tree).GetLeafValue call or the value handed to a tree visitor) - stored notifications are shared with concurrent readers that hold only the node's read lock, so they are replaced whole, never written in place")
	reads, stores := 0, 0
	for _, pk := range []string{"cache", "subscribe"} {
		for _, f := range P.PkgFuncs(pk) {
			if P.InTestFile(f) {
				continue
			}
			instrs(f, func(in ssa.Instruction) {
				if call, ok := in.(*ssa.Call); ok {
					if n := calleeName(&call.Call); n == "(*ctree.Leaf).Value" || n == "(*ctree.Tree).GetLeafValue" {
						reads++
					}
				}
				st, ok := in.(*ssa.Store)
				if !ok {
					return
				}
				root, through := addrRoot(st.Addr)
				if !through {
					return
				}
				stores++
				fromTree := false
				switch r := root.(type) {
				case *ssa.Call:
					n := calleeName(&r.Call)
					fromTree = n == "(*ctree.Leaf).Value" || n == "(*ctree.Tree).GetLeafValue"
				case *ssa.Parameter:
					// the interface{} value handed to a visitor / condition closure by the tree
					if _, isIface := r.Type().Underlying().(*types.Interface); isIface && f.Parent() != nil && types.IsInterface(r.Type()) && r.Type().String() == "interface{}" {
						fromTree = true
					}
				}
				c.Check(!fromTree, rule, fnName(f), "store through a stored message: "+Expr(st.Addr), P.Pos(in.Pos()), "written in place while readers hold only the node's read lock")
			})
		}
	}
	c.Check(reads >= 2 && stores >= 4, rule, "cache, subscribe", "reads of stored values and field stores inspected", "", fmt.Sprintf("%d reads of stored values, %d stores through pointers", reads, stores))
}
