package main

import (
	"fmt"
	"go/token"
	"strings"

	"golang.org/x/tools/go/ssa"
)

func init() {
	register(&propDef{
		ID:       "C02",
		Explain:  "Decided: the complete single-step decision table of (*cache.Target).gnmiUpdate over the orderings of the new and the stored timestamp (<,=,>), proto-equality, the future-threshold atoms (threshold sign, ahead of clock, first update, ahead of latest timestamp), evaluated on every CFG path: stale (<, or = and identical) => ErrStale and no tree write; = and different => Leaf.Update(n), nil error; > => Leaf.Update(n) unless exactly the future condition holds => ErrFuture and no write; any non-nil error => no Leaf.Update / Tree.Add. The delete condition passed to WalkDeleted is true iff stored < delete timestamp, and ctree.internalDelete removes a leaf only on the true edge of the condition. Also decided: in the arm of Target.GnmiUpdate that splits a combined notification both loops are left only through their headers and every path from the update loop to a return passes the delete loop (a delete is applied whatever happened to the updates it travelled with). Round-3 additions: the (updates, deletes) dispatch table of Target.GnmiUpdate; the latest accepted timestamp only moves forward and is advanced by every accepted non-metadata update (C15.latest, borrowed) - the future-timestamp rejection compares with it. Round-4 addition: the tree unlinks exactly what the timestamp condition accepted (C09.prune-guard / select / conditional, borrowed): a branch is reported removable only when no child is left. Round-5 addition: gnmiRemove hands every non-empty joined path to the tree's conditional delete on every path that consults the tree - no exact-path lookup (which does not understand wildcards) may decide that the delete is skipped. Round-7 addition: nothing reachable from gnmiRemove stores to Target.ts - a delete never moves the reference the future-timestamp test is measured against.",
		NotCover: "the per-leaf invariant over sequences of notifications (follows by induction only with C09/C10), clock behaviour, atomic-container interplay, that GetLeaf/Add/Update address the same leaf",
		Run:      runC02,
	})
}

type scenario struct {
	name string
	b    map[string]bool
	i    map[string]int64
	r    map[[2]string]int
}

func isLeafUpdate(ev *Ev) bool { return ev.Label == "call:(*ctree.Leaf).Update" }
func isTreeAdd(ev *Ev) bool    { return ev.Label == "call:(*ctree.Tree).Add" }
func isTreeWrite(ev *Ev) bool  { return isLeafUpdate(ev) || isTreeAdd(ev) }

// errClass classifies the error result of a gnmiUpdate path.
func errClass(p *Path) string {
	if len(p.Rets) < 2 {
		return "?"
	}
	return retClass(p.Rets[1])
}

func runGnmiUpdate(c *Ctx, a *cacheAnchors, sc scenario, maxVisits int) *PPA {
	at := &Atoms{Class: a.class(a.gnmiUpdate), Bool: sc.b, Int: sc.i, Rel: sc.r}
	e := &PPA{
		Cond: at.Cond,
		Watch: func(ev *Ev) bool {
			return isTreeWrite(ev) || strings.HasPrefix(ev.Label, "call:(*metadata.Metadata).") || ev.Label == "call:(*ctree.Tree).GetLeaf" ||
				ev.Label == "store:cache.Target.sync" || ev.Label == "call:(*latency.Latency).Compute"
		},
		MaxVisits: maxVisits,
	}
	e.Run(a.gnmiUpdate)
	c.Paths += len(e.Paths)
	c.Scen++
	return e
}

func runC02(c *Ctx) {
	P := c.P
	a := resolveCache(c, "C02.anchors")
	if !a.ok {
		return
	}
	c.Analysed(fnName(a.gnmiUpdate))
	c.Rule("C02.stale-lt", "leaf exists, new timestamp < stored => every path returns ErrStale and contains no Leaf.Update/Tree.Add")
	c.Rule("C02.stale-eq", "leaf exists, timestamps equal, notifications proto-equal => ErrStale, no tree write")
	c.Rule("C02.replace-eq", "leaf exists, timestamps equal, notifications differ => every path calls Leaf.Update(n) and returns a nil error (no future check)")
	c.Rule("C02.newer", "leaf exists, new timestamp > stored, future check disabled => every path calls Leaf.Update(n), nil error")
	c.Rule("C02.future", "leaf exists, new > stored: ErrFuture (and no tree write) iff threshold>0 and ahead-of-clock>threshold and latest-timestamp initialised and ahead-of-latest>threshold; all 24 sub-scenarios enumerated incl. equality boundaries")
	c.Rule("C02.reject-pure", "in every scenario a path returning a non-nil error contains no Leaf.Update and no Tree.Add (other than Add's own error)")
	c.Rule("C02.del-cond", "the condition closure handed to ctree.WalkDeleted by gnmiRemove returns true iff stored timestamp < delete timestamp (evaluated at <, =, >)")
	multiComplete(c, a, "C02.multi-complete")
	c.Borrow("C15", map[string]string{"C15.latest": "C02.latest"}, "the future-timestamp rejection compares with the target's latest accepted timestamp, which must be the greatest accepted one")
	gnmiDispatch(c, a, "C02.dispatch")
	c.Borrow("C09", map[string]string{"C09.prune-guard": "C02.delete-prune", "C09.select": "C02.delete-select", "C09.conditional": "C02.delete-conditional"}, "'a delete at time T removes exactly the matching leaves whose stored timestamp is older than T': the tree must unlink exactly the leaves the timestamp condition accepted - a branch pruned on the verdict of one child takes newer leaves with it")
	deleteApplied(c, a, "C02.delete-applied")
	removeKeepsLatest(c, "C02.latest-writers")
	c.Rule("C02.del-honoured", "in ctree.internalDelete the leaf arm calls f and reports deletion only on the true edge of condition(value)")

	nParam := ssa.Value(param(a.gnmiUpdate, 1))
	updatesWithN := func(p *Path) bool {
		i := p.Index(0, isLeafUpdate)
		return i >= 0 && len(p.Trace[i].Args) >= 2 && p.Trace[i].Args[1].V == nParam
	}
	fn := fnName(a.gnmiUpdate)
	pos := P.Pos(a.gnmiUpdate.Pos())

	checkAll := func(rule string, sc scenario, want func(p *Path) (bool, string)) {
		e := runGnmiUpdate(c, a, sc, 2)
		if e.Overflow {
			c.Unknown(rule, fn, sc.name, pos, "path overflow")
			return
		}
		n := 0
		for i := range e.Paths {
			p := &e.Paths[i]
			if p.End != "return" {
				continue
			}
			if !p.Has(lbl("call:(*ctree.Tree).GetLeaf")) {
				continue // rejected before the lookup (metadata value type errors)
			}
			n++
			ok, why := want(p)
			d := "holds on all paths"
			if !ok {
				d = why + "; path: " + p.String()
			}
			c.Check(ok, rule, fn, sc.name, pos, d)
			// reject-pure on every path of every scenario
			ec := errClass(p)
			if ec != "nil" {
				pure := !p.Has(isLeafUpdate) && (!p.Has(isTreeAdd) || ec == "call:(*ctree.Tree).Add")
				dd := "no write on rejected paths"
				if !pure {
					dd = "rejected path writes the tree: " + p.String()
				}
				c.Check(pure, "C02.reject-pure", fn, sc.name, pos, dd)
			}
		}
		if n == 0 {
			c.Unknown(rule, fn, sc.name, pos, "no path reaches the leaf lookup in this scenario")
		}
	}

	for _, meta := range []bool{false, true} {
		for _, atomic := range []bool{false, true} {
			if meta && atomic {
				continue
			}
			base := func(extra map[string]bool) map[string]bool {
				m := map[string]bool{"EXISTS": true, "OKTYPE": true, "META": meta, "AT": atomic}
				for k, v := range extra {
					m[k] = v
				}
				return m
			}
			tag := fmt.Sprintf("meta=%v,atomic=%v", meta, atomic)
			// stale-lt
			checkAll("C02.stale-lt", scenario{name: "NEW<OLD," + tag, b: base(nil), r: map[[2]string]int{{"NEW", "OLD"}: -1}},
				func(p *Path) (bool, string) {
					return errClass(p) == "global:ErrStale" && !p.Has(isTreeWrite), "expected ErrStale without tree write"
				})
			checkAll("C02.stale-eq", scenario{name: "NEW=OLD,identical," + tag, b: base(map[string]bool{"PEQ": true}), r: map[[2]string]int{{"NEW", "OLD"}: 0}},
				func(p *Path) (bool, string) {
					return errClass(p) == "global:ErrStale" && !p.Has(isTreeWrite), "expected ErrStale without tree write"
				})
			checkAll("C02.replace-eq", scenario{name: "NEW=OLD,different," + tag, b: base(map[string]bool{"PEQ": false}), r: map[[2]string]int{{"NEW", "OLD"}: 0}},
				func(p *Path) (bool, string) {
					return errClass(p) == "nil" && updatesWithN(p), "expected Leaf.Update(n) and nil error"
				})
			for _, thr := range []int64{-1, 0} {
				checkAll("C02.newer", scenario{name: fmt.Sprintf("NEW>OLD,threshold=%d,%s", thr, tag), b: base(nil), i: map[string]int64{"THR": thr}, r: map[[2]string]int{{"NEW", "OLD"}: 1}},
					func(p *Path) (bool, string) {
						return errClass(p) == "nil" && updatesWithN(p), "expected Leaf.Update(n) and nil error"
					})
			}
			// future: threshold > 0
			for _, aheadNow := range []int{-1, 0, 1} {
				for _, tsn := range []int64{-1, 1} {
					for _, aheadTs := range []int{-1, 0, 1} {
						wantFuture := aheadNow == 1 && tsn == 1 && aheadTs == 1
						sc := scenario{
							name: fmt.Sprintf("NEW>OLD,threshold>0,aheadOfClock%+d,latestTs%+d,aheadOfLatest%+d,%s", aheadNow, tsn, aheadTs, tag),
							b:    base(nil),
							i:    map[string]int64{"THR": 1, "TSNANO": tsn},
							r:    map[[2]string]int{{"NEW", "OLD"}: 1, {"AHEAD_NOW", "THR"}: aheadNow, {"AHEAD_TS", "THR"}: aheadTs},
						}
						checkAll("C02.future", sc, func(p *Path) (bool, string) {
							if wantFuture {
								return errClass(p) == "global:ErrFuture" && !p.Has(isTreeWrite), "expected ErrFuture without tree write"
							}
							return errClass(p) == "nil" && updatesWithN(p), "expected acceptance: Leaf.Update(n), nil error"
						})
					}
				}
			}
		}
	}
	// new leaf: Add then nil, or Add's error
	checkAllNew := scenario{name: "leaf absent", b: map[string]bool{"EXISTS": false}}
	{
		e := runGnmiUpdate(c, a, checkAllNew, 2)
		for i := range e.Paths {
			p := &e.Paths[i]
			if p.End != "return" || !p.Has(lbl("call:(*ctree.Tree).GetLeaf")) {
				continue
			}
			ec := errClass(p)
			ok := !p.Has(isLeafUpdate) && p.Has(isTreeAdd) && (ec == "nil" || ec == "call:(*ctree.Tree).Add")
			c.Check(ok, "C02.reject-pure", fn, checkAllNew.name, pos, "absent leaf: Tree.Add(path, n), error only from Add; path: "+p.String())
		}
	}

	deleteCondTable(c, a, "C02.del-cond")
	deleteHonoursCondition(c, "C02.del-honoured")
}

// deleteHonoursCondition: in ctree.internalDelete the leaf arm removes only when condition(value) is true.
func deleteHonoursCondition(c *Ctx, rule string) {
	P := c.P
	id := P.Method("ctree", "Tree", "internalDelete")
	if id == nil {
		c.Unresolved(rule, "ctree.(*Tree).internalDelete")
		return
	}
	c.Analysed(fnName(id))
	roles := delRolesOf(id)
	isCond := func(ev *Ev) bool { return strings.HasPrefix(ev.Label, "call:dyn:") && roles.cond(ev.Fn.V) }
	isF := func(ev *Ev) bool { return strings.HasPrefix(ev.Label, "call:dyn:") && roles.f(ev.Fn.V) }
	n := 0
	for _, condVal := range []bool{false, true} {
		e := &PPA{
			Cond: func(e *PPA, st *State, rv RV) (bool, bool) {
				if call, ok := rv.V.(*ssa.Call); ok && roles.cond(call.Call.Value) {
					return condVal, true
				}
				return false, false
			},
			Watch: func(ev *Ev) bool {
				return isCond(ev) || isF(ev) || ev.Label == "builtin:delete" || ev.Label == "call:(*ctree.Tree).internalDelete"
			},
		}
		e.Run(id)
		c.Paths += len(e.Paths)
		c.Scen++
		for i := range e.Paths {
			p := &e.Paths[i]
			if p.End != "return" || !p.Has(isCond) {
				continue
			}
			n++
			calledF := p.Has(isF)
			ret := -1
			if len(p.Rets) > 0 {
				if b, ok := constBool(p.Rets[0].V); ok {
					ret = 0
					if b {
						ret = 1
					}
				}
			}
			want := 0
			if condVal {
				want = 1
			}
			ok := calledF == condVal && ret == want && p.Index(0, isF) != 0 && (!calledF || p.Index(0, isCond) < p.Index(0, isF))
			c.Check(ok, rule, fnName(id), fmt.Sprintf("leaf arm, condition=%v", condVal), P.Pos(id.Pos()),
				fmt.Sprintf("f called=%v, reports deleted=%d; path: %s", calledF, ret, p.String()))
		}
	}
	c.Floor(rule, n, 2)
}

// deleteCondTable evaluates the condition closure handed to ctree.WalkDeleted by gnmiRemove at
// stored <, =, > delete timestamp (shared by C02 and C01).
func deleteCondTable(c *Ctx, a *cacheAnchors, rule string) {
	P := c.P
	// ---- delete condition closure
	{
		found := 0
		for _, ci := range callsIn(a.gnmiRemove) {
			if calleeName(ci.Common()) != "(*ctree.Tree).WalkDeleted" {
				continue
			}
			args := ci.Common().Args
			if len(args) < 4 {
				continue
			}
			mc, via := closureArg(args[2])
			if mc == nil {
				c.Unknown(rule, fnName(a.gnmiRemove), "condition argument of WalkDeleted", P.Pos(ci.Pos()), "condition is not a function literal: "+Expr(args[2]))
				continue
			}
			found++
			cf := mc.Fn.(*ssa.Function)
			c.Analysed(fnName(cf))
			cls := func(e *PPA, st *State, rv RV) string {
				rv = e.Resolve(st, rv)
				var recv RV
				switch v := rv.V.(type) {
				case *ssa.Call:
					switch calleeName(&v.Call) {
					case "(*proto/gnmi.Notification).GetTimestamp":
						recv = RV{rv.F, v.Call.Args[0]}
					case "cache.T":
						return "" // handled below through recursion
					default:
						return ""
					}
				case *ssa.UnOp:
					if fieldOf(v.X) == a.fTimestamp {
						recv = RV{rv.F, v.X.(*ssa.FieldAddr).X}
					} else {
						return ""
					}
				default:
					return ""
				}
				r := rootOf(e, st, recv)
				switch pv := r.V.(type) {
				case *ssa.Parameter:
					if pv.Parent() == cf {
						return "STORED"
					}
					return "DEL" // the enclosing function's notification
				case *ssa.FreeVar:
					return "DEL"
				case *ssa.Alloc:
					if pv.Parent() != cf {
						return "DEL" // a captured variable of the enclosing function
					}
				}
				return ""
			}
			var cls2 func(e *PPA, st *State, rv RV) string
			cls2 = func(e *PPA, st *State, rv RV) string {
				r := e.Resolve(st, rv)
				// the stored value is a notification (comma-ok assertion of the callback's argument)
				if ex, ok := r.V.(*ssa.Extract); ok && ex.Index == 1 {
					if ta, ok := ex.Tuple.(*ssa.TypeAssert); ok && ta.CommaOk && isNamed(ta.AssertedType, "proto/gnmi", "Notification") {
						return "ISNOTI"
					}
				}
				if call, ok := r.V.(*ssa.Call); ok && (calleeName(&call.Call) == "cache.T") {
					return cls2(e, st, RV{r.F, call.Call.Args[0]})
				}
				// the delete's timestamp kept in a field of a small collector object of the enclosing function
				// (&removal{timestamp: n.GetTimestamp()}): the field's only store, made where the object is built
				if u, ok := r.V.(*ssa.UnOp); ok && u.Op == token.MUL {
					if fa, ok := u.X.(*ssa.FieldAddr); ok {
						base := e.Resolve(st, RV{r.F, fa.X})
						if al, ok := base.V.(*ssa.Alloc); ok && al.Parent() != cf && al.Referrers() != nil {
							var vals []ssa.Value
							for _, rr := range *al.Referrers() {
								if f2, ok := rr.(*ssa.FieldAddr); ok && f2.Field == fa.Field && f2.Referrers() != nil {
									for _, r3 := range *f2.Referrers() {
										if st2, ok := r3.(*ssa.Store); ok && st2.Addr == ssa.Value(f2) {
											vals = append(vals, st2.Val)
										}
									}
								}
							}
							if len(vals) == 1 {
								if call, ok := vals[0].(*ssa.Call); ok && calleeName(&call.Call) == "(*proto/gnmi.Notification).GetTimestamp" {
									return "DEL"
								}
							}
						}
					}
				}
				return cls(e, st, rv)
			}
			for _, rel := range []int{-1, 0, 1} {
				at := &Atoms{Class: cls2, Bool: map[string]bool{"ISNOTI": true}, Rel: map[[2]string]int{{"STORED", "DEL"}: rel}}
				e := &PPA{Cond: at.Cond}
				e.RunClosureVia(mc, via)
				c.Paths += len(e.Paths)
				c.Scen++
				want := 0
				if rel < 0 {
					want = 1
				}
				name := fmt.Sprintf("stored%+d vs delete timestamp", rel)
				n := 0
				for _, p := range e.Paths {
					if p.End != "return" {
						continue
					}
					n++
					got := -1
					if len(p.RetB) == 1 {
						got = p.RetB[0]
					}
					c.Check(got == want, rule, fnName(cf), name, P.Pos(cf.Pos()), fmt.Sprintf("condition returns %d (1=true,0=false,-1=undetermined), want %d", got, want))
				}
				if n == 0 {
					c.Unknown(rule, fnName(cf), name, P.Pos(cf.Pos()), "no returning path")
				}
			}
		}
		c.Floor(rule, found, 1)
	}
}

// deleteApplied: gnmiRemove hands every well-formed delete path to the tree's conditional delete.
// The delete path may contain wildcards, which only the delete walk itself understands: a path on which
// the tree was consulted (an exact-path lookup, a query, a size test ...) and the function then returns
// without the delete walk drops deletes whose path does not name one existing node.
func deleteApplied(c *Ctx, a *cacheAnchors, rule string) {
	P := c.P
	f := a.gnmiRemove
	c.Rule(rule, "(*Target).gnmiRemove, replayed with an empty and a non-empty joined path: a non-empty path reaches the tree's conditional delete (WalkDeleted / DeleteConditional) with that very path on every path of the function that consults the tree at all - no lookup of the tree (Get, GetLeaf, Query ...: exact-path lookups do not understand wildcards) may decide that the delete is skipped; an empty path touches nothing")
	c.Analysed(fnName(f))
	isDelWalk := func(ev *Ev) bool {
		return ev.Label == "call:(*ctree.Tree).WalkDeleted" || ev.Label == "call:(*ctree.Tree).DeleteConditional" || ev.Label == "call:(*ctree.Tree).Delete"
	}
	isTree := func(ev *Ev) bool {
		return strings.HasPrefix(ev.Label, "call:(*ctree.Tree).") || strings.HasPrefix(ev.Label, "call:(*ctree.Leaf).")
	}
	joined := func(e *PPA, st *State, rv RV) bool {
		r := e.Resolve(st, rv)
		call, ok := r.V.(*ssa.Call)
		return ok && staticCallee(&call.Call) == a.join
	}
	n := 0
	for _, plen := range []int64{0, 2} {
		at := &Atoms{Class: func(e *PPA, st *State, rv RV) string {
			r := e.Resolve(st, rv)
			if call, ok := r.V.(*ssa.Call); ok {
				if la, ok := lenArg(call); ok && joined(e, st, RV{r.F, la}) {
					return "PLEN"
				}
			}
			return ""
		}, Int: map[string]int64{"PLEN": plen}}
		e := &PPA{Cond: at.Cond, Opaque: map[*ssa.Function]bool{a.join: true}, Watch: func(ev *Ev) bool { return isTree(ev) || ev.Label == "call:"+fnName(a.join) }}
		e.Run(f)
		c.Paths += len(e.Paths)
		c.Scen++
		for i := range e.Paths {
			p := &e.Paths[i]
			if p.End != "return" {
				continue
			}
			n++
			di := p.Index(0, isDelWalk)
			ti := p.Index(0, isTree)
			if plen == 0 {
				c.Check(ti < 0, rule, fnName(f), "empty joined path: the tree is not touched", P.Pos(f.Pos()), "path: "+p.String())
				continue
			}
			if di < 0 {
				// skipped without looking at the tree (a malformed notification) is not this rule's business
				c.Check(ti < 0, rule, fnName(f), "a look at the tree never decides that the delete walk is skipped", P.Pos(f.Pos()), "path: "+p.String())
				continue
			}
			// the walk gets the joined path itself
			okArg := false
			if len(p.Trace[di].Args) >= 2 {
				st := newState()
				okArg = joined(e, st, p.Trace[di].Args[1])
			}
			c.Check(okArg, rule, fnName(f), "the delete walk is given the joined prefix+path", P.Pos(f.Pos()), "path: "+p.String())
		}
	}
	c.Floor(rule+"/paths", n, 2)
}
