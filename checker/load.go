package main

import (
	"fmt"
	"go/token"
	"go/types"
	"os"
	"sort"
	"strings"

	"golang.org/x/tools/go/callgraph"
	"golang.org/x/tools/go/callgraph/cha"
	"golang.org/x/tools/go/callgraph/vta"
	"golang.org/x/tools/go/packages"
	"golang.org/x/tools/go/ssa"
	"golang.org/x/tools/go/ssa/ssautil"
)

const modPath = "github.com/openconfig/gnmi"

// Prog is the loaded, type-checked and SSA-built program under analysis.
type Prog struct {
	Repo    string
	Fset    *token.FileSet
	Pkgs    []*packages.Package
	PkgByID map[string]*packages.Package // by import path (non-test variant)
	SSA     *ssa.Program
	SSAPkg  map[string]*ssa.Package // by import path
	cg      *callgraph.Graph
	allFns  map[*ssa.Function]bool
	Tests   bool
}

// Load type-checks /repo's current working tree and builds SSA for the whole program.
// globalProg: the program under analysis (for helpers that need a whole-module scan).
var globalProg *Prog

func Load(repo string, tests bool, goarch string) (*Prog, error) {
	env := append(os.Environ(), "GOFLAGS=-mod=mod", "GOPROXY=off", "GOSUMDB=off", "GOTOOLCHAIN=local", "GOWORK=off")
	if goarch != "" {
		env = append(env, "GOARCH="+goarch)
	}
	cfg := &packages.Config{
		Mode:  packages.LoadAllSyntax,
		Dir:   repo,
		Env:   env,
		Tests: tests,
	}
	pkgs, err := packages.Load(cfg, "./...")
	if err != nil {
		return nil, fmt.Errorf("packages.Load: %v", err)
	}
	var errs []string
	packages.Visit(pkgs, nil, func(p *packages.Package) {
		for _, e := range p.Errors {
			errs = append(errs, e.Error())
		}
	})
	if len(errs) > 0 {
		sort.Strings(errs)
		if len(errs) > 10 {
			errs = errs[:10]
		}
		return nil, fmt.Errorf("type/load errors: %s", strings.Join(errs, "; "))
	}
	n := 0
	for _, p := range pkgs {
		if strings.HasPrefix(p.PkgPath, modPath) && !strings.HasSuffix(p.ID, ".test") {
			n++
		}
	}
	if n < 30 {
		return nil, fmt.Errorf("only %d module packages loaded (expected >= 30)", n)
	}
	prog, ssapkgs := ssautil.AllPackages(pkgs, ssa.InstantiateGenerics)
	prog.Build()
	P := &Prog{Repo: repo, Pkgs: pkgs, SSA: prog, SSAPkg: map[string]*ssa.Package{}, PkgByID: map[string]*packages.Package{}, Tests: tests}
	for i, p := range pkgs {
		if P.Fset == nil {
			P.Fset = p.Fset
		}
		if ssapkgs[i] == nil {
			continue
		}
		// Prefer the non-test variant under the plain import path; with
		// Tests=true the "[pkg.test]" variant (which includes _test.go files of
		// the same package) replaces it so that test callers are visible.
		if old, ok := P.SSAPkg[p.PkgPath]; ok && old != nil {
			if !strings.Contains(p.ID, "[") {
				continue
			}
		}
		if strings.HasSuffix(p.PkgPath, ".test") || strings.HasSuffix(p.PkgPath, "_test") {
			continue
		}
		P.SSAPkg[p.PkgPath] = ssapkgs[i]
		P.PkgByID[p.PkgPath] = p
	}
	globalProg = P
	return P, nil
}

// ModPkgs returns the import paths of the module's packages (sorted).
func (p *Prog) ModPkgs() []string {
	var out []string
	for k := range p.SSAPkg {
		if strings.HasPrefix(k, modPath) {
			out = append(out, k)
		}
	}
	sort.Strings(out)
	return out
}

func (p *Prog) AllFuncs() map[*ssa.Function]bool {
	if p.allFns == nil {
		p.allFns = ssautil.AllFunctions(p.SSA)
	}
	return p.allFns
}

// CG returns the VTA-refined call graph (built lazily).
func (p *Prog) CG() *callgraph.Graph {
	if p.cg == nil {
		p.cg = vta.CallGraph(p.AllFuncs(), cha.CallGraph(p.SSA))
	}
	return p.cg
}

// Pos renders a position relative to the repository root.
func (p *Prog) Pos(pos token.Pos) string {
	if !pos.IsValid() {
		return ""
	}
	ps := p.Fset.Position(pos)
	f := strings.TrimPrefix(ps.Filename, p.Repo+"/")
	return fmt.Sprintf("%s:%d", f, ps.Line)
}

func (p *Prog) pkg(path string) *ssa.Package {
	if !strings.Contains(path, ".") {
		path = modPath + "/" + path
	}
	return p.SSAPkg[path]
}

// Func looks up a package-level function; pkg is relative to the module.
func (p *Prog) Func(pkg, name string) *ssa.Function {
	sp := p.pkg(pkg)
	if sp == nil {
		return nil
	}
	if f := sp.Func(name); f != nil {
		return f
	}
	return canonByRef[pkg+"."+name]
}

// Named looks up a named type.
func (p *Prog) Named(pkg, name string) *types.Named {
	sp := p.pkg(pkg)
	if sp == nil {
		return nil
	}
	m, ok := sp.Members[name].(*ssa.Type)
	if !ok {
		// a type renamed relative to the reference tree
		for tn, ref := range canonType {
			if ref == name && tn.Pkg() != nil && tn.Pkg() == sp.Pkg {
				if n, ok := tn.Type().(*types.Named); ok {
					return n
				}
			}
		}
		return nil
	}
	n, _ := m.Type().(*types.Named)
	return n
}

// Method looks up a method (pointer or value receiver) of a named type.
func (p *Prog) Method(pkg, typ, name string) *ssa.Function {
	if f := p.methodRaw(pkg, typ, name); f != nil {
		return f
	}
	for _, k := range []string{"(*" + pkg + "." + typ + ")." + name, "(" + pkg + "." + typ + ")." + name} {
		if f := canonByRef[k]; f != nil {
			return f
		}
	}
	return nil
}

func (p *Prog) methodRaw(pkg, typ, name string) *ssa.Function {
	n := p.Named(pkg, typ)
	if n == nil {
		return nil
	}
	for _, T := range []types.Type{types.NewPointer(n), n} {
		ms := p.SSA.MethodSets.MethodSet(T)
		for i := 0; i < ms.Len(); i++ {
			sel := ms.At(i)
			if sel.Obj().Name() == name && sel.Obj().Pkg() == n.Obj().Pkg() {
				// skip promoted methods
				if len(sel.Index()) != 1 {
					continue
				}
				return p.SSA.MethodValue(sel)
			}
		}
	}
	return nil
}

// Field looks up a struct field of a named type.
func (p *Prog) Field(pkg, typ, field string) *types.Var {
	if v := p.fieldRaw(pkg, typ, field); v != nil {
		if _, renamedAway := canonField[v]; !renamedAway {
			return v
		}
	}
	for v, ref := range canonField {
		if ref == field && v.Pkg() != nil && strings.HasSuffix(v.Pkg().Path(), "/"+pkg) {
			if n := p.Named(pkg, typ); n != nil {
				if st, ok := n.Underlying().(*types.Struct); ok {
					for i := 0; i < st.NumFields(); i++ {
						if st.Field(i) == v {
							return v
						}
					}
				}
			}
		}
	}
	if n := p.Named(pkg, typ); n != nil {
		for v, own := range regrouped {
			if vname(v) == field && own == n {
				return v
			}
		}
	}
	// moved into an embedded struct of the same package (promoted field): same name, reached through
	// anonymous fields only, unique
	if n := p.Named(pkg, typ); n != nil {
		var found []*types.Var
		var walk func(t types.Type, d int)
		walk = func(t types.Type, d int) {
			if d > 3 {
				return
			}
			if pt, ok := t.Underlying().(*types.Pointer); ok {
				t = pt.Elem()
			}
			st, ok := t.Underlying().(*types.Struct)
			if !ok {
				return
			}
			for i := 0; i < st.NumFields(); i++ {
				f := st.Field(i)
				if !f.Embedded() || f.Pkg() != n.Obj().Pkg() {
					continue
				}
				et := f.Type()
				if pt, ok := et.(*types.Pointer); ok {
					et = pt.Elem()
				}
				if nn, ok := et.(*types.Named); !ok || nn.Obj().Pkg() != n.Obj().Pkg() {
					continue
				}
				if est, ok := et.Underlying().(*types.Struct); ok {
					for j := 0; j < est.NumFields(); j++ {
						if est.Field(j).Name() == field && !est.Field(j).Embedded() {
							found = append(found, est.Field(j))
						}
					}
					walk(et, d+1)
				}
			}
		}
		walk(n, 0)
		if len(found) == 1 {
			promotedOwner[found[0]] = normType(types.TypeString(n, shortQ))
			return found[0]
		}
	}
	return nil
}

func (p *Prog) fieldRaw(pkg, typ, field string) *types.Var {
	n := p.Named(pkg, typ)
	if n == nil {
		return nil
	}
	st, ok := n.Underlying().(*types.Struct)
	if !ok {
		return nil
	}
	for i := 0; i < st.NumFields(); i++ {
		if st.Field(i).Name() == field {
			return st.Field(i)
		}
	}
	return nil
}

func (p *Prog) Global(pkg, name string) *ssa.Global {
	sp := p.pkg(pkg)
	if sp == nil {
		return nil
	}
	g, _ := sp.Members[name].(*ssa.Global)
	return g
}

// Anon returns the i-th (0-based) anonymous function directly nested in fn, or nil.
func Anon(fn *ssa.Function, i int) *ssa.Function {
	if fn == nil || i >= len(fn.AnonFuncs) {
		return nil
	}
	return fn.AnonFuncs[i]
}

// PkgFuncs returns all source functions (including methods and nested closures) of a module package.
func (p *Prog) PkgFuncs(pkg string) []*ssa.Function {
	sp := p.pkg(pkg)
	if sp == nil {
		return nil
	}
	var out []*ssa.Function
	for fn := range p.AllFuncs() {
		if fn.Pkg == sp && fn.Blocks != nil && fn.Synthetic == "" {
			out = append(out, fn)
		}
	}
	sort.Slice(out, func(i, j int) bool { return fnName(out[i]) < fnName(out[j]) })
	return out
}

// InTestFile reports whether fn is declared in a _test.go file.
func (p *Prog) InTestFile(fn *ssa.Function) bool {
	for f := fn; f != nil; f = f.Parent() {
		if f.Pos().IsValid() {
			return strings.HasSuffix(p.Fset.Position(f.Pos()).Filename, "_test.go")
		}
	}
	return false
}

// IsGenerated reports whether fn is in a generated *.pb.go file.
func (p *Prog) IsGenerated(fn *ssa.Function) bool {
	for f := fn; f != nil; f = f.Parent() {
		if f.Pos().IsValid() {
			return strings.HasSuffix(p.Fset.Position(f.Pos()).Filename, ".pb.go")
		}
	}
	return false
}

// fnName prints a function name relative to the module.
func fnName(fn *ssa.Function) string {
	if fn == nil {
		return "<nil>"
	}
	s := fn.String()
	s = strings.ReplaceAll(s, modPath+"/", "")
	s = normType(s)
	if len(canonFn) > 0 {
		top := fn
		for top.Parent() != nil {
			top = top.Parent()
		}
		if ref, ok := canonFn[top]; ok {
			cur := normType(strings.ReplaceAll(top.String(), modPath+"/", ""))
			if strings.HasPrefix(s, cur) {
				s = ref + s[len(cur):]
			}
		}
	}
	return s
}
